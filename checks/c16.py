"""C16: service quotas are enforced at the exact boundary.

For each limit (262144 characters of JSON text, 1048576 of a definition, 80 of a name, 25000
history events) and each place it applies, values of sizes L-2..L+2 (and some far ones) are
pushed through the REAL API / engine; what happened (accepted / refused + error) and the
measured size go to TLC, which decides with spec/Quota.tla (spec/JudgeC16.tla).  The rules of
Quota.tla themselves are model-checked with small symbolic limits (spec/MC_Quota.tla)."""
import collections
import json
import os
import random
import sys
import threading

from common import Verdict, tier as get_tier, seed as get_seed, RUN
import judge

from vsim import world as W
from vsim import scenarios as S

import asyncio


def api_post_async(w, action, params):
    """An API call whose handler waits for the engine (StartSyncExecution): post it, let the
    engine run, then collect the response."""
    I = w.i0()
    if I.api_client is None:
        w.api("ListStateMachines", {})
    coro = I.api_client.post("/", data=json.dumps(params), headers={
        "Content-Type": "application/x-amz-json-1.0", "x-amz-target": "AWSStepFunctions." + action})
    task = w.loop.create_task(coro)
    for _ in range(3):
        for _ in range(200):
            w.loop.run_until_complete(asyncio.sleep(0))
            if task.done():
                break
        if task.done():
            break
        w.run()
    if not task.done():
        task.cancel()
        try:
            w.loop.run_until_complete(asyncio.sleep(0))
        except BaseException:
            pass
        return 0, {}
    resp = task.result()
    data = w.loop.run_until_complete(resp.get_data())
    try:
        return resp.status_code, json.loads(data.decode("utf-8")) if data else {}
    except ValueError:
        return resp.status_code, {"__text__": data.decode("utf-8", "replace")[:200]}


# the statement's numbers (deliberately not read from the code under test)
L_DATA, L_DEF, L_NAME, L_HIST = 262144, 1048576, 80, 25000


# ---- values whose JSON text has an exact length ----------------------------------------------
def dumps(v):
    return json.dumps(v)


def compact(v):
    return json.dumps(v, separators=(",", ":"))


def value_of(kind, n):
    """A JSON value whose default JSON text (json.dumps) has exactly n characters.
    str: "xxx" (every serialisation agrees); obj: {"p": "xxx"}; nest: {"a": {"b": "xxx"}}; arr: ["xxx", 0]"""
    if kind == "str":
        v = "x" * (n - 2)
    elif kind == "obj":
        v = {"p": "x" * (n - 9)}
    elif kind == "nest":
        v = {"a": {"b": "x" * (n - 16)}}
    elif kind == "arr":
        v = ["x" * (n - 7), 0]
    else:
        raise ValueError(kind)
    if len(dumps(v)) != n:
        raise ValueError("cannot build a %s of %d characters" % (kind, n))
    return v


MIN_N = {"str": 2, "obj": 9, "nest": 16, "arr": 7}


def definition_of(n):
    base = {"Comment": "", "StartAt": "A", "States": {"A": {"Type": "Pass", "End": True}}}
    k = n - len(dumps(base))
    if k < 0:
        raise ValueError("definition too short")
    base["Comment"] = "c" * k
    t = dumps(base)
    assert len(t) == n
    return t


MIN_DEF = len(dumps({"Comment": "", "StartAt": "A", "States": {"A": {"Type": "Pass", "End": True}}}))


# ---- one case on the real code ------------------------------------------------------------------
def obs_quota(point, size, alt, accepted, err, status=0, terminal=False, front="engine", recipe=None, note=""):
    return {"kind": "quota", "point": point, "size": int(size), "alt": int(alt), "terminal": bool(terminal),
            "accepted": bool(accepted), "err": str(err or ""), "status": int(status), "front": front,
            "recipe": recipe or {}, "text": "%s size=%d alt=%d %s-> %s %s %s" % (
                point, size, alt, "(terminal state) " if terminal else "", "accepted" if accepted else "refused",
                err or "", note)}


def api_outcome(status, body):
    if status == 200:
        return True, ""
    if isinstance(body, dict) and "__type" in body:
        return False, body["__type"]
    if isinstance(body, dict) and "__text__" in body:
        return False, body["__text__"]
    return False, "HTTP%d" % status


class Ctx:
    """a world shared by the API cases (machines std / exp / tok created through the API)"""

    def __init__(self):
        self.w = None
        self.n = 0
        self.cache = {}

    def world(self):
        if self.w is None:
            w = W.World(tag="c16", oracle=lambda fn, p, k: {"silent": True})
            w.rec.enabled = False
            w.add_worker("f")
            one = S.chain(("A", S.P()))
            tok = S.SM("T", T={"Type": "Task", "Resource": "arn:aws:states:::rpcmessage:invoke.waitForTaskToken",
                               "Parameters": {"FunctionName": S.FN + "f", "Payload": {"token.$": "$$.Task.Token"}}, "Next": "Z"},
                       Z=S.P(End=True))
            for name, asl, typ in (("std", one, "STANDARD"), ("exp", one, "EXPRESS"), ("tok", tok, "STANDARD")):
                st, b = w.api("CreateStateMachine", {"name": name, "definition": dumps(asl), "roleArn": W.ROLE, "type": typ})
                if st != 200:
                    raise RuntimeError("cannot create the machine %s: %s %s" % (name, st, b))
            self.w = w
        return self.w

    def fresh(self, prefix):
        self.n += 1
        return "%s%d" % (prefix, self.n)

    def close(self):
        if self.w is not None:
            self.w.close()
            self.w = None


def text_of(r):
    """the JSON text a client sends for the recipe: the value's default text, its compact text,
    or the text padded with trailing blanks to the wanted length"""
    form = r.get("form", "default")
    if form == "default":
        return dumps(value_of(r["value"], r["n"]))
    if form == "compact":
        v = value_of(r["value"], r["n"] + 1) if r["value"] == "obj" else value_of(r["value"], r["n"])
        t = compact(v)
        assert len(t) == r["n"], (len(t), r["n"])
        return t
    if form == "padded":
        t = dumps(value_of(r["value"], min(r["n"], 64)))
        return t + " " * (r["n"] - len(t))
    raise ValueError(form)


def run_exec(asl, inp, oracle=None, typ="STANDARD", worker=True):
    """one execution of `asl` on the real engine; (status, error name, output length)"""
    w = W.World(tag="c16", oracle=oracle)
    try:
        if typ == "STANDARD":
            w.rec.enabled = False
        if worker:
            w.add_worker("f")
        arn = w.add_sm("m", asl, typ)
        w.start_raw(arn, inp, name="e")
        w.run()
        if typ == "STANDARD":
            r = w.outcome(W.exec_arn("m", "e")) or {}
            return r.get("status"), r.get("error"), len(r["output"]) if r.get("output") else 0
        ends = [e["detail"] for e in w.rec.events if e["k"] == "note" and e["status"] != "RUNNING"]
        d = ends[0] if ends else {}
        return d.get("status"), d.get("error"), len(d["output"]) if d.get("output") else 0
    finally:
        w.close()


def run_case(r, ctx):
    """Runs the case described by the recipe r on the real code; returns the observation."""
    point, n = r["point"], r["n"]
    front = r.get("front", "asyncio")
    # -- API: texts given by the client ----------------------------------------------------------
    if point in ("StartExecution.input", "StartSyncExecution.input"):
        w = ctx.world()
        text = text_of(r)
        if point == "StartExecution.input":
            st, b = w.api("StartExecution", {"stateMachineArn": W.sm_arn("std"), "name": ctx.fresh("e"), "input": text}, front=front)
            w.run()
        else:
            st, b = api_post_async(w, "StartSyncExecution", {"stateMachineArn": W.sm_arn("exp"), "name": ctx.fresh("s"), "input": text})
        acc, err = api_outcome(st, b)
        return obs_quota(point, len(text), len(text), acc, err, st, front=front, recipe=r)
    if point == "SendTaskSuccess.output":
        w = ctx.world()
        name = ctx.fresh("t")
        st, b = w.api("StartExecution", {"stateMachineArn": W.sm_arn("tok"), "name": name, "input": "{}"})
        w.run()
        tok = w.rpc_seen[-1][3]["token"]
        text = text_of(r)
        st, b = w.api("SendTaskSuccess", {"taskToken": tok, "output": text})
        acc, err = api_outcome(st, b)
        w.run()
        rec = w.outcome(W.exec_arn("tok", name)) or {}
        return obs_quota(point, len(text), len(text), acc, err, st, recipe=r, note="(execution then %s)" % rec.get("status"))
    if point in ("CreateStateMachine.definition", "UpdateStateMachine.definition"):
        w = ctx.world()
        text = definition_of(n) if n else ""
        if point.startswith("Create"):
            name = ctx.fresh("d")
            st, b = w.api("CreateStateMachine", {"name": name, "definition": text, "roleArn": W.ROLE}, front=front)
            if st == 200:
                w.api("DeleteStateMachine", {"stateMachineArn": W.sm_arn(name)})
        else:
            st, b = w.api("UpdateStateMachine", {"stateMachineArn": W.sm_arn("std"), "definition": text}, front=front)
        acc, err = api_outcome(st, b)
        return obs_quota(point, len(text), len(text), acc, err, st, front=front, recipe=r)
    if point.endswith(".name"):
        w = ctx.world()
        name = r.get("fill", "x") * n
        one = dumps(S.chain(("A", S.P())))
        if point == "CreateStateMachine.name":
            st, b = w.api("CreateStateMachine", {"name": name, "definition": one, "roleArn": W.ROLE}, front=front)
            if st == 200:
                w.api("DeleteStateMachine", {"stateMachineArn": W.sm_arn(name)})
        elif point == "StartExecution.name":
            st, b = w.api("StartExecution", {"stateMachineArn": W.sm_arn("std"), "name": name, "input": "{}"}, front=front)
            w.run()
        else:
            st, b = api_post_async(w, "StartSyncExecution", {"stateMachineArn": W.sm_arn("exp"), "name": name, "input": "{}"})
        acc, err = api_outcome(st, b)
        return obs_quota(point, len(name), len(name), acc, err, st, front=front, recipe=r)
    # -- inside an execution: the engine serialises the value itself ---------------------------
    typ = r.get("typ", "STANDARD")
    term = bool(r.get("terminal"))
    variant = r.get("variant", "")
    after = {"End": True} if term else {"Next": "Z"}
    tailst = {} if term else {"Z": S.P(End=True, Result=1)}
    if point == "Pass.output":
        v = value_of(r["value"], n)
        if variant == "result":
            asl, inp = S.SM("A", A=S.P(Result=v, **after), **tailst), {}
        elif variant == "through":
            asl, inp = S.SM("A", A=S.P(**after), **tailst), v
        else:                                   # the Parameters template produces it
            asl, inp = S.SM("A", A=S.P(Parameters={"p.$": "$.q"}, **after), **tailst), {"q": value_of("obj", n)["p"]}
            v = {"p": inp["q"]}
        status, err, outlen = run_exec(asl, inp, typ=typ)
        return obs_quota(point, len(dumps(v)), len(compact(v)), status == "SUCCEEDED", err, 0, term, recipe=r)
    if point == "Task.result":
        v = value_of(r["value"], n)
        asl = S.SM("A", A=S.T("f", **after), **tailst)
        status, err, outlen = run_exec(asl, {}, oracle=lambda fn, p, k: {"ok": v}, typ=typ)
        return obs_quota(point, len(dumps(v)), len(compact(v)), status == "SUCCEEDED", err, 0, False, recipe=r)
    if point == "Task.reply":
        # the worker's own text: compact, or padded with blanks -- the reply as sent vs. the value it denotes
        body = text_of(r)
        val = json.loads(body)
        asl = S.SM("A", A=S.T("f", **after), **tailst)
        status, err, outlen = run_exec(asl, {}, oracle=lambda fn, p, k: {"raw": body.encode()}, typ=typ)
        return obs_quota(point, len(body), len(dumps(val)), status == "SUCCEEDED", err, 0, False, recipe=r)
    if point == "Task.output":
        # a small result placed into a large input: only the state's output is large
        res = "y" * 50
        probe = {"i": "", "r": res}
        inp = {"i": "x" * (n - len(dumps(probe)))}
        out = {"i": inp["i"], "r": res}
        assert len(dumps(out)) == n
        asl = S.SM("A", A=S.T("f", ResultPath="$.r", **after), **tailst)
        status, err, outlen = run_exec(asl, inp, oracle=lambda fn, p, k: {"ok": res}, typ=typ)
        return obs_quota(point, len(dumps(out)), len(compact(out)), status == "SUCCEEDED", err, 0, term, recipe=r)
    if point == "Catch.output":
        # a failing state whose Catcher places the Error Output into a large (legal) input: only the state's OUTPUT is large
        cat = [{"ErrorEquals": ["States.ALL"], "ResultPath": "$.error", "Next": "Z"}]
        if variant == "parallel":
            main = S.Par([S.SM("I", I=S.T("f", End=True))], Catch=cat, Next="Z")
        elif variant == "map":
            main = dict(S.Mp(S.SM("I", I=S.T("f", End=True)), ItemsPath="$.items", Catch=cat, Next="Z"))
        else:
            main = S.T("f", Catch=cat, Next="Z")
        asl = S.SM("A", A=main, Z=S.P(Parameters={"e.$": "$.error"}, End=True))
        boom = lambda fn, p, k: {"error": "Boom", "cause": "b"}
        key = "catch-" + variant
        if key not in ctx.cache:
            # the Error Output does not depend on the input: read it off a small run
            w = W.World(tag="c16", oracle=boom)
            try:
                w.rec.enabled = False
                w.add_worker("f")
                arn = w.add_sm("m", asl, "STANDARD")
                w.start_raw(arn, {"i": "", "items": [1]}, name="e")
                w.run()
                ctx.cache[key] = json.loads((w.outcome(W.exec_arn("m", "e")) or {})["output"])["e"]
            finally:
                w.close()
        eo = ctx.cache[key]
        probe = {"i": "", "items": [1], "error": eo}
        inp = {"i": "x" * (n - len(dumps(probe))), "items": [1]}
        out = dict(inp, error=eo)
        assert len(dumps(out)) == n and len(dumps(inp)) <= L_DATA
        status, err, outlen = run_exec(asl, inp, oracle=boom, typ=typ)
        return obs_quota(point, len(dumps(out)), len(compact(out)), status == "SUCCEEDED", err, 0, False, recipe=r)
    if point in ("Map.output", "Parallel.output"):
        item = value_of(r["value"], n - 2)          # the output is [item]
        out = [item]
        assert len(dumps(out)) == n
        if point == "Map.output":
            asl, inp = S.SM("A", A=S.Mp(S.SM("I", I=S.P(End=True)), **after), **tailst), [item]
        else:
            asl, inp = S.SM("A", A=S.Par([S.SM("I", I=S.P(End=True))], **after), **tailst), item
        status, err, outlen = run_exec(asl, inp, typ=typ)
        return obs_quota(point, len(dumps(out)), len(compact(out)), status == "SUCCEEDED", err, 0, term, recipe=r)
    raise ValueError("unknown point %r" % point)


# ---- the history quota ----------------------------------------------------------------------------
def loop_machine(iters, extra=0, par=0, tail="succeed"):
    """Pass(counter + 1) -> Choice(counter < iters ? again : done), after `par` one-branch Parallel
    states and `extra` Pass states (which shift the length of the history by 5 and 2)."""
    st = {}
    chain = ["Q%d" % j for j in range(par)] + ["X%d" % j for j in range(extra)] + ["Inc"]
    for j in range(par):
        st["Q%d" % j] = S.Par([S.SM("B%d" % j, **{"B%d" % j: S.P(End=True)})], ResultPath=None, Next=chain[j + 1])
    for j in range(extra):
        st["X%d" % j] = S.P(Next=chain[par + j + 1])
    st["Inc"] = S.P(Parameters={"n.$": "States.MathAdd($.n, 1)"}, Next="Chk")
    st["Chk"] = S.Ch([{"Variable": "$.n", "NumericLessThan": iters, "Next": "Inc"}], "Done")
    st["Done"] = S.Sc() if tail == "succeed" else S.P(End=True)
    return {"StartAt": chain[0], "States": st}


def run_loop(iters, extra, par, tail):
    w = W.World(tag="c16")
    try:
        w.rec.enabled = False
        arn = w.add_sm("m", loop_machine(iters, extra, par, tail))
        w.start_raw(arn, {"n": 0}, name="e")
        w.run(max_steps=10 ** 6)
        x = W.exec_arn("m", "e")
        r = w.outcome(x) or {}
        h = w.i0().engine.execution_history.get(x) or []
        return r.get("status"), r.get("error"), [e["type"] for e in h]
    finally:
        w.close()


_SHAPES = {}


def loop_shape(extra, par, tail):
    """The natural history of the loop machine as a function of the number of iterations, measured
    on real runs with 2, 3 and 4 iterations (far below the limit) and checked to be linear:
    (events for k iterations = a + b*k, offset of the last state entry from the end, largest gap
    between two state entries)."""
    key = (extra, par, tail)
    if key not in _SHAPES:
        runs = {k: run_loop(k, extra, par, tail) for k in (2, 3, 4)}
        lens = {k: len(runs[k][2]) for k in runs}
        b = lens[3] - lens[2]
        if any(runs[k][0] != "SUCCEEDED" for k in runs) or lens[4] - lens[3] != b or b <= 0:
            raise RuntimeError("the loop machine's history is not linear in its iterations: %r" % (lens,))
        types = runs[4][2]
        entered = [j + 1 for j, t in enumerate(types) if t.endswith("StateEntered")]
        back = len(types) - entered[-1]
        gap = max(y - x for x, y in zip(entered, entered[1:]))
        t2, t3 = runs[2][2], runs[3][2]
        if t3[:len(t2) - back - 1] != t2[:len(t2) - back - 1] or t3[-back - 1:] != t2[-back - 1:]:
            raise RuntimeError("the loop machine's history does not grow by a repeated block")
        _SHAPES[key] = (lens[2] - 2 * b, b, back, gap)
    return _SHAPES[key]


def run_retry(attempts):
    """one Task whose worker always fails with E1, retried `attempts` times (IntervalSeconds 1, BackoffRate 1)"""
    w = W.World(tag="c16", oracle=lambda fn, p, k: {"error": "E1", "cause": "again"}, execution_ttl=10 ** 7)
    try:
        w.rec.enabled = False
        w.add_worker("f")
        asl = S.SM("K", K=S.T("f", Retry=[{"ErrorEquals": ["E1"], "IntervalSeconds": 1, "MaxAttempts": attempts, "BackoffRate": 1.0}], End=True))
        arn = w.add_sm("m", asl)
        w.start_raw(arn, {"n": 0}, name="e")
        w.run(max_steps=10 ** 6)
        x = W.exec_arn("m", "e")
        r = w.outcome(x) or {}
        h = w.i0().engine.execution_history.get(x) or []
        return r.get("status"), r.get("error"), [e["type"] for e in h]
    finally:
        w.close()


def retry_hist_case(r):
    """the history also grows without any state being entered: a retried Task logs its attempts"""
    if "retry" not in _SHAPES:
        runs = {k: run_retry(k) for k in (2, 3, 4)}
        lens = {k: len(runs[k][2]) for k in runs}
        b = lens[3] - lens[2]
        if lens[4] - lens[3] != b or b <= 0 or any(runs[k][1] != "E1" for k in runs):
            raise RuntimeError("the retried Task's history is not linear in its attempts: %r" % (lens,))
        # events logged after the last attempt began: its own b events and the closing ones
        _SHAPES["retry"] = (lens[2] - 2 * b, b)
    a, b = _SHAPES["retry"]
    attempts = r["attempts"]
    natural = a + b * attempts
    status, err, types = run_retry(attempts)
    failed_for_history = status == "FAILED" and err != "E1"
    return {"kind": "hist", "natural": natural, "lastEntry": natural - (a + b), "gap": b, "stored": len(types),
            "failed": failed_for_history, "err": str(err or ""), "recipe": r,
            "text": "history: one Task retried %d times (natural length %d, the last attempt begins at %d) -> %s %s with %d events stored" % (
                attempts, natural, natural - (a + b), status, err or "", len(types))}


def hist_case(r):
    """target natural length r["natural"]: choose the machine shape whose history can have that length"""
    if "attempts" in r:
        return retry_hist_case(r)
    want = r["natural"]
    for par in (0, 1):
        for extra in (0, 1):
            a, b, back, gap = loop_shape(extra, par, r.get("tail", "succeed"))
            if want > a + 2 * b and (want - a) % b == 0:
                iters = (want - a) // b
                status, err, types = run_loop(iters, extra, par, r.get("tail", "succeed"))
                failed = status != "SUCCEEDED"
                o = {"kind": "hist", "natural": want, "lastEntry": want - back, "gap": gap, "stored": len(types),
                     "failed": failed, "err": str(err or ""), "recipe": r,
                     "text": "history: a loop of %d iterations (natural length %d, last state entry at %d) -> %s %s with %d events stored" % (
                         iters, want, want - back, status, err or "", len(types))}
                if not failed and len(types) != want:
                    raise RuntimeError("harness: the history of a finished run has %d events, %d were predicted" % (len(types), want))
                return o
    raise RuntimeError("no loop machine has a history of %d events" % want)


# ---- the case space -------------------------------------------------------------------------------------
def window(L, lo=0):
    return [n for n in range(L - 2, L + 3) if n >= lo]


def recipes(thorough, rng):
    R = []
    far_data = [64, 1000, L_DATA // 2, L_DATA + 1000, 2 * L_DATA] + ([L_DATA - 1000, 3 * L_DATA, rng.randrange(100, L_DATA - 2),
                                                                      rng.randrange(L_DATA + 3, 2 * L_DATA)] if thorough else [])
    sizes = window(L_DATA) + far_data
    kinds = ["str", "obj"] + (["nest", "arr"] if thorough else [])
    fronts = ["asyncio"] + (["flask"] if thorough else [])
    for point in ("StartExecution.input", "StartSyncExecution.input", "SendTaskSuccess.output"):
        for kind in kinds:
            for n in sizes:
                for front in (fronts if point == "StartExecution.input" else ["asyncio"]):
                    R.append({"point": point, "value": kind, "n": n, "front": front})
        for form in ("compact", "padded"):
            for n in window(L_DATA) + ([L_DATA + 1000] if thorough else []):
                R.append({"point": point, "value": "obj", "n": n, "form": form})
    def_sizes = [0, MIN_DEF, 1000, L_DEF // 2] + window(L_DEF) + [L_DEF + 1000, 2 * L_DEF] + (
        [rng.randrange(MIN_DEF, L_DEF - 2), rng.randrange(L_DEF + 3, 2 * L_DEF), 3 * L_DEF] if thorough else [])
    for point in ("CreateStateMachine.definition", "UpdateStateMachine.definition"):
        for n in def_sizes:
            if n == 0 and point.startswith("Update"):
                continue          # an empty definition on Update means "leave the definition": not a quota case
            for front in fronts:
                R.append({"point": point, "n": n, "front": front})
    for point in ("CreateStateMachine.name", "StartExecution.name", "StartSyncExecution.name"):
        for n in [0, 1, 2] + window(L_NAME) + [L_NAME + 20, 3 * L_NAME] + ([40, 256, 1000] if thorough else []):
            for fill in (("x", "9", "-") if thorough else ("x",)):
                for front in (fronts if not point.startswith("StartSync") else ["asyncio"]):
                    R.append({"point": point, "n": n, "fill": fill, "front": front})
    # (EXPRESS at the quick tier: the outputs of the states that END the execution only -- the one enforcement point that is
    # reached through end_execution rather than change_state; the thorough tier runs every point for both types)
    types = ["STANDARD", "EXPRESS"]
    for typ in types:
        for term in (False, True):
            if typ == "EXPRESS" and not thorough and not term:
                continue
            for kind in kinds if (thorough or typ == "STANDARD") else kinds[:1]:
                for n in sizes:
                    if n < MIN_N[kind] + 4:
                        continue
                    for variant in ("result", "through") + (("params",) if kind == "obj" else ()):
                        if variant == "params" and n < 16:
                            continue
                        R.append({"point": "Pass.output", "variant": variant, "value": kind, "n": n, "terminal": term, "typ": typ})
                    R.append({"point": "Map.output", "value": kind, "n": n, "terminal": term, "typ": typ})
                    R.append({"point": "Parallel.output", "value": kind, "n": n, "terminal": term, "typ": typ})
                    R.append({"point": "Task.result", "value": kind, "n": n, "terminal": term, "typ": typ})
            for n in sizes:
                if n >= 100:
                    R.append({"point": "Task.output", "n": n, "terminal": term, "typ": typ})
            if not term:
                for variant in ("task", "parallel", "map"):
                    for n in window(L_DATA) + [L_DATA // 2, L_DATA + 100]:
                        R.append({"point": "Catch.output", "variant": variant, "n": n, "typ": typ})
            for form in ("compact", "padded"):
                for n in window(L_DATA) + [L_DATA + 1000]:
                    R.append({"point": "Task.reply", "value": "obj", "n": n, "form": form, "terminal": term, "typ": typ})
    return R


def hist_recipes(thorough):
    # L-2..L+2, and L+3: the first length at which a state is entered beyond the limit (decided: refuse)
    ns = list(range(L_HIST - 2, L_HIST + 4)) + [100, L_HIST + 1000]
    R = [{"point": "history", "natural": n, "tail": "succeed"} for n in ns]
    # a history that grows by retries only (no state is entered any more)
    R += [{"point": "history", "natural": 0, "attempts": k} for k in ((100, L_HIST) if not thorough else (100, L_HIST // 2 - 10, L_HIST, 2 * L_HIST))]
    if thorough:
        R += [{"point": "history", "natural": n, "tail": "succeed"} for n in (L_HIST + 4, 2 * L_HIST)]
        R += [{"point": "history", "natural": n, "tail": "pass"} for n in list(range(L_HIST - 2, L_HIST + 7)) + [L_HIST + 1000]]
        R += [{"point": "history", "natural": n, "tail": "succeed"} for n in (L_HIST - 1000, L_HIST + 5, L_HIST + 6, L_HIST + 999, 4 * L_HIST)]
    return R


def run_chunk(items):
    """worker process: the cases [(index, recipe)] on one shared world; [(index, observation | None, error text)]"""
    ctx = Ctx()
    out = []
    try:
        for j, r in items:
            try:
                out.append((j, run_case(r, ctx), ""))
            except (RuntimeError, AssertionError, ValueError) as ex:
                out.append((j, None, "case %s: %s" % (json.dumps(r), ex)))
            except Exception as ex:
                import traceback
                out.append((j, None, "case %s: %s\n%s" % (json.dumps(r), ex, traceback.format_exc()[-1200:])))
    finally:
        ctx.close()
    return out


def for_tlc(o):
    return {k: x for k, x in o.items() if k not in ("text", "recipe")}


def run(tier_name=None, replay=None):
    t = get_tier(tier_name)
    thorough = t == "thorough"
    v = Verdict("C16", t)
    rng = random.Random(get_seed() * 104729 + 16)
    workdir = os.path.join(RUN, "C16-" + t)

    if replay:
        rp = json.load(open(replay))
        r = rp["recipe"]
        ctx = Ctx()
        try:
            o = hist_case(r) if r["point"] == "history" else run_case(r, ctx)
        finally:
            ctx.close()
        o["id"] = 1
        print("  ", o["text"])
        fails, stats = judge.run_judge("JudgeC16", [for_tlc(o)], os.path.join(RUN, "C16-replay"))
        for f in fails:
            print("  ", f)
            (v.known_finding(f["kf"]) if f["kf"] else v.violation(rp, f["clause"] + ": " + o["text"]))
        v.coverage = {"states": stats["states"] or 1, "transitions": max(stats["transitions"], 1),
                      "traces_validated_against_impl": 1, "samples": [o["text"]]}
        return v.finish()

    # the long history runs go to worker processes (each run is an independent world), started
    # before any thread exists
    from concurrent.futures import ProcessPoolExecutor
    HR = hist_recipes(thorough)
    pool = ProcessPoolExecutor(max_workers=8)
    hist_futures = [(r, pool.submit(hist_case, r)) for r in sorted(HR, key=lambda r: -min(r["natural"], L_HIST))]

    laws = {}

    def laws_thread():
        try:
            laws["r"] = judge.run_laws("Quota", workers=2)
        except Exception as ex:     # noqa
            laws["err"] = str(ex)
        if thorough:
            # extra evidence, never a verdict: the boundary laws proved for ALL limits by TLAPS (spec/proofs/QuotaProofs.tla)
            try:
                okp, pst, ptail = judge.run_proofs("QuotaProofs", timeout=600)
                laws["proofs"] = dict(pst, all_proved=okp)
            except Exception as ex:     # noqa
                laws["proofs"] = {"all_proved": False, "error": str(ex)[:200]}
    th = threading.Thread(target=laws_thread)
    th.start()

    obs = []
    harness = []
    R = recipes(thorough, rng)
    NW = 4
    chunk_futures = [pool.submit(run_chunk, [(j, r) for j, r in enumerate(R) if j % NW == k]) for k in range(NW)]
    got = {}
    for fut in chunk_futures:
        try:
            for j, o, err in fut.result(timeout=2400):
                if o is None:
                    harness.append(err)
                else:
                    got[j] = o
        except Exception as ex:
            harness.append("case harness: %s" % ex)
    for j in sorted(got):
        o = got[j]
        o["id"] = len(obs) + 1
        obs.append(o)
    done = {}
    unreachable = []
    for r, fut in hist_futures:
        try:
            done[json.dumps(r, sort_keys=True)] = fut.result(timeout=1200)
        except Exception as ex:
            if "no loop machine has a history of" in str(ex):
                # the lengths the calibration machines can reach depend on what the code logs: an unreachable target is
                # skipped (and counted), as long as some targets on both sides of the limit are reached
                unreachable.append(r["natural"])
            else:
                harness.append("history case %s: %s" % (json.dumps(r), ex))
    if unreachable and not (any(o["natural"] > L_HIST and o.get("failed") for o in done.values()) and any(o["natural"] <= L_HIST for o in done.values())):
        harness.append("history quota: no loop machine reaches the lengths %s and the limit is not bracketed by the others" % unreachable)
    pool.shutdown()
    for r in HR:
        o = done.get(json.dumps(r, sort_keys=True))
        if o is not None:
            o["id"] = len(obs) + 1
            obs.append(o)

    try:
        fails, stats = judge.run_judge("JudgeC16", [for_tlc(o) for o in obs], workdir, parts=4 if thorough else 2)
    except Exception as ex:
        v.machinery_failure(str(ex)[:1500])
        th.join()
        return v.finish()
    th.join()
    if "r" not in laws:
        v.machinery_failure("MC_Quota did not run: " + laws.get("err", "?")[:600])
        lawstats = {"law_states": 0}
    else:
        ok, lawstats, tail = laws["r"]
        if not ok:
            v.machinery_failure("a law of Quota.tla fails in TLC: " + tail[-800:])
    stats["states"] += lawstats["law_states"]
    stats["transitions"] += lawstats["law_states"]

    by_id = {o["id"]: o for o in obs}
    cl = collections.Counter()
    for f in fails:
        cl[(f["clause"], f["kf"])] += 1
        if f["kf"]:
            v.known_finding(f["kf"])
        else:
            o = by_id[f["id"]]
            v.violation({"property": "C16", "recipe": o["recipe"], "obs": for_tlc(o), "text": o["text"]},
                        "%s: %s" % (f["clause"], o["text"][:260]))
    if not v.violations:
        for h in harness[:5]:
            v.machinery_failure(h[:1200])
    per_point = collections.Counter((o.get("point", "history")) for o in obs)
    near = [o for o in obs if o["kind"] == "quota" and any(abs(o["size"] - L) <= 2 for L in (L_DATA, L_DEF, L_NAME))]
    outcomes = collections.Counter("%s|%s" % (o.get("point", "history"), "accepted" if (o.get("accepted") if o["kind"] == "quota" else not o["failed"]) else "refused:" + o["err"])
                                   for o in obs)
    distinct = len({json.dumps(for_tlc(dict(o, id=0)), sort_keys=True) + json.dumps(o["recipe"], sort_keys=True) for o in obs})
    hist_obs = [o for o in obs if o["kind"] == "hist"]
    v.coverage = {
        "states": stats["states"], "transitions": stats["transitions"],
        "traces_validated_against_impl": len(obs), "evaluations": len(obs), "distinct_nontrivial": distinct,
        "rule": "one case = (enforcement point, variant of reaching it, value shape or text form, front end, workflow type, size); "
                "sizes L-2..L+2 exhaustively at every point plus far sizes; every case is a real API call or a real execution",
        "exhaustive": True, "cases_per_point": dict(per_point), "cases_within_2_of_a_limit": len(near),
        "outcomes": dict(outcomes), "failed_clauses": {"%s|%s" % k: c for k, c in cl.items()},
        "history_runs": [{"natural": o["natural"], "lastEntry": o["lastEntry"], "stored": o["stored"], "failed": o["failed"], "err": o["err"]} for o in hist_obs],
        "samples": [o["text"] for o in obs[:2] + near[10:13] + hist_obs[:2]],
        "tlc_cpu_s": stats["tlc_cpu_s"],
        "laws_model_checked": "MC_Quota (L_DATA=4, L_DEF=6, L_NAME=3, L_HIST=5): points agree, size <= L, boundary, monotone, empty, "
                              "two readings, documented errors, shift to the real limits, history over %d (point, size, size) triples" % lawstats["law_states"]}
    if unreachable:
        v.coverage["history_targets_not_reachable_by_the_calibration_machines"] = unreachable
    if laws.get("proofs"):
        v.coverage["tlaps_proofs_of_the_boundary_laws_for_all_limits"] = laws["proofs"]
    v.assumptions = ["the size of a value the engine serialises itself is the length of its json.dumps text; where the most compact JSON text of the same value "
                     "would be decided differently, either outcome is accepted (bare strings, whose text is unique, carry the exact boundary)",
                     "history: between 'the whole history fits' and 'a state is entered beyond the limit' (only closing events lie beyond it) either outcome is accepted; "
                     "no error name is required of a history failure",
                     "UpdateStateMachine with an empty definition means 'leave the definition' and is not a quota case"]
    return v.finish()


if __name__ == "__main__":
    sys.exit(run(*(sys.argv[1:2])))
