"""C20: stores act as dictionaries, persist definitions, and caches are never stale.

Binding (ii) "replay, spec -> code" of DESIGN.md: TLC explores spec/Store.tla exhaustively for
each store kind (spec/MC_Store.tla) and dumps the labelled state graph; an edge cover of every
graph is replayed operation by operation into the REAL store classes (JSONStore on a file,
SimpleStore, RedisDictStore / RedisListStore on the simulated Redis of lib/vsim/fakeredis.py,
invalidation delivery placed where the path says); every real result is judged by TLC against
the model (spec/JudgeC20.tla).  Plus: unreadable / non-JSON / truncated store files, and the TTL
of execution records written through a real engine.
"""
import collections
import heapq
import json
import os
import random
import re
import shutil
import subprocess
import sys
import threading
import time
from concurrent.futures import ThreadPoolExecutor

from common import Verdict, tier as get_tier, seed as get_seed, RUN
import judge

from vsim import tagged, tlc
from vsim import world as W
import vsim.fakeredis as fr

fr.install()
import asl_workflow_engine.store as store_mod      # noqa: E402  (the code under test)

KEYS = ["k1", "k2"]
PREFIX = "c20"
URL = "redis://localhost:6379"
TTL = 60

def C(name, kind, shape, nc=1, cap=1, w2=0, lite=0, ml=2, mi=1, ttl1=0, nkeys=2, budget=0):
    """One configuration of MC_Store: store kind, value shape, clients, cache capacity, client 2 only
    writes, reduced operation set, longest list, bound of the in-flight queues, SetTtl on k1 only,
    number of target edges of the cover (0 = every edge)."""
    return {"name": name, "kind": kind, "shape": shape, "nclients": nc, "cap": cap, "writer2": w2, "lite": lite,
            "maxlen": ml, "maxinfl": mi, "ttl1": ttl1, "nkeys": nkeys, "budget": budget}


CONFIGS = {
    "quick": [
        C("file", "file", "dict"),
        C("mem-dict", "mem", "dict"),
        C("mem-list", "mem", "list"),
        C("rdict-1c", "redis", "dict", ttl1=1, budget=20000),
        C("rlist-1c", "redis", "list", ttl1=1, budget=20000),
        C("rdict-2c", "redis", "dict", nc=2, w2=1, lite=1, budget=10000),
        C("rlist-2c", "redis", "list", nc=2, w2=1, lite=1, budget=10000),
        C("rdict-2c-both", "redis", "dict", nc=2, nkeys=1, budget=10000),
    ],
    "thorough": [
        C("file", "file", "dict"),
        C("mem-dict", "mem", "dict"),
        C("mem-list", "mem", "list", ml=3),
        C("rdict-1c", "redis", "dict", mi=2),
        C("rlist-1c", "redis", "list", mi=2),
        C("rdict-1c-cap2", "redis", "dict", cap=2),
        C("rdict-2c", "redis", "dict", nc=2, w2=1),
        C("rlist-2c", "redis", "list", nc=2, w2=1),
        C("rdict-2c-both", "redis", "dict", nc=2, nkeys=1, mi=2),
        C("rlist-2c-both", "redis", "list", nc=2, nkeys=1, mi=2),
    ],
}
PATH_CAP = 60
NEAR_BUDGET = 200      # nodes expanded when looking for the nearest uncovered edge before starting a new path
VARIANT_PATHS = 25      # per one-client Redis configuration: paths replayed again on Redis 5 and with cache_size 0
THREADED_PATHS = 10     # per configuration: paths replayed with the real listener thread of store.py


def P_of(cfg):
    return {"kind": cfg["kind"], "shape": cfg["shape"], "nclients": cfg["nclients"], "cap": cfg["cap"],
            "maxlen": cfg["maxlen"], "maxinfl": cfg["maxinfl"], "ttl": TTL, "writer2": bool(cfg["writer2"]),
            "lite": bool(cfg["lite"]), "ttl1": bool(cfg["ttl1"]), "nkeys": cfg["nkeys"]}


# ---------------------------------------------------------------------------------------------
# 1. the model: TLC explores one kind per run and dumps the labelled graph
def run_model(configs, workdir, workers):
    """One TLC run explores every configuration (disjoint components of one graph, told apart by cf)."""
    cfile = os.path.join(workdir, "configs-%d.json" % os.getpid())
    with open(cfile, "w") as f:
        json.dump({"configs": [P_of(c) for c in configs]}, f)
    dump = os.path.join(workdir, "graph-%d" % os.getpid())
    try:
        r = tlc.run_tlc("MC_Store.tla", "MC_Store.cfg", env={"C20_CONFIGS": cfile}, workers=workers, timeout=2400,
                        extra=["-dump", "dot,actionlabels", dump], heap="6g")
    finally:
        os.remove(cfile)
    ok = "Model checking completed. No error has been found." in r["out"]
    return {"ok": ok, "states": r["distinct"], "generated": r["states"], "wall": round(r["wall"], 1),
            "dot": dump + ".dot", "tail": r["out"][-2500:]}


EDGE = re.compile(r'^(-?\d+) -> (-?\d+) \[label="Do\(\[op \|-> \\"(\w+)\\", c \|-> (\d+), k \|-> \\"(\w*)\\", '
                  r'f \|-> \\"(\w*)\\", v \|-> (\d+)\]\)"')
NODE0 = re.compile(r'^(-?\d+) \[label=.*cf = (\d+).*style = filled\]$')


def parse_dot(path):
    """-> (inits: cf -> node, adjacency: list of lists of (label id, dst), labels: list of op tuples)"""
    ids, adj, labels, lab_id = {}, [], [], {}
    inits = {}

    def nid(s):
        n = ids.get(s)
        if n is None:
            n = ids[s] = len(adj)
            adj.append([])
        return n
    with open(path) as f:
        for line in f:
            m = EDGE.match(line)
            if m:
                lab = (m.group(3), int(m.group(4)), m.group(5), m.group(6), int(m.group(7)))
                li = lab_id.get(lab)
                if li is None:
                    li = lab_id[lab] = len(labels)
                    labels.append(lab)
                adj[nid(m.group(1))].append((li, nid(m.group(2))))
            elif line.endswith("style = filled]\n"):
                m = NODE0.match(line)
                if m:
                    inits[int(m.group(2))] = nid(m.group(1))
            elif " -> " in line[:48] and "[label=" in line:
                raise RuntimeError("unparsed edge line of the dump: " + line[:200])
    if not inits:
        raise RuntimeError("no initial state in " + path)
    # TLC's node ids (fingerprints) and dump order change from run to run: order every adjacency list by
    # its labels (an operation has one successor), so that everything downstream is canonical
    for a in adj:
        a.sort(key=lambda e: labels[e[0]])
    return inits, adj, labels


def edge_cover(init, adj, budget, rng, cap=PATH_CAP):
    """Paths (lists of (node, edge index)) from the initial state covering the target edges:
    walk along uncovered edges; when stuck, the shortest way to the nearest node that still has one
    (bounded search); when the path is full or nothing is near, start again from the initial state
    along the BFS tree to the shallowest node with an uncovered edge.  With a budget, the targets
    are a seeded sample of the edges."""
    n = len(adj)
    dist = [-1] * n
    par = [None] * n
    dist[init] = 0
    dq = collections.deque([init])
    reach = []                                          # in BFS order: the canonical numbering
    while dq:
        u = dq.popleft()
        reach.append(u)
        for ei, (_, v) in enumerate(adj[u]):
            if dist[v] < 0:
                dist[v] = dist[u] + 1
                par[v] = (u, ei)
                dq.append(v)
    rank = {u: r for r, u in enumerate(reach)}
    nedges = sum(len(adj[u]) for u in reach)
    todo = [set() for _ in adj]                         # uncovered target edges per node
    for u in reach:
        todo[u] = set(range(len(adj[u])))
    total_targets = nedges
    if budget and budget < nedges:
        alle = [(u, ei) for u in reach for ei in range(len(adj[u]))]
        keep = set(rng.sample(range(len(alle)), budget))
        todo = [set() for _ in adj]
        for j in keep:
            u, ei = alle[j]
            todo[u].add(ei)
        total_targets = budget
    covered = [set() for _ in adj]                      # every edge walked
    heap = [(dist[u], rank[u], u) for u in reach if todo[u]]
    heapq.heapify(heap)
    paths = []

    def walk(path, u, ei):
        path.append((u, ei))
        covered[u].add(ei)
        todo[u].discard(ei)
        return adj[u][ei][1]

    def nearest(u, limit):
        """shortest edge sequence from u to a node with an uncovered target, within `limit` steps"""
        seen = {u: None}
        q = collections.deque([(u, 0)])
        visited = 0
        while q:
            x, d = q.popleft()
            if todo[x]:
                seq = []
                while seen[x] is not None:
                    px, ei = seen[x]
                    seq.append((px, ei))
                    x = px
                return seq[::-1]
            if d >= limit:
                continue
            visited += 1
            if visited > NEAR_BUDGET:
                return None
            for ei, (_, y) in enumerate(adj[x]):
                if y not in seen:
                    seen[y] = (x, ei)
                    q.append((y, d + 1))
        return None

    while heap:
        d, _, u0 = heapq.heappop(heap)
        if not todo[u0]:
            continue
        pre = []
        x = u0
        while par[x] is not None:
            px, ei = par[x]
            pre.append((px, ei))
            x = px
        path = []
        u = init
        for (px, ei) in reversed(pre):
            u = walk(path, px, ei)
        while len(path) < cap:
            if todo[u]:
                ei = min(todo[u])
                u = walk(path, u, ei)
                continue
            seq = nearest(u, cap - len(path) - 1)
            if not seq:
                break
            for (px, ei) in seq:
                u = walk(path, px, ei)
        if todo[u0]:
            heapq.heappush(heap, (d, rank[u0], u0))
        paths.append(path)
    ncov = sum(len(c) for c in covered)
    return paths, ncov, total_targets, len(reach), nedges


# ---------------------------------------------------------------------------------------------
# 2. the real stores
def set_value(shape, i):
    if shape == "dict":
        return [{"f": 1}, {"f": 2}, {}][i - 1]
    return [[1], [2], []][i - 1]


def plain(v):
    """what an application sees when it looks at the returned object"""
    if v is None or isinstance(v, (bool, int, float, str)):
        return v
    if isinstance(v, collections.abc.Mapping):
        return {k: plain(v[k]) for k in v}
    if isinstance(v, collections.abc.Sequence):
        return [plain(x) for x in v]
    return v


NONE_OUT = {"kind": "none", "val": tagged.enc(None), "cls": ""}


def outcome(kind, fn):
    try:
        v = fn()
        if kind == "none":
            return NONE_OUT
        return {"kind": kind, "val": tagged.enc(plain(v)), "cls": ""}
    except Exception as ex:         # the class is the observation
        return {"kind": "exc", "val": tagged.enc(None), "cls": type(ex).__name__}


class _InertThread:
    """Stands in for threading.Thread inside store.py on most paths: the listener thread never does
    anything in the simulation (fakeredis delivers invalidations only from the harness), and starting
    and joining a real one costs milliseconds per path on a busy machine.  The first THREADED_PATHS
    paths of every configuration (and every --replay) run with the real thread."""

    def __init__(self, *a, **kw):
        pass

    def start(self):
        pass

    def join(self, timeout=None):
        pass


class _NoThreads:
    Thread = _InertThread

    def __getattr__(self, k):
        return getattr(threading, k)


class Real:
    """The real store objects of one configuration, driven operation by operation."""

    def __init__(self, cfg, workdir, version="6.2.0"):
        self.version = version
        self.cfg = cfg
        self.P = P_of(cfg)
        self.kind, self.shape, self.nc, self.cap = self.P["kind"], self.P["shape"], self.P["nclients"], self.P["cap"]
        self.file = os.path.join(workdir, "store-%s-%d.json" % (cfg["name"], os.getpid()))
        self.stores = []
        self.clients = []

    def open_store(self, c=None):
        if self.kind == "file":
            return store_mod.JSONStore(self.file), None
        if self.kind == "mem":
            return store_mod.SimpleStore(), None
        fr.forget_connection()           # every client is its own engine process: its own connection
        cls = store_mod.RedisDictStore if self.shape == "dict" else store_mod.RedisListStore
        st = cls(URL, PREFIX, cache_size=self.cap, daemon=True)
        return st, fr.SERVER.clients[-1]

    def start(self):
        if self.kind == "file" and os.path.exists(self.file):
            os.remove(self.file)
        if self.kind == "redis":
            srv = fr.reset_server(self.version)
            # the keyspace is shared with other stores (as the engine's three stores share it): keys of
            # other prefixes before, between and after ours, so that every scan takes several pages
            for nk in ("a:1", "a:2", "a:3", "c2:k1", "c20", "c20x:k1", "xc20:k1", "z:1"):
                srv.data[nk] = ("hash", {'"f"': b"1"})
        self.stores, self.clients = [], []
        for c in range(self.nc):
            st, cl = self.open_store(c)
            self.stores.append(st)
            self.clients.append(cl)

    def finish(self):
        for st in self.stores:
            stop = getattr(st, "stop", None)
            if stop is not None:
                try:
                    stop()
                except Exception:
                    pass
        self.stores, self.clients = [], []
        if self.kind == "file" and os.path.exists(self.file):
            os.remove(self.file)

    def rid(self, ci):
        cl = self.clients[ci]
        return fr.SERVER.redirect_of(cl) if cl is not None else 0

    def snapshot(self):
        if self.kind == "file":
            try:
                with open(self.file) as f:
                    return json.load(f)
            except FileNotFoundError:
                return {}
        if self.kind == "redis":
            pre = PREFIX + ":"
            return {k[len(pre):]: v for k, v in fr.SERVER.keyspace().items() if k.startswith(pre)}
        return {}

    def do(self, lab):
        op, c, k, f, v = lab
        ci = c - 1
        st = self.stores[ci]
        snap = None
        if op == "Set":
            val = set_value(self.shape, v)
            out = outcome("none", lambda: st.__setitem__(k, val))
        elif op == "NestedSet":
            out = outcome("none", lambda: st[k].__setitem__(f, v))
        elif op == "Append":
            out = outcome("none", lambda: st[k].append(v))
        elif op == "WriteBack":
            out = outcome("none", lambda: st.__setitem__(k, st[k]))
        elif op == "Get":
            out = outcome("value", lambda: st[k])
        elif op == "CachedGet":
            out = outcome("value", lambda: st.get_cached_view(k))
        elif op == "Del":
            out = outcome("none", lambda: st.__delitem__(k))
        elif op == "Contains":
            out = outcome("bool", lambda: k in st)
        elif op == "Iter":
            out = outcome("keys", lambda: list(iter(st)))
        elif op == "Len":
            out = outcome("len", lambda: len(st))
        elif op == "SetTtl":
            out = outcome("none", lambda: st.set_ttl(k, TTL))
        elif op == "DeliverInvalidation":
            r = self.rid(ci)
            out = outcome("none", lambda: fr.SERVER.deliver_invalidation(r) if r else None)
        elif op == "Reopen":
            def reopen():
                stop = getattr(st, "stop", None)
                if stop is not None:
                    stop()
                self.stores[ci], self.clients[ci] = None, None
                self.stores[ci], self.clients[ci] = self.open_store(ci)
            out = outcome("none", reopen)
            snap = self.snapshot()
        else:
            raise ValueError(op)
        redis = self.kind == "redis"
        ttl = [(fr.SERVER.ttl(PREFIX + ":" + kk) or 0) for kk in KEYS] if redis else [0, 0]
        csize, pend = [], []
        pre = PREFIX + ":"
        for j, s in enumerate(self.stores):
            cache = getattr(s, "cache", None) if redis else None
            try:
                csize.append(len(cache) if cache is not None else (0 if hasattr(s, "cache") or not redis else -1))
            except TypeError:
                csize.append(-1)
            r = self.rid(j) if redis else 0
            pend.append([(kk[len(pre):] if kk.startswith(pre) else kk)
                         for m in fr.SERVER.pending_invalidations(r) for kk in (m if isinstance(m, list) else [m])] if r else [])
        return {"op": op, "c": c, "k": k, "f": f, "v": v, "out": out, "ttl": ttl, "csize": csize, "pend": pend,
                "snap": {"set": snap is not None, "v": tagged.enc(snap if snap is not None else {})}}

    def replay(self, labs, threaded=True):
        store_mod.threading = threading if threaded else _NoThreads()
        self.start()
        try:
            return [self.do(lab) for lab in labs]
        finally:
            self.finish()
            store_mod.threading = threading


# ---------------------------------------------------------------------------------------------
# 3. cases outside the graph
def badfile_cases(workdir):
    """A JSONStore opened over a file that cannot be read as a store: (variant, class, content)."""
    out = []
    path = os.path.join(workdir, "bad-%d.json" % os.getpid())
    adir = os.path.join(workdir, "bad-dir-%d.json" % os.getpid())
    os.makedirs(adir, exist_ok=True)
    P = P_of(CONFIGS["quick"][0])
    variants = [("missing", "unreadable", None), ("directory", "unreadable", "DIR"),
                ("empty", "non-json", b""), ("not-json", "non-json", b"this is not JSON"),
                ("binary", "non-json", b"\xff\xfe\x00\x01{"), ("trailing-garbage", "non-json", b'{"k1": {"f": 1}} x'),
                ("truncated", "truncated", b'{"k1": {"f": 1}, "k2": {"f"'), ("truncated-string", "truncated", b'{"k1": "abc'),
                ("truncated-1-byte", "truncated", b"{"),
                ("json-array", "json-nonobject", b"[]"), ("json-null", "json-nonobject", b"null"),
                ("json-number", "json-nonobject", b"5"), ("json-string", "json-nonobject", b'"x"')]
    for name, cls, content in variants:
        p = path
        if os.path.exists(path):
            os.remove(path)
        if content == "DIR":
            p = adir
        elif content is not None:
            with open(path, "wb") as f:
                f.write(content)
        try:
            st = store_mod.JSONStore(p)
            o = {"kind": "opened", "cls": "", "n": -1, "usable": False}
            try:
                o["n"] = len(list(iter(st)))
            except Exception:
                pass
            if content != "DIR":            # a store over a directory can never be written: not asked for
                try:
                    st["k1"] = {"f": 1}
                    o["usable"] = plain(st["k1"]) == {"f": 1} and "k1" in st
                except Exception as ex:
                    o["cls"] = type(ex).__name__
            else:
                o["usable"] = True
        except Exception as ex:
            o = {"kind": "exc", "cls": type(ex).__name__, "n": -1, "usable": False}
        out.append({"type": "badfile", "P": P, "variant": name, "cls": cls, "out": o})
    if os.path.exists(path):
        os.remove(path)
    shutil.rmtree(adir, ignore_errors=True)
    return out


def engine_ttl_case(ttl):
    """Execution records written through a real engine on the simulated Redis get the configured ttl."""
    w = W.World(1, store="redis", execution_ttl=ttl, tag="c20")
    try:
        asl = {"StartAt": "A", "States": {"A": {"Type": "Pass", "Result": {"x": 1}, "Next": "B"}, "B": {"Type": "Pass", "End": True}}}
        arn = w.add_sm("c20m", asl)
        w.start_raw(arn, {"in": 1}, name="e1")
        w.start_raw(arn, {"in": 2}, name="e2")
        w.run()
        ks = fr.SERVER.keyspace()
        rec = sorted(k for k in ks if k.startswith("executions:") or k.startswith("execution_history:"))
        got = [(fr.SERVER.ttl(k) or 0) for k in rec]
        sm_ttl = [fr.SERVER.ttl(k) for k in ks if k.startswith("asl_store:")]
        return {"type": "engine-ttl", "want": ttl, "got": got, "n": len(rec), "keys": rec,
                "definitions_without_ttl": all(t is None for t in sm_ttl) and len(sm_ttl) == 1}
    finally:
        for s in ("asl_store", "executions", "execution_history"):
            try:
                getattr(w.i0().engine, s).stop()
            except Exception:
                pass
        w.close()


# ---------------------------------------------------------------------------------------------
def lab_text(lab):
    op, c, k, f, v = lab
    args = [str(c)] + ([k] if k else []) + ([f] if f else []) + ([str(v)] if op in ("Set", "NestedSet", "Append") else [])
    return "%s(%s)" % (op, ",".join(args))


GRAPH = {}          # adjacency and labels, set before the workers are forked (inherited copy-on-write)


def work(job):
    """One configuration, in a forked child: edge cover of its component, replay into the real stores,
    observations straight into ndjson part files."""
    ci, cfg, init, tier, workdir, seed = job
    adj, labels = GRAPH["adj"], GRAPH["labels"]
    rng = random.Random(seed * 7919 + 20 + ci)
    name = cfg["name"]
    ta = time.time()
    paths, ncov, targets, nstates, nedges = edge_cover(init, adj, cfg["budget"], rng)
    t_cover = time.time() - ta
    tb = time.time()
    sink = Sink(workdir, "%s-%s" % (tier, name), parts=4, base=(ci + 1) * 10 ** 7)
    real = Real(cfg, workdir)
    P = P_of(cfg)
    nops, nvariant, sample, variant_ids = 0, 0, None, {}
    for pi, p in enumerate(paths):
        labs = [labels[adj[u][ei][0]] for (u, ei) in p]
        row = {"type": "path", "P": P, "cfg": name, "ops": real.replay(labs, threaded=pi < THREADED_PATHS)}
        sink.add(row)
        nops += len(labs)
        if pi == 0:
            sample = row
    # the same operations where the cache is out of use: a server without client tracking (Redis 5) and
    # cache_size 0 -- get_cached_view must then simply answer from the server
    if cfg["kind"] == "redis" and cfg["nclients"] == 1:
        for vname, vcfg, ver in (("redis5", cfg, "5.0.7"), ("cache-off", dict(cfg, cap=0), "6.2.0")):
            vreal = Real(vcfg, workdir, version=ver)
            for p in paths[:VARIANT_PATHS]:
                labs = [labels[adj[u][ei][0]] for (u, ei) in p]
                rid = sink.add({"type": "path", "P": P_of(vcfg), "cfg": name + "/" + vname, "version": ver,
                                "ops": vreal.replay(labs, threaded=False)})
                variant_ids[rid] = dict(vcfg, version=ver, name=name + "/" + vname)
                nvariant += len(labs)
    files = sink.close()
    return {"name": name, "files": files, "sample": sample, "variant_ids": variant_ids, "nvariant": nvariant,
            "t_cover": t_cover, "t_replay": time.time() - tb,
            "info": {"states": nstates, "transitions": nedges, "paths": len(paths), "operations": nops,
                     "edges_covered": ncov, "edge_coverage": round(ncov / max(nedges, 1), 4), "target_edges": targets}}


def run(tier_name=None, replay=None):
    t = get_tier(tier_name)
    v = Verdict("C20", t)
    workdir = os.path.join(RUN, "C20-" + t)
    os.makedirs(workdir, exist_ok=True)

    if replay:
        rp = json.load(open(replay))
        if rp.get("type", "path") == "path":
            cfg = rp["cfg"]
            ops = Real(cfg, workdir, version=cfg.get("version", "6.2.0")).replay([tuple(x) for x in rp["labels"]])
            rows = [{"type": "path", "P": P_of(cfg), "ops": ops}]
        elif rp["type"] == "badfile":
            rows = [o for o in badfile_cases(workdir) if o["variant"] == rp["variant"]]
        else:
            rows = [engine_ttl_case(rp["want"])]
        try:
            sink = Sink(os.path.join(RUN, "C20-replay"), "replay", parts=1)
            for r in rows:
                sink.add(r)
            fails, stats = judge_files(sink.close())
        except Exception as ex:
            v.machinery_failure(str(ex)[:1500])
            return v.finish()
        for f in fails:
            print("  ", f)
            (v.known_finding(f["kf"]) if f["kf"] else v.violation(rp, "%s at step %s (%s)" % (f["clause"], f["step"], f["op"])))
        v.coverage = {"states": stats["states"] or 1, "transitions": max(stats["transitions"], 1),
                      "traces_validated_against_impl": 1, "samples": [rp.get("text", "")]}
        return v.finish()

    configs = CONFIGS[t]
    t0 = time.time()
    # -- the model: one TLC run, every kind ------------------------------------------------------
    m = run_model(configs, workdir, 8)
    t_model = time.time() - t0
    if not m["ok"]:
        v.machinery_failure("MC_Store: TLC did not complete cleanly -- a clause of spec/Store.tla fails in the model "
                            "or TLC broke: %s" % m["tail"][-1500:])
        if os.path.exists(m["dot"]):
            os.remove(m["dot"])
        return v.finish()
    ta = time.time()
    try:
        inits, adj, labels = parse_dot(m["dot"])
    except Exception as ex:
        v.machinery_failure("cannot read TLC's graph dump: %r" % (ex,))
        return v.finish()
    finally:
        if os.path.exists(m["dot"]):
            os.remove(m["dot"])
    t_parse = time.time() - ta
    # -- edge cover and replay: one forked worker per configuration -------------------------------
    tb = time.time()
    GRAPH["adj"], GRAPH["labels"] = adj, labels
    jobs = [(ci, cfg, inits[ci + 1], t, workdir, get_seed()) for ci, cfg in enumerate(configs)]
    try:
        import multiprocessing
        with multiprocessing.get_context("fork").Pool(processes=min(len(jobs), 10)) as pool:
            results = pool.map(work, jobs, chunksize=1)
    except Exception as ex:
        import traceback
        v.machinery_failure("replay worker failed: %r %s" % (ex, traceback.format_exc()[-1200:]))
        return v.finish()
    finally:
        GRAPH.clear()
    del adj
    t_workers = time.time() - tb
    cover_info = {r["name"]: r["info"] for r in results}
    files = [f for r in results for f in r["files"]]
    variant_ids = {}
    for r in results:
        variant_ids.update(r["variant_ids"])
    nvariant = sum(r["nvariant"] for r in results)
    if sum(c["states"] for c in cover_info.values()) != m["states"]:
        v.machinery_failure("the graph dump has %d states, TLC reported %d" % (sum(c["states"] for c in cover_info.values()), m["states"]))
    # -- outside the graph ---------------------------------------------------------------------------
    extra = badfile_cases(workdir)
    try:
        extra.append(engine_ttl_case(7200))
        extra.append(engine_ttl_case(45))
    except Exception as ex:
        v.machinery_failure("engine run on the simulated Redis failed: %r" % (ex,))
    sink = Sink(workdir, t + "-extra", parts=1, base=0)
    extra_ids = {sink.add(o): o for o in extra}
    files += sink.close()
    # -- judge ---------------------------------------------------------------------------------------
    tc = time.time()
    try:
        fails, stats = judge_files(files, keep_failing=True)
    except Exception as ex:
        v.machinery_failure(str(ex)[:1500])
        return v.finish()
    t_judge = time.time() - tc
    by_name = {c["name"]: c for c in configs}
    cl = collections.Counter()
    seen_paths = set()
    for f in fails:
        cl[(f["clause"], f["kf"])] += 1
        if f["kf"]:
            v.known_finding(f["kf"])
            continue
        if f["id"] in seen_paths or len(seen_paths) >= 40:
            continue
        seen_paths.add(f["id"])
        if f["id"] in extra_ids:
            x = extra_ids[f["id"]]
            v.violation(dict(x, property="C20"), "%s: %s" % (f["clause"], json.dumps({k: x[k] for k in x if k not in ("P", "id")})[:200]))
            continue
        row = f.get("row")
        if row is None:                 # beyond the first failing cases of its part file: counted only
            continue
        cfg = variant_ids.get(f["id"]) or by_name[row["cfg"]]
        labs = [(o["op"], o["c"], o["k"], o["f"], o["v"]) for o in row["ops"][:f["step"]]]
        seen_op = row["ops"][f["step"] - 1]
        text = " ; ".join(lab_text(l) for l in labs)
        v.violation({"property": "C20", "type": "path", "cfg": cfg, "labels": [list(l) for l in labs], "text": text,
                     "clause": f["clause"], "observed": seen_op},
                    "%s [%s] after %s -> %s" % (f["clause"], cfg["name"], text[-160:], json.dumps(seen_op["out"])[:120]))
    drift = sum(1 for i in stats["drift_ids"] if i not in variant_ids and i not in extra_ids)
    nops = sum(c["operations"] for c in cover_info.values())
    npaths = sum(c["paths"] for c in cover_info.values())
    tot_edges = sum(c["transitions"] for c in cover_info.values())
    cov_edges = sum(c["edges_covered"] for c in cover_info.values())
    sample_rows = [r["sample"] for r in results if r["sample"]][:3]
    v.coverage = {
        "states": m["states"] + stats["states"],
        "transitions": tot_edges + stats["transitions"],
        "model": cover_info,
        "traces_validated_against_impl": npaths, "evaluations": nops + nvariant + len(extra),
        "variant_operations": nvariant,
        "edge_coverage": round(cov_edges / max(tot_edges, 1), 4), "edges_covered": cov_edges, "edges_total": tot_edges,
        "distinct_nontrivial": cov_edges,
        "rule": "distinct (model state, operation with its arguments) pairs of MC_Store's state graph that were driven through the real "
                "store classes (an edge walked twice counts once); the whole graph when no edge budget applies, otherwise a sample "
                "of the edges seeded by VERIF_SEED plus whatever lies on the way",
        "exhaustive": all(c["budget"] == 0 for c in configs) and cov_edges == tot_edges,
        "drift_paths": drift,
        "failed_clauses": {"%s|%s" % k: c for k, c in cl.items()},
        "outside_graph": [{k: o[k] for k in o if k not in ("P", "id")} for o in extra],
        "samples": [{"P": r["P"], "ops": [lab_text((o["op"], o["c"], o["k"], o["f"], o["v"])) + " -> " + json.dumps(tagged.dec(o["out"]["val"]) if o["out"]["kind"] != "exc" else o["out"]["cls"])
                                         for o in r["ops"][:12]]} for r in sample_rows],
        "tlc_model": {"distinct_states": m["states"], "states_generated": m["generated"], "wall_s": m["wall"]},
        "timings_s": {"model": round(t_model, 1), "parse_dump": round(t_parse, 1), "cover_and_replay_wall": round(t_workers, 1),
                      "cover_cpu": round(sum(r["t_cover"] for r in results), 1), "replay_cpu": round(sum(r["t_replay"] for r in results), 1),
                      "judge": round(t_judge, 1)},
        "tlc_cpu_s": stats["tlc_cpu_s"],
    }
    if drift:
        print("DRIFT property=C20 %d path(s) where the invalidations in flight differ from the model's "
              "(no clause failed because of that; see evidence)" % drift)
    v.assumptions = [
        "lib/vsim/fakeredis.py is Redis and pottery as far as store.py can tell (its assumptions A1-A8: RESP2 tracking with redirect, "
        "reads of missing keys are remembered, one invalidation per remembered key and modification, views without local copy)",
        "EmptyIsAbsent: for the Redis kinds an empty dict/list is the absence of the key (documented limit of store.py)",
        "a member update through the view of a file store is not written through; Reopen is not explored while one is pending (statement silent)",
        "two JSONStore objects over one file do not share state (single-instance store by its documentation): file and in-memory kinds have one client",
        "open: cache eviction order (only the bound is demanded), KeyError or silence when deleting an absent key",
        "thread interleavings of the invalidation listener are not explored: delivery happens between operations; all but the first "
        "%d paths per configuration run with an inert stand-in for the listener thread" % THREADED_PATHS,
    ]
    return v.finish()


class Sink:
    """Observations go straight to ndjson part files (a thorough run has millions of operations): a whole
    case per line; each part is judged by one TLC process."""

    def __init__(self, workdir, tag, parts=4, base=0):
        os.makedirs(workdir, exist_ok=True)
        self.paths = [os.path.join(workdir, "obs-%s-%d-%02d.ndjson" % (tag.replace("/", "_"), os.getpid(), p)) for p in range(parts)]
        self.files = [None] * parts
        self.load = [0] * parts
        self.n = base

    def add(self, row):
        self.n += 1
        row["id"] = self.n
        w = len(row.get("ops", ())) + 1
        # fill one part up to 30 000 operations before opening the next (a JVM costs seconds)
        p = next((i for i in range(len(self.paths)) if 0 < self.load[i] < 30000), None)
        if p is None:
            p = min(range(len(self.paths)), key=lambda i: self.load[i])
        if self.files[p] is None:
            self.files[p] = open(self.paths[p], "w")
        self.files[p].write(json.dumps(row, separators=(",", ":")))
        self.files[p].write("\n")
        self.load[p] += w
        return self.n

    def close(self):
        used = []
        for f, p in zip(self.files, self.paths):
            if f is not None:
                f.close()
                used.append(p)
        return used


def judge_files(files, keep_failing=False, timeout=2400):
    """One TLC process per part file.  -> (failures without the pseudo clause "drift", stats).  "drift" (the real
    client's invalidations in flight differ from the model's) is counted, never reported: which keys a client asks
    the server to watch is not part of the property.  With keep_failing, every failure of a path carries its
    observation row (read back from the part file before it is deleted)."""
    known = tlc.merged_known()

    def one(path):
        r = tlc.run_tlc("JudgeC20.tla", "Judge.cfg", env={"OBS_FILE": path, "KNOWN_FINDINGS": known}, workers=1, timeout=timeout)
        vd = tlc.parse_verdict(r["out"])
        if vd is None or "No error has been found" not in r["out"]:
            raise tlc.TLCError("TLC judge JudgeC20 failed on %s (rc=%s):\n%s" % (path, r["rc"], r["out"][-3000:]))
        fs = vd["failures"]
        want = {f["id"] for f in fs if f["clause"] != "drift" and not f["kf"]}
        if keep_failing and want:
            want = set(sorted(want)[:40])
            rows = {}
            with open(path) as fh:
                for line in fh:
                    row = json.loads(line)
                    if row["id"] in want:
                        rows[row["id"]] = row
            for f in fs:
                if f["id"] in rows and rows[f["id"]].get("type") == "path":
                    f["row"] = rows[f["id"]]
        return fs, r
    fails, states, cpu = [], 0, 0.0
    t0 = time.time()
    try:
        with ThreadPoolExecutor(max_workers=16) as ex:
            for fs, r in ex.map(one, files):
                fails.extend(fs)
                states += r["distinct"]
                cpu += r["wall"]
    finally:
        for p in files:
            try:
                os.remove(p)
            except OSError:
                pass
    stats = {"states": states, "transitions": max(states - len(files), 0),
             "tlc_wall_s": round(time.time() - t0, 2), "tlc_cpu_s": round(cpu, 2),
             "drift_ids": sorted(f["id"] for f in fails if f["clause"] == "drift"),
             "drift_first": [f for f in fails if f["clause"] == "drift"][:5]}
    fails = [f for f in fails if f["clause"] != "drift"]
    # failures of paths whose row was not kept (beyond the first 40 per part) still count
    return fails, stats


if __name__ == "__main__":
    sys.exit(run(*(sys.argv[1:2])))
