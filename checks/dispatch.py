"""Maps a property id to the module that decides it."""
import argparse
import os
import sys

HERE = os.path.dirname(os.path.abspath(__file__))
sys.path.insert(0, HERE)
sys.path.insert(0, os.path.join(os.path.dirname(HERE), "lib"))

PROTOCOL = {"C02", "C03", "C05", "C06", "C09", "C11"}


def main():
    ap = argparse.ArgumentParser()
    ap.add_argument("prop")
    ap.add_argument("--tier")
    ap.add_argument("--replay")
    a = ap.parse_args()
    p = a.prop.upper()
    if p in PROTOCOL:
        import protocol
        return protocol.run(p, a.tier, a.replay)
    try:
        mod = __import__(p.lower())
    except ImportError as ex:
        print("no check for %s (%s)" % (p, ex))
        return 2
    return mod.run(a.tier, a.replay)


if __name__ == "__main__":
    try:
        rc = main()
    except SystemExit:
        raise
    except BaseException:
        import traceback
        traceback.print_exc()
        print("MACHINERY-FAILURE unexpected exception in the check")
        rc = 2
    sys.exit(rc)
