"""C18: validator-accepted machines run; uninterpretable ones hurt only themselves.
The definitions are enumerated by TLC from spec/WellFormed.tla (seed machines + mutation
operators, MC_WellFormed); each is run through the REAL validator and, beside a healthy
execution, through the REAL engine; poison events are put on the event queue.  TLC judges
the observations (spec/JudgeC18.tla)."""
import collections
import json
import os
import random
import re
import sys

from common import Verdict, tier as get_tier, seed as get_seed, RUN
import judge

from vsim import tlc
from vsim import world as W
from vsim.explore import setup_world, do_starts
from vsim import scenarios as S
from vsim.world import sm_arn, exec_arn

from statelint.statelint import StateLint

HEALTHY = S.chain(("H1", S.P()), ("H2", S.T("hf")), ("H3", S.P()))


def to_asl(v):
    """abstract syntax of WellFormed.tla -> a JSON definition"""
    if isinstance(v, dict) and "k" in v and set(v.keys()) <= {"k", "s", "b", "n", "ms", "m", "cs"}:
        k = v["k"]
        if k == "str":
            return v["s"]
        if k == "bool":
            return v["b"]
        if k == "num":
            return v["n"]
        if k == "machines":
            return [to_asl(x) for x in (v["ms"] or [])]
        if k == "machine":
            return to_asl(v["m"])
        if k == "choices":
            return [to_asl(x) for x in (v["cs"] or [])]
    if isinstance(v, dict):
        return {a: to_asl(b) for a, b in v.items()}
    if isinstance(v, list):
        if not v:
            return {}       # TLC prints an empty function as []
        return [to_asl(x) for x in v]
    return v


def generate_definitions(depth, work):
    os.makedirs(work, exist_ok=True)
    cfg = os.path.join(work, "MC_WellFormed_d%d.cfg" % depth)
    with open(os.path.join(tlc.SPEC, "MC_WellFormed.cfg")) as f:
        txt = f.read().replace("Depth = 1", "Depth = %d" % depth)
    with open(cfg, "w") as f:
        f.write(txt)
    r = tlc.run_tlc("MC_WellFormed.tla", cfg, workers=1, timeout=1200, heap="4g")
    if "No error has been found" not in r["out"]:
        raise tlc.TLCError("MC_WellFormed failed:\n" + r["out"][-2000:])
    defs = []
    for m in re.finditer(r'^"DEF (.*)"$', r["out"], re.M):
        raw = m.group(1)
        out, i = [], 0
        while i < len(raw):
            if raw[i] == "\\" and i + 1 < len(raw):
                out.append(raw[i + 1])
                i += 2
            else:
                out.append(raw[i])
                i += 1
        d = json.loads("".join(out))
        defs.append((d["wf"], to_asl(d["def"])))
    return defs, r["distinct"]


ILLEGAL = re.compile(r"Illegal State Machine|caused the exception|does not exist|object has no attribute|is not subscriptable|KeyError|TypeError|AttributeError")


def has_map(d):
    if isinstance(d, dict):
        return d.get("Type") == "Map" or any(has_map(v) for v in d.values())
    if isinstance(d, list):
        return any(has_map(v) for v in d)
    return False


def engine_side(definition=None, poison=None, poison_for_started=False, inp=None):
    """run one case beside a healthy execution; returns the engine-side observation fields"""
    machines = [{"name": "ok", "type": "STANDARD", "asl": HEALTHY}]
    scn = {"id": "c18", "machines": machines, "starts": [], "workers": ["hf", "f"], "oracle": {}, "world": {}}
    w = setup_world(scn)
    stored = False
    if definition is not None:
        try:
            w.add_sm("sm", definition)
            stored = True
        except Exception:
            stored = False
    escaped = False
    looping = False
    try:
        w.start_raw(sm_arn("ok"), {"h": 1}, name="h1")
        if definition is not None and stored:
            w.start_raw(sm_arn("sm"), {"x": 1} if inp is None else inp, name="m1")
        if poison is not None:
            w.rec.begin_frame("api", inst="", action="poison")
            w.worker_publish(next(iter(w.shared_queues)), None, poison)
            w.rec.end_frame()
        fair = random.Random(7)       # a fair scheduler: a looping machine must not starve the others
        n1 = w.run(max_steps=400, chooser=fair.choice)
        w.start_raw(sm_arn("ok"), {"h": 2}, name="h2")
        n2 = w.run(max_steps=400, chooser=fair.choice)
        looping = n1 >= 400 or n2 >= 400          # a machine that loops for ever is not "uninterpretable"
        if not looping:
            w.run_to_d1()
    except BaseException as ex:
        if isinstance(ex, KeyboardInterrupt):
            raise
        escaped = True
    notes = collections.defaultdict(list)
    for a, s in w.notes():
        notes[a].append(s)
    h_ok = all(notes[exec_arn("ok", n)] == ["RUNNING", "SUCCEEDED"] for n in ("h1", "h2"))
    recs = [w.outcome(exec_arn("ok", n)) for n in ("h1", "h2")]
    h_ok = h_ok and all(r and json.loads(r["output"]) == {"fn": "hf", "in": {"h": k + 1}} for k, r in enumerate(recs))
    m = exec_arn("sm", "m1")
    mn = notes.get(m, [])
    mrec = w.outcome(m) if stored else None
    cause = (mrec or {}).get("cause") or ""
    illegal = bool(mrec and mrec.get("status") == "FAILED" and mrec.get("error") == "States.Runtime" and ILLEGAL.search(cause))
    # the broker's view: the poison delivery was acknowledged (not judged while a machine still loops)
    drained = looping or w.broker.total_unacked() == 0
    out = {"run": {"stored": stored, "started": bool(mn) and not looping, "terminal": bool(mn) and mn[-1] in ("SUCCEEDED", "FAILED"),
                   "status": mn[-1] if mn else "", "illegal": illegal, "error": (mrec or {}).get("error") or "", "looping": bool(looping)},
           "healthy": h_ok, "drained": drained, "escaped": escaped}
    w.close()
    return out


def lint_side(sl, definition):
    try:
        problems = sl.validate(definition)
        return {"raised": False, "problems": len(problems), "cls": ""}
    except BaseException as ex:
        if isinstance(ex, KeyboardInterrupt):
            raise
        return {"raised": True, "problems": 0, "cls": type(ex).__name__}


def run(tier_name=None, replay=None):
    t = get_tier(tier_name)
    thorough = t == "thorough"
    v = Verdict("C18", t)
    rng = random.Random(get_seed() + 18)
    sl = StateLint()
    work = os.path.join(RUN, "C18-" + t)
    if replay:
        rp = json.load(open(replay))
        c = rp["case"]
        if c["kind"] == "def":
            o = dict(engine_side(definition=c["definition"], inp=c.get("input")), id=1, kind="def", wf=False, lint=lint_side(sl, c["definition"]))
        else:
            o = dict(engine_side(poison=c["body"].encode("latin1")), id=1, kind="event", wf=False, lint={"raised": False, "problems": 0, "cls": ""})
        fails, stats = judge.run_judge("JudgeC18", [o], os.path.join(RUN, "C18-replay"))
        for f in fails:
            print("  ", f, o)
            v.violation(rp, f["clause"])
        v.coverage = {"states": max(stats["states"], 1), "transitions": max(stats["transitions"], 1), "traces_validated_against_impl": 1, "samples": [c]}
        return v.finish()
    try:
        defs, gen_states = generate_definitions(1, work)
        if thorough:
            defs2, gs2 = generate_definitions(2, work)
            extra = [d for d in defs2 if d not in defs]
            rng.shuffle(extra)
            defs = defs + extra[:6000]
            gen_states += gs2
    except Exception as ex:
        v.machinery_failure(str(ex)[:1500])
        return v.finish()
    obs, meta = [], {}
    n = 0
    for wf, d in defs:
        n += 1
        o = dict(engine_side(definition=d), id=n, kind="def", wf=wf, lint=lint_side(sl, d))
        obs.append(o)
        meta[n] = {"kind": "def", "definition": d}
        if has_map(d):
            # a Map iterates over a list: run it on one too, so that the states of its item processor are entered
            n += 1
            o = dict(engine_side(definition=d, inp=[{"x": 1}, {"x": 2}]), id=n, kind="def", wf=wf, lint=lint_side(sl, d))
            obs.append(o)
            meta[n] = {"kind": "def", "definition": d, "input": [{"x": 1}, {"x": 2}]}
    # arbitrary JSON values as definitions
    for d in [5, "x", [1], True, None, {}, {"StartAt": 1}, {"States": {}}, {"StartAt": "A", "States": []}, {"StartAt": "A", "States": {"A": 5}},
              {"StartAt": "A", "States": {"A": {"Type": ["Pass"], "End": True}}}, {"StartAt": "A", "States": {"A": {"Type": "Pass", "End": "yes"}}},
              {"StartAt": ["A"], "States": {"A": {"Type": "Pass", "End": True}}}, [[]], 1.5, "", {"StartAt": None, "States": None}]:
        n += 1
        o = dict(engine_side(definition=d), id=n, kind="def", wf=False, lint=lint_side(sl, d))
        obs.append(o)
        meta[n] = {"kind": "def", "definition": d}
    # poison events
    ok_arn = sm_arn("ok")
    bodies = [b"not json", b"", b"5", b'"x"', b"[1]", b"null", b"true", b"{}", b'{"data": 1}', b'{"context": 5}', b'{"context": {}}',
              b'{"context": {"StateMachine": 5}}', b'{"context": {"StateMachine": {}}}',
              json.dumps({"context": {"StateMachine": {"Id": "arn:aws:states:local:0123456789:stateMachine:nosuch"}}}).encode(),
              json.dumps({"context": {"StateMachine": {"Id": 7}}}).encode(),
              json.dumps({"data": {}, "context": {"StateMachine": {"Id": ok_arn}, "State": {"Name": "Nowhere"}, "Execution": {"Name": "p1"}}}).encode(),
              json.dumps({"data": {}, "context": {"StateMachine": {"Id": ok_arn}, "State": {"Name": 5}}}).encode(),
              json.dumps({"data": {}, "context": {"StateMachine": {"Id": ok_arn}, "State": "H1"}}).encode(),
              json.dumps({"data": {}, "context": {"StateMachine": {"Id": ok_arn}, "State": {"Name": "H1", "Branch": 5}, "Execution": {"Id": exec_arn("ok", "p2"), "Name": "p2"}}}).encode(),
              json.dumps({"data": {}, "context": {"StateMachine": {"Id": ok_arn}, "State": {"Name": "H1", "Branch": [{}]}, "Execution": {"Id": exec_arn("ok", "p3"), "Name": "p3", "StartTime": "garbage"}}}).encode(),
              json.dumps({"data": {}, "context": {"StateMachine": {"Id": sm_arn("byvalue"), "Definition": 5}}}).encode(),
              json.dumps({"data": {}, "context": {"StateMachine": {"Id": sm_arn("byvalue2"), "Definition": {"StartAt": "A", "States": {"A": {"Type": "Pass"}}}}}}).encode(),
              json.dumps({"data": {}, "context": {"StateMachine": {"Id": "not-an-arn"}}}).encode(),
              b"\xff\xfe\x00", json.dumps({"data": {}, "context": {"StateMachine": {"Id": ok_arn}, "Execution": 5}}).encode()]
    for b in bodies:
        n += 1
        o = dict(engine_side(poison=b), id=n, kind="event", wf=False, lint={"raised": False, "problems": 0, "cls": ""})
        obs.append(o)
        meta[n] = {"kind": "event", "body": b.decode("latin1")}
    try:
        fails, stats = judge.run_judge("JudgeC18", obs, os.path.join(RUN, "C18-" + t))
    except Exception as ex:
        v.machinery_failure(str(ex)[:1500])
        return v.finish()
    by_id = {o["id"]: o for o in obs}
    cl = collections.Counter()
    for f in fails:
        o = by_id[f["id"]]
        cl[(f["clause"], f["kf"])] += 1
        if f["kf"]:
            v.known_finding(f["kf"])
        else:
            v.violation({"property": "C18", "case": meta[f["id"]], "obs": o},
                        "%s: %s -> lint=%s run=%s healthy=%s drained=%s escaped=%s" % (
                            f["clause"], json.dumps(meta[f["id"]])[:260], o["lint"], o["run"], o["healthy"], o["drained"], o["escaped"]))
    clean = sum(1 for o in obs if o["kind"] == "def" and not o["lint"]["raised"] and o["lint"]["problems"] == 0)
    v.coverage = {"states": stats["states"] + gen_states, "transitions": stats["transitions"] + gen_states,
                  "traces_validated_against_impl": len(obs), "evaluations": len(obs), "distinct_nontrivial": len(obs),
                  "rule": "definitions = the set TLC enumerates from WellFormed.tla (5 seed machines, every definition within %d mutation(s): drop/rename/retarget/retag a field or "
                          "state, wrong JSON type, nested name collision) + arbitrary JSON values; poison events = raw bodies on the event queue; each is a distinct case, run "
                          "through the real validator and beside a healthy execution through the real engine" % (2 if thorough else 1),
                  "samples": [meta[1], meta[len(defs) // 2], meta[n]], "definitions": len(defs), "validator_clean": clean,
                  "well_formed_by_spec": sum(1 for wf, d in defs if wf), "poison_events": len(bodies),
                  "failed_clauses": {"%s|%s" % k: c for k, c in cl.items()}, "exhaustive": not thorough}
    v.assumptions = ["'fails for being illegal' = FAILED with States.Runtime and a cause naming an illegal state machine / an interpreter exception, or never started",
                     "inputs are fixed ({\"x\": 1}); data-dependent failures of accepted machines (e.g. NoChoiceMatched) are not counted as illegal"]
    return v.finish()


if __name__ == "__main__":
    sys.exit(run(*(sys.argv[1:2])))
