"""Engine.tla per scenario: generates the MC module (scenario constants), runs TLC (all
schedules, optional crash budget), and -- for crash-free graphs -- dumps the labelled state
graph for spec -> code replay."""
import json
import os
import re
import sys

from common import RUN
from vsim import tlc
from vsim.scenarios import FN


def tla_str(s):
    return '"' + s.replace("\\", "\\\\").replace('"', '\\"') + '"'


def tla_val(v):
    if isinstance(v, bool):
        return "TRUE" if v else "FALSE"
    if isinstance(v, int):
        return str(v)
    if isinstance(v, str):
        return tla_str(v)
    if isinstance(v, list):
        return "<<" + ", ".join(tla_val(x) for x in v) + ">>"
    if isinstance(v, dict):
        if not v:
            return '[empty |-> TRUE]'
        return "[" + ", ".join("%s |-> %s" % (k, tla_val(x)) for k, x in v.items()) + "]"
    raise ValueError("value not representable in the model: %r" % (v,))


class Unsupported(Exception):
    pass


def flatten(asl, notes=None):
    """state name -> model record, for all nesting levels.  Fields that only reshape the data (ResultPath,
    Parameters, ResultSelector, InputPath, OutputPath, a Catcher's ResultPath) are accepted and ignored: the model
    then carries the data abstractly -- `notes` receives "abstract-data", and JoinPositional (the only invariant
    about values) is not claimed for the scenario.  A path that FAILS changes the control flow; the replay into the
    real engine shows that as drift."""
    out = {}
    notes = notes if notes is not None else set()

    def one(name, st):
        t = st["Type"]
        if t not in ("Pass", "Task", "Wait", "Succeed", "Fail", "Parallel", "Map", "Choice"):
            raise Unsupported("state type %s" % t)
        for k in ("ItemsPath", "ItemSelector"):
            if k in st:
                raise Unsupported(k)
        for k in ("InputPath", "OutputPath", "ResultPath", "Parameters", "ResultSelector"):
            if k in st:
                if st[k] is None:
                    raise Unsupported(k + " null")
                notes.add("abstract-data")
        r = {"type": t, "next": st.get("Next", ""), "end": bool(st.get("End", False)) or t in ("Succeed", "Fail"),
             "fn": "", "branches": [], "proc": "", "mc": 0, "retrymax": -1, "retryerrs": [], "catchnext": "", "catcherrs": [],
             "result": None, "error": "", "rules": [], "dflt": ""}
        if t == "Choice":
            notes.add("choice")
            r["rules"] = [dict(choice_rule(c), next=c["Next"]) for c in st.get("Choices", [])]
            r["dflt"] = st.get("Default") or ""
        if t == "Task":
            res = st.get("Resource", "")
            if not res.startswith(FN):
                raise Unsupported("resource " + res)
            r["fn"] = res[len(FN):]
        if t == "Pass" and "Result" in st:
            r["result"] = st["Result"]
        if t == "Fail":
            r["error"] = st.get("Error", "Unspecified")
        if t == "Parallel":
            for b in st["Branches"]:
                r["branches"].append(b["StartAt"])
                for n2, s2 in b["States"].items():
                    one(n2, s2)
        if t == "Map":
            proc = st.get("ItemProcessor") or st.get("Iterator")
            r["proc"] = proc["StartAt"]
            r["mc"] = st.get("MaxConcurrency", 0)
            for n2, s2 in proc["States"].items():
                one(n2, s2)
        if st.get("Retry"):
            if len(st["Retry"]) > 1:
                raise Unsupported("more than one retrier")
            rt = st["Retry"][0]
            r["retrymax"] = rt.get("MaxAttempts", 3)
            r["retryerrs"] = rt["ErrorEquals"]
        if st.get("Catch"):
            if len(st["Catch"]) > 1:
                raise Unsupported("catcher list")
            if "ResultPath" in st["Catch"][0]:
                notes.add("abstract-data")
            r["catchnext"] = st["Catch"][0]["Next"]
            r["catcherrs"] = st["Catch"][0]["ErrorEquals"]
        if name in out:
            raise Unsupported("duplicate state name")
        out[name] = r
    for n, s in asl["States"].items():
        one(n, s)
    if "choice" in notes and "abstract-data" in notes:
        raise Unsupported("a Choice in a machine whose data the model carries abstractly")
    for n, r in out.items():
        if not r["end"] and not r["next"] and r["type"] != "Choice":
            raise Unsupported("a state with neither Next nor End")
        for x in (r["next"], r["catchnext"], r["proc"], r["dflt"]) + tuple(r["branches"]) + tuple(c["next"] for c in r["rules"]):
            if x and x not in out:
                raise Unsupported("a transition to a state that does not exist")
    if asl.get("StartAt") not in out:
        raise Unsupported("StartAt names no state")
    # a machine that can loop has no finite model here (the history counter grows for ever)
    nxt = {n: [x for x in (r["next"], r["catchnext"], r["dflt"]) + tuple(c["next"] for c in r["rules"]) if x] for n, r in out.items()}
    seen, stack = set(), set()

    def cyc(n):
        if n in stack:
            return True
        if n in seen or n not in nxt:
            return False
        seen.add(n)
        stack.add(n)
        r = any(cyc(m) for m in nxt[n])
        stack.discard(n)
        return r
    if any(cyc(n) for n in list(nxt)):
        raise Unsupported("a loop of Next transitions")
    return out


CMP = {"NumericEquals": "eq", "StringEquals": "eq", "BooleanEquals": "eq", "NumericGreaterThan": "gt", "NumericLessThan": "lt",
       "NumericGreaterThanEquals": "ge", "NumericLessThanEquals": "le", "IsPresent": "present"}


def choice_rule(c):
    """A Choice rule in the model's rule language (Engine.tla, RuleHolds): typed comparisons of the value at a path of
    member names, combined with And / Or / Not."""
    for k, kind in (("And", "and"), ("Or", "or")):
        if k in c:
            return {"kind": kind, "subs": [choice_rule(x) for x in c[k]]}
    if "Not" in c:
        return {"kind": "not", "subs": [choice_rule(c["Not"])]}
    ops = [k for k in c if k in CMP]
    if len(ops) != 1 or not isinstance(c.get("Variable"), str) or not re.fullmatch(r"\$(\.[A-Za-z_]\w*)+", c["Variable"]):
        raise Unsupported("Choice rule %s" % json.dumps(c)[:80])
    v = c[ops[0]]
    if isinstance(v, float) or not isinstance(v, (bool, int, str)):
        raise Unsupported("Choice literal %r" % (v,))
    return {"kind": "cmp", "path": c["Variable"].split(".")[1:], "op": CMP[ops[0]], "val": v}


def rule_tla(c):
    if c["kind"] == "cmp":
        body = 'kind |-> "cmp", path |-> %s, op |-> %s, val |-> %s' % (tla_val(c["path"]), tla_str(c["op"]), tla_val(c["val"]))
    else:
        body = 'kind |-> %s, subs |-> <<%s>>' % (tla_str(c["kind"]), ", ".join(rule_tla(x) for x in c["subs"]))
    if "next" in c:
        body += ", next |-> " + tla_str(c["next"])
    return "[" + body + "]"


def rec_tla(r):
    res = "[set |-> FALSE, v |-> 0]" if r["result"] is None else "[set |-> TRUE, v |-> %s]" % tla_val(r["result"])
    return ("[type |-> %s, next |-> %s, end |-> %s, fn |-> %s, branches |-> %s, proc |-> %s, mc |-> %d, retrymax |-> %d, "
            "retryerrs |-> %s, catchnext |-> %s, catcherrs |-> %s, result |-> %s, error |-> %s, rules |-> <<%s>>, dflt |-> %s]") % (
        tla_str(r["type"]), tla_str(r["next"]), tla_val(r["end"]), tla_str(r["fn"]), tla_val(r["branches"]), tla_str(r["proc"]),
        r["mc"], r["retrymax"], "{" + ", ".join(tla_str(e) for e in r["retryerrs"]) + "}", tla_str(r["catchnext"]),
        "{" + ", ".join(tla_str(e) for e in r["catcherrs"]) + "}", res, tla_str(r["error"]),
        ", ".join(rule_tla(c) for c in r["rules"]), tla_str(r["dflt"]))


def outcome_name(o):
    if "echo" in o:
        return "ok"
    if "ok" in o:
        return "okv"      # a scripted result value: symbolic in the model (JoinPositional is then not claimed)
    if o.get("silent"):
        return "silent"
    return o["error"]


def generate(scn, workdir, max_crash=0, durable=False, name=None, dev=("F18", "F19"), liveness=False):
    """Writes MC_<name>.tla/.cfg into workdir; returns the module name."""
    m = scn["machines"][0]
    notes = set()
    defs = flatten(m["asl"], notes)
    fns = sorted({r["fn"] for r in defs.values() if r["fn"]})
    outcomes = {f: [outcome_name(o) for o in scn.get("oracle", {}).get(f, [{"echo": 1}])] for f in fns}
    inputs = [s["input"] for s in scn["starts"]]
    mod = "MC_" + re.sub(r"\W", "_", name or scn["id"])
    os.makedirs(workdir, exist_ok=True)
    body = ["---- MODULE %s ----" % mod, "EXTENDS Engine", "",
            "DefC == " + " @@ ".join("(%s :> %s)" % (tla_str(n), rec_tla(r)) for n, r in defs.items()),
            "StartAtC == " + tla_str(m["asl"]["StartAt"]),
            "InputsC == " + tla_val(inputs),
            "DevC == {" + ", ".join(tla_str(d) for d in dev) + "}",
            "OutcomesC == " + (" @@ ".join("(%s :> %s)" % (tla_str(f), tla_val(o)) for f, o in outcomes.items()) if outcomes else "<<>>"),
            "===="]
    with open(os.path.join(workdir, mod + ".tla"), "w") as f:
        f.write("\n".join(body) + "\n")
    cfg = ["SPECIFICATION Spec", "CONSTANTS", " Def <- DefC", " StartAt <- StartAtC", " Inputs <- InputsC", " Outcomes <- OutcomesC",
           " MaxCrash = %d" % max_crash, " Durable = %s" % ("TRUE" if durable else "FALSE"),
           " Express = %s" % ("TRUE" if m.get("type") == "EXPRESS" else "FALSE"), " Dev <- DevC",
           ] + (["INVARIANT NoBadOp", "INVARIANT NotifOK", "INVARIANT Drained", "INVARIANT NoLoss"]
                + ([] if "abstract-data" in notes else ["INVARIANT JoinPositional"]) if max_crash == 0
                else ["INVARIANT NoLossUnderCrash"]) + [
           "CHECK_DEADLOCK FALSE"]
    if liveness:
        # C02 in the model: under weak fairness every execution ends and stays ended (temporal property, no state constraint)
        cfg = [c for c in cfg if not c.startswith("INVARIANT")] + ["PROPERTY EventuallyDone"]
    with open(os.path.join(workdir, mod + ".cfg"), "w") as f:
        f.write("\n".join(cfg) + "\n")
    with open(os.path.join(workdir, mod + "_graph.cfg"), "w") as f:
        f.write("\n".join(c for c in cfg if not c.startswith("INVARIANT")) + "\n")
    return mod


def check(scn, workdir, max_crash=0, durable=False, workers=1, timeout=600, dump=None, liveness=False, name=None, dev=("F18", "F19")):
    """dump: path prefix; when given, the graph is explored without invariants and written to <dump>.dot"""
    mod = generate(scn, workdir, max_crash, durable, name, dev, liveness)
    extra = []
    cfg = mod + ".cfg"
    if dump:
        extra = ["-dump", "dot,actionlabels", dump]
        cfg = mod + "_graph.cfg"
    r = tlc.run_tlc(mod + ".tla", cfg, workers=workers, timeout=timeout, extra=extra, cwd=workdir)
    ok = "Model checking completed. No error has been found." in r["out"]
    inv = None
    m = re.search(r"Invariant (\w+) is violated", r["out"])
    if m:
        inv = m.group(1)
    elif re.search(r"Temporal propert\w+ .*violated", r["out"]):
        inv = "EventuallyDone"
    return {"ok": ok, "violated": inv, "states": r["distinct"], "generated": r["states"], "wall": r["wall"], "out": r["out"], "module": mod}


if __name__ == "__main__":
    from vsim import scenarios as S
    sid = sys.argv[1]
    crash = int(sys.argv[2]) if len(sys.argv) > 2 else 0
    scn = next(s for s in S.protocol_scenarios() + S.failure_scenarios() if s["id"] == sid)
    r = check(scn, os.path.join(RUN, "model"), max_crash=crash)
    print(r["ok"], r["violated"], r["states"], round(r["wall"], 1))
    if not r["ok"]:
        print(r["out"][-6000:])
