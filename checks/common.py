"""Shared plumbing of the checks: tiers, seeds, evidence files, verdict lines, replay files."""
import json
import os
import sys
import time

HERE = os.path.dirname(os.path.abspath(__file__))
VERIF = os.path.dirname(HERE)
sys.path.insert(0, os.path.join(VERIF, "lib"))
RUN = os.environ.get("VERIF_RUN_DIR") or os.path.join(VERIF, "run")      # (a private scratch directory for runs started side by side, e.g. against mutants)
EVID = os.path.join(os.environ["VERIF_RUN_DIR"], "evidence") if os.environ.get("VERIF_RUN_DIR") else os.path.join(VERIF, "evidence")
REPLAYS = os.path.join(RUN, "replays")
for d in (RUN, EVID, REPLAYS):
    os.makedirs(d, exist_ok=True)

KNOWN_FILE = os.path.join(VERIF, "known_findings.json")


def tier(argv_tier=None):
    t = argv_tier or os.environ.get("VERIF_TIER") or "quick"
    return "thorough" if t.startswith("t") else "quick"


def seed():
    try:
        return int(os.environ.get("VERIF_SEED", "0"))
    except ValueError:
        return 0


def known_findings():
    import glob
    out = {}
    for p in [KNOWN_FILE] + sorted(glob.glob(os.path.join(VERIF, "known_findings.d", "*.json"))):
        with open(p) as f:
            for k in json.load(f)["findings"]:
                out[k["id"]] = k
    return out


class Verdict:
    """Collects what a check found and turns it into stdout lines, an exit code and evidence."""

    def __init__(self, prop, tier_, level="model_checking"):
        self.prop = prop
        self.tier = tier_
        self.level = level
        self.t0 = time.time()
        self.violations = []      # (replay path, text)
        self.known = {}           # finding id -> count
        self.machinery = []       # harness/spec failures: exit 2
        self.coverage = {}
        self.assumptions = []
        self.nrep = 0

    def replay_path(self, payload):
        self.nrep += 1
        p = os.path.join(REPLAYS, "%s-%s-%d.json" % (self.prop, self.tier, self.nrep))
        with open(p, "w") as f:
            json.dump(payload, f, indent=1, default=repr)
        return p

    def violation(self, payload, text):
        if len(self.violations) < 25:
            p = self.replay_path(payload)
        else:
            p = self.violations[-1][0]
        self.violations.append((p, text))

    def known_finding(self, fid):
        self.known[fid] = self.known.get(fid, 0) + 1

    def machinery_failure(self, text):
        self.machinery.append(text)

    def finish(self):
        kf = known_findings()
        wall = round(time.time() - self.t0, 2)
        for fid, n in sorted(self.known.items()):
            k = kf.get(fid, {})
            print("KNOWN-FINDING: property=%s %s (%d occurrence%s) %s" % (
                self.prop, fid, n, "" if n == 1 else "s", k.get("text", "")))
        shown = set()
        for p, text in self.violations:
            if (p, text) in shown:
                continue
            shown.add((p, text))
            if len(shown) <= 25:
                print("VIOLATION property=%s replay=%s  # %s" % (self.prop, p, text))
        if len(self.violations) > 25:
            print("... %d violations in total" % len(self.violations))
        for m in self.machinery[:10]:
            print("MACHINERY-FAILURE property=%s %s" % (self.prop, m))
        cov = dict(self.coverage)
        cov.setdefault("known_findings_met", dict(self.known))
        ev = {"property_id": self.prop, "tier": self.tier, "seed": seed(), "level": self.level,
              "coverage": cov, "assumptions": self.assumptions, "wall_s": wall,
              "violations": len(self.violations)}
        with open(os.path.join(EVID, self.prop + ".json"), "w") as f:
            json.dump(ev, f, indent=1, default=repr)
        # a clause that fails on the real code, with its replay file, stands even if the machinery ALSO stumbled somewhere
        # in the same run (typically over the same misbehaviour: e.g. an execution handled by two instances breaks both
        # the affinity clause and the recorder's one-history-per-execution bookkeeping)
        if self.violations:
            print("RESULT property=%s VIOLATED%s wall=%ss" % (self.prop, " (and %d machinery failures)" % len(self.machinery) if self.machinery else "", wall))
            return 1
        if self.machinery:
            print("RESULT property=%s machinery failure (exit 2) wall=%ss" % (self.prop, wall))
            return 2
        print("RESULT property=%s holds on everything explored (known findings: %s) wall=%ss" % (
            self.prop, ",".join(sorted(self.known)) or "none", wall))
        return 0
