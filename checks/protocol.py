"""Checks of C02, C03, C05, C06, C09, C11: recorded runs of the real engine, under enumerated
schedules, validated line by line by TLC against spec/Trace.tla + Props.tla."""
import collections
import json
import os
import sys
import time

from common import Verdict, tier as get_tier, seed as get_seed, RUN

import model
import replay as rp
from concurrent.futures import ThreadPoolExecutor
from vsim import tlc, scenarios as S, world as W
from vsim.explore import explore_dfs, explore_random, run_once
from vsim.tracefile import BatchWriter

NB = 16

# which failed clauses count for which property (label of the clause, or label:clause);
# the second set applies only to runs of the failure family of scenarios
CLAUSES = {
    "C02": ({"C02", "C04:OutcomePreserved"}, set()),
    "C03": ({"C03"}, set()),
    "C05": ({"C05", "C04:OutcomePreserved"}, set()),        # (the clause that compares a run with its prescribed outcome)
    "C06": ({"C06"}, {"C02", "C03", "C09:NothingAfterTerminal"}),
    "C09": ({"C09"}, set()),
    # "the last history event reports the same status" is shared with C09; "each status change is published exactly once":
    # a status announced twice (or a second terminal status) breaks the RUNNING.(SUCCEEDED|FAILED) sequence shared with C02
    "C11": ({"C11", "C09:HistAgreesWithRecord", "C02:NotifSeqOK"}, set()),
}


def fanout_scenarios(thorough):
    """C05 family: Parallel of 1..3 branches x (Pass, Task, Wait); Map of 0..4 items x every
    MaxConcurrency 0..len+1; nesting depth 2."""
    out = []
    P, T, Wt, SM, Par, Mp, scn = S.P, S.T, S.Wt, S.SM, S.Par, S.Mp, S.scn
    kinds = {"p": lambda n: P(End=True, Result=n), "t": lambda n: T("f%d" % n, End=True), "w": lambda n: Wt(n, End=True)}
    combos = ["p", "t", "pt", "tt", "tw", "ptw", "ttt"] if thorough else ["t", "pt", "tt", "ttt"]
    for c in combos:
        br = [SM("B%d" % i, **{"B%d" % i: kinds[k](i + 1)}) for i, k in enumerate(c)]
        out.append(scn("par-" + c, SM("P", P=Par(br, Next="Z"), Z=P(End=True))))
    lens = range(0, 5) if thorough else (0, 1, 3)
    for n in lens:
        for mc in range(0, n + 2):
            if not thorough and mc not in (0, 1, 2, n + 1):
                continue
            out.append(scn("map-%d-mc%d" % (n, mc),
                           SM("M", M=Mp(SM("A", A=T("f", End=True)), MaxConcurrency=mc, End=True)),
                           inputs=(list(range(1, n + 1)),), workers=["f"]))
    out.append(scn("map-2step-mc2", SM("M", M=Mp(S.chain(("A", P()), ("B", T("f"))), MaxConcurrency=2, Next="Z"), Z=P(End=True)),
                   inputs=([1, 2, 3],)))
    out.append(scn("nest-par-map", SM("P", P=Par([SM("M", M=Mp(SM("A", A=T("f", End=True)), MaxConcurrency=1, End=True)),
                                                  SM("B", B=T("g", End=True))], End=True)), inputs=([1, 2],)))
    # a Map whose iterations start with a Map: the inner Map must not take the outer Map's batch range for its own
    innerm = lambda mc: SM("N", N=dict(Mp(SM("I", I=P(End=True)), End=True), **({"MaxConcurrency": mc} if mc else {})))
    for mco, mci, inp in ((1, 0, [[1], [2]]), (1, 1, [[1, 2], [3, 4]])) + (((2, 1, [[1, 2, 3], [4], [5, 6]]), (2, 0, [[1], [2], [3]])) if thorough else ()):
        out.append(scn("map-map-mc%d-mc%d" % (mco, mci), SM("M", M=dict(Mp(innerm(mci), End=True), MaxConcurrency=mco)), inputs=(inp,)))
    # an error caught INSIDE a branch / iteration: the join waits for the fallback state of that branch
    cat = [{"ErrorEquals": ["States.ALL"], "Next": "R", "ResultPath": "$.err"}]
    out.append(scn("par-inbranch-catch", SM("P", P=Par([SM("A", A=T("f", Catch=cat, End=True), R=P(Next="R2"), R2=P(End=True)),
                                                        SM("B", B=T("g", End=True))], Next="Z"), Z=P(End=True)),
                   oracle={"f": [{"error": "Boom"}]}))
    out.append(scn("map-initer-catch", SM("M", M=Mp(SM("A", A=T("f", Catch=cat, End=True), R=P(Next="R2"), R2=P(End=True)), ItemsPath="$.items", Next="Z"), Z=P(End=True)),
                   inputs=({"items": [1, 2]},), oracle={"f": [{"error": "Boom"}, {"ok": 2}]}))
    out.append(scn("nest-map-par", SM("M", M=Mp(SM("Q", Q=Par([SM("A", A=T("f", End=True)), SM("B", B=P(End=True))], End=True)), End=True)),
                   inputs=([1, 2],)))
    return out


def error_path_scenarios():
    """C03 family: single states failing in each error class (the error paths of every handler)."""
    P, T, SM, scn, Ch, Wt = S.P, S.T, S.SM, S.scn, S.Ch, S.Wt
    big = "x" * 300000
    out = [
        scn("err-pass-intrinsic", SM("A", A=P(Parameters={"a.$": "States.Nope(1)"}, End=True))),
        scn("err-pass-resultpath", SM("A", A=P(Result=1, ResultPath="$.a.b", End=True)), inputs=({"a": 5},)),
        scn("err-pass-path", SM("A", A=P(InputPath="$.missing", End=True))),
        scn("err-pass-nonext", SM("A", A=P())),
        scn("err-task-path", SM("A", A=T("f", InputPath="$.missing", End=True))),
        scn("err-task-rsel", SM("A", A=T("f", ResultSelector={"a.$": "$.nothere"}, End=True))),
        scn("err-task-big", SM("A", A=T("f", Next="B"), B=P(End=True)), oracle={"f": [{"ok": big}]}),
        scn("err-pass-big", SM("A", A=P(Result=big, Next="B"), B=P(End=True))),
        scn("err-choice-nomatch", SM("A", A=Ch([{"Variable": "$.x", "NumericEquals": 1, "Next": "B"}]), B=P(End=True)), inputs=({"x": 2},)),
        scn("err-choice-path", SM("A", A=Ch([{"Variable": "$.x", "NumericEquals": 1, "Next": "B"}], "B", InputPath="$.nope"), B=P(End=True))),
        scn("err-wait-path", SM("A", A=dict(Wt(1, End=True), InputPath="$.nope"))),
        scn("err-succeed-path", SM("A", A={"Type": "Succeed", "InputPath": "$.nope"})),
        scn("err-unknown-state", SM("A", A=P(Next="Nowhere"))),
        # the remaining error paths of the handlers: each `except` clause and each refusal of the task dispatcher
        scn("err-task-params-intrinsic", SM("A", A=T("f", Parameters={"a.$": "States.Nope(1)"}, End=True))),
        scn("err-task-resultpath", SM("A", A=T("f", ResultPath="$.a.b", End=True)), inputs=({"a": 5},)),
        scn("err-task-outputpath", SM("A", A=T("f", OutputPath="$.nope", End=True))),
        scn("err-wait-outputpath", SM("A", A=dict(Wt(1, End=True), OutputPath="$.nope"))),
        scn("err-wait-secondspath", SM("A", A={"Type": "Wait", "SecondsPath": "$.nope", "End": True})),
        scn("err-par-rsel", SM("P", P=S.Par([SM("A", A=P(End=True))], ResultSelector={"a.$": "$.nothere"}, End=True))),
        scn("err-par-resultpath", SM("P", P=S.Par([SM("A", A=P(End=True))], ResultPath="$.a.b", End=True)), inputs=({"a": 5},)),
        scn("err-map-isel", SM("M", M=S.Mp(SM("A", A=P(End=True)), ItemSelector={"a.$": "States.Nope(1)"}, End=True)), inputs=([1, 2],)),
        scn("err-map-rsel", SM("M", M=S.Mp(SM("A", A=P(End=True)), ResultSelector={"a.$": "$.nothere"}, End=True)), inputs=([1],)),
        scn("err-map-empty-resultpath", SM("M", M=S.Mp(SM("A", A=P(End=True)), ItemsPath="$.items", ResultPath="$.a.b", End=True)), inputs=({"a": 5, "items": []},)),
        scn("err-choice-outputpath", SM("A", A=dict(Ch([{"Variable": "$.x", "NumericEquals": 1, "Next": "B"}], "B"), OutputPath="$.nope"), B=P(End=True)), inputs=({"x": 1},)),
        scn("err-succeed-outputpath", SM("A", A={"Type": "Succeed", "OutputPath": "$.nope"})),
        scn("err-pass-outputpath", SM("A", A=P(OutputPath="$.nope", End=True))),
        scn("err-par-path", SM("P", P=S.Par([SM("A", A=P(End=True))], InputPath="$.nope", End=True))),
        scn("err-task-rsel-intrinsic", SM("A", A=T("f", ResultSelector={"a.$": "States.Nope(1)"}, End=True))),
        scn("err-par-rsel-intrinsic", SM("P", P=S.Par([SM("A", A=P(End=True))], ResultSelector={"a.$": "States.Nope(1)"}, End=True))),
        scn("err-map-rsel-intrinsic", SM("M", M=S.Mp(SM("A", A=P(End=True)), ResultSelector={"a.$": "States.Nope(1)"}, End=True)), inputs=([1],)),
        scn("err-task-badservice-states", SM("A", A={"Type": "Task", "Resource": "arn:aws:states:::states:bogus", "End": True})),
        scn("err-task-badservice-sdk", SM("A", A={"Type": "Task", "Resource": "arn:aws:states:::aws-sdk:bogus", "End": True})),
        scn("err-task-badservice-rpc", SM("A", A={"Type": "Task", "Resource": "arn:aws:states:::rpcmessage:bogus", "End": True})),
        scn("err-task-badservice-other", SM("A", A={"Type": "Task", "Resource": "arn:aws:states:::lambda:invoke", "End": True})),
        # a transition, inside a branch, to a state name that two branches define (only reachable when the validator is off)
        scn("err-duplicate-name", SM("P", P=S.Par([SM("A1", A1=P(Next="X"), X=P(End=True)), SM("B1", B1=P(Next="X"), X=P(End=True))], End=True))),
        scn("err-unknown-type", SM("A", A={"Type": "Bogus", "End": True})),
        scn("err-task-badarn", SM("A", A={"Type": "Task", "Resource": "arn:aws:nosuch:local::function:f", "End": True})),
        scn("err-task-unroutable", SM("A", A=T("nobody", End=True)), workers=[]),
        scn("err-map-path", SM("M", M=S.Mp(SM("A", A=P(End=True)), ItemsPath="$.nope", End=True))),
        scn("err-par-params", SM("P", P=S.Par([SM("A", A=P(End=True))], Parameters={"a.$": "States.Nope(1)"}, End=True))),
    ]
    for s in out:
        if s["id"] == "err-task-unroutable":
            s["workers"] = []
    return out


def scenario_set(prop, thorough):
    base = S.protocol_scenarios()
    fail = S.failure_scenarios()
    fam = {s["id"] for s in fail}
    if prop == "C05":
        scns = fanout_scenarios(thorough) + [s for s in base if s["id"].startswith(("par", "map", "nested"))]
    elif prop == "C06":
        scns = fail
    elif prop == "C03":
        scns = base + fail + error_path_scenarios()
    else:
        scns = base + fail
        if prop in ("C09", "C11", "C02"):
            scns = scns + error_path_scenarios()
    return scns, fam


MODEL_QUICK = {"task-chain", "par-task-end", "map-task-mc1", "nested", "par-fail-unhandled", "par-fail-catch", "par-fail-retry", "par-inner-catch",
               "par-tt", "map-3-mc2", "nest-par-map", "express-par", "two-execs", "choice-routes", "par-choice-nomatch", "map-choice"}


def model_stage(scns, thorough, on_run, work, prop=""):
    """Engine.tla on every scenario the model supports: (1) TLC checks the invariants on ALL schedules
    (as this code: Dev = {F18, F19}; and as the design: Dev = {}); a counterexample is replayed on the
    real engine; (2) the crash-free state graph is dumped, covered by paths, and every path is driven
    through the real engine; the recorded runs join the batch validated against Trace.tla."""
    wd = os.path.join(work, "model")
    os.makedirs(wd, exist_ok=True)
    sel = [s for s in scns if thorough or s["id"] in MODEL_QUICK]

    def one(s):
        try:
            code = model.check(s, wd, name=s["id"] + "_code")
        except model.Unsupported as ex:
            return s, None, str(ex)
        # (each of the extra modes is run by ONE property's thorough tier: the design by C06, liveness by C02)
        design = model.check(s, wd, dev=(), name=s["id"] + "_design") if thorough and prop in ("C06", "") else None
        # C02 in the model: under weak fairness every execution ends and stays ended, on every schedule
        live = model.check(s, wd, name=s["id"] + "_live", liveness=True) if thorough and prop in ("C02", "") else None
        dot = os.path.join(wd, "g_" + "".join(c if c.isalnum() else "_" for c in s["id"]))
        graph = model.check(s, wd, dump=dot, name=s["id"] + "_code")
        return s, (code, design, graph, dot + ".dot", live), None
    out = {"scenarios": {}, "states": 0, "transitions": 0, "paths": 0, "drift": 0, "unsupported": {}, "leads": []}
    with ThreadPoolExecutor(max_workers=8) as ex:
        results = list(ex.map(one, sel))
    for s, r, why in results:
        if r is None:
            out["unsupported"][s["id"]] = why
            continue
        code, design, graph, dot, live = r
        for x in (code, design, graph, live):
            if x is not None and not x["ok"] and not x["violated"] and "Error" in x["out"]:
                raise tlc.TLCError("Engine.tla failed on %s:\n%s" % (s["id"], x["out"][-2500:]))
        out["states"] += code["states"] + (design["states"] if design else 0)
        out["transitions"] += code["generated"] + (design["generated"] if design else 0)
        info = {"states": graph["states"], "code": "holds" if code["ok"] else code["violated"],
                "design": "not run in this tier of this property" if design is None else ("holds" if design["ok"] else design["violated"]),
                "liveness_EventuallyDone": "not run in this tier of this property" if live is None else ("holds" if live["ok"] else live["violated"])}
        if live is not None and not live["ok"] and live["violated"]:
            out["leads"].append({"scenario": s["id"], "invariant": live["violated"] + " (temporal)", "followed": None})
        if not code["ok"] and code["violated"]:
            try:
                cx = rp.replay_counterexample(s, code["out"])
                info["counterexample_followed_by_real_engine"] = cx["followed"]
                on_run_model(on_run, s, cx, "counterexample of " + code["violated"])
                out["leads"].append({"scenario": s["id"], "invariant": code["violated"], "followed": cx["followed"]})
            except Exception as ex:      # a lead that cannot be replayed is only a lead
                info["counterexample_replay_error"] = str(ex)[:200]
        try:
            paths, st = rp.replay_paths(s, dot, max_paths=None if thorough else 12)
            info.update(edges=st["edges"], paths=st["paths"])
            for pth in paths:
                on_run_model(on_run, s, pth, "model path")
                if pth["drift"]:
                    out["drift"] += 1
                    info.setdefault("drift_example", str(pth["drift"][0])[:300])
            out["paths"] += len(paths)
        finally:
            try:
                os.remove(dot)
            except OSError:
                pass
        out["scenarios"][s["id"]] = info
    return out


class _R:
    pass


def on_run_model(on_run, s, pth, what):
    r = _R()
    r.events = pth["events"]
    r.schedule = ["<%s>" % what] + pth.get("labels", [])[:0]
    r.crash = None
    r.notes = pth["notes"]
    r.error = None
    on_run(r, s)


def history_finale(w):
    """C09: read every execution's history through the real API, in both orders"""
    for arn in list(w.i0().engine.executions.keys()):
        st1, b1 = w.api("GetExecutionHistory", {"executionArn": arn})
        st2, b2 = w.api("GetExecutionHistory", {"executionArn": arn, "reverseOrder": True})
        f = b1.get("events", []) if isinstance(b1, dict) else []
        r = b2.get("events", []) if isinstance(b2, dict) else []
        w.rec.emit("histapi", exec=arn, status=st1 if st1 == st2 else 0, fwd=[e.get("id", -1) for e in f], rev=[e.get("id", -1) for e in r],
                   fwdtypes=[e.get("type", "") for e in f], revtypes=[e.get("type", "") for e in r])


def run(prop, tier_name=None, replay=None):
    t = get_tier(tier_name)
    thorough = t == "thorough"
    v = Verdict(prop, t)
    sd = get_seed()
    if replay:
        return replay_one(prop, replay, v)
    scns, failure_family = scenario_set(prop, thorough)
    dfs_budget = 1200 if thorough else 48
    n_random = 150 if thorough else 6
    work = os.path.join(RUN, "%s-%s" % (prop, t))
    os.makedirs(work, exist_ok=True)
    bws = [BatchWriter(os.path.join(work, "b%02d.ndjson" % i)) for i in range(NB)]
    meta = {}            # (batch path, tid) -> (scenario, schedule, crash)
    by_scn = {s["id"]: s for s in scns}
    counters = collections.Counter()
    distinct = set()
    relevant = set()
    kinds = collections.Counter()
    samples = []
    k = [0]
    complete = {}

    expect_cache = {}

    def expectations(s):
        """C05 "the same output under every order": for a plain machine (no paths, templates, Retry/Catch, scripted task
        outcomes) the States Language prescribes the output -- the positional join -- whatever the schedule"""
        if s["id"] not in expect_cache:
            out = []
            try:
                for st in s["starts"]:
                    m = next(x for x in s["machines"] if x["name"] == st["machine"])
                    if m.get("type", "STANDARD") != "STANDARD" or s.get("world", {}).get("hist_quota"):
                        raise S.NotPlain("express")
                    if not set(S.functions_of(m["asl"])) <= set(s.get("workers", [])):
                        raise S.NotPlain("a function nobody serves")
                    val = S.expected_output(m["asl"], st["input"], s.get("oracle"))
                    out.append({"k": "expect", "fr": 0, "t": 0, "exec": W.exec_arn(st["machine"], st["name"]), "status": "SUCCEEDED",
                                "output": json.dumps(val), "error": None, "strict": True})
            except (S.NotPlain, KeyError, StopIteration):
                out = []
            expect_cache[s["id"]] = out
        return expect_cache[s["id"]]

    def on_run(r, s):
        b = bws[k[0] % NB]
        k[0] += 1
        exp = expectations(s) if prop in ("C05", "C02") and not r.crash and not r.error else []
        tid = b.add_run(r.events + exp, s["id"])
        if exp:
            counters["runs_with_prescribed_output"] += 1
        meta[(b.path, tid)] = (s["id"], list(r.schedule), r.crash)
        counters["runs"] += 1
        key = (s["id"], tuple(r.schedule))
        distinct.add(key)
        fan = failed = False
        for e in r.events:
            kinds[e["k"]] += 1
            if e["k"] == "pub" and e.get("branch"):
                fan = True
            if e["k"] == "note" and e.get("status") == "FAILED":
                failed = True
        nontrivial = {"C05": fan, "C06": fan and failed}.get(prop, len(r.events) > 20)
        if nontrivial:
            relevant.add(key)
        if r.error:
            counters["escaped"] += 1
        if len(samples) < 6 and (nontrivial or len(samples) < 2) and not any(x["scenario"] == s["id"] for x in samples):
            samples.append({"scenario": s["id"], "schedule": list(r.schedule), "events": len(r.events),
                            "notifications": [n[1] for n in r.notes],
                            "machine": s["machines"][0]["asl"], "input": s["starts"][0]["input"]})

    for s in scns:
        if prop == "C09" and s.get("machines", [{}])[0].get("type", "STANDARD") == "STANDARD":
            on_run(run_once(s, finale=history_finale), s)
        n, done = explore_dfs(s, budget=dfs_budget, on_run=lambda r, s=s: on_run(r, s))
        complete[s["id"]] = done
        if not done:
            explore_random(s, n_random, sd * 7919 + hash(s["id"]) % 1000, on_run=lambda r, s=s: on_run(r, s))
    if thorough or prop in ("C09", "C02"):
        corpus = S.corpus_scenarios() if thorough else S.corpus_scenarios(inputs=({"lambda": "Success"},))
        for s in corpus:
            by_scn[s["id"]] = s
            on_run(run_once(s), s)
            if thorough:
                explore_random(s, 4, sd + 17, on_run=lambda r, s=s: on_run(r, s))
    t_explore = time.time() - v.t0
    try:
        mstats = model_stage(scns, thorough, on_run, work, prop)
        t_model = time.time() - v.t0 - t_explore
    except tlc.TLCError as ex:
        v.machinery_failure(str(ex)[:1500])
        return v.finish()
    for b in bws:
        b.close()
    batches = [b.path for b in bws if b.lines]
    try:
        fails, stats = tlc.check_traces(batches)
    except tlc.TLCError as ex:
        v.machinery_failure(str(ex)[:1500])
        return v.finish()
    mine, mine_fail = CLAUSES[prop]
    nfail = collections.Counter()
    for f in fails:
        sid, sched, crash = meta[(f["batch"], f["tid"])]
        label = f["prop"]
        if label == "ENV":
            v.machinery_failure("simulator disagrees with Broker.tla: %s in %s schedule=%s line %s" % (f["clause"], sid, sched, f["n"]))
            continue
        full = label + ":" + f["clause"].split(":")[0]
        relevant_here = label in mine or full in mine or (
            sid in failure_family and (label in mine_fail or full in mine_fail))
        if not relevant_here:
            continue
        nfail[(f["clause"], f["kf"])] += 1
        if f["kf"]:
            v.known_finding(f["kf"])
        else:
            v.violation({"property": prop, "scenario": by_scn[sid], "schedule": sched, "crash": crash,
                         "clause": f["clause"], "line": f["n"], "witness": f["w"]},
                        "%s in scenario %s schedule=%s line=%s %s" % (f["clause"], sid, sched, f["n"], f["w"][:160]))
    v.coverage = {
        "states": stats["states"] + mstats["states"], "transitions": stats["transitions"] + mstats["transitions"],
        "model": {"engine_states_all_schedules": mstats["states"], "paths_replayed_into_real_engine": mstats["paths"],
                  "paths_with_drift": mstats["drift"], "counterexamples_replayed": mstats["leads"],
                  "per_scenario": mstats["scenarios"], "unsupported_by_model": mstats["unsupported"]},
        "traces_validated_against_impl": counters["runs"],
        "evaluations": counters["runs"], "distinct_nontrivial": len(relevant),
        "rule": "one evaluation = one run of the real engine (scenario x schedule) recorded and validated line by line by TLC "
                "against Trace.tla/Props.tla; distinct = distinct (scenario, schedule) pairs; non-trivial = "
                + {"C05": "the run contains a fan-out (an event published with a branch stack)",
                   "C06": "the run contains a fan-out and a FAILED notification"}.get(prop, "the trace has more than 20 events"),
        "samples": samples,
        "scenarios": len(scns), "scenarios_exhaustive": sorted(s for s, d in complete.items() if d),
        "scenarios_truncated": sorted(s for s, d in complete.items() if not d),
        "exhaustive": False,
        "trace_lines": stats["lines"], "clause_evaluation_points": {kk: kinds[kk] for kk in ("frame", "pub", "ack", "note", "rec", "hist", "end", "quiesce")},
        "failed_clauses": {"%s|%s" % kk: n for kk, n in nfail.items()},
        "escaped_exceptions": counters["escaped"],
        "tlc_cpu_s": stats["tlc_cpu_s"],
        "stage_wall_s": {"explore_real_engine": round(t_explore, 1), "model_check_and_replay": round(t_model, 1)},
    }
    v.assumptions = ["the simulated broker implements spec/Broker.tla (checked on every trace: ENV clauses)",
                     "frames are sequentialised: one handler at a time per world",
                     "virtual clock; heartbeats between two instants are fast-forwarded except every 60th"]
    rc = v.finish()
    if rc == 0:
        for b in batches:
            try:
                os.remove(b)
            except OSError:
                pass
    return rc


def replay_one(prop, path, v):
    with open(path) as f:
        rp = json.load(f)
    s = rp["scenario"]
    r = run_once(s, schedule=rp.get("schedule", []), crash=rp.get("crash"))
    work = os.path.join(RUN, "%s-replay" % prop)
    os.makedirs(work, exist_ok=True)
    b = BatchWriter(os.path.join(work, "r.ndjson"))
    b.add_run(r.events, s["id"])
    b.close()
    fails, stats = tlc.check_traces([b.path])
    mine, mine_fail = CLAUSES.get(prop, ({prop}, set()))
    for f in fails:
        print("  line %s %s %s kf=%s %s" % (f["n"], f["prop"], f["clause"], f["kf"] or "-", f["w"][:200]))
        if f["prop"] in mine and not f["kf"]:
            v.violation(rp, f["clause"])
        elif f["prop"] in mine:
            v.known_finding(f["kf"])
    v.coverage = {"states": stats["states"], "transitions": stats["transitions"], "traces_validated_against_impl": 1,
                  "samples": [{"scenario": s["id"], "schedule": rp.get("schedule", [])}]}
    return v.finish()


if __name__ == "__main__":
    import argparse
    ap = argparse.ArgumentParser()
    ap.add_argument("prop")
    ap.add_argument("--tier")
    ap.add_argument("--replay")
    a = ap.parse_args()
    sys.exit(run(a.prop, a.tier, a.replay))
