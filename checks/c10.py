"""C10: the state-machine and execution API behaves like a simple keyed store.

(i)   TLC explores the reference model spec/Api.tla exhaustively (spec/MC_Api.tla), checks its
      invariants and action properties and dumps the labelled state graph;
(ii)  a set of paths from the initial state covering the edges of that graph is computed
      (greedy: nearest uncovered edge, then extend; all edges at thorough, a seeded sample of
      the self-loops at quick);
(iii) every path is replayed call by call into a FRESH real world (the real REST front ends,
      stores and engine of $LSF_REPO running in-process), on the asyncio front end and -- for
      what both implement -- on the blocking one, with the stores snapshotted around each call;
(iv)  TLC judges every replayed path with spec/JudgeC10.tla, which replays the model along the
      path and recomputes the admissible response of every call.
"""
import collections
import json
import multiprocessing
import os
import random
import re
import sys
import time

from common import Verdict, tier as get_tier, seed as get_seed, RUN
import judge

from vsim import tlc

# ------------------------------------------------------------------------------------------
# pool symbols -> concrete request JSON
ACCOUNT = "0123456789"
# (n1 is a strict prefix of n2 on purpose: a keyed store must not confuse "alpha" with "alpha-2" -- prefix scans, startswith filters)
NAME = {"n1": "alpha", "n2": "alpha-2", "n_empty": "", "n_long": "x" * 81, "n_char": "al?pha"}
ROLE = {"r1": "arn:aws:iam::%s:role/r1" % ACCOUNT, "r2": "arn:aws:iam::%s:role/service-role/r2" % ACCOUNT,
        "r_bad": "arn:aws:iam:role"}


def sm_arn(name):
    return "arn:aws:states:local:%s:stateMachine:%s" % (ACCOUNT, name)


def exec_arn(sm_name, name):
    return "arn:aws:states:local:%s:execution:%s:%s" % (ACCOUNT, sm_name, name)


MARN = {"a1": sm_arn("alpha"), "a2": sm_arn("alpha-2"), "a_ghost": sm_arn("ghost"), "a_bad": "arn:aws:states:stateMachine"}
ENAME = {"e1": "exec-1", "e_bad": "bad name?"}
XARN = {"x11": exec_arn("alpha", "exec-1"), "x21": exec_arn("alpha-2", "exec-1"),
        "x_ghost": exec_arn("alpha", "nobody"), "x_bad": "arn:aws:states:execution"}
DEF_OBJ = {"d1": {"StartAt": "W", "States": {"W": {"Type": "Wait", "Seconds": 10, "End": True}}},
           "d2": {"Comment": "second version", "StartAt": "W", "States": {"W": {"Type": "Wait", "Seconds": 10, "End": True}}}}
_BIG = dict(DEF_OBJ["d1"], Comment="c" * 1048600)
DEF = {"d1": json.dumps(DEF_OBJ["d1"]), "d2": json.dumps(DEF_OBJ["d2"]), "d_json": "{\"StartAt\": \"W\", ",
       "d_empty": "", "d_big": json.dumps(_BIG), "d_obj": DEF_OBJ["d1"]}
TYPE = {"STANDARD": "STANDARD", "EXPRESS": "EXPRESS", "t_bogus": "BOGUS"}
LOG_ALL = {"level": "ALL", "includeExecutionData": True,
           "destinations": [{"cloudWatchLogsLogGroup": {"logGroupArn": "arn:aws:logs:local:%s:log-group:lg:*" % ACCOUNT}}]}
LOG = {"l_off": {"level": "OFF"}, "l_all": LOG_ALL, "l_level": {"level": "LOUD"}, "l_nodest": {"level": "ALL"}, "l_str": "ALL"}
INPUT_OBJ = {"k": [1, "two", None]}
INPUT = {"i1": json.dumps(INPUT_OBJ), "i_json": "{\"k\": ", "i_num": 5}
FILTER = {"RUNNING": "RUNNING", "SUCCEEDED": "SUCCEEDED", "f_bogus": "SLEEPING"}
RAW_BODY = {"b_text": "this is not json", "b_array": "[1, 2]"}

ARN2SYM = {v: k for k, v in MARN.items()}
ARN2SYM.update({v: k for k, v in XARN.items()})
NAME2SYM = {"alpha": "n1", "alpha-2": "n2", "exec-1": "e1"}
ROLE2SYM = {ROLE["r1"]: "r1", ROLE["r2"]: "r2"}

FIELDS = "anrmdtlbfexi"          # order of the fields of spec/Api.tla Call(...)
PARAMS = {"Create": "nrdtlb", "Update": "mrdlb", "Delete": "mb", "Describe": "mb", "DescribeForExec": "xb",
          "ListMachines": "b", "Start": "meib", "DescribeExec": "xb", "ListExecs": "mfb", "EngineRuns": ""}
API = {"Create": "CreateStateMachine", "Update": "UpdateStateMachine", "Delete": "DeleteStateMachine",
       "Describe": "DescribeStateMachine", "DescribeForExec": "DescribeStateMachineForExecution",
       "ListMachines": "ListStateMachines", "Start": "StartExecution", "DescribeExec": "DescribeExecution",
       "ListExecs": "ListExecutions"}
READS = {"Describe", "DescribeForExec", "ListMachines", "DescribeExec", "ListExecs"}


def call_record(name, args):
    c = {k: "" for k in "nrmdtlbfexi"}
    c["a"] = name
    for k, v in zip(PARAMS[name], args):
        c[k] = v
    if name == "EngineRuns":
        c["b"] = "b_ok"
    return c


def call_label(c):
    return "%s(%s)" % (c["a"], ",".join(c[k] for k in PARAMS[c["a"]]))


def request_of(c):
    """(API action, request body text) of a call record."""
    if c["b"] != "b_ok":
        return API[c["a"]], RAW_BODY[c["b"]]
    a, p = c["a"], {}
    if a == "Create":
        p["name"] = NAME[c["n"]]
        if c["r"] != "r_none":
            p["roleArn"] = ROLE[c["r"]]
        p["definition"] = DEF[c["d"]]
        if c["t"] != "t_none":
            p["type"] = TYPE[c["t"]]
        if c["l"] != "l_none":
            p["loggingConfiguration"] = LOG[c["l"]]
    elif a == "Update":
        if c["m"] != "a_none":
            p["stateMachineArn"] = MARN[c["m"]]
        if c["r"] != "r_none":
            p["roleArn"] = ROLE[c["r"]]
        if c["d"] != "d_none":
            p["definition"] = DEF[c["d"]]
        if c["l"] != "l_none":
            p["loggingConfiguration"] = LOG[c["l"]]
    elif a in ("Delete", "Describe"):
        if c["m"] != "a_none":
            p["stateMachineArn"] = MARN[c["m"]]
    elif a in ("DescribeForExec", "DescribeExec"):
        if c["x"] != "x_none":
            p["executionArn"] = XARN[c["x"]]
    elif a == "Start":
        if c["m"] != "a_none":
            p["stateMachineArn"] = MARN[c["m"]]
        p["name"] = ENAME[c["e"]]
        p["input"] = INPUT[c["i"]]
    elif a == "ListExecs":
        if c["m"] != "a_none":
            p["stateMachineArn"] = MARN[c["m"]]
        if c["f"] != "f_none":
            p["statusFilter"] = FILTER[c["f"]]
    return API[a], json.dumps(p)


# ------------------------------------------------------------------------------------------
# (i) the model
def run_model(workdir, dump=True, timeout=600):
    os.makedirs(workdir, exist_ok=True)
    dot = os.path.join(workdir, "MC_Api.dot")
    if os.path.exists(dot):
        os.remove(dot)
    extra = ["-fp", "1"] + (["-dump", "dot,actionlabels", dot] if dump else [])
    r = tlc.run_tlc("MC_Api.tla", "MC_Api.cfg", workers=4, timeout=timeout, extra=extra, heap="2g")
    ok = "Model checking completed. No error has been found." in r["out"]
    return ok, r, dot


EDGE = re.compile(r'^(-?\d+) -> (-?\d+) \[label="(.*)",color=')
NODE = re.compile(r'^(-?\d+) \[label=')


class Graph:
    def __init__(self):
        self.idx = {}            # TLC node id -> index
        self.out = []            # index -> [(cid, v)]
        self.calls = []          # cid -> call record
        self.cidx = {}           # label -> cid
        self.init = None
        self.nedges = 0

    def node(self, n):
        i = self.idx.get(n)
        if i is None:
            i = self.idx[n] = len(self.out)
            self.out.append([])
        return i

    def call(self, label):
        ci = self.cidx.get(label)
        if ci is None:
            label_ = label.replace('\\"', '"')
            name = label_.split("(", 1)[0].strip()
            args = re.findall(r'"([^"]*)"', label_[len(name):])
            if name not in PARAMS or len(args) != len(PARAMS[name]):
                raise ValueError("unexpected edge label in the TLC dump: %r" % label)
            ci = self.cidx[label] = len(self.calls)
            self.calls.append(call_record(name, args))
        return ci


def parse_dot(path):
    """The labelled state graph TLC dumped.  Node and call numbering is canonical (by TLC's state
    fingerprint and by label), so that it does not depend on the order in which TLC's workers
    happened to write the file: the path cover is a function of the graph and VERIF_SEED only."""
    raw = Graph()
    seen = set()
    edges = []
    init = None
    with open(path) as f:
        for line in f:
            m = EDGE.match(line)
            if m:
                key = (m.group(1), m.group(3))
                if key not in seen:
                    seen.add(key)
                    edges.append((m.group(1), m.group(2), m.group(3)))
                continue
            m = NODE.match(line)
            if m and init is None and "style = filled" in line:
                init = m.group(1)
    if init is None:
        raise ValueError("no initial state in the TLC dump")
    g = Graph()
    names = sorted({e[0] for e in edges} | {e[1] for e in edges} | {init}, key=int)
    for n in names:
        g.node(n)
    for lab in sorted({e[2] for e in edges}):
        g.call(lab)
    for (u, v, lab) in edges:
        g.out[g.idx[u]].append((g.cidx[lab], g.idx[v]))
        g.nedges += 1
    g.init = g.idx[init]
    for u in range(len(g.out)):
        g.out[u].sort()
    return g


# ------------------------------------------------------------------------------------------
# (ii) the edge cover
def bfs_all(g, banned):
    """dist[u][v], parent[u][v] over the state-changing edges whose call is not banned."""
    n = len(g.out)
    succ = []
    for u in range(n):
        s = sorted({v for ci, v in g.out[u] if v != u and ci not in banned})
        succ.append(s)
    dist, par = [], []
    for s in range(n):
        d = [-1] * n
        p = [-1] * n
        d[s] = 0
        q = collections.deque([s])
        while q:
            u = q.popleft()
            for v in succ[u]:
                if d[v] < 0:
                    d[v] = d[u] + 1
                    p[v] = u
                    q.append(v)
        dist.append(d)
        par.append(p)
    return dist, par


def cover(g, targets, cap, terminal, max_calls):
    """Greedy path cover of the target edges {(u, cid)}.  `terminal`: calls after which a path must
    end (the real world is known to leave the model there).  Returns the paths, each a list of
    (u, cid), and the set of edges they traverse."""
    n = len(g.out)
    dist, par = bfs_all(g, terminal)
    d0 = dist[g.init]
    nxt = [dict(g.out[u]) for u in range(n)]            # cid -> v
    between = [collections.defaultdict(list) for _ in range(n)]
    for u in range(n):
        for ci, v in g.out[u]:
            if v != u and ci not in terminal:
                between[u][v].append(ci)

    def rank(u, ci):
        c = g.calls[ci]
        v = nxt[u][ci]
        return (ci in terminal, v != u, c["a"] not in READS, ci)
    pend = [[] for _ in range(n)]
    for (u, ci) in targets:
        if d0[u] >= 0 and d0[u] + 1 <= cap:
            pend[u].append(ci)
    for u in range(n):
        pend[u].sort(key=lambda ci: rank(u, ci), reverse=True)       # pop() takes the best
    cnt = [len(p) for p in pend]
    active = {u for u in range(n) if cnt[u]}
    covered = set()
    traversed = set()
    paths, calls = [], 0

    def take(u, terminal_ok):
        """next uncovered target at u (None if none; terminal ones only if terminal_ok)"""
        p = pend[u]
        while p and (u, p[-1]) in covered:
            p.pop()
        if not p:
            return None
        if p[-1] in terminal and not terminal_ok:
            return None
        return p.pop()

    def mark(u, ci):
        traversed.add((u, ci))
        if (u, ci) in targets and (u, ci) not in covered:
            covered.add((u, ci))
            cnt[u] -= 1
            if cnt[u] <= 0:
                active.discard(u)

    def walk(path, a, b):
        """append the hops of a shortest way a -> b"""
        hops = []
        x = b
        while x != a:
            hops.append((par[a][x], x))
            x = par[a][x]
        for (s, t) in reversed(hops):
            cands = between[s][t]
            ci = next((c for c in cands if (s, c) in targets and (s, c) not in covered), cands[0])
            path.append((s, ci))
            mark(s, ci)

    by_depth = sorted(range(n), key=lambda u: (d0[u] if d0[u] >= 0 else 1 << 30, u))
    while active and calls < max_calls:
        start = next((u for u in by_depth if u in active and d0[u] + 1 <= cap), None)
        if start is None:
            break
        path = []
        before = len(covered)
        walk(path, g.init, start)
        cur = start
        ended = False
        while len(path) < cap and not ended:
            last = len(path) == cap - 1
            ci = take(cur, terminal_ok=last)
            if ci is None and not last:
                # nearest other node that still has targets and leaves room for one of them
                room = cap - len(path) - 1
                best = None
                for w in active:
                    dw = dist[cur][w]
                    if w != cur and 0 < dw <= room and (best is None or (dw, w) < best):
                        best = (dw, w)
                if best is not None:
                    walk(path, cur, best[1])
                    cur = best[1]
                    continue
                ci = take(cur, terminal_ok=True)
            if ci is None:
                break
            path.append((cur, ci))
            mark(cur, ci)
            if ci in terminal:
                ended = True
            cur = nxt[cur][ci]
        if len(covered) == before:          # cannot happen; never loop for ever
            active.discard(start)
            continue
        paths.append(path)
        calls += len(path)
    return paths, traversed, covered


# ------------------------------------------------------------------------------------------
# (iii) replay on the real code
B0 = {"fields": [], "arn": "", "name": "", "def": "", "role": "", "typ": "", "log": "", "status": "", "input": "",
      "smarn": "", "updated": False, "upinc": False, "items": []}
ECHO0 = {"st": 0, "ty": "", "b": B0}
NOB = {"st": 0}      # placeholder where the judge never looks (a refused call has no body to compare)
_REQ = {}            # cid -> (action, body text); filled by the parent before the workers fork
_CALLS = []


def _sym(table, v):
    if v is None:
        return ""
    return table.get(v, "?") if isinstance(v, str) else "?"


def _num(v):
    return isinstance(v, (int, float)) and not isinstance(v, bool)


def project(body):
    """Normalised projection of a response body: what the statement fixes, as pool symbols."""
    b = dict(B0, items=[], fields=[])
    if not isinstance(body, dict):
        return b
    b["fields"] = sorted(str(k) for k in body.keys())
    if "executionArn" in body:
        b["arn"] = _sym(ARN2SYM, body.get("executionArn"))
        b["smarn"] = _sym(ARN2SYM, body.get("stateMachineArn"))
    elif "stateMachineArn" in body:
        b["arn"] = _sym(ARN2SYM, body.get("stateMachineArn"))
    if "name" in body:
        b["name"] = _sym(NAME2SYM, body.get("name"))
    if "definition" in body:
        b["def"] = "?"
        try:
            d = json.loads(body["definition"])
            b["def"] = next((k for k, v in DEF_OBJ.items() if v == d), "?")
        except Exception:
            pass
    if "roleArn" in body:
        b["role"] = _sym(ROLE2SYM, body.get("roleArn"))
    if "type" in body:
        b["typ"] = body["type"] if isinstance(body["type"], str) else "?"
    if "loggingConfiguration" in body:
        lc = body["loggingConfiguration"]
        b["log"] = "OFF" if lc == {"level": "OFF"} else "ALL" if lc == LOG_ALL else "?"
    if "status" in body:
        b["status"] = body["status"] if isinstance(body["status"], str) else "?"
    if "input" in body:
        b["input"] = "?"
        try:
            if json.loads(body["input"]) == INPUT_OBJ:
                b["input"] = "i1"
        except Exception:
            pass
    if _num(body.get("creationDate")) and _num(body.get("updateDate")):
        b["updated"] = body["updateDate"] > body["creationDate"]
    for key in ("stateMachines", "executions"):
        if isinstance(body.get(key), list):
            for it in body[key]:
                if not isinstance(it, dict):
                    b["items"].append({"arn": "?", "name": "?", "typ": "?", "status": "?", "smarn": "?"})
                elif key == "stateMachines":
                    b["items"].append({"arn": _sym(ARN2SYM, it.get("stateMachineArn")), "name": _sym(NAME2SYM, it.get("name")),
                                       "typ": it.get("type") if isinstance(it.get("type"), str) else "?", "status": "", "smarn": ""})
                else:
                    b["items"].append({"arn": _sym(ARN2SYM, it.get("executionArn")), "name": _sym(NAME2SYM, it.get("name")),
                                       "typ": "", "status": it.get("status") if isinstance(it.get("status"), str) else "?",
                                       "smarn": _sym(ARN2SYM, it.get("stateMachineArn"))})
    return b


def _snapshot(w):
    e = w.i0().engine
    out = {}
    for tag, store in (("m", e.asl_store), ("x", e.executions)):
        for k in list(store.keys()):
            out[(tag, k)] = json.dumps(store[k] if isinstance(store[k], dict) else dict(store[k]), sort_keys=True, default=repr)
    return out


def _changed(before, after):
    keys = sorted(k for k in set(before) | set(after) if before.get(k) != after.get(k))
    return [ARN2SYM.get(k[1], "?") for k in keys]


_RUNDIR = [None]      # where the fresh worlds keep their state-machine store file (run/C10-<tier>/)


def replay_path(cids, front, W):
    """Drive one path through a fresh world.  Returns (steps, truncated_at or None)."""
    if _RUNDIR[0]:
        W.RUN = _RUNDIR[0]
    w = W.World(1, tag="c10")
    w.rec.enabled = False
    steps = []
    base = {}                 # machine symbol -> last updateDate seen through the API
    truncated = None
    try:
        snap = _snapshot(w)
        for k, ci in enumerate(cids):
            c = _CALLS[ci]
            if c["a"] == "EngineRuns":
                w.run()
                snap = _snapshot(w)
                steps.append({"c": ci + 1, "st": 200, "ty": "", "same": True, "chg": [], "b": NOB, "echo": NOB})
                continue
            action, text = _REQ[ci]
            W.CLOCK.now += 0.001
            st, body = w.api(action, None, raw=text, front=front)
            after = _snapshot(w)
            chg = _changed(snap, after)
            queued = bool(w.enabled())
            ty = body.get("__type", "") if isinstance(body, dict) else ""
            ty = ty if isinstance(ty, str) else "?"
            b = project(body)
            ok = 200 <= st < 300 and ty == ""
            echo = ECHO0
            if ok and c["a"] in ("Create", "Update", "Delete") and c["b"] == "b_ok":
                msym = ("a1" if c["n"] == "n1" else "a2" if c["n"] == "n2" else "") if c["a"] == "Create" else c["m"]
                arn = MARN.get(msym) or (body.get("stateMachineArn") if isinstance(body, dict) else None)
                if isinstance(arn, str):
                    est, eb = w.api("DescribeStateMachine", {"stateMachineArn": arn}, front=front)
                    ety = eb.get("__type", "") if isinstance(eb, dict) else ""
                    echo = {"st": est, "ty": ety if isinstance(ety, str) else "?", "b": project(eb)}
                    eu = eb.get("updateDate") if isinstance(eb, dict) else None
                    if c["a"] == "Update":
                        u = body.get("updateDate") if isinstance(body, dict) else None
                        b["upinc"] = bool(_num(u) and _num(base.get(msym)) and u > base[msym] and eu == u)
                    if _num(eu):
                        base[msym] = eu
            if ok and c["a"] == "Start":
                for _ in range(50):
                    en = w.enabled()
                    if not en:
                        break
                    w.do(en[0])
                after = _snapshot(w)
            same = (not chg) and not (queued and not ok)
            steps.append({"c": ci + 1, "st": int(st), "ty": ty, "same": same, "chg": chg,
                          "b": b if ok else NOB, "echo": echo if echo is not ECHO0 else NOB})
            snap = after
            if st >= 400 and not same:
                truncated = k          # the real store no longer is what the model thinks: end the path here
                break
    finally:
        w.close()
    return steps, truncated


_LINT = []


def _share_statelint():
    """RestAPI.__init__ builds a StateLint validator (parsing its grammar takes ~10 ms).  A server
    builds it once for its lifetime; so does each replay process: the stateless validator object is
    shared by the fresh worlds."""
    if _LINT:
        return
    try:
        import asl_workflow_engine.rest_api_asyncio as ra
        orig = ra.StateLint
        inst = orig()
        ra.StateLint = lambda: inst
        _LINT.append(inst)
    except Exception:
        _LINT.append(None)


def _work(batch):
    from vsim import world as W
    _share_statelint()
    out = []
    for (oid, front, cids) in batch:
        try:
            steps, trunc = replay_path(cids, front, W)
            out.append((oid, steps, trunc, None))
        except BaseException as ex:            # a harness failure, reported as such
            import traceback
            out.append((oid, [], None, "%s: %s\n%s" % (type(ex).__name__, ex, traceback.format_exc()[-1500:])))
    return out


def warm_up():
    """Import the engine, both REST front ends and build the shared StateLint in the parent, so that the
    forked replay processes inherit them instead of importing everything again (1-2 s each)."""
    from vsim import world as W          # noqa: F401  (sets up sys.path, the fake pika, the virtual clock)
    _share_statelint()
    try:
        import asl_workflow_engine.rest_api          # noqa: F401
    except Exception:
        pass


def free_cores(lo=4, hi=12):
    """How many processes to use: on a machine that is already saturated more processes only add
    contention (measured: 14 processes slower than 4 at load 50 on 16 cores)."""
    try:
        free = (os.cpu_count() or 8) - os.getloadavg()[0]
    except OSError:
        free = 8
    return int(max(lo, min(hi, free)))


def replay_all(tasks, nproc=None):
    """tasks: [(oid, front, [cid])] -> {oid: (steps, truncated, error)}"""
    if not tasks:
        return {}
    warm_up()
    nproc = nproc or free_cores()
    res = {}
    if len(tasks) < 40 or nproc <= 1:
        for r in _work(tasks):
            res[r[0]] = r[1:]
        return res
    size = max(20, min(400, len(tasks) // (nproc * 4) + 1))
    batches = [tasks[i:i + size] for i in range(0, len(tasks), size)]
    ctx = multiprocessing.get_context("fork")
    with ctx.Pool(nproc) as pool:
        for chunk in pool.imap_unordered(_work, batches):
            for r in chunk:
                res[r[0]] = r[1:]
    return res


def install_calls(calls):
    global _CALLS
    _CALLS = calls
    _REQ.clear()
    for ci, c in enumerate(calls):
        if c["a"] != "EngineRuns":
            _REQ[ci] = request_of(c)


# ------------------------------------------------------------------------------------------
def blocking_prefix(calls, cids):
    """The blocking front end does not implement loggingConfiguration: the longest prefix of the
    path that does not supply one is what both front ends share."""
    out = []
    for ci in cids:
        c = calls[ci]
        if c["a"] in ("Create", "Update") and c["b"] == "b_ok" and c["l"] != "l_none":
            break
        out.append(ci)
    return out


def judge_paths(obs, calls, workdir, parts=16):
    os.makedirs(workdir, exist_ok=True)
    cpath = os.path.join(workdir, "calls.json")
    with open(cpath, "w") as f:
        json.dump({"calls": calls}, f)
    try:
        return judge.run_judge("JudgeC10", obs, workdir, parts=parts, env={"C10_CALLS": cpath})
    finally:
        try:
            os.remove(cpath)
        except OSError:
            pass


def digest(v, fails, obs_by_id, calls, replay_of=None):
    """Turn the judge's failure list into verdict lines.  Returns (judged, skipped, clause counts).
    replay_of: the replay file being re-judged (it stays the reproducer; no new file is written)."""
    judged = skipped = 0
    cl = collections.Counter()
    for f in fails:
        if f["clause"] == "known":
            v.known[f["kf"]] = v.known.get(f["kf"], 0) + f["n"]
            cl["known|" + f["kf"]] += f["n"]
        elif f["clause"] == "stats":
            judged += f["n"]
            skipped += f["step"]
        elif f["clause"].startswith("Machinery"):
            o = obs_by_id[f["id"]]
            v.machinery_failure("%s at step %d of path %s" % (f["clause"], f["step"], [call_label(calls[s["c"] - 1]) for s in o["steps"]]))
        else:
            o = obs_by_id[f["id"]]
            k = f["step"]
            cs = [calls[s["c"] - 1] for s in o["steps"][:k]]
            cl[f["clause"] + "|"] += 1
            st = o["steps"][k - 1]
            text = "%s: %s front, after %s the call %s was answered %s %s (stores %s)" % (
                f["clause"], o["front"], [call_label(c) for c in cs[:-1]], call_label(cs[-1]), st["st"],
                st["ty"] or json.dumps(st["b"])[:160], "unchanged" if st["same"] else "changed: %s" % st["chg"])
            if replay_of:
                v.violations.append((replay_of, text))
            else:
                v.violation({"property": "C10", "front": o["front"], "calls": cs, "labels": [call_label(c) for c in cs],
                             "step": k, "clause": f["clause"], "observed": st}, text)
    return judged, skipped, cl


def run_replay(v, path):
    rp = json.load(open(path))
    calls = rp["calls"]
    install_calls(calls)
    _RUNDIR[0] = os.path.join(RUN, "C10-replay")
    os.makedirs(_RUNDIR[0], exist_ok=True)
    from vsim import world as W
    _share_statelint()
    steps, trunc = replay_path(list(range(len(calls))), rp.get("front", "asyncio"), W)
    for c, s in zip(calls, steps):
        print("   %-60s -> %s %s %s" % (call_label(c), s["st"], s["ty"], "" if s["same"] else "stores changed: %s" % s["chg"]))
    obs = [{"id": 1, "pid": 0, "front": rp.get("front", "asyncio"), "steps": steps}]
    fails, stats = judge_paths(obs, calls, os.path.join(RUN, "C10-replay"))
    judged, skipped, cl = digest(v, fails, {1: obs[0]}, calls, replay_of=path)
    v.coverage = {"states": stats["states"] or 1, "transitions": max(stats["transitions"], 1),
                  "traces_validated_against_impl": 1, "evaluations": judged, "samples": [rp.get("labels")]}
    return v.finish()


def run(tier_name=None, replay=None):
    t = get_tier(tier_name)
    thorough = t == "thorough"
    v = Verdict("C10", t)
    if replay:
        try:
            return run_replay(v, replay)
        except Exception as ex:
            v.machinery_failure("replay failed: %r" % (ex,))
            return v.finish()
    seed = get_seed()
    rng = random.Random(seed * 7919 + 10)
    work = os.path.join(RUN, "C10-" + t)
    cap = 10 if thorough else 6
    max_calls = 900000 if thorough else 12000
    sample_selfloops = 400000 if thorough else 3600
    max_big = 3000 if thorough else 60
    timing = {}
    # (i) the model, exhaustively
    t0 = time.time()
    dot = None
    try:
        ok, r, dot = run_model(work)
        if not ok:
            v.machinery_failure("TLC on MC_Api: the reference model violates its own invariants or did not finish:\n" + r["out"][-1500:])
            return v.finish()
        g = parse_dot(dot)
    except Exception as ex:
        v.machinery_failure("model exploration failed: %r" % (ex,))
        return v.finish()
    finally:
        if dot and os.path.exists(dot):
            os.remove(dot)
    timing["model_s"] = round(time.time() - t0, 1)
    calls = g.calls
    install_calls(calls)
    _RUNDIR[0] = work
    # (ii) targets and cover, (iii) replay -- in rounds: a call after which the real store is known
    # to have left the model (an error answer that changed a record) may only END a path
    t0 = time.time()
    all_edges = [(u, ci) for u in range(len(g.out)) for ci, _ in g.out[u]]
    dist0, _ = bfs_all(g, set())
    d0 = dist0[g.init]
    reach = [e for e in all_edges if 0 <= d0[e[0]] and d0[e[0]] + 1 <= cap]
    nxt = [dict(o) for o in g.out]
    # targets: every state-changing edge, and the self-loops (refused calls, reads) -- all of them at
    # thorough, a sample drawn with VERIF_SEED at quick.  Requests over the 1 MiB definition quota cost
    # ~50 ms each: they get a bounded share.
    moving = [e for e in reach if nxt[e[0]][e[1]] != e[0]]
    loops = [e for e in reach if nxt[e[0]][e[1]] == e[0]]
    rng.shuffle(loops)
    big = [e for e in loops if calls[e[1]]["d"] == "d_big"][:max_big]
    small = [e for e in loops if calls[e[1]]["d"] != "d_big"]
    targets = set(moving) | set(small[:max(sample_selfloops - len(big), 0)]) | set(big)
    terminal = set()
    remaining = set(targets)
    done = {}                 # oid -> (front, cids, edges, steps)
    traversed_real = set()
    npaths = {"asyncio": 0, "blocking": 0}
    oid = 0
    errors = []
    budget = max_calls
    rounds = 0
    t_cover = t_replay = 0.0
    for rnd in range(4):
        if not remaining or budget <= 0:
            break
        rounds += 1
        tc = time.time()
        paths, _, _ = cover(g, remaining, cap, terminal, budget)
        t_cover += time.time() - tc
        if not paths:
            break
        tasks = []
        meta = {}
        for p in paths:
            oid += 1
            cids = [ci for _, ci in p]
            tasks.append((oid, "asyncio", cids))
            meta[oid] = p
        tr = time.time()
        res = replay_all(tasks)
        t_replay += time.time() - tr
        newterm = set()
        for o_, p in meta.items():
            steps, trunc, err = res[o_]
            if err:
                errors.append(err)
                continue
            n = len(steps)
            for e in p[:n]:
                traversed_real.add(e)
                remaining.discard(e)
            if trunc is not None and trunc < len(p) - 1:
                newterm.add(p[trunc][1])
            elif trunc is not None:
                newterm.add(p[trunc][1])
            done[o_] = ("asyncio", [ci for _, ci in p[:n]], p[:n], steps)
            budget -= n
            npaths["asyncio"] += 1
        if not (newterm - terminal):
            break
        terminal |= newterm
    if errors:
        v.machinery_failure("replay raised in the harness (%d paths): %s" % (len(errors), errors[0][:1200]))
        return v.finish()
    # the same paths on the blocking front end, as far as both front ends implement the calls
    seenp = set()
    tasks = []
    for o_ in sorted(done):
        front, cids, edges, steps = done[o_]
        pre = tuple(blocking_prefix(calls, cids))
        if pre and pre not in seenp:
            seenp.add(pre)
            oid += 1
            tasks.append((oid, "blocking", list(pre)))
    tr = time.time()
    res = replay_all(tasks)
    t_replay += time.time() - tr
    for (o_, front, cids) in tasks:
        steps, trunc, err = res[o_]
        if err:
            errors.append(err)
            continue
        done[o_] = ("blocking", cids[:len(steps)], None, steps)
        npaths["blocking"] += 1
    if errors:
        v.machinery_failure("replay raised in the harness (%d paths): %s" % (len(errors), errors[0][:1200]))
        return v.finish()
    timing["cover_s"] = round(t_cover, 1)
    timing["replay_s"] = round(t_replay, 1)
    # (iv) the judge
    t0 = time.time()
    obs = [{"id": o_, "pid": o_, "front": done[o_][0], "steps": done[o_][3]} for o_ in sorted(done)]
    obs_by_id = {o["id"]: o for o in obs}
    try:
        fails, stats = judge_paths(obs, calls, work, parts=free_cores(4, 16 if thorough else 8))
    except Exception as ex:
        v.machinery_failure(str(ex)[:1500])
        return v.finish()
    timing["judge_s"] = round(time.time() - t0, 1)
    judged, skipped, cl = digest(v, fails, obs_by_id, calls)
    ncalls = sum(len(o["steps"]) for o in obs)
    if judged + skipped != ncalls:
        v.machinery_failure("the judge accounted for %d + %d calls, %d were replayed" % (judged, skipped, ncalls))
    byaction = collections.Counter(calls[s["c"] - 1]["a"] for o in obs for s in o["steps"])
    bystatus = collections.Counter("%s %s" % (s["st"], s["ty"]) for o in obs for s in o["steps"])
    sample = [o for o in obs if len(o["steps"]) >= 4][:2]
    v.coverage = {
        "states": r["distinct"], "transitions": r["states"],
        "model": {"module": "MC_Api", "distinct_states": r["distinct"], "transitions_explored": r["states"],
                  "graph_nodes": len(g.out), "graph_edges": g.nedges, "distinct_calls": len(calls), "tlc_wall_s": round(r["wall"], 1),
                  "checked": "TypeOK, NoInternalError, ListsEnumerateLiveSet; action properties ErrorLeavesStore, CreateThenDescribe, "
                             "UpdateChangesOnlySupplied, DeleteVisibleAtOnce, StartedIsRunning, ReadsAreReads"},
        "traces_validated_against_impl": len(obs), "evaluations": judged, "calls_replayed": ncalls,
        "calls_skipped_after_divergence": skipped,
        "paths": npaths, "path_length_cap": cap, "rounds": rounds,
        "edges_total": g.nedges, "edges_within_cap": len(reach), "edge_targets": len(targets),
        "edge_targets_covered": len(targets - remaining), "edges_driven": len(traversed_real),
        "edge_coverage": round(len(traversed_real) / max(g.nedges, 1), 4),
        "edge_coverage_within_cap": round(len(traversed_real) / max(len(reach), 1), 4),
        "exhaustive": bool(len(traversed_real) == g.nedges),
        "distinct_nontrivial": len(traversed_real),
        "rule": "distinct edges (model state, call with all its arguments) of the MC_Api state graph that were driven through the real "
                "REST front end of a fresh world and judged; self-loops (refused calls, reads) count once per model state",
        "calls_by_action": dict(byaction), "answers": dict(bystatus.most_common(20)),
        "failed_clauses": dict(cl), "judge_states": stats["states"], "timing": timing,
        "end_only_calls": sorted(call_label(calls[ci]) for ci in terminal)[:40],
        "samples": [{"front": o["front"], "path": [call_label(calls[s["c"] - 1]) for s in o["steps"]],
                     "answers": ["%s %s" % (s["st"], s["ty"]) for s in o["steps"]]} for o in sample],
    }
    v.assumptions = [
        "the documented error type of each fault is as tabled in spec/Api.tla (…Faults operators); a call with several faults may be "
        "answered with the type of any of them; an empty name/definition may also count as MissingRequiredParameter",
        "left open (not driven): restarting an execution name in use, StartExecution on EXPRESS machines, UpdateStateMachine that supplies "
        "only a loggingConfiguration, the engine finishing an execution whose machine was deleted; undetermined (any answer but 5xx): "
        "malformed request bodies, a bogus statusFilter",
        "the blocking front end does not implement loggingConfiguration: paths are replayed there up to the first call that supplies one",
        "an execution becomes visible (RUNNING) when the engine has taken the start event off the queue: the harness delivers the "
        "enabled engine steps after every successful StartExecution and lets virtual time pass only at EngineRuns",
    ]
    return v.finish()


if __name__ == "__main__":
    sys.exit(run(*(sys.argv[1:2])))
