"""C08: waits and timeouts fire at the right instant, never early; every RFC 3339 timestamp
denotes its true instant.  Observations of the real parser and of real engine runs under
virtual time, judged by TLC with spec/Timestamps.tla (spec/JudgeC08.tla)."""
import collections
import datetime as dt
import json
import os
import random
import sys

from common import Verdict, tier as get_tier, seed as get_seed, RUN
import judge

from vsim import tagged
from vsim import world as W
from vsim.explore import setup_world, do_starts
from vsim import scenarios as S

import asl_workflow_engine.state_engine as se

UTC = dt.timezone.utc
EPOCH = dt.datetime(1970, 1, 1, tzinfo=UTC)
BASE_INSTANT = [int(W.T0 // 86400), int(W.T0 % 86400), 0]      # the instant of virtual t = 0


def instant_of(d):
    d = d.astimezone(UTC)
    days = (d.date() - EPOCH.date()).days
    return [days, d.hour * 3600 + d.minute * 60 + d.second, d.microsecond]


def ts_obs(oid, text):
    try:
        out = {"kind": "instant", "i": instant_of(se.parse_rfc3339_datetime(text))}
    except Exception as ex:
        out = {"kind": "exc", "i": [0, 0, 0], "cls": type(ex).__name__}
    out.setdefault("cls", "")
    return {"id": oid, "kind": "ts", "s": tagged.chars(text), "text": text, "out": out, "ref": reference_instant(text)}


def reference_instant(text):
    """an independent reading of the text (datetime.fromisoformat), to cross-check Timestamps!Instant"""
    t = text
    if t[-1] in "Zz":
        t = t[:-1] + "+00:00"
    body, off = t[:-6], t[-6:]
    if "." in body:
        a, b = body.split(".")
        body = a + "." + (b + "000000")[:6]
    return instant_of(dt.datetime.fromisoformat(body + off))


def timestamp_cases(thorough):
    bases = ["2020-02-29T00:00:00", "1999-12-31T23:59:59", "2037-01-01T12:30:15", "1970-01-01T00:00:00"]
    fracs = ["", ".5", ".123456", ".123456789", ".000001", ".999999999999"]
    out = []
    for b in bases:
        for sign in "+-":
            for hh in range(24):
                for mm in range(60):
                    fs = fracs if (hh, mm) in ((5, 30), (0, 0), (23, 59), (3, 45), (9, 7)) else [""]
                    for fr in fs:
                        out.append("%s%s%s%02d:%02d" % (b, fr, sign, hh, mm))
        for z in ("Z", "z"):
            for fr in fracs:
                out.append(b + fr + z)
    if not thorough:
        # all offsets for two bases, a sample for the others
        keep = []
        for i, s in enumerate(out):
            if s.startswith(bases[0]) or s.startswith(bases[1]) or i % 7 == 0 or s[-1] in "Zz":
                keep.append(s)
        out = keep
    return out


def offset_text(epoch_s, off_min, frac=""):
    """the instant epoch_s written in the offset off_min (minutes east of UTC)"""
    tz = dt.timezone(dt.timedelta(minutes=off_min))
    d = dt.datetime.fromtimestamp(epoch_s, tz)
    sign = "+" if off_min >= 0 else "-"
    a = abs(off_min)
    return d.strftime("%Y-%m-%dT%H:%M:%S") + frac + "%s%02d:%02d" % (sign, a // 60, a % 60)


class Drive:
    """Runs a scenario step by step so that single deliveries can be delayed."""

    def __init__(self, scn, tz="UTC"):
        self.w = setup_world(scn, tz=tz)
        do_starts(self.w, scn)

    def head_state(self, q):
        d = self.w.broker.queues.get(q)
        if not d:
            return None
        try:
            return json.loads(d[0]["body"].decode()).get("context", {}).get("State", {}).get("Name")
        except Exception:
            return None

    def run(self, delay_state=None, delay_ms=0, crash_when_armed=None, max_steps=400):
        w = self.w
        delayed = False
        crashed = False
        n = 0
        while n < max_steps:
            st = w.enabled()
            if not st:
                t = w.next_time()
                if t is None or w._only_far(t):
                    break
                w.advance(t)
                continue
            step = st[0]
            if (not delayed and delay_state and step[0] == "dlv" and w.is_event_queue(step[1])
                    and self.head_state(step[1]) == delay_state):
                delayed = True
                w.advance(W.CLOCK.now + delay_ms / 1000.0)
            w.do(step)
            n += 1
            if crash_when_armed and not crashed:
                if any(h.kind == crash_when_armed for h in w.inst["i0"].timers()):
                    w.advance(W.CLOCK.now + 0.5)
                    w.crash("i0")
                    w.restart("i0")
                    crashed = True
        ev = w.rec.events
        w.close()
        return ev


def first(ev, pred):
    for e in ev:
        if pred(e):
            return e
    return None


def wait_obs(oid, label, wait_state, inp, spec, tz, delay_ms, redeliver=False):
    P, SM = S.P, S.SM
    asl = SM("A", A=P(Next="W"), W=dict(wait_state, Next="B"), B=P(End=True))
    scn = S.scn("c08-wait", asl, inputs=(inp,))
    ev = Drive(scn, tz).run(delay_state="W", delay_ms=delay_ms, crash_when_armed="wait" if redeliver else None)
    pw = first(ev, lambda e: e["k"] == "pub" and e.get("kind") == "event" and e.get("state") == "W")
    entered = pw["t"] if pw else -1
    handled = -1
    if pw:
        frames = [e for e in ev if e["k"] == "frame" and e.get("cause") == "deliver" and e.get("mid") == pw["mid"]]
        if frames:
            handled = frames[-1]["t"] if redeliver else frames[0]["t"]
    pb = first(ev, lambda e: e["k"] == "pub" and e.get("kind") == "event" and e.get("state") == "B")
    done = pb["t"] if pb else -1
    notes = [e["status"] for e in ev if e["k"] == "note"]
    return {"id": oid, "kind": "wait", "label": label, "entered": entered, "handled": handled, "done": done,
            "spec": spec, "status": notes[-1] if notes else "", "tz": tz, "delay": delay_ms}


def fanout_wait_obs(oid, label, asl, inp, secs, tz):
    """Every Wait entered inside a fan-out (branches, iterations, the later blocks of a Map with MaxConcurrency) is one
    "wait" observation: entered = the instant its event was published, handled = the instant the engine took it,
    done = the instant its timer fired."""
    ev = Drive(S.scn("c08-fanwait", asl, inputs=(inp,)), tz).run()
    out = []
    notes = [e["status"] for e in ev if e["k"] == "note"]
    for pw in ev:
        if not (pw["k"] == "pub" and pw.get("kind") == "event" and pw.get("stype") == "Wait"):
            continue
        frames = [e for e in ev if e["k"] == "frame" and e.get("cause") == "deliver" and e.get("mid") == pw["mid"]]
        fired = [e for e in ev if e["k"] == "frame" and e.get("cause") == "timer" and e.get("kind") == "wait" and pw["mid"] in e.get("trig", [])]
        out.append({"id": oid(), "kind": "wait", "label": "%s %s%s" % (label, pw.get("state"), json.dumps(pw.get("branch"))),
                    "entered": pw["t"], "handled": frames[0]["t"] if frames else -1, "done": fired[0]["t"] if fired else -1,
                    "spec": {"k": "seconds", "n": secs}, "status": notes[-1] if notes else "", "tz": tz, "delay": 0})
    return out


def task_obs(oid, label, timeout_s, reply_ms, catch, tz, delay_ms, exect=0):
    """exect: a machine-level TimeoutSeconds as well (0: none) -- the execution starts at instant 0"""
    T, P, SM = S.T, S.P, S.SM
    st = T("f", TimeoutSeconds=timeout_s, Next="B")
    if catch:
        st["Catch"] = [{"ErrorEquals": ["States.Timeout"], "Next": "R"}]
    asl = SM("A", A=P(Next="K"), K=st, B=P(End=True), R=P(End=True, Result="caught"))
    if exect:
        asl = dict(asl, TimeoutSeconds=exect)
    oracle = {"f": [{"silent": True}]} if reply_ms < 0 else {"f": [{"ok": 1, "delay": reply_ms}]}
    scn = S.scn("c08-task", asl, oracle=oracle)
    ev = Drive(scn, tz).run(delay_state="K", delay_ms=delay_ms)
    pk = first(ev, lambda e: e["k"] == "pub" and e.get("kind") == "event" and e.get("state") == "K")
    entered = pk["t"] if pk else -1
    rpc = first(ev, lambda e: e["k"] == "pub" and e.get("kind") == "rpc")
    reply_at = (rpc["t"] + reply_ms) if (rpc and reply_ms >= 0) else -1
    notes = [(e["status"], e["t"], e) for e in ev if e["k"] == "note" and e["status"] != "RUNNING"]
    outcome, at = (notes[-1][0], notes[-1][1]) if notes else ("", -1)
    took_catch = any(e["k"] == "pub" and e.get("state") == "R" for e in ev)
    if catch and took_catch:
        outcome = "CAUGHT"
    err = (notes[-1][2].get("detail", {}) or {}).get("error") if notes else None
    expect = "CAUGHT" if catch else "FAILED"
    if outcome == "FAILED" and err != "States.Timeout":
        outcome = "FAILED:" + str(err)
    return {"id": oid, "kind": "task", "label": label, "entered": entered, "timeout": timeout_s, "reply": reply_at,
            "outcome": outcome, "at": at, "expect": expect, "tz": tz, "delay": delay_ms, "exect": exect,
            "handled": (entered + delay_ms) if entered >= 0 else -1}


def exect_obs(oid, label, asl, oracle, timeout_s, natural, tz):
    asl = dict(asl, TimeoutSeconds=timeout_s)
    scn = S.scn("c08-exect", asl, oracle=oracle)
    ev = Drive(scn, tz).run()
    notes = [(e["status"], e["t"], e) for e in ev if e["k"] == "note" and e["status"] != "RUNNING"]
    outcome, at = (notes[-1][0], notes[-1][1]) if notes else ("", -1)
    err = (notes[-1][2].get("detail", {}) or {}).get("error") if notes else None
    return {"id": oid, "kind": "exect", "label": label, "timeout": timeout_s, "outcome": outcome, "error": err or "",
            "at": at, "natural": natural, "tz": tz}


def run(tier_name=None, replay=None):
    t = get_tier(tier_name)
    thorough = t == "thorough"
    v = Verdict("C08", t)
    rng = random.Random(get_seed() + 808)
    obs = []
    n = [0]

    def oid():
        n[0] += 1
        return n[0]

    if replay:
        rp = json.load(open(replay))
        fails, stats = judge.run_judge("JudgeC08", [rp["obs"]], os.path.join(RUN, "C08-replay"))
        for f in fails:
            print("  ", f)
            v.violation(rp, f["clause"])
        v.coverage = {"states": max(stats["states"], 1), "transitions": max(stats["transitions"], 1),
                      "traces_validated_against_impl": 1, "samples": [rp["obs"].get("label", rp["obs"].get("text", ""))]}
        return v.finish()

    # 1. timestamps
    for s in timestamp_cases(thorough):
        obs.append(ts_obs(oid(), s))
    n_ts = len(obs)
    # 2. waits
    tzs = ["UTC", "XXX-05:30", "XXX+03:30"]
    offsets = [0, 330, -210, 59, -719, 840] if not thorough else [0, 330, -210, 59, -719, 840, 1, -1, 345, -570, 1439, -1439]
    for tz in tzs:
        for delay in (0, 2000, 9000):
            for red in ((False, True) if delay == 0 else (False,)):
                for secs in (1, 5):
                    obs.append(wait_obs(oid(), "Seconds", {"Type": "Wait", "Seconds": secs}, {}, {"k": "seconds", "n": secs}, tz, delay, red))
                    obs.append(wait_obs(oid(), "SecondsPath", {"Type": "Wait", "SecondsPath": "$.s"}, {"s": secs}, {"k": "seconds", "n": secs}, tz, delay, red))
                for off in offsets:
                    for frac in ("", ".250"):
                        target = W.T0 + 5
                        text = offset_text(target, off, frac)
                        spec = {"k": "timestamp", "s": tagged.chars(text), "base": BASE_INSTANT, "n": 0}
                        obs.append(wait_obs(oid(), "Timestamp " + text, {"Type": "Wait", "Timestamp": text}, {}, spec, tz, delay, red))
                        if off in (0, 330, -210):
                            obs.append(wait_obs(oid(), "TimestampPath " + text, {"Type": "Wait", "TimestampPath": "$.t"}, {"t": text}, spec, tz, delay, red))
    # 2b. Waits inside fan-outs: every branch, every iteration, every block of a Map with MaxConcurrency waits its full time
    Wt, P, SM, Par, Mp = S.Wt, S.P, S.SM, S.Par, S.Mp
    for tz in tzs[:1] if not thorough else tzs:
        for secs in (3, 10):
            obs += fanout_wait_obs(oid, "map-mc1", SM("M", M=Mp(SM("W", W=Wt(secs, Next="B"), B=P(End=True)), MaxConcurrency=1, End=True)), [1, 2, 3], secs, tz)
            obs += fanout_wait_obs(oid, "map-mc2-wait-last", SM("M", M=Mp(SM("A", A=P(Next="W"), W=Wt(secs, End=True)), MaxConcurrency=2, End=True)), [1, 2, 3, 4, 5], secs, tz)
            obs += fanout_wait_obs(oid, "map-wait-only", SM("M", M=Mp(SM("W", W=Wt(secs, End=True)), MaxConcurrency=2, Next="Z"), Z=Wt(secs, End=True)), [1, 2, 3], secs, tz)
            obs += fanout_wait_obs(oid, "par", SM("Q", Q=Par([SM("W1", W1=Wt(secs, End=True)), SM("A", A=P(Next="W2"), W2=Wt(secs, Next="W3"), W3=Wt(secs, End=True))], End=True)), {}, secs, tz)
            obs += fanout_wait_obs(oid, "map-in-map", SM("M", M=Mp(SM("N", N=Mp(SM("W", W=Wt(secs, End=True)), MaxConcurrency=1, End=True)), MaxConcurrency=1, End=True)), [[1, 2], [3]], secs, tz)
    for o in obs:
        if o["kind"] == "wait" and o["spec"]["k"] == "seconds":
            o["spec"] = dict(o["spec"], s=[], base=[0, 0, 0])
    n_wait = len(obs) - n_ts
    # 3. task timeouts
    for tz in tzs:
        for timeout_s in (2, 3):
            for reply in (1000, timeout_s * 1000, timeout_s * 1000 + 500, -1):
                for catch in (False, True):
                    for delay in (0, 1000):
                        obs.append(task_obs(oid(), "task", timeout_s, reply, catch, tz, delay))
    # 3b. a task timeout under a machine-level timeout, the Task's event handled early, between and after the two deadlines
    for tz in tzs[:1] if not thorough else tzs:
        for timeout_s, exect in ((2, 5), (5, 2), (3, 3)):
            for catch in (False, True):
                for delay in (0, 1000, 2500, 4000, 5000, 6000, 9000):
                    obs.append(task_obs(oid(), "task-under-exec-timeout", timeout_s, -1, catch, tz, delay, exect=exect))
    # 4. execution timeout: no Retry/Catch may intercept it
    T, P, SM, Par, Wt = S.T, S.P, S.SM, S.Par, S.Wt
    both = dict(Retry=[{"ErrorEquals": ["States.ALL"], "IntervalSeconds": 1, "MaxAttempts": 5}],
                Catch=[{"ErrorEquals": ["States.ALL"], "Next": "R"}])
    silent = {"f": [{"silent": True}]}
    for tz in tzs:
        obs.append(exect_obs(oid(), "task-retry-catch", SM("K", K=T("f", End=True, **both), R=P(End=True)), silent, 3, False, tz))
        obs.append(exect_obs(oid(), "task-timeouts-catch", SM("K", K=T("f", End=True, Catch=[{"ErrorEquals": ["States.Timeout"], "Next": "R"}]), R=P(End=True)), silent, 3, False, tz))
        obs.append(exect_obs(oid(), "wait-longer", SM("W", W=Wt(10, End=True)), {}, 3, False, tz))
        obs.append(exect_obs(oid(), "par-task", SM("Q", Q=Par([SM("K", K=T("f", End=True)), SM("B", B=P(End=True))], End=True, **both), R=P(End=True)), silent, 3, False, tz))
        obs.append(exect_obs(oid(), "natural", SM("K", K=T("f", End=True)), {}, 3, True, tz))
    try:
        fails, stats = judge.run_judge("JudgeC08", obs, os.path.join(RUN, "C08-" + t))
    except Exception as ex:
        v.machinery_failure(str(ex)[:1500])
        return v.finish()
    by_id = {o["id"]: o for o in obs}
    cl = collections.Counter()
    for f in fails:
        o = by_id[f["id"]]
        cl[(f["clause"], f["kf"])] += 1
        if f["clause"].startswith("SPEC:"):
            v.machinery_failure("%s on %r" % (f["clause"], o.get("text")))
        elif f["kf"]:
            v.known_finding(f["kf"])
        else:
            brief = {k: o[k] for k in o if k not in ("s", "spec")}
            v.violation({"property": "C08", "obs": o}, "%s: %s" % (f["clause"], json.dumps(brief)[:260]))
    kinds = collections.Counter(o["kind"] for o in obs)
    v.coverage = {"states": stats["states"], "transitions": stats["transitions"],
                  "traces_validated_against_impl": len(obs) - n_ts, "evaluations": len(obs), "distinct_nontrivial": len(obs),
                  "rule": "timestamps: every offset -23:59..+23:59 x base instants x fractions of 0..12 digits x Z/z, parsed by the real parser; "
                          "waits: Seconds/SecondsPath/Timestamp/TimestampPath x delivery delay {0, before, after the target} x redelivery x host time zone "
                          "{UTC, +05:30, -03:30}; task timeouts: reply {before, at, after the deadline, never} x Catch x delivery delay; execution timeout "
                          "against Retry/Catch on States.ALL; every observation is a distinct case",
                  "samples": [{k: o[k] for k in o if k not in ("s", "spec")} for o in (obs[0], obs[n_ts], obs[n_ts + n_wait], obs[-1])],
                  "by_kind": dict(kinds), "failed_clauses": {"%s|%s" % k: c for k, c in cl.items()},
                  "exhaustive": thorough, "tlc_cpu_s": stats["tlc_cpu_s"]}
    v.assumptions = ["virtual clock: instants are compared exactly (ms)", "the reference instant of a timestamp text is Timestamps!Instant",
                     "a reply arriving exactly at the deadline may go either way"]
    return v.finish()


if __name__ == "__main__":
    sys.exit(run(*(sys.argv[1:2])))
