"""C15: child executions and task-token callbacks complete exactly their launching task.
Parent/child machine pairs and callback streams are run on the real engine (REST front end
included); the observations are judged by TLC with spec/Child.tla (spec/JudgeC15.tla)."""
import base64
import collections
import itertools
import json
import os
import random
import sys

from common import Verdict, tier as get_tier, seed as get_seed, RUN
import judge

from vsim import tagged
from vsim import world as W
from vsim.explore import setup_world, do_starts
from vsim import scenarios as S
from vsim.world import sm_arn, exec_arn

FORMS = {
    "async": "arn:aws:states:local:0123456789:states:startExecution",
    "sync": "arn:aws:states:local::states:startExecution.sync",
    "sync2": "arn:aws:states:local::states:startExecution.sync:2",
    "sdk": "arn:aws:states:local::aws-sdk:sfn:startSyncExecution",
}


def child_machine(kind):
    T, P, Wt, SM = S.T, S.P, S.Wt, S.SM
    if kind == "slow":
        return S.chain(("CW", Wt(10)), ("C2", P(Result={"c": "late"})))
    if kind == "elapsed-wait-then-task":
        # a Wait that is over as soon as it is entered, then a Task that never answers
        return S.chain(("CW", Wt(0)), ("C1", T("h")), ("C2", P()))
    if kind == "wait-then-task":
        return S.chain(("CW", Wt(1)), ("C1", T("h")), ("C2", P()))
    return S.chain(("C0", P()), ("C1", T("h")), ("C2", P()))


def parent_machine(form, child_name, timeout=None, wrap="plain"):
    T, P, SM, Par, Mp = S.T, S.P, S.SM, S.Par, S.Mp
    task = {"Type": "Task", "Resource": FORMS[form],
            "Parameters": {"StateMachineArn": sm_arn(child_name), "Input": {"from": "parent", "n": 1}, "Name": "kid"},
            "ResultPath": "$.r", "Next": "P2"}
    if timeout:
        task["TimeoutSeconds"] = timeout
    if wrap == "plain":
        return SM("K", K=task, P2=P(End=True))
    inner = dict(task)
    inner.pop("Next")
    inner["End"] = True
    if wrap == "parallel":
        return SM("Q", Q=Par([SM("K", K=inner), SM("B", B=P(End=True))], ResultPath="$.par", Next="P2"), P2=P(End=True))
    return SM("Q", Q=Mp(SM("K", K=inner), ItemsPath="$.items", ResultPath="$.par", Next="P2"), P2=P(End=True))


def frame_of(ev, pred):
    for e in ev:
        if pred(e):
            return e["fr"]
    return None


def extract_task(rec, wrap):
    """the parent Task's result / error as the execution reports it"""
    if rec is None:
        return {"kind": "none", "v": tagged.enc(None), "error": "", "cause": tagged.enc(None)}
    if rec.get("status") == "SUCCEEDED":
        out = json.loads(rec["output"])
        try:
            if wrap == "plain":
                res = out["r"]
            elif wrap == "parallel":
                res = out["par"][0]["r"]
            else:
                res = out["par"][0]["r"]
        except Exception:
            res = out
        return {"kind": "result", "v": tagged.enc(res), "error": "", "cause": tagged.enc(None)}
    cause = rec.get("cause")
    try:
        cj = json.loads(cause) if isinstance(cause, str) else cause
    except Exception:
        cj = cause
    return {"kind": "error", "v": tagged.enc(None), "error": rec.get("error") or "", "cause": tagged.enc(cj)}


def child_obs(oid, form, ptype, ctype, coutcome, wrap="plain", chooser_seed=None):
    cname = "kidsm"
    machines = []
    if ctype:
        machines.append({"name": cname, "type": ctype, "asl": child_machine("task")})
    oracle = {"h": [{"ok": {"c": 1}}]} if coutcome != "FAILED" else {"h": [{"error": "ChildBoom", "cause": "kaput"}]}
    scn = S.scn("c15", parent_machine(form, cname, wrap=wrap), inputs=({"in": 1, "items": [{"i": 1}]},), typ=ptype,
                extra_machines=machines, oracle=oracle, workers=["h"])
    w = setup_world(scn)
    do_starts(w, scn)
    rng = random.Random(chooser_seed) if chooser_seed is not None else None
    w.run(chooser=(lambda st: rng.choice(st)) if rng else None)
    ev = w.rec.events
    parent = exec_arn("sm", "e1")
    child = exec_arn(cname, "kid")
    prec = w.outcome(parent)
    crec = w.outcome(child)
    notes = w.notes()
    cterm = frame_of(ev, lambda e: e["k"] == "note" and e["exec"] == child and e["status"] in ("SUCCEEDED", "FAILED"))
    cstart = frame_of(ev, lambda e: e["k"] == "note" and e["exec"] == child and e["status"] == "RUNNING")
    pcont = frame_of(ev, lambda e: (e["k"] == "pub" and e.get("kind") == "event" and e.get("exec") == parent and e.get("state") == "P2")
                     or (e["k"] == "note" and e["exec"] == parent and e["status"] == "FAILED")
                     or (e["k"] == "hist" and e["exec"] == parent and e["event"].get("type") in ("TaskStateExited",)))
    if ptype == "EXPRESS":
        st = [n[1] for n in notes if n[0] == parent]
        det = [e for e in ev if e["k"] == "note" and e["exec"] == parent and e["status"] in ("SUCCEEDED", "FAILED")]
        prec = dict(det[-1]["detail"]) if det else None
    if cterm is None or pcont is None:
        order = "n/a" if pcont is not None else "never"
    else:
        order = "before" if pcont < cterm else "same" if pcont == cterm else "after"
    cstat = [n[1] for n in notes if n[0] == child and n[1] != "RUNNING"]
    cdet = [e for e in ev if e["k"] == "note" and e["exec"] == child and e["status"] in ("SUCCEEDED", "FAILED")]
    cout_text = (cdet[-1]["detail"].get("output") if cdet else None) or ""
    try:
        cout_json = json.loads(cout_text) if cout_text else None
    except Exception:
        cout_json = None
    cerr = (cdet[-1]["detail"].get("error") if cdet else None) or ""
    w.close()
    return {"id": oid, "kind": "child", "form": form, "ptype": ptype, "ctype": ctype, "coutcome": cstat[-1] if cstat else "",
            "child": {"arn": child, "outputJson": tagged.enc(cout_json), "outputText": cout_text, "error": cerr},
            "task": extract_task(prec, wrap), "order": order, "childstarted": cstart is not None, "wrap": wrap,
            "calls": [], "responses": [], "completedBy": 0, "early": False,
            "leftover": {"cancellers": 0, "pending": 0, "waits": 0}, "childrpcs_after": 0}


def mk_token(kind, exact):
    if kind in ("exact", "badoutput"):      # (badoutput: the right token, an output that is not JSON text)
        return exact
    if kind == "truncated":
        return exact[:-6]
    if kind == "garbage":
        return "!!not-base64!!"
    raw = base64.b64decode(exact).decode()
    cid, rq = raw.split(":")
    forged = "m99999.waitForTaskToken:" + rq
    return base64.b64encode(forged.encode()).decode()


def token_obs(oid, calls, worker_reply):
    """calls: list of (api, token kind, payload).  worker_reply: None | "before" | "after" (an ordinary
    RPC reply of the invoked function arrives before / after the callbacks)"""
    FNA = S.FN + "tok"
    task = {"Type": "Task", "Resource": "arn:aws:states:local::rpcmessage:invoke.waitForTaskToken",
            "Parameters": {"FunctionName": FNA, "Payload": {"token.$": "$$.Task.Token", "x": 1}},
            "ResultPath": "$.r", "End": True}
    # the ordinary reply's body: any JSON text (an acknowledgement need not be an object)
    BODIES = {"": {"ordinary": "reply"}, "str": "accepted", "num": 202, "null": None, "arr": ["accepted"], "emptyobj": {}}
    wr_body = BODIES[worker_reply.split(":")[1]] if worker_reply and ":" in worker_reply else {"ordinary": "reply"}
    worker_reply = worker_reply.split(":")[0] if worker_reply else worker_reply
    oracle = {"tok": [{"silent": True}]} if worker_reply != "before" else {"tok": [{"ok": wr_body}]}
    scn = S.scn("c15tok", S.SM("K", K=task), inputs=({"in": 1},), oracle=oracle, workers=["tok"])
    w = setup_world(scn)
    do_starts(w, scn)
    w.run()
    parent = exec_arn("sm", "e1")

    def done():
        return any(n[0] == parent and n[1] in ("SUCCEEDED", "FAILED") for n in w.notes())
    early = done()
    tok = None
    for (t, fn, corr, payload, sn) in w.rpc_seen:
        if isinstance(payload, dict) and "token" in payload:
            tok = payload["token"]
    responses, completed = [], 0
    tcalls = []
    for j, (api, tkind, payload) in enumerate(calls):
        token = mk_token(tkind, tok) if tok else "none"
        if api == "success":
            st, body = w.api("SendTaskSuccess", {"taskToken": token, "output": "{not json" if tkind == "badoutput" else json.dumps(payload)})
            tcalls.append({"api": api, "token": tkind, "out": tagged.enc(payload), "error": ""})
        else:
            st, body = w.api("SendTaskFailure", {"taskToken": token, "error": payload, "cause": "because"})
            tcalls.append({"api": api, "token": tkind, "out": tagged.enc(None), "error": payload})
        responses.append({"status": st, "type": body.get("__type", "") if isinstance(body, dict) else ""})
        before = done()
        w.run()
        if not before and done() and completed == 0:
            completed = j + 1
    if worker_reply == "after" and tok:
        # an ordinary reply of the function after the callbacks: must change nothing
        corr = [c for (t, fn, c, p, sn) in w.rpc_seen][-1]
        rq = base64.b64decode(tok).decode().split(":")[1]
        w.rec.begin_frame("wreply", fn="tok", corr=corr, trig=[])
        w.worker_publish(rq, corr, json.dumps({"ordinary": "late"} if wr_body == {"ordinary": "reply"} else wr_body).encode())
        w.rec.end_frame()
        w.run()
    prec = w.outcome(parent)
    nterm = sum(1 for n in w.notes() if n[0] == parent and n[1] in ("SUCCEEDED", "FAILED"))
    w.close()
    o = {"id": oid, "kind": "token", "form": "token", "ptype": "STANDARD", "ctype": "", "coutcome": "",
         "child": {"arn": "", "outputJson": tagged.enc(None), "outputText": "", "error": ""},
         "task": extract_task(prec, "plain"), "order": "n/a", "childstarted": False, "wrap": "plain",
         "calls": tcalls, "responses": responses, "completedBy": completed, "early": early or nterm > 1,
         "leftover": {"cancellers": 0, "pending": 0, "waits": 0}, "childrpcs_after": 0}
    return o


def cancel_obs(oid, child_kind):
    """the parent's task times out while its synchronous child is blocked on a task / a wait"""
    cname = "kidsm"
    machines = [{"name": cname, "type": "STANDARD", "asl": child_machine({"wait": "slow", "task": "task"}.get(child_kind, child_kind))}]
    scn = S.scn("c15cancel", parent_machine("sync", cname, timeout=2), inputs=({"in": 1},), extra_machines=machines,
                oracle={"h": [{"silent": True}]}, workers=["h"])
    w = setup_world(scn)
    do_starts(w, scn)
    w.run()
    ev = w.rec.events
    parent = exec_arn("sm", "e1")
    pf = frame_of(ev, lambda e: e["k"] == "note" and e["exec"] == parent and e["status"] == "FAILED")
    left = {"cancellers": -1, "pending": -1, "waits": -1}
    after_rpcs = 0
    if pf is not None:
        for e in ev:
            if e["k"] == "end" and e["fr"] == pf and e["sizes"]:
                z = e["sizes"][0]
                left = {"cancellers": z["cancellers"], "pending": z["pending"], "waits": sum(1 for t in z["timers"] if t in ("wait", "tasktimeout", "sfntimeout"))}
        after_rpcs = sum(1 for e in ev if e["k"] == "pub" and e.get("kind") == "rpc" and e["fr"] > pf)
    # the cancelled child ends exactly once (and the parent too)
    child_terms = collections.Counter(e["exec"] for e in ev if e["k"] == "note" and e["exec"] != parent and e["status"] in ("SUCCEEDED", "FAILED"))
    parent_terms = sum(1 for e in ev if e["k"] == "note" and e["exec"] == parent and e["status"] in ("SUCCEEDED", "FAILED"))
    w.close()
    twice = parent_terms > 1 or any(n > 1 for n in child_terms.values())
    return {"id": oid, "kind": "cancel", "form": "sync", "endedtwice": twice, "ptype": "STANDARD", "ctype": "STANDARD", "coutcome": "",
            "child": {"arn": "", "outputJson": tagged.enc(None), "outputText": "", "error": ""},
            "task": {"kind": "none", "v": tagged.enc(None), "error": "", "cause": tagged.enc(None)}, "order": "n/a",
            "childstarted": True, "wrap": child_kind, "calls": [], "responses": [], "completedBy": 0, "early": pf is None,
            "leftover": left, "childrpcs_after": after_rpcs}


def run(tier_name=None, replay=None):
    t = get_tier(tier_name)
    thorough = t == "thorough"
    v = Verdict("C15", t)
    rng = random.Random(get_seed() + 1515)
    if replay:
        rp = json.load(open(replay))
        fails, stats = judge.run_judge("JudgeC15", [rp["obs"]], os.path.join(RUN, "C15-replay"))
        for f in fails:
            print("  ", f)
            (v.known_finding(f["kf"]) if f["kf"] else v.violation(rp, f["clause"]))
        v.coverage = {"states": max(stats["states"], 1), "transitions": max(stats["transitions"], 1), "traces_validated_against_impl": 1,
                      "samples": [rp.get("case")]}
        return v.finish()
    obs, meta = [], {}
    n = [0]

    def add(o, case):
        obs.append(o)
        meta[o["id"]] = case

    def oid():
        n[0] += 1
        return n[0]

    # children
    for form in FORMS:
        for ptype in ("STANDARD", "EXPRESS"):
            for ctype in ("STANDARD", "EXPRESS", ""):
                for cout in ("SUCCEEDED", "FAILED"):
                    if ctype == "" and cout == "FAILED":
                        continue
                    add(child_obs(oid(), form, ptype, ctype, cout), {"form": form, "parent": ptype, "child": ctype or "missing", "child_outcome": cout})
    wraps = ("parallel", "map")
    for form in ("sync", "sync2", "async") + (("sdk",) if thorough else ()):
        for wrap in wraps:
            for cout in ("SUCCEEDED", "FAILED"):
                ctype = "EXPRESS" if form == "sdk" else "STANDARD"
                add(child_obs(oid(), form, "STANDARD", ctype, cout, wrap=wrap), {"form": form, "wrap": wrap, "child_outcome": cout})
    # interleavings of child and parent events: random schedules
    for k in range(60 if thorough else 10):
        form = rng.choice(["sync", "sync2", "sdk", "async"])
        ctype = "EXPRESS" if form == "sdk" else rng.choice(["STANDARD", "EXPRESS"]) if form != "sdk" else "EXPRESS"
        add(child_obs(oid(), form, "STANDARD", ctype, rng.choice(["SUCCEEDED", "FAILED"]), wrap=rng.choice(["plain", "parallel"]), chooser_seed=rng.random()),
            {"form": form, "random_schedule": k})
    # callback streams
    streams = [
        [("success", "exact", {"done": 1})],
        [("failure", "exact", "MyError")],
        [("success", "forged", {"x": 0}), ("success", "exact", {"done": 2})],
        [("success", "truncated", {"x": 0}), ("success", "exact", {"done": 3})],
        [("success", "garbage", {"x": 0}), ("failure", "exact", "E9")],
        [("success", "exact", {"first": 1}), ("success", "exact", {"second": 2})],
        [("failure", "exact", "E1"), ("success", "exact", {"late": 1})],
        [("success", "forged", {"x": 0})],
        [("success", "badoutput", {"x": 0}), ("success", "exact", {"done": 4})],
        [("failure", "garbage", "E0")],
        [("success", "truncated", {"x": 1})],
    ]
    for st in streams:
        for wr in (None, "before", "after"):
            add(token_obs(oid(), st, wr), {"stream": [(a, tk) for a, tk, p in st], "ordinary_reply": wr})
    for st in streams[:2] + streams[5:6]:
        for body in ("str", "num", "null", "arr", "emptyobj"):
            for when in ("before", "after"):
                wr = when + ":" + body
                add(token_obs(oid(), st, wr), {"stream": [(a, tk) for a, tk, p in st], "ordinary_reply": wr})
    for ck in ("task", "wait", "elapsed-wait-then-task", "wait-then-task"):
        add(cancel_obs(oid(), ck), {"cancel": ck})
    try:
        fails, stats = judge.run_judge("JudgeC15", obs, os.path.join(RUN, "C15-" + t))
    except Exception as ex:
        v.machinery_failure(str(ex)[:1500])
        return v.finish()
    by_id = {o["id"]: o for o in obs}
    cl = collections.Counter()
    for f in fails:
        o = by_id[f["id"]]
        cl[(f["clause"], f["kf"])] += 1
        if f["kf"]:
            v.known_finding(f["kf"])
        else:
            brief = {"task": tagged.dec(o["task"]["v"]) if o["task"]["kind"] == "result" else [o["task"]["kind"], o["task"]["error"]],
                     "order": o["order"], "coutcome": o["coutcome"], "completedBy": o["completedBy"], "responses": o["responses"], "leftover": o["leftover"]}
            v.violation({"property": "C15", "obs": o, "case": meta[f["id"]]},
                        "%s: %s -> %s" % (f["clause"], json.dumps(meta[f["id"]]), json.dumps(brief)[:300]))
    kinds = collections.Counter(o["kind"] for o in obs)
    v.coverage = {"states": stats["states"], "transitions": stats["transitions"], "traces_validated_against_impl": len(obs),
                  "evaluations": len(obs), "distinct_nontrivial": len(obs),
                  "rule": "child observations: integration form {startExecution, .sync, .sync:2, startSyncExecution} x parent type x child type/missing x child outcome, "
                          "parent plain / in Parallel / in Map, random interleavings of child and parent events; token observations: callback streams "
                          "(exact, duplicate, forged, truncated, garbage tokens; success/failure) x an ordinary reply before/after; cancellation of a blocked child; "
                          "every observation is a distinct case", "samples": [meta[1], meta[len(obs) - 3], meta[len(obs)]],
                  "by_kind": dict(kinds), "failed_clauses": {"%s|%s" % k: c for k, c in cl.items()}, "exhaustive": False}
    v.assumptions = ["documented field names of a synchronous child's result: ExecutionArn, Input, Name, Output, StartDate, StateMachineArn, Status, StopDate",
                     "a late callback with the exact token after the task has ended is left open by the statement"]
    return v.finish()


if __name__ == "__main__":
    sys.exit(run(*(sys.argv[1:2])))
