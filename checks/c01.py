"""C01: executions compute what the Amazon States Language prescribes.  Programs generated from
a grammar of the supported language are run on the real engine (canonical schedule, task
behaviour fixed); TLC recomputes status and output with spec/AslInterp.tla and compares."""
import collections
import copy
import json
import os
import random
import sys

from common import Verdict, tier as get_tier, seed as get_seed, RUN
import judge

from vsim import tagged
from vsim.explore import run_once, explore_dfs
from vsim import scenarios as S
from vsim.world import sm_arn, exec_arn

# path texts the generator uses -> abstract form
PATHS = {
    "$": ("root", []),
    "$.a": ("steps", ["a"]), "$.a.b": ("steps", ["a", "b"]), "$.a.c": ("steps", ["a", "c"]), "$.x": ("steps", ["x"]),
    "$.s": ("steps", ["s"]), "$.r": ("steps", ["r"]), "$.a.r": ("steps", ["a", "r"]), "$.items": ("steps", ["items"]),
    "$.flag": ("steps", ["flag"]), "$.missing": ("steps", ["missing"]), "$.r.g": ("steps", ["r", "g"]), "$.v": ("steps", ["v"]),
    "$['a']['b']": ("steps", ["a", "b"]), "$.items[0]": ("steps", ["items", 0]), "$.a.c[1]": ("steps", ["a", "c", 1]),
    "$.w": ("steps", ["w"]), "$.g": ("steps", ["g"]), "$.fn": ("steps", ["fn"]), "$.in": ("steps", ["in"]), "$[0]": ("steps", [0]),
    "$$.Execution.Input": ("ctx", ["Execution", "Input"]), "$$.Execution.Name": ("ctx", ["Execution", "Name"]),
    "$$.Map.Item.Value": ("ctx", ["Map", "Item", "Value"]), "$$.Map.Item.Index": ("ctx", ["Map", "Item", "Index"]),
    "$$.Execution.Input.x": ("ctx", ["Execution", "Input", "x"]),
}
INPUTS = [{"a": {"b": 1, "c": [1, 2]}, "x": 1, "s": "str", "items": [{"v": 1}, {"v": 2}], "flag": True},
          {"x": 2, "a": 5, "items": []}, {}, {"a": {"b": None}, "x": 1.5, "s": "", "items": [{"v": 3}]}]
TASKS = {"f": {"k": "echo"}, "g": {"k": "ok", "v": {"g": 1, "list": [1, 2]}}, "e1": {"k": "err", "e": "E1"}, "boom": {"k": "err", "e": "Boom"},
         "n": {"k": "ok", "v": 7}}


def path_obj(text):
    if text is None:
        return {"$path": "null", "steps": []}
    kind, steps = PATHS[text]
    return {"$path": kind, "steps": [({"idx": s} if isinstance(s, int) else {"key": s}) for s in steps]}


def prep_template(t):
    if isinstance(t, dict):
        out = {}
        for k, v in t.items():
            if k.endswith(".$"):
                out[k[:-2]] = {"$eval": path_obj(v)}
            else:
                out[k] = prep_template(v)
        return out
    if isinstance(t, list):
        return [prep_template(x) for x in t]
    return t


def prep_rule(r):
    out = {}
    for k, v in r.items():
        if k in ("Variable", "NumericEqualsPath"):
            out[k] = path_obj(v)
        elif k in ("And", "Or"):
            out[k] = [prep_rule(x) for x in v]
        elif k == "Not":
            out[k] = prep_rule(v)
        else:
            out[k] = v
    return out


def prepare(m):
    """the definition as AslInterp wants it: paths pre-parsed, evaluated template members marked"""
    out = {"StartAt": m["StartAt"], "States": {}}
    for name, st in m["States"].items():
        p = {}
        for k, v in st.items():
            if k in ("InputPath", "OutputPath", "ResultPath", "ItemsPath"):
                p[k] = path_obj(v)
            elif k in ("Parameters", "ResultSelector", "ItemSelector"):
                p["ItemSelector" if (k == "Parameters" and st["Type"] == "Map") else k] = prep_template(v)
            elif k == "Choices":
                p[k] = [prep_rule(r) for r in v]
            elif k == "Branches":
                p[k] = [prepare(b) for b in v]
            elif k in ("ItemProcessor", "Iterator"):
                p["ItemProcessor"] = prepare(v)
            elif k == "Catch":
                p[k] = [dict({kk: vv for kk, vv in c.items() if kk != "ResultPath"},
                             **({"ResultPath": path_obj(c["ResultPath"])} if "ResultPath" in c else {})) for c in v]
            elif k == "Resource":
                p["$fn"] = v[len(S.FN):]
            elif k in ("Retry", "Seconds", "Comment", "MaxConcurrency"):
                continue
            else:
                p[k] = v
        out["States"][name] = p
    return out


class Gen:
    def __init__(self, rng):
        self.rng = rng
        self.n = 0

    def name(self):
        self.n += 1
        return "S%d" % self.n

    def pick(self, xs, p_absent=0.5):
        return None if self.rng.random() < p_absent else self.rng.choice(xs)

    def template(self):
        r = self.rng
        t = {}
        for k in r.sample(["p", "q", "n"], r.randrange(1, 3)):
            mode = r.random()
            if mode < 0.4:
                t[k] = r.choice([1, "lit", True, None, {"deep": [1, {"z": "$.not.a.path"}]}, ["$.a", 2]])
            elif mode < 0.85:
                t[k + ".$"] = r.choice(["$", "$.a", "$.x", "$.a.b", "$.items", "$$.Execution.Name", "$$.Execution.Input", "$.missing" if r.random() < 0.15 else "$.s"])
            else:
                t[k] = {"inner.$": r.choice(["$.x", "$.a", "$"]), "k": 0}
        return t

    def flow_fields(self, st, kind):
        r = self.rng
        if kind != "Fail":
            ip = self.pick(["$", "$.a", "$.a.b", "$.x", None, "$.missing", "$['a']['b']", "$.items[0]"], 0.6)
            if ip is not None or r.random() < 0.05:
                st["InputPath"] = ip
            op = self.pick(["$", "$.a", "$.r", "$.x", None, "$.missing"], 0.7)
            if op is not None or r.random() < 0.04:
                st["OutputPath"] = op
        if kind in ("Pass", "Task", "Parallel", "Map"):
            rp = self.pick(["$", "$.r", "$.a.r", None, "$.x"], 0.5)
            if rp is not None or r.random() < 0.08:
                st["ResultPath"] = rp
        if kind in ("Pass", "Task", "Parallel") and r.random() < 0.35:
            st["Parameters"] = self.template()
        if kind in ("Task", "Parallel", "Map") and r.random() < 0.25:
            st["ResultSelector"] = {"sel.$": r.choice(["$", "$.fn", "$.g", "$[0]", "$.in"]), "c": 1} if r.random() < 0.7 else {"whole.$": "$"}

    def rule(self, depth=0):
        r = self.rng
        k = r.random()
        if depth < 2 and k < 0.25:
            op = r.choice(["And", "Or", "Not"])
            if op == "Not":
                return {"Not": self.rule(depth + 1)}
            return {op: [self.rule(depth + 1) for _ in range(r.randrange(1, 3))]}
        var = r.choice(["$.x", "$.a", "$.s", "$.flag", "$.missing", "$.a.b"])
        cmp_ = r.choice([("NumericEquals", 1), ("NumericEquals", 2), ("NumericLessThan", 2), ("NumericGreaterThanEquals", 1.5), ("StringEquals", "str"),
                         ("BooleanEquals", True), ("IsPresent", True), ("IsPresent", False), ("IsNull", True), ("IsString", True), ("IsNumeric", True)])
        return {"Variable": var, cmp_[0]: cmp_[1]}

    def machine(self, depth, nmax=5):
        r = self.rng
        n = r.randrange(1, nmax + 1)
        names = [self.name() for _ in range(n)]
        states = {}
        for i, nm in enumerate(names):
            last = i == n - 1
            later = names[i + 1:]
            kinds = ["Pass", "Pass", "Task", "Task", "Wait"]
            if not last:
                kinds += ["Choice"]
            if last:
                kinds += ["Succeed", "Fail"]
            if depth > 0:
                kinds += ["Parallel", "Map"]
            kind = r.choice(kinds)
            st = {"Type": kind}
            if kind == "Pass":
                if r.random() < 0.5:
                    st["Result"] = r.choice([1, "res", {"k": "v"}, [1, 2], None, {"Error": "inband"} if r.random() < 0.1 else {"r": 0}, False])
            elif kind == "Task":
                st["Resource"] = S.FN + r.choice(["f", "f", "g", "n", "e1", "boom"])
                if later and r.random() < 0.5:
                    c = {"ErrorEquals": r.choice([["E1"], ["Boom"], ["States.ALL"], ["E1", "Boom"], ["States.TaskFailed"]]), "Next": r.choice(later)}
                    if r.random() < 0.6:
                        c["ResultPath"] = r.choice(["$.r", "$", "$.a.r", None])
                    st["Catch"] = [c]
                if r.random() < 0.2:
                    st["Retry"] = [{"ErrorEquals": ["States.ALL"], "IntervalSeconds": 1, "MaxAttempts": 1}]
            elif kind == "Wait":
                st["Seconds"] = 1
            elif kind == "Choice":
                st["Choices"] = [dict(self.rule(), Next=r.choice(later)) for _ in range(r.randrange(1, 4))]
                if r.random() < 0.7:
                    st["Default"] = r.choice(later)
            elif kind == "Fail":
                st["Error"] = r.choice(["MyFail", "E1"])
                st["Cause"] = "because"
            elif kind == "Parallel":
                st["Branches"] = [self.machine(depth - 1, 3) for _ in range(r.randrange(1, 4))]
                if later and r.random() < 0.4:
                    st["Catch"] = [{"ErrorEquals": ["States.ALL"], "Next": r.choice(later)}]
            elif kind == "Map":
                st["ItemProcessor"] = self.machine(depth - 1, 2)
                st["ItemsPath"] = r.choice(["$.items", "$.items", "$.a.c", "$"])
                if r.random() < 0.4:
                    st["ItemSelector"] = {"item.$": "$$.Map.Item.Value", "idx.$": "$$.Map.Item.Index", "k": "lit"}
                if r.random() < 0.5:
                    st["MaxConcurrency"] = r.choice([0, 1, 2])
                if later and r.random() < 0.3:
                    st["Catch"] = [{"ErrorEquals": ["States.ALL"], "Next": r.choice(later), "ResultPath": "$.r"}]
            self.flow_fields(st, kind)
            if kind in ("Pass", "Task", "Wait", "Parallel", "Map"):
                if last:
                    st["End"] = True
                else:
                    st["Next"] = names[i + 1] if r.random() < 0.8 else r.choice(later)
            states[nm] = st
        return {"StartAt": names[0], "States": states}


def normalise(v):
    def fix(x):
        if isinstance(x, dict):
            if set(x.keys()) == {"Error", "Cause"} and isinstance(x["Cause"], str):
                return {"Error": x["Error"], "Cause": "<cause>"}
            return {k: fix(y) for k, y in x.items()}
        if isinstance(x, list):
            return [fix(y) for y in x]
        return x
    return fix(v)


def oracle_for(tasks):
    out = {}
    for fn, b in tasks.items():
        if b["k"] == "echo":
            out[fn] = [{"echo": 1}]
        elif b["k"] == "ok":
            out[fn] = [{"ok": b["v"]}]
        else:
            out[fn] = [{"error": b["e"], "cause": "worker says no"}]
    return out


def observe(oid, asl, inp, policy="first", schedule=None, result=None):
    scn = S.scn("c01", asl, inputs=(inp,), oracle=oracle_for(TASKS), workers=list(TASKS))
    r = result or run_once(scn, d1=False, execution_ttl=100000, policy=policy, schedule=schedule or ())
    rec = list(r.outcomes.values())[0] or {}
    status = rec.get("status") or ""
    out = None
    if status == "SUCCEEDED":
        try:
            out = normalise(json.loads(rec["output"]))
        except Exception:
            out = {"__unparseable__": str(rec.get("output"))[:100]}
    ctx = {"Execution": {"Id": exec_arn("sm", "e1"), "Input": inp, "Name": "e1"}, "StateMachine": {"Id": sm_arn("sm")}}
    return {"id": oid, "def": tagged.enc(prepare(asl)), "input": tagged.enc(inp), "ctx": tagged.enc(ctx), "tasks": tagged.enc(TASKS),
            "status": status, "output": tagged.enc(out), "error": rec.get("error") or ""}, (r.error or "")


def directed_programs():
    """shapes that the random grammar reaches only occasionally (each was the home of a defect or of a seeded change)"""
    FNP = "arn:aws:rpcmessage:local::function:"
    T = lambda fn, **k: dict({"Type": "Task", "Resource": FNP + fn}, **k)
    P = lambda **k: dict({"Type": "Pass"}, **k)
    cat = [{"ErrorEquals": ["States.ALL"], "Next": "R", "ResultPath": "$.r"}]
    slow_fallback = {"StartAt": "A", "States": {"A": T("e1", Catch=cat, End=True), "R": P(Next="R2"), "R2": P(Result=1, ResultPath="$.x", End=True)}}
    quick = {"StartAt": "B", "States": {"B": T("f", End=True)}}
    out = []
    # an error caught inside a branch while the peer finishes first: the join waits for the fallback states
    out.append({"StartAt": "Q", "States": {"Q": {"Type": "Parallel", "Branches": [slow_fallback, quick], "Next": "Z"}, "Z": P(End=True)}})
    out.append({"StartAt": "Q", "States": {"Q": {"Type": "Parallel", "Branches": [quick, slow_fallback], "End": True}}})
    # the same inside a Map (every iteration takes the fallback), and a Map of Maps with MaxConcurrency
    out.append({"StartAt": "M", "States": {"M": {"Type": "Map", "ItemsPath": "$.items", "ItemProcessor": slow_fallback, "End": True}}})
    inner = {"StartAt": "N", "States": {"N": {"Type": "Map", "ItemsPath": "$.a.c", "ItemProcessor": {"StartAt": "I", "States": {"I": P(End=True)}}, "End": True}}}
    out.append({"StartAt": "M", "States": {"M": {"Type": "Map", "ItemsPath": "$.items", "MaxConcurrency": 1,
                                                   "ItemSelector": {"a.$": "$.a", "v.$": "$$.Map.Item.Value"}, "ItemProcessor": inner, "End": True}}})
    # the start state's ResultPath and the execution input
    out.append({"StartAt": "S", "States": {"S": P(ResultPath="$.x", Next="K"), "K": T("f", Parameters={"p.$": "$$.Execution.Input"}, End=True)}})
    # ... also when the start state's result is placed INSIDE an existing container of the input (a shallow copy of the
    # execution input would share that container)
    out.append({"StartAt": "S", "States": {"S": P(Result=True, ResultPath="$.a.r", Next="K"), "K": T("f", Parameters={"p.$": "$$.Execution.Input", "now.$": "$"}, End=True)}})
    # a Choice with an InputPath and a variable-to-variable comparison: both sides are read from the EFFECTIVE input
    out.append({"StartAt": "S0", "States": {"S0": P(Result={"x": 1, "v": 2, "a": {"x": 5, "v": 5}}, Next="C"),
                                            "C": {"Type": "Choice", "InputPath": "$.a", "Choices": [{"Variable": "$.x", "NumericEqualsPath": "$.v", "Next": "Y"}], "Default": "N"},
                                            "Y": P(Result="yes", End=True), "N": P(Result="no", End=True)}})
    # a sub-tree of the input placed inside itself
    out.append({"StartAt": "S", "States": {"S": P(InputPath="$.a", ResultPath="$.a.r", Next="Z"), "Z": P(End=True)}})
    out.append({"StartAt": "S", "States": {"S": P(Parameters={"p.$": "$.a"}, ResultPath="$.a.r", End=True)}})
    # a two-step iteration, an empty Map ending a branch
    out.append({"StartAt": "Q", "States": {"Q": {"Type": "Parallel", "Branches": [
        {"StartAt": "M", "States": {"M": {"Type": "Map", "ItemsPath": "$.missing", "ItemProcessor": {"StartAt": "I", "States": {"I": P(End=True)}}, "End": True}}}, quick], "End": True}}})
    out.append({"StartAt": "Q", "States": {"Q": {"Type": "Parallel", "Branches": [
        {"StartAt": "M", "States": {"M": {"Type": "Map", "ItemsPath": "$.items", "ItemProcessor": {"StartAt": "I", "States": {"I": P(Next="J"), "J": T("g", End=True)}}, "End": True}}}, quick], "End": True}}})
    return out


def run(tier_name=None, replay=None):
    t = get_tier(tier_name)
    thorough = t == "thorough"
    v = Verdict("C01", t)
    rng = random.Random(get_seed() * 1009 + 1)
    if replay:
        rp = json.load(open(replay))
        o, esc = observe(1, rp["definition"], rp["input"], schedule=rp.get("schedule"))
        fails, stats = judge.run_judge("JudgeC01", [o], os.path.join(RUN, "C01-replay"))
        for f in fails:
            print("  ", f, "observed:", o["status"], tagged.dec(o["output"]), o["error"])
            (v.known_finding(f["kf"]) if f["kf"] else v.violation(rp, f["clause"]))
        v.coverage = {"states": max(stats["states"], 1), "transitions": max(stats["transitions"], 1), "traces_validated_against_impl": 1, "samples": [rp["definition"]]}
        return v.finish()
    nprog = 6000 if thorough else 420
    obs, meta = [], {}
    seen = set()
    n = 0
    g = Gen(rng)
    types = collections.Counter()
    directed = directed_programs()
    ndirected = len(directed)
    while len(meta) < nprog:
        asl = directed.pop() if directed else g.machine(2 if (thorough or rng.random() < 0.6) else 1)
        key = json.dumps(asl, sort_keys=True)
        if key in seen:
            continue
        seen.add(key)
        was_directed = len(directed) < ndirected and len(meta) < 2 * 2 * ndirected
        for inp in ([INPUTS[0], rng.choice(INPUTS[1:])]):
            if was_directed:
                # (what the States Language prescribes does not depend on the schedule: the directed shapes are run under
                # the first schedules of the depth-first enumeration as well; one observation per distinct outcome)
                outs = {}
                scn = S.scn("c01", asl, inputs=(copy.deepcopy(inp),), oracle=oracle_for(TASKS), workers=list(TASKS))

                def keep(r):
                    rec = list(r.outcomes.values())[0] or {}
                    outs.setdefault(json.dumps([rec.get("status"), rec.get("output"), rec.get("error")], sort_keys=True, default=str), r)
                explore_dfs(scn, budget=(120 if thorough else 40), d1=False, on_run=keep, execution_ttl=100000)
                for r in outs.values():
                    n += 1
                    o, esc = observe(n, asl, copy.deepcopy(inp), result=r)
                    obs.append(o)
                    meta[n] = {"definition": asl, "input": inp, "schedule": list(r.schedule)}
                continue
            n += 1
            o, esc = observe(n, asl, copy.deepcopy(inp))
            obs.append(o)
            meta[n] = {"definition": asl, "input": inp}
        def walk(m):
            for st in m["States"].values():
                types[st["Type"]] += 1
                for b in st.get("Branches", []):
                    walk(b)
                if "ItemProcessor" in st:
                    walk(st["ItemProcessor"])
        walk(asl)
        if len(meta) >= nprog * 2:
            break
    try:
        fails, stats = judge.run_judge("JudgeC01", obs, os.path.join(RUN, "C01-" + t), timeout=3000)
    except Exception as ex:
        v.machinery_failure(str(ex)[:1500])
        return v.finish()
    by_id = {o["id"]: o for o in obs}
    cl = collections.Counter()
    for f in fails:
        o = by_id[f["id"]]
        cl[(f["clause"], f["kf"])] += 1
        if f["kf"]:
            v.known_finding(f["kf"])
        else:
            v.violation(dict(meta[f["id"]], property="C01", clause=f["clause"]),
                        "%s: want %s got status=%s error=%s output=%s | %s" % (f["clause"], json.dumps(f["want"]), o["status"], o["error"],
                                                                              json.dumps(tagged.dec(o["output"]))[:120], json.dumps(meta[f["id"]]["definition"])[:400]))
    st_count = collections.Counter(o["status"] for o in obs)
    v.coverage = {"states": stats["states"], "transitions": stats["transitions"], "traces_validated_against_impl": len(obs),
                  "evaluations": len(obs), "distinct_nontrivial": len(obs),
                  "rule": "programs generated (seeded) from a grammar of the supported language -- Pass/Task/Choice/Wait/Succeed/Fail/Parallel/Map, <= 5 states per level, nesting <= 2, "
                          "every placement of InputPath/Parameters/ResultSelector/ResultPath/OutputPath/Catch/ItemsPath/ItemSelector/MaxConcurrency -- x 2 inputs, task behaviour fixed per function; "
                          "distinct definitions only; each (program, input) is a distinct case",
                  "samples": [meta[1], meta[len(obs) // 2]], "programs": len(seen), "state_types": dict(types), "observed_statuses": dict(st_count),
                  "failed_clauses": {"%s|%s" % k: c for k, c in cl.items()}, "exhaustive": False, "tlc_cpu_s": stats["tlc_cpu_s"]}
    v.assumptions = ["task behaviour is fixed per function name (echo / a fixed value / a fixed error)", "Cause texts are not compared",
                     "when several branches fail the winning error is left open (schedule-dependent)", "intrinsic functions are C13's, the full Choice operator set C14's"]
    return v.finish()


if __name__ == "__main__":
    sys.exit(run(*(sys.argv[1:2])))
