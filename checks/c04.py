"""C04: in-progress executions survive an engine crash and restart.  Every crash point of the
scenario corpus -- each boundary between two handler invocations (outcome preservation) and
each broker operation inside a handler (no loss) -- is enumerated on the real engine; the
recorded runs, each with the outcome of its crash-free twin, are validated by TLC against
Trace.tla (clauses OutcomePreserved, NoDuplicateRequest, EventuallyTerminal)."""
import collections
import json
import os
import sys

from common import Verdict, tier as get_tier, seed as get_seed, RUN
from vsim import tlc, scenarios as S
from vsim.explore import run_once, explore_dfs
from vsim.tracefile import BatchWriter

NB = 16
# (an exception escaping a handler after the restart loses the execution just as silently as a dropped message)
MINE = {"OutcomePreserved", "NoDuplicateRequest", "EventuallyTerminal", "NoEscapedException"}


def scenario_set(thorough):
    base = {s["id"]: s for s in S.protocol_scenarios() + S.failure_scenarios()}
    ids = ["pass-chain", "wait-chain", "exec-timeout-wait-fits", "choice", "task-chain", "task-task", "task-fails", "task-catch", "task-retry", "par-pass", "par-task-end",
           "map-task", "map-task-mc1", "map-pass"]
    if thorough:
        ids += ["two-execs", "par-task-next", "par-wait-task", "nested", "par-2step", "par-fail-unhandled",
                "map-fail-one", "par-inner-catch", "express-chain", "choice-after-task", "par-choice", "choice-nomatch"]
    return [base[i] for i in ids]


CRASH_MODEL_QUICK = ["task-chain", "task-fails", "par-pass", "choice"]
CRASH_MODEL_THOROUGH = CRASH_MODEL_QUICK + ["wait-chain", "task-timeout", "task-retry", "map-pass", "pass-chain", "task-task", "task-catch", "par-task-end", "choice-nomatch"]


def crash_model_stage(thorough, base, work, add_model_run):
    """Engine.tla with a crash budget of one: TLC explores EVERY crash point (between any two operations of any
    handler) under EVERY schedule; the state graph is covered by paths and every path -- crash, redelivery and
    restart included -- is driven through the real engine (checks/replay.py).  Zero drift means the model's
    crash/redelivery semantics are this code's; the recorded runs join the traces validated against Trace.tla."""
    import model
    import replay as rp
    from concurrent.futures import ThreadPoolExecutor
    wd = os.path.join(work, "model")
    os.makedirs(wd, exist_ok=True)
    ids = CRASH_MODEL_THOROUGH if thorough else CRASH_MODEL_QUICK
    out = {"scenarios": {}, "states": 0, "transitions": 0, "paths": 0, "paths_with_drift": 0, "crash_points_replayed": 0, "leads": []}

    def one(sid):
        s = base[sid]
        try:
            chk = model.check(s, wd, max_crash=1, name=sid + "_crash")
        except model.Unsupported as ex:
            return sid, None, str(ex)
        dot = os.path.join(wd, "gc_" + "".join(c if c.isalnum() else "_" for c in sid))
        graph = model.check(s, wd, max_crash=1, name=sid + "_crash", dump=dot)
        return sid, (chk, graph, dot + ".dot"), None
    with ThreadPoolExecutor(max_workers=8) as ex:
        results = list(ex.map(one, ids))
    for sid, r, why in results:
        if r is None:
            out["scenarios"][sid] = {"unsupported": why}
            continue
        chk, graph, dot = r
        for x in (chk, graph):
            if not x["ok"] and not x["violated"] and "Error" in x["out"]:
                raise tlc.TLCError("Engine.tla (crash budget 1) failed on %s:\n%s" % (sid, x["out"][-2500:]))
        out["states"] += chk["states"]
        out["transitions"] += chk["generated"]
        info = {"states": chk["states"], "invariants": "hold" if chk["ok"] else chk["violated"]}
        if not chk["ok"] and chk["violated"]:
            out["leads"].append({"scenario": sid, "invariant": chk["violated"]})
        try:
            paths, st = rp.replay_paths(base[sid], dot)
            info.update(edges=st["edges"], paths=st["paths"])
            for pth in paths:
                add_model_run(base[sid], pth)
                out["crash_points_replayed"] += len(pth.get("crashes", []))
                if pth.get("unrealisable"):
                    out["paths_cut_as_unrealisable_in_time"] = out.get("paths_cut_as_unrealisable_in_time", 0) + 1
                elif pth["drift"] or not pth["followed"]:
                    out["paths_with_drift"] += 1
                    info.setdefault("drift_example", str(pth["drift"][:1])[:300])
            out["paths"] += len(paths)
        finally:
            try:
                os.remove(dot)
            except OSError:
                pass
        out["scenarios"][sid] = info
    return out


def expect_events(twin):
    out = []
    for arn, rec in twin.outcomes.items():
        if rec is None:
            st = [n[1] for n in twin.notes if n[0] == arn]
            out.append({"k": "expect", "fr": 0, "t": 0, "exec": arn, "status": st[-1] if st else "", "output": None, "error": None, "strict": True})
        else:
            out.append({"k": "expect", "fr": 0, "t": 0, "exec": arn, "status": rec.get("status", ""), "output": rec.get("output"),
                        "error": rec.get("error"), "strict": True})
    return out


def run(tier_name=None, replay=None):
    t = get_tier(tier_name)
    thorough = t == "thorough"
    v = Verdict("C04", t, level="fault_enumeration")
    if replay:
        rp = json.load(open(replay))
        s = rp["scenario"]
        twin = run_once(s, schedule=rp.get("schedule", []))
        r = run_once(s, schedule=rp.get("schedule", []), crash=rp.get("crash"), policy=rp.get("policy", "first"), **rp.get("over", {}))
        ev = r.events + [dict(e, strict=("op" not in (rp.get("crash") or {}))) for e in expect_events(twin)]
        b = BatchWriter(os.path.join(RUN, "C04-replay.ndjson"))
        b.add_run(ev, s["id"])
        b.close()
        fails, stats = tlc.check_traces([b.path])
        for f in fails:
            print("  line %s %s %s kf=%s %s" % (f["n"], f["prop"], f["clause"], f["kf"] or "-", f["w"][:200]))
            if f["clause"] in MINE:
                (v.known_finding(f["kf"]) if f["kf"] else v.violation(rp, f["clause"]))
        v.coverage = {"evaluations": 1, "distinct_nontrivial": 2, "rule": "replay", "samples": [rp.get("crash")]}
        return v.finish()
    work = os.path.join(RUN, "C04-" + t)
    os.makedirs(work, exist_ok=True)
    bws = [BatchWriter(os.path.join(work, "b%02d.ndjson" % i)) for i in range(NB)]
    meta = {}
    k = [0]
    counters = collections.Counter()
    samples = []
    by_scn = {}

    def add(s, r, twin, crash, policy, strict, sched, over):
        b = bws[k[0] % NB]
        k[0] += 1
        ev = r.events + [dict(e, strict=strict) for e in expect_events(twin)]
        tid = b.add_run(ev, s["id"])
        meta[(b.path, tid)] = {"scenario": s["id"], "crash": crash, "policy": policy, "schedule": sched, "over": over}
        counters["runs"] += 1
        counters["boundary" if strict else "inside"] += 1
        if r.crash and r.crash.get("hit", True):
            counters["crashed"] += 1
        if len(samples) < 5 and s["id"] not in [x["scenario"] for x in samples]:
            samples.append({"scenario": s["id"], "crash": crash, "continuation": policy, "twin_outcome": [n[1] for n in twin.notes],
                            "outcome": [n[1] for n in r.notes]})

    deterministic = set()
    for s in scenario_set(thorough):
        # the crash-free outcome of these machines does not depend on the schedule (checked here on a sample of schedules)
        outs = set()
        explore_dfs(s, budget=12, d1=False, on_run=lambda r: outs.add(json.dumps([r.outcomes, [n[:2] for n in r.notes if n[1] != "RUNNING"]], sort_keys=True, default=str)))
        if len(outs) == 1 and s["id"] not in ("two-execs",):
            deterministic.add(s["id"])
    for s in scenario_set(thorough):
        by_scn[s["id"]] = s
        overs = [{}]
        if thorough and s["id"] in ("task-chain", "par-task-end", "pass-chain"):
            overs.append({"store": "redis"}) if os.path.exists(os.path.join(os.path.dirname(__file__), "..", "lib", "vsim", "fakeredis.py")) else None
        scheds = [[]]
        if thorough:
            # a few more crash-free schedules to crash along (first ones of the depth-first enumeration)
            got = []
            explore_dfs(s, budget=4, d1=False, on_run=lambda r: got.append(list(r.schedule)))
            scheds = [list(x) for x in {tuple(g) for g in got}] or [[]]
        for over in overs:
            for sched in scheds:
                twin = run_once(s, schedule=sched, **over)
                nframes = getattr(twin, "nframes", 0)
                # operations per engine frame of the twin
                ops_per_frame = []
                cur = None
                for e in twin.events:
                    if e["k"] == "frame":
                        if cur is not None:
                            ops_per_frame.append(cur)
                        cur = 0 if e.get("cause") in ("deliver", "reply", "timer", "return") and e.get("kind") != "heartbeat" else None
                    elif e["k"] in ("pub", "ack", "note") and cur is not None and e.get("conn", "").startswith("i"):
                        cur += 1
                if cur is not None:
                    ops_per_frame.append(cur)
                for kf in range(0, nframes + 1):
                    seen = set()
                    for policy in (("first", "last") if thorough or kf % 2 == 0 else ("first",)):
                        r = run_once(s, schedule=sched, policy=policy, crash={"frame": kf}, **over)
                        seen.add(tuple(r.schedule))
                        add(s, r, twin, {"frame": kf}, policy, True, sched, over)
                    if sched == [] and s["id"] in deterministic:
                        # every order of what is pending around the restart (worker take / reply / redelivered event / timers):
                        # depth-first over the schedules of the crashed run, deviations nearest the end (after the restart) first
                        def on_run(r, kf=kf, seen=seen):
                            if tuple(r.schedule) in seen:
                                return
                            seen.add(tuple(r.schedule))
                            add(s, r, twin, {"frame": kf}, "first", True, list(r.schedule), over)
                            counters["continuations"] += 1
                        explore_dfs(s, budget=(60 if thorough else 8), on_run=on_run, crash={"frame": kf}, **over)
                # crashes in the quiet periods (the engine only waits for a timer or a reply): part of the way through,
                # back a little later -- deadlines carried by the redelivered events must not start afresh
                if sched == []:
                    nq = sum(1 for i, e in enumerate(twin.events) if e["k"] == "frame" and i > 0 and e["t"] > max(x["t"] for x in twin.events[:i] if "t" in x))
                    for q in range(min(nq, 4)):
                        for frac in ((0.5, 0.9) if thorough or q == 0 else (0.9,)):
                            c = {"quiet": q, "frac": frac, "down": 0.05}
                            r = run_once(s, crash=c, **over)
                            if r.crash:
                                add(s, r, twin, c, "first", True, sched, over)
                                counters["quiet_period_crashes"] += 1
                for kf, nops in enumerate(ops_per_frame[:nframes]):
                    for j in range(nops):
                        if not thorough and (kf + j) % 2:
                            continue
                        r = run_once(s, schedule=sched, crash={"frame": kf, "op": j}, **over)
                        add(s, r, twin, {"frame": kf, "op": j}, "first", False, sched, over)
    def add_model_run(s, pth):
        b = bws[k[0] % NB]
        k[0] += 1
        by_scn.setdefault(s["id"], s)
        twin = twins.get(s["id"])
        if twin is None:
            twin = twins[s["id"]] = run_once(s)
        inside = any("op" in c for c in pth.get("crashes", []))
        ev = pth["events"] + [dict(e, strict=not inside) for e in expect_events(twin)]
        tid = b.add_run(ev, s["id"])
        meta[(b.path, tid)] = {"scenario": s["id"], "crash": pth.get("crashes"), "policy": "model path", "schedule": pth.get("labels", []), "over": {},
                               "model_path": True}
        counters["runs"] += 1
        counters["model_paths"] += 1
        if pth.get("crashes"):
            counters["crashed"] += 1
    twins = {}
    base_all = {s["id"]: s for s in S.protocol_scenarios() + S.failure_scenarios()}
    try:
        mstats = crash_model_stage(thorough, base_all, work, add_model_run)
    except tlc.TLCError as ex:
        v.machinery_failure(str(ex)[:1500])
        return v.finish()
    # the broker rules the crash property rests on (requeue at the head, redelivered flag, nothing lost or duplicated):
    # Broker.tla model-checked on its own (MC_Broker: Conservation, FIFO steps, structural invariants)
    import judge
    try:
        okb, bstats, btail = judge.run_laws("Broker", workers=(8 if thorough else 4), timeout=1500, cfg=("MC_Broker.cfg" if thorough else "MC_Broker_small.cfg"))
    except Exception as ex:
        okb, bstats, btail = False, {"law_states": 0}, str(ex)
    if not okb:
        v.machinery_failure("Broker.tla violates one of its own invariants (MC_Broker): " + btail[-800:])
        return v.finish()
    for b in bws:
        b.close()
    batches = [b.path for b in bws if b.lines]
    try:
        fails, stats = tlc.check_traces(batches)
    except tlc.TLCError as ex:
        v.machinery_failure(str(ex)[:1500])
        return v.finish()
    nfail = collections.Counter()
    for f in fails:
        m = meta[(f["batch"], f["tid"])]
        if f["prop"] == "ENV":
            v.machinery_failure("simulator disagrees with Broker.tla: %s in %s crash=%s line %s" % (f["clause"], m["scenario"], m["crash"], f["n"]))
            continue
        if f["clause"] not in MINE:
            continue
        nfail[(f["clause"], f["kf"], m["scenario"])] += 1
        if f["kf"]:
            v.known_finding(f["kf"])
        else:
            v.violation(dict(m, scenario=by_scn[m["scenario"]], property="C04", clause=f["clause"]),
                        "%s in %s crash=%s continuation=%s %s" % (f["clause"], m["scenario"], m["crash"], m["policy"], f["w"][:160]))
    v.coverage = {"evaluations": counters["runs"], "distinct_nontrivial": counters["crashed"],
                  "rule": "one evaluation = one run of the real engine with one crash point (a boundary between two handler invocations, or after the j-th broker "
                          "operation inside a handler), restart with redelivery, continuation to D1, validated by TLC against Trace.tla together with the outcome of its "
                          "crash-free twin; distinct = distinct (scenario, schedule, crash point, continuation order); non-trivial = the crash actually happened",
                  "samples": samples, "boundary_crashes": counters["boundary"], "quiet_period_crashes": counters["quiet_period_crashes"], "continuation_orders_beyond_first_last": counters["continuations"], "in_handler_crashes": counters["inside"],
                  "states": stats["states"] + mstats["states"] + bstats["law_states"], "transitions": stats["transitions"] + mstats["transitions"] + bstats["law_states"], "traces_validated_against_impl": counters["runs"],
                  "failed_clauses": {"%s|%s|%s" % kk: n for kk, n in nfail.items()}, "exhaustive": True,
                  "scenarios": sorted(by_scn), "tlc_cpu_s": stats["tlc_cpu_s"],
                  "broker_model_states": bstats["law_states"],
                  "crash_model": {"engine_states_all_crash_points_all_schedules": mstats["states"], "paths_replayed_into_real_engine": mstats["paths"],
                                  "crash_points_replayed": mstats["crash_points_replayed"], "paths_with_drift": mstats["paths_with_drift"],
                                  "invariant_leads": mstats["leads"], "per_scenario": mstats["scenarios"]}}
    v.assumptions = ["a crash loses the instance's volatile state and its connection; the broker requeues unacknowledged deliveries at the head, redelivered",
                     "file-backed configuration: execution records are volatile, so the verdict rests on the notifications",
                     "inside a handler only no-loss is required (the continuation may run twice)"]
    rc = v.finish()
    if rc == 0:
        for b in batches:
            try:
                os.remove(b)
            except OSError:
                pass
    return rc


if __name__ == "__main__":
    sys.exit(run(*(sys.argv[1:2])))
