"""C14: Choice rules compare by type and combine like Boolean logic -- single-Choice machines over an
enumerated case space are run by the REAL engine (one execution per case; the observation is the marker
Pass state reached, or the error of the FAILED record) and every observation is judged by TLC with
spec/Choice.tla (spec/JudgeC14.tla).  The laws of Choice.tla are model-checked (spec/MC_Choice.tla)."""
import collections
import itertools
import json
import os
import random
import re
import sys
import threading
import time
from datetime import datetime, timezone

from common import Verdict, tier as get_tier, seed as get_seed, RUN
import judge

from vsim import tagged
from vsim import world as W
from vsim.explore import run_once
from vsim import scenarios as S

# ---------------------------------------------------------------------------------------------
# values and their annotations for the specification
# ---------------------------------------------------------------------------------------------
class _Missing:
    def __repr__(self):
        return "MISSING"


MISSING = _Missing()
TS1 = "2020-01-01T12:00:00Z"
TS2 = "2020-01-01T17:30:00+05:30"        # the same instant in another offset
TS3 = "2020-01-01T11:30:00-01:00"        # a later instant whose text is smaller
TS4 = "2020-01-01T08:30:00-03:30"        # the instant of TS1 again, west of Greenwich with minutes in the offset
BASE = datetime(2000, 1, 1, tzinfo=timezone.utc)
TS_RE = re.compile(r"([0-9]{4}-[0-9]{2}-[0-9]{2}T[0-9]{2}:[0-9]{2}:[0-9]{2})(?:\.([0-9]+))?(Z|[+-][0-9]{2}:[0-9]{2})\Z")
NO_TS = {"ok": False, "sec": 0, "ns": 0}


def ts_info(s):
    """The instant an RFC 3339 text denotes, from a reference independent of the repository's parser
    (datetime.fromisoformat for date, time and offset; the fraction is read exactly, to nanoseconds):
    whole seconds since 2000-01-01T00:00:00Z and the nanoseconds within the second."""
    m = TS_RE.match(s)
    if not m:
        return NO_TS
    frac = m.group(2) or ""
    if len(frac) > 9:
        return NO_TS
    try:
        dt = datetime.fromisoformat(m.group(1) + ("+00:00" if m.group(3) == "Z" else m.group(3)))
    except ValueError:
        return NO_TS
    delta = dt - BASE
    sec = delta.days * 86400 + delta.seconds
    if abs(sec) >= 2 ** 31 - 1:
        return NO_TS
    return {"ok": True, "sec": sec, "ns": int((frac + "000000000")[:9])}


def aenc(v):
    """tagged.enc plus, on every string, its code points and its timestamp instant"""
    if isinstance(v, str):
        e = dict(tagged.enc_str(v))
        e["cp"] = [ord(c) for c in v]
        e["ts"] = ts_info(v)
        return e
    if isinstance(v, (list, tuple)):
        return {"t": "arr", "a": [aenc(x) for x in v]}
    if isinstance(v, dict):
        return {"t": "obj", "k": list(v.keys()), "v": [aenc(x) for x in v.values()]}
    return tagged.enc(v)


def steps(keys):
    return [{"k": "key", "key": k} for k in keys]


def ptext(keys):
    return "$" + "".join("." + k for k in keys)


# ---------------------------------------------------------------------------------------------
# rules: python form -> ASL for the engine, -> uniform nodes for the specification
# ---------------------------------------------------------------------------------------------
STRING_REL = ["StringEquals", "StringLessThan", "StringGreaterThan", "StringLessThanEquals", "StringGreaterThanEquals"]
NUMERIC = ["NumericEquals", "NumericLessThan", "NumericGreaterThan", "NumericLessThanEquals", "NumericGreaterThanEquals"]
TIMESTAMP = ["TimestampEquals", "TimestampLessThan", "TimestampGreaterThan", "TimestampLessThanEquals", "TimestampGreaterThanEquals"]
VALUE_OPS = STRING_REL + ["StringMatches"] + NUMERIC + ["BooleanEquals"] + TIMESTAMP
PATH_OPS = [op for op in VALUE_OPS if op != "StringMatches"]
TYPE_TESTS = ["IsNull", "IsPresent", "IsNumeric", "IsString", "IsBoolean", "IsTimestamp"]
assert len(VALUE_OPS) + len(PATH_OPS) + len(TYPE_TESTS) == 39


def atom(op, var, lit):
    return {"op": op, "var": [var], "path": False, "lit": lit}


def patom(op, var, ref):
    return {"op": op, "var": [var], "path": True, "ref": [ref]}


def And(*kids):
    return {"op": "And", "kids": list(kids)}


def Or(*kids):
    return {"op": "Or", "kids": list(kids)}


def Not(kid):
    return {"op": "Not", "kids": [kid]}


def to(rule, nxt):
    return dict(rule, next=nxt)


def asl_rule(r, top=True):
    if r["op"] in ("And", "Or"):
        d = {r["op"]: [asl_rule(k, False) for k in r["kids"]]}
    elif r["op"] == "Not":
        d = {"Not": asl_rule(r["kids"][0], False)}
    elif r["path"]:
        d = {"Variable": ptext(r["var"]), r["op"] + "Path": ptext(r["ref"])}
    else:
        d = {"Variable": ptext(r["var"]), r["op"]: r["lit"]}
    if top:
        d["Next"] = r["next"]
    return d


def spec_rule(r, top=True):
    """the node records of Choice.tla (only the fields the node's kind uses)"""
    if r["op"] in ("And", "Or", "Not"):
        d = {"op": r["op"], "kids": [spec_rule(k, False) for k in r["kids"]]}
    elif r["path"]:
        d = {"op": r["op"], "var": steps(r["var"]), "path": True, "ref": steps(r["ref"])}
    else:
        d = {"op": r["op"], "var": steps(r["var"]), "path": False, "lit": aenc(r["lit"])}
    if top:
        d["next"] = r["next"]
    return d


MARKERS = ("M1", "M2", "M3", "M4", "D")


def machine(rules, hasdef, inpath):
    ch = {"Type": "Choice", "Choices": [asl_rule(r) for r in rules]}
    if hasdef:
        ch["Default"] = "D"
    if inpath:
        ch["InputPath"] = ptext(inpath)
    st = {"C": ch}
    for m in MARKERS:
        st[m] = {"Type": "Pass", "Result": m, "End": True}
    return {"StartAt": "C", "States": st}


class Case:
    __slots__ = ("family", "rules", "hasdef", "inpath", "raw", "out", "id")

    def __init__(self, family, rules, raw, hasdef=False, inpath=None):
        self.family, self.rules, self.raw, self.hasdef, self.inpath = family, rules, raw, hasdef, inpath
        self.out = None
        self.id = 0

    def mkey(self):
        return json.dumps([self.rules, self.hasdef, self.inpath], sort_keys=True)

    def obs(self):
        return {"id": self.id, "raw": aenc(self.raw),
                "st": {"inpath": steps(self.inpath or []), "rules": [spec_rule(r) for r in self.rules],
                       "default": {"set": bool(self.hasdef), "next": "D" if self.hasdef else ""}},
                "out": self.out}

    def payload(self):
        return {"property": "C14", "family": self.family, "rules": self.rules, "hasdef": self.hasdef,
                "inpath": self.inpath, "input": self.raw, "machine": machine(self.rules, self.hasdef, self.inpath),
                "observed": self.out}


# ---------------------------------------------------------------------------------------------
# running the real engine
# ---------------------------------------------------------------------------------------------
def outcome_of(rec, err):
    if rec is None:
        return {"kind": "crash", "name": ("escaped: " + err.splitlines()[0][:120]) if err else "no execution record"}
    if rec.get("status") == "SUCCEEDED":
        try:
            name = json.loads(rec.get("output"))
        except Exception:
            name = None
        if isinstance(name, str) and name in MARKERS:
            return {"kind": "next", "name": name}
        return {"kind": "crash", "name": "unexpected output %r" % (rec.get("output"),)}
    if rec.get("status") == "FAILED" and isinstance(rec.get("error"), str) and rec["error"]:
        return {"kind": "fail", "name": rec["error"]}
    return {"kind": "crash", "name": "status %s" % rec.get("status")}


def run_batch(asl, cases):
    r = run_once(S.scn("c14", asl, inputs=tuple(c.raw for c in cases)), d1=False)
    if r.error and len(cases) > 1:          # attribute an escaped exception to the execution that caused it
        for c in cases:
            run_batch(asl, [c])
        return
    for k, c in enumerate(cases):
        c.out = outcome_of(r.outcomes.get(W.exec_arn("sm", "e%d" % (k + 1))), r.error)


def _run_task(task):
    rules, hasdef, inpath, raws = task
    cs = [Case("", rules, raw, hasdef, inpath) for raw in raws]
    run_batch(machine(rules, hasdef, inpath), cs)
    return [c.out for c in cs]


def run_all(cases, pool=None, chunk=64):
    """Run every case on the real engine: cases sharing a machine are started as several executions of one
    world (64 at a time); with a pool the batches are spread over forked worker processes (each case is an
    independent execution, so the result does not depend on the distribution)."""
    groups = collections.OrderedDict()
    for c in cases:
        groups.setdefault(c.mkey(), []).append(c)
    tasks, owners = [], []
    for cs in groups.values():
        for i in range(0, len(cs), chunk):
            part = cs[i:i + chunk]
            tasks.append((part[0].rules, part[0].hasdef, part[0].inpath, [c.raw for c in part]))
            owners.append(part)
    results = pool.imap(_run_task, tasks, chunksize=8) if pool else map(_run_task, tasks)
    for part, outs in zip(owners, results):
        for c, o in zip(part, outs):
            c.out = o
    return len(groups)


# ---------------------------------------------------------------------------------------------
# the case space
# ---------------------------------------------------------------------------------------------
VALUES_Q = [MISSING, None, True, False, 0, 1, -1, 1.5, "", "a", "A", "b", "*", TS1, TS2, TS3, TS4, [], {}]
VALUES_T = VALUES_Q + [2, 100, 0.001, -1.5, 0.1, 2 ** 31, 1e100, "ab", "aa", "B", "a b", "\u00e9", "\uffff", "\U00010000",
                       "2020-01-01T12:00:00.5Z", "2020-01-01T12:00:00.123456Z", "2020-01-01T12:00:00.1234567Z",
                       "2020-01-01T12:00:00.000001+00:00", "2020-01-01t12:00:00z", "2020-01-01", "2016-12-31T23:59:60Z",
                       " 2020-01-01T12:00:00Z", "2020-02-30T00:00:00Z", "2020-01-01T12:00:00", "1999-12-31T23:59:59-00:01",
                       [1], {"a": 1}, [[]], "true", "1", "null"]


def doc(**kv):
    return {k: v for k, v in kv.items() if v is not MISSING}


def grid_cases(values):
    consts = [v for v in values if v is not MISSING]
    out = []
    for op in VALUE_OPS:                                        # literal form
        for c in consts:
            rules = [to(atom(op, "v", c), "M1")]
            for v in values:
                out.append(Case("literal", rules, doc(v=v)))
    for op in PATH_OPS:                                         # Path form (the reference may be missing)
        rules = [to(patom(op, "v", "c"), "M1")]
        for c in values:
            for v in values:
                out.append(Case("path", rules, doc(v=v, c=c)))
    for op in TYPE_TESTS:
        for c in [True, False, 0, 1, "a", None]:
            rules = [to(atom(op, "v", c), "M1")]
            for v in values:
                out.append(Case("typetest", rules, doc(v=v), hasdef=(c is False)))
    return out


FAMILY_VALUES = {"String": ("a", "b"), "Numeric": (1, 2), "Boolean": (False, True), "Timestamp": (TS1, TS3)}


def fam_of(op):
    for f in FAMILY_VALUES:
        if op.startswith(f):
            return f


def inputpath_cases():
    """InputPath selects $.in: Variable and the Path references are read from the effective input"""
    out = []
    for op in PATH_OPS:
        lo, hi = FAMILY_VALUES[fam_of(op)]
        rules = [to(patom(op, "v", "c"), "M1")]
        for v in (lo, hi):
            for c in (lo, hi):
                for rc in (lo, hi, MISSING):
                    out.append(Case("inputpath", rules, doc(**{"in": doc(v=v, c=c), "c": rc, "v": hi}), hasdef=True, inpath=["in"]))
        out.append(Case("inputpath", rules, doc(**{"in": doc(v=lo), "c": lo, "v": lo}), hasdef=True, inpath=["in"]))
    for op in VALUE_OPS:
        lo, hi = FAMILY_VALUES[fam_of(op)]
        rules = [to(atom(op, "v", lo), "M1")]
        for v in (lo, hi, MISSING):
            for rv in (lo, hi, MISSING):
                out.append(Case("inputpath", rules, doc(**{"in": doc(v=v), "v": rv}), inpath=["in"]))
    for op in TYPE_TESTS:
        rules = [to(atom(op, "v", True), "M1")]
        for v in (None, "a", MISSING):
            for rv in (None, 1, MISSING):
                out.append(Case("inputpath", rules, doc(**{"in": doc(v=v), "v": rv}), hasdef=True, inpath=["in"]))
    return out


A = atom("BooleanEquals", "a", False)
Bq = atom("NumericEquals", "b", 1)
Cq = atom("StringMatches", "c", "a*")
TREE_ATOMS = [A, Bq, Cq]
A_VALS = [False, True, MISSING]
B_VALS = [1, 0, "x"]
C_VALS = ["ab", "b", 5]


def tree_inputs(full):
    if full:
        return [doc(a=a, b=b, c=c) for a in A_VALS for b in B_VALS for c in C_VALS]
    ins = [doc(a=a, b=b, c=c) for a in A_VALS[:2] for b in B_VALS[:2] for c in C_VALS[:2]]
    ins += [doc(a=MISSING, b=1, c="ab"), doc(a=False, b="x", c=5), doc(a=MISSING, b=0, c="b")]
    return ins


def trees(depth2_ordered):
    d0 = list(TREE_ATOMS)
    d1 = [Not(t) for t in d0] + [And(t, u) for t in d0 for u in d0] + [Or(t, u) for t in d0 for u in d0]
    le1 = d0 + d1
    d2 = [Not(t) for t in d1]
    for i, t in enumerate(le1):
        for j, u in enumerate(le1):
            if i < len(d0) and j < len(d0):
                continue
            if not depth2_ordered and j < i:
                continue
            d2.append(And(t, u))
            d2.append(Or(t, u))
    extra = [And(A, Bq, Cq), Or(A, Bq, Cq), And(Not(A), Bq, Cq), Or(Not(A), Not(Bq), Not(Cq)), Not(And(A, Bq, Cq)),
             Not(Or(A, Bq, Cq)), And(A), Or(Cq), Not(Not(A)), Not(Not(Not(Cq)))]
    return d0 + d1 + d2 + extra


def tree_cases(thorough):
    out = []
    ins = tree_inputs(thorough)
    for t in trees(thorough):
        rules = [to(t, "M1")]
        for raw in ins:
            out.append(Case("tree", rules, raw, hasdef=True))
    return out


def order_cases(thorough):
    """all orders of <= 3 rules (distinct Next each), with and without Default"""
    out = []
    rs = [to(A, "M1"), to(Bq, "M2"), to(Cq, "M3")]
    ins = tree_inputs(thorough)
    lists = []
    for n in (1, 2, 3):
        lists += [list(p) for p in itertools.permutations(rs, n)]
    lists += [[to(A, "M1"), to(A, "M2")], [to(A, "M2"), to(A, "M1")], [to(Not(A), "M1"), to(A, "M2"), to(Bq, "M3")],
              [to(Or(A, Bq), "M3"), to(And(A, Bq), "M1"), to(Cq, "M2")], [to(Cq, "M1"), to(Bq, "M1"), to(A, "M2")]]
    for L in lists:
        for hasdef in (False, True):
            for raw in ins:
                out.append(Case("order", L, raw, hasdef=hasdef))
    return out


TOKENS = ["a", "*", "\\*", "?", "[", "]", "\\"]
SUBJ_CHARS = ["a", "*", "?", "[", "]", "\\", "b"]
SUBJ_LONG = ["aa", "ab", "ba", "a*", "*a", "**", "a?", "?a", "\\*", "\\\\", "\\a", "a\\", "[a", "a]", "[]", "][",
             "aaa", "aba", "a*a", "a\\*", "[*]", "[a]", "\\\\*", "*\\", "??"]


def pattern_cases(thorough):
    out = []
    subj1 = [""] + SUBJ_CHARS
    subj_all = subj1 + SUBJ_LONG
    subj3 = ["", "a", "*", "\\", "aa", "a*", "\\*", "\\\\", "[a]", "aba", "a\\*", "*\\"]
    for n in (0, 1, 2, 3):
        for toks in itertools.product(TOKENS, repeat=n):
            pat = "".join(toks)
            rules = [to(atom("StringMatches", "v", pat), "M1")]
            subs = subj_all if (n <= 2 or thorough) else subj3
            for s in subs:
                out.append(Case("pattern", rules, {"v": s}))
    return out


def random_cases(rng, n_trees, n_lists, n_pats):
    out = []
    pool = [A, Bq, Cq, atom("IsPresent", "a", True), atom("StringLessThan", "c", "b"), atom("NumericGreaterThanEquals", "b", 0.5),
            patom("NumericEquals", "b", "a"), atom("IsString", "c", True), atom("TimestampLessThanEquals", "c", TS2),
            patom("StringEquals", "c", "a"), atom("IsNull", "b", False), atom("BooleanEquals", "a", True)]
    a_vals = A_VALS + [None, 1, "ab"]
    b_vals = B_VALS + [MISSING, 0.5, True, None]
    c_vals = C_VALS + [MISSING, TS1, TS3, TS4, "", "a"]

    def rtree(depth):
        r = rng.random()
        if depth == 0 or r < 0.25:
            return rng.choice(pool)
        if r < 0.45:
            return Not(rtree(depth - 1))
        kids = [rtree(depth - 1) for _ in range(rng.choice([1, 2, 2, 3]))]
        return And(*kids) if rng.random() < 0.5 else Or(*kids)
    for _ in range(n_trees):
        rules = [to(rtree(rng.choice([3, 4])), "M1")]
        for _ in range(4):
            out.append(Case("random-tree", rules, doc(a=rng.choice(a_vals), b=rng.choice(b_vals), c=rng.choice(c_vals)), hasdef=rng.random() < 0.5))
    for _ in range(n_lists):
        L = [to(rtree(rng.choice([0, 1, 2])), rng.choice(["M1", "M2", "M3", "M4"])) for _ in range(rng.choice([2, 3, 4]))]
        hasdef = rng.random() < 0.5
        for _ in range(4):
            out.append(Case("random-order", L, doc(a=rng.choice(a_vals), b=rng.choice(b_vals), c=rng.choice(c_vals)), hasdef=hasdef))
    chars = ["a", "b", "*", "?", "[", "]", "\\", "!", "-", "^", ".", "\u00e9"]
    for _ in range(n_pats):
        toks = [rng.choice(TOKENS + ["b", "\\\\", "!", "-", "^", ".", "\u00e9"]) for _ in range(rng.randrange(1, 7))]
        pat = "".join(toks)
        rules = [to(atom("StringMatches", "v", pat), "M1")]
        for _ in range(4):
            # a subject derived from the pattern (stars replaced by runs, escapes resolved), sometimes perturbed
            s = ""
            for t in toks:
                if t == "*":
                    s += "".join(rng.choice(chars) for _ in range(rng.randrange(0, 3)))
                elif t in ("\\*", "\\\\"):
                    s += t[1]
                else:
                    s += t
            if rng.random() < 0.4 and s:
                k = rng.randrange(len(s))
                s = s[:k] + rng.choice(chars) + s[k + 1:]
            out.append(Case("random-pattern", rules, {"v": s}))
    return out


def build_cases(thorough, rng):
    cases = grid_cases(VALUES_T if thorough else VALUES_Q)
    cases += inputpath_cases()
    cases += tree_cases(thorough)
    cases += order_cases(thorough)
    cases += pattern_cases(thorough)
    if thorough:
        cases += random_cases(rng, 1500, 800, 1500)
    for k, c in enumerate(cases):
        c.id = k + 1
    return cases


# ---------------------------------------------------------------------------------------------
def judge_cases(cases, workdir, parts=16):
    obs = [c.obs() for c in cases]
    return judge.run_judge("JudgeC14", obs, workdir, parts=parts)


def describe(c):
    return "%s rules=%s default=%s%s input=%s -> %s" % (
        c.family, json.dumps([asl_rule(r) for r in c.rules])[:260], "D" if c.hasdef else "none",
        (" InputPath=" + ptext(c.inpath)) if c.inpath else "", json.dumps(c.raw)[:120], json.dumps(c.out))


def run(tier_name=None, replay=None):
    t = get_tier(tier_name)
    thorough = t == "thorough"
    v = Verdict("C14", t)
    rng = random.Random(get_seed() * 7919 + 14)

    if replay:
        rp = json.load(open(replay))
        c = Case(rp.get("family", "replay"), rp["rules"], rp["input"], rp["hasdef"], rp["inpath"])
        c.id = 1
        run_all([c])
        print("   replayed on the real engine:", describe(c))
        try:
            fails, stats = judge_cases([c], os.path.join(RUN, "C14-replay"))
        except Exception as ex:
            v.machinery_failure(str(ex)[:1500])
            return v.finish()
        for f in fails:
            print("  ", f)
            if f["kf"]:
                for k in f["kf"].split("+"):
                    v.known_finding(k)
            else:
                v.violation(c.payload(), "%s: %s" % (f["clause"], describe(c)))
        v.coverage = {"states": stats["states"] or 1, "transitions": max(stats["transitions"], 1),
                      "traces_validated_against_impl": 1, "samples": [describe(c)]}
        return v.finish()

    # the laws of the specification, model-checked while the engine runs
    laws = {}

    def do_laws():
        try:
            laws["res"] = judge.run_laws("Choice", workers=4)
            # cross-layer law: the Choice rule language of the protocol model (EngineChoice!RuleHolds) agrees with Choice!Eval
            ok2, st2, tail2 = judge.run_laws("EngineChoice", workers=2)
            if not ok2:
                laws["res"] = (False, laws["res"][1], "cross-layer law MC_EngineChoice fails: " + tail2)
        except Exception as ex:        # reported below as a machinery failure
            laws["exc"] = ex
    import multiprocessing
    pool = multiprocessing.get_context("fork").Pool(min(12 if thorough else 6, os.cpu_count() or 1))      # forked before any thread exists
    th = threading.Thread(target=do_laws)
    th.start()

    cases = build_cases(thorough, rng)
    t_engine = time.time()
    try:
        nmachines = run_all(cases, pool)
    finally:
        pool.terminate()
    t_engine = round(time.time() - t_engine, 2)
    try:
        fails, stats = judge_cases(cases, os.path.join(RUN, "C14-" + t), parts=16 if thorough else 8)
    except Exception as ex:
        th.join()
        v.machinery_failure(str(ex)[:1500])
        return v.finish()
    th.join()
    if "exc" in laws:
        v.machinery_failure("model-checking the laws of Choice.tla failed to run: %s" % str(laws["exc"])[:800])
        lawstats = {"law_states": 0}
    else:
        ok, lawstats, tail = laws["res"]
        if not ok:
            m = re.search(r"Invariant (\w+) is violated", tail)
            v.machinery_failure("a law of Choice.tla fails in TLC%s: %s" % ((" (" + m.group(1) + ")") if m else "", tail[-900:]))
    stats["states"] += lawstats["law_states"]
    stats["transitions"] += lawstats["law_states"]

    by_id = {c.id: c for c in cases}
    cl = collections.Counter()
    for f in fails:
        c = by_id[f["id"]]
        cl["%s|%s|%s" % (c.family, f["clause"], f["kf"])] += 1
        if f["kf"]:
            for k in f["kf"].split("+"):
                v.known_finding(k)
        else:
            v.violation(c.payload(), "%s: %s" % (f["clause"], describe(c)))
    fam = collections.Counter(c.family for c in cases)
    outs = collections.Counter(c.out["kind"] + ":" + c.out["name"] for c in cases)
    distinct = len({(c.mkey(), json.dumps(c.raw, sort_keys=True)) for c in cases})
    matched = len({(c.mkey(), json.dumps(c.raw, sort_keys=True)) for c in cases if c.out["kind"] == "next" and c.out["name"] != "D"})
    picks = [cases[(len(cases) * k) // 7] for k in range(7)]
    v.coverage = {
        "states": stats["states"], "transitions": stats["transitions"],
        "traces_validated_against_impl": len(cases), "evaluations": len(cases),
        "distinct_nontrivial": matched,
        "rule": "one case = (single-Choice machine, execution input); %d distinct cases were run, counted here are the distinct cases in which "
                "the real engine took a rule's Next (a comparison or rule tree matched); families: 39 operators x variable values x comparison "
                "constants (literal and Path form, incl. missing reference), InputPath-filtered inputs, And/Or/Not trees to depth 2 over 3 atoms, "
                "all orders of <= 3 rules with and without Default, StringMatches patterns of <= 3 tokens over {a, *, \\*, ?, [, ], \\}%s"
                % (distinct, "; thorough adds more values (non-ASCII, big numbers, odd timestamps), all ordered depth-2 trees, all inputs, and random trees, rule lists and patterns" if thorough else ""),
        "samples": [describe(c) for c in picks],
        "families": dict(fam), "machines": nmachines, "outcomes": dict(outs.most_common(12)),
        "failed_clauses": dict(cl), "exhaustive": True, "tlc_cpu_s": stats["tlc_cpu_s"], "tlc_wall_s": stats["tlc_wall_s"], "engine_wall_s": t_engine,
        "laws_model_checked": "MC_Choice: De Morgan, double negation, identity elements, commutativity/associativity, excluded middle, "
                              "literal = Path form, type discipline, total orders per family, timestamps by instant, type facts, first match "
                              "(independent characterisation, order only through first match, removal of non-matching rules, Default), "
                              "code-point order, wildcard laws, result-set algebra over %d cases in %ss" % (lawstats["law_states"], lawstats.get("law_wall_s"))}
    v.assumptions = [
        "a value comparison whose comparison constant has another type than the operator's never matches (no relation can hold); "
        "type tests with a constant other than true/false, type tests other than IsPresent on a missing Variable, a Path reference that "
        "does not exist, backslash before a character other than '*' or backslash, and strings that are nearly timestamps are left open",
        "the code points and the timestamp instants of strings are prepared by the harness (ord(); datetime.fromisoformat with the fraction "
        "read exactly), not by the repository's parser; numbers beyond 32-bit fractions are left open"]
    return v.finish()


if __name__ == "__main__":
    sys.exit(run(*(sys.argv[1:2])))
