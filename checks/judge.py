"""Judge mode: observations of the real functions are written as ndjson and TLC decides each
one with the Layer-A operators (spec/Judge*.tla)."""
import json
import os
import time
from concurrent.futures import ThreadPoolExecutor

from common import RUN, KNOWN_FILE
from vsim import tlc


def write_obs(path, rows):
    with open(path, "w") as f:
        for r in rows:
            f.write(json.dumps(r, separators=(",", ":")))
            f.write("\n")


def run_judge(module, obs, workdir, parts=16, timeout=1500, cfg="Judge.cfg", env=None):
    """Split the observations over `parts` TLC runs of spec/<module>.tla.  Every observation
    must carry a unique "id".  Returns (failures, stats): failures are dicts(id, clause, kf)."""
    os.makedirs(workdir, exist_ok=True)
    known = tlc.merged_known()
    parts = max(1, min(parts, (len(obs) + 199) // 200))
    files = []
    for p in range(parts):
        rows = obs[p::parts]
        if not rows:
            continue
        path = os.path.join(workdir, "obs%02d.ndjson" % p)
        write_obs(path, rows)
        files.append(path)

    def one(path):
        e = {"OBS_FILE": path, "KNOWN_FINDINGS": known}
        e.update(env or {})
        r = tlc.run_tlc(module + ".tla", cfg, env=e, workers=1, timeout=timeout)
        v = tlc.parse_verdict(r["out"])
        if v is None or "No error has been found" not in r["out"]:
            raise tlc.TLCError("TLC judge %s failed on %s (rc=%s):\n%s" % (module, path, r["rc"], r["out"][-3000:]))
        return v, r
    fails, states, cpu = [], 0, 0.0
    t0 = time.time()
    with ThreadPoolExecutor(max_workers=16) as ex:
        for v, r in ex.map(one, files):
            fails.extend(v["failures"])
            states += r["distinct"]
            cpu += r["wall"]
    for f in files:
        try:
            os.remove(f)
        except OSError:
            pass
    return fails, {"states": states, "transitions": max(states - len(files), 0), "judged": len(obs),
                   "tlc_wall_s": round(time.time() - t0, 2), "tlc_cpu_s": round(cpu, 2)}


def run_laws(module, workers=4, timeout=900, cfg=None):
    """Model-check the laws of a Layer-A module (spec/MC_<module>.tla).  A failing law means the
    specification itself is inconsistent: a machinery failure, never a property violation."""
    r = tlc.run_tlc("MC_%s.tla" % module, cfg or ("MC_%s.cfg" % module), workers=workers, timeout=timeout)
    ok = "Model checking completed. No error has been found." in r["out"]
    return ok, {"law_states": r["distinct"], "law_wall_s": round(r["wall"], 2)}, r["out"][-2500:]


def run_proofs(module, timeout=900):
    """TLAPS (tlapm) on spec/proofs/<module>.tla: unbounded proofs of laws that TLC checks for small values only.
    Returns (all obligations proved?, {"obligations": n, "proof_wall_s": s}, tail).  The proof files are copied to a
    scratch directory (tlapm writes its cache next to them)."""
    import shutil
    import subprocess
    import time
    from common import RUN
    wd = os.path.join(RUN, "proofs-" + module)
    shutil.rmtree(wd, ignore_errors=True)
    os.makedirs(wd)
    shutil.copy(os.path.join(tlc.SPEC, "proofs", module + ".tla"), wd)
    t0 = time.time()
    try:
        p = subprocess.run(["tlapm", "-I", tlc.SPEC, "--toolbox", "0", "0", "--cleanfp", module + ".tla"], cwd=wd, stdout=subprocess.PIPE,
                           stderr=subprocess.STDOUT, text=True, timeout=timeout)
        out = p.stdout
    except subprocess.TimeoutExpired as ex:
        out = (ex.stdout or "") if isinstance(ex.stdout, str) else ""
        out += "\n(tlapm timed out)"
    import re
    m = re.search(r"All (\d+) obligations? proved", out)
    shutil.rmtree(wd, ignore_errors=True)
    return bool(m), {"obligations": int(m.group(1)) if m else 0, "proof_wall_s": round(time.time() - t0, 1)}, out[-1500:]
