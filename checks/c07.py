"""C07: Retry and Catch follow the States Language error-handling policy.  One retried /
caught state (Task, Map, Parallel) is run on the real engine with a scripted sequence of task
outcomes under the virtual clock; the attempt instants and the final transfer are judged by
TLC with spec/ErrorPolicy.tla (spec/JudgeC07.tla)."""
import collections
import itertools
import json
import os
import random
import sys
from fractions import Fraction

from common import Verdict, tier as get_tier, seed as get_seed, RUN
import judge

from vsim import tagged
from vsim.explore import run_once
from vsim import scenarios as S

ERR_SETS = [["E1"], ["E2"], ["E1", "E2"], ["States.ALL"], ["States.Timeout"], ["States.TaskFailed"], ["States.Runtime"]]
RATES = {1: (1, 1), 1.5: (3, 2), 2: (2, 1), None: (2, 1)}
CATCH_RPS = [None, "$", "$.err", "$.a.err", "null"]


def rp_spec(rp):
    if rp is None or rp == "$":
        return {"kind": "root", "steps": []}
    if rp == "null":
        return {"kind": "null", "steps": []}
    return {"kind": "steps", "steps": [{"k": "key", "key": k} for k in rp[2:].split(".")]}


def build(stype, retr, catch, timeout_s=None):
    T, P, SM, Par, Mp = S.T, S.P, S.SM, S.Par, S.Mp
    retry = []
    for r in retr:
        d = {"ErrorEquals": r["errs"]}
        if r.get("interval") is not None:
            d["IntervalSeconds"] = r["interval"]
        if r.get("max") is not None:
            d["MaxAttempts"] = r["max"]
        if r.get("rate") is not None:
            d["BackoffRate"] = r["rate"]
        retry.append(d)
    catchers = []
    states = {}
    for j, c in enumerate(catch):
        d = {"ErrorEquals": c["errs"], "Next": "C%d" % (j + 1)}
        if c["rp"] == "null":
            d["ResultPath"] = None
        elif c["rp"] is not None:
            d["ResultPath"] = c["rp"]
        catchers.append(d)
        states["C%d" % (j + 1)] = P(Parameters={"w.$": "$", "m": "C%d" % (j + 1)}, End=True)
    task = T("f", End=True)
    if timeout_s:
        task["TimeoutSeconds"] = timeout_s
    extra = {}
    if retry:
        extra["Retry"] = retry
    if catchers:
        extra["Catch"] = catchers
    if stype == "Task":
        main = dict(task, **extra)
        main.pop("End")
        main["Next"] = "OK"
    elif stype == "Parallel":
        main = Par([SM("B", B=task)], Next="OK", **extra)
    else:
        main = Mp(SM("B", B=task), ItemsPath="$.items", Next="OK", **extra)
    states["X"] = main
    states["OK"] = P(Parameters={"w.$": "$", "m": "OK"}, End=True)
    return {"StartAt": "X", "States": states}


def observe(oid, stype, retr, catch, outcomes, rng):
    timeout_s = 2 if "States.Timeout" in outcomes else None
    asl = build(stype, retr, catch, timeout_s)
    inp = {"a": {"k": 1}, "items": [1]}
    oracle = []
    for o in outcomes:
        if o == "ok":
            oracle.append({"ok": {"r": 1}})
        elif o == "States.Timeout":
            oracle.append({"silent": True})
        else:
            oracle.append({"error": o, "cause": "boom"})
    r = run_once(S.scn("c07", asl, inputs=(inp,), oracle={"f": oracle}), d1=False, execution_ttl=100000)
    ev = r.events
    attempts = [e["t"] for e in ev if e["k"] == "pub" and e.get("kind") == "rpc"]
    # the instant at which the engine handled each failure: the reply / timeout frame of each failed attempt
    fails = []
    for e in ev:
        if e["k"] == "frame" and e.get("cause") == "reply":
            fails.append(e["t"])
        elif e["k"] == "frame" and e.get("cause") == "timer" and e.get("kind") == "tasktimeout":
            fails.append(e["t"])
    rec = list(r.outcomes.values())[0] or {}
    final = {"kind": "none", "idx": 0, "error": "", "output": tagged.enc(None)}
    if rec.get("status") == "SUCCEEDED":
        out = json.loads(rec["output"])
        if isinstance(out, dict) and out.get("m") == "OK":
            final = {"kind": "succeeded", "idx": 0, "error": "", "output": tagged.enc(None)}
        elif isinstance(out, dict) and str(out.get("m", "")).startswith("C"):
            w = out.get("w")
            w = normalise_cause(w)
            final = {"kind": "caught", "idx": int(out["m"][1:]), "error": "", "output": tagged.enc(w)}
    elif rec.get("status") == "FAILED":
        final = {"kind": "failed", "idx": 0, "error": rec.get("error") or "", "output": tagged.enc(None)}
    nfail = sum(1 for k in range(len(attempts)) if (outcomes[min(k, len(outcomes) - 1)] != "ok"))
    return {"id": oid, "kind": "policy", "stype": stype,
            "retriers": [{"errs": x["errs"], "interval": x["interval"] if x.get("interval") is not None else 1,
                          "max": x["max"] if x.get("max") is not None else 3, "rate": list(RATES[x.get("rate")])} for x in retr],
            "catchers": [{"errs": c["errs"], "next": "C%d" % (j + 1), "rp": rp_spec(c["rp"])} for j, c in enumerate(catch)],
            "outcomes": outcomes, "attempts": attempts, "fails": fails[:nfail], "final": final, "input": tagged.enc(inp),
            "attempts2": [], "fails2": [], "interval2": 0}


def observe_exect(oid, retr, catch, timeout_s, exect, delay_ms):
    """A Task with TimeoutSeconds under a machine-level TimeoutSeconds, the worker silent, the Task's event handled
    `delay_ms` after it was published (a backlog, a restart): when the EXECUTION's deadline is what expires, no Retrier
    and no Catcher -- States.ALL included -- may take the error (ErrorPolicy!Unrecoverable)."""
    import c08
    asl = build("Task", retr, catch, timeout_s)
    asl["States"]["A0"] = S.P(Next="X")
    asl = dict(asl, StartAt="A0", TimeoutSeconds=exect)
    inp = {"a": {"k": 1}, "items": [1]}
    ev = c08.Drive(S.scn("c07x", asl, inputs=(inp,), oracle={"f": [{"silent": True}]})).run(delay_state="X", delay_ms=delay_ms)
    px = c08.first(ev, lambda e: e["k"] == "pub" and e.get("kind") == "event" and e.get("state") == "X")
    entered = px["t"] if px else -1
    attempts = [e["t"] for e in ev if e["k"] == "pub" and e.get("kind") == "rpc"]
    notes = [e for e in ev if e["k"] == "note" and e["status"] != "RUNNING"]
    final = {"kind": "none", "idx": 0, "error": "", "output": tagged.enc(None)}
    if notes and notes[-1]["status"] == "SUCCEEDED":
        took = [e.get("state") for e in ev if e["k"] == "pub" and e.get("kind") == "event" and str(e.get("state", "")).startswith("C")]
        final = dict(final, kind="caught", idx=int(took[-1][1:])) if took else dict(final, kind="succeeded")
    elif notes:
        final = dict(final, kind="failed", error=(notes[-1].get("detail", {}) or {}).get("error") or "")
    return {"id": oid, "kind": "exect", "stype": "Task",
            "retriers": [{"errs": x["errs"], "interval": x["interval"] if x.get("interval") is not None else 1,
                          "max": x["max"] if x.get("max") is not None else 3, "rate": list(RATES[x.get("rate")])} for x in retr],
            "catchers": [{"errs": c["errs"], "next": "C%d" % (j + 1), "rp": rp_spec(c["rp"])} for j, c in enumerate(catch)],
            "outcomes": [], "attempts": attempts, "fails": [], "final": final, "input": tagged.enc(inp),
            "attempts2": [], "fails2": [], "interval2": 0,
            "entered": entered, "handled": (entered + delay_ms) if entered >= 0 else -1, "timeout": timeout_s, "exect": exect}


def normalise_cause(w):
    """Cause texts are not compared (only that a Cause travels with the Error)."""
    def fix(x):
        if isinstance(x, dict):
            if set(x.keys()) == {"Error", "Cause"} and isinstance(x["Cause"], str):
                return {"Error": x["Error"], "Cause": "<cause>"}
            return {k: fix(v) for k, v in x.items()}
        if isinstance(x, list):
            return [fix(v) for v in x]
        return x
    return fix(w)


def retrier_asl(r):
    d = {"ErrorEquals": r["errs"]}
    if r.get("interval") is not None:
        d["IntervalSeconds"] = r["interval"]
    if r.get("max") is not None:
        d["MaxAttempts"] = r["max"]
    if r.get("rate") is not None:
        d["BackoffRate"] = r["rate"]
    return d


def retrier_obs(x):
    return {"errs": x["errs"], "interval": x["interval"] if x.get("interval") is not None else 1,
            "max": x["max"] if x.get("max") is not None else 3, "rate": list(RATES[x.get("rate")])}


def observe_nested(oid, stype, outer, inner, outcomes):
    """a retried Parallel/Map whose branch starts with a retried Task: every re-run of the outer state gives the inner
    state fresh counters, and the inner state's retries are not counted against the outer state"""
    T, P, SM, Par, Mp = S.T, S.P, S.SM, S.Par, S.Mp
    task = T("f", End=True, Retry=[retrier_asl(r) for r in inner])
    if stype == "Parallel":
        main = Par([SM("B", B=task)], Next="OK", Retry=[retrier_asl(r) for r in outer])
    else:
        main = Mp(SM("B", B=task), ItemsPath="$.items", Next="OK", Retry=[retrier_asl(r) for r in outer])
    asl = {"StartAt": "X", "States": {"X": main, "OK": P(Parameters={"w.$": "$", "m": "OK"}, End=True)}}
    inp = {"a": {"k": 1}, "items": [1]}
    oracle = [({"ok": {"r": 1}} if o == "ok" else {"error": o, "cause": "boom"}) for o in outcomes]
    r = run_once(S.scn("c07n", asl, inputs=(inp,), oracle={"f": oracle}), d1=False, execution_ttl=100000)
    ev = r.events
    attempts = [e["t"] for e in ev if e["k"] == "pub" and e.get("kind") == "rpc"]
    fails = [e["t"] for e in ev if e["k"] == "frame" and e.get("cause") == "reply"]
    rec = list(r.outcomes.values())[0] or {}
    final = {"kind": "none", "idx": 0, "error": "", "output": tagged.enc(None)}
    if rec.get("status") == "SUCCEEDED":
        final["kind"] = "succeeded"
    elif rec.get("status") == "FAILED":
        final = {"kind": "failed", "idx": 0, "error": rec.get("error") or "", "output": tagged.enc(None)}
    nfail = sum(1 for k in range(len(attempts)) if (outcomes[min(k, len(outcomes) - 1)] != "ok"))
    return {"id": oid, "kind": "nested", "stype": stype, "retriers": [retrier_obs(x) for x in outer], "inner": [retrier_obs(x) for x in inner],
            "catchers": [], "outcomes": outcomes, "attempts": attempts, "fails": fails[:nfail], "final": final, "input": tagged.enc(inp),
            "attempts2": [], "fails2": [], "interval2": 0}


def nested_cases(thorough, rng):
    out = []
    names = ["E1", "E2"]
    seqs = []
    for n in range(1, 5 if thorough else 4):
        for seq in itertools.product(names, repeat=n):
            seqs.append(list(seq) + ["ok"])
            if n <= 3:
                seqs.append(list(seq))
    singles = [{"errs": errs, "interval": i, "max": m, "rate": rate}
               for errs in (["E1"], ["E2"], ["States.ALL"]) for i in (1, 2, 3) for m in (1, 2, None) for rate in (1, 2, None)]
    seen = set()
    want = 1500 if thorough else 120
    while len(out) < want:
        outer = [rng.choice(singles)]
        inner = [rng.choice(singles)]
        if outer[0]["errs"] == inner[0]["errs"] and rng.random() < 0.5:
            continue
        c = (rng.choice(["Parallel", "Map"]), outer, inner, rng.choice(seqs))
        key = json.dumps(c, sort_keys=True)
        if key in seen:
            continue
        seen.add(key)
        out.append(c)
    return out


def leak_obs(oid, i1, i2):
    """two retrying Task states in sequence: the second one's counter starts afresh"""
    T, P, SM = S.T, S.P, S.SM
    asl = SM("A", A=T("f", Retry=[{"ErrorEquals": ["E1"], "IntervalSeconds": i1, "MaxAttempts": 3, "BackoffRate": 2.0}], Next="B"),
             B=T("g", Retry=[{"ErrorEquals": ["E1"], "IntervalSeconds": i2, "MaxAttempts": 3, "BackoffRate": 2.0}], End=True))
    r = run_once(S.scn("c07-leak", asl, oracle={"f": [{"error": "E1"}, {"error": "E1"}, {"ok": 1}], "g": [{"error": "E1"}, {"ok": 2}]}), d1=False)
    a2 = [e["t"] for e in r.events if e["k"] == "pub" and e.get("kind") == "rpc" and e.get("fn") == "g"]
    g_corr = {e["corr"] for e in r.events if e["k"] == "pub" and e.get("kind") == "rpc" and e.get("fn") == "g"}
    f2 = [e["t"] for e in r.events if e["k"] == "frame" and e.get("cause") == "reply" and e.get("corr") in g_corr]
    return {"id": oid, "kind": "leak", "stype": "Task", "retriers": [], "catchers": [], "outcomes": [], "attempts": [], "fails": [],
            "final": {"kind": "none", "idx": 0, "error": "", "output": tagged.enc(None)}, "input": tagged.enc(None),
            "attempts2": a2, "fails2": f2[:1], "interval2": i2}


def leak_mc_obs(oid, i2):
    """a Map with MaxConcurrency 1: the first item's Task is retried once and succeeds, the second item's Task fails with an
    error only the MAP's retrier matches -- the Map's first retry comes after its own IntervalSeconds (the retry count of
    the first item's Task must not travel with the event that re-enters the Map for its next block)"""
    T, P, SM, Mp = S.T, S.P, S.SM, S.Mp
    task = T("f", End=True, Retry=[{"ErrorEquals": ["E1"], "IntervalSeconds": 1, "MaxAttempts": 2, "BackoffRate": 1.0}])
    asl = SM("M", M=dict(Mp(SM("B", B=task), ItemsPath="$.items", End=True), MaxConcurrency=1,
                         Retry=[{"ErrorEquals": ["E2"], "IntervalSeconds": i2, "MaxAttempts": 2, "BackoffRate": 2.0}]))
    oracle = {"f": [{"error": "E1"}, {"ok": 1}, {"error": "E2"}, {"ok": 1}, {"ok": 2}]}
    r = run_once(S.scn("c07-leakmc", asl, inputs=({"items": [1, 2]},), oracle=oracle), d1=False, execution_ttl=100000)
    rpcs = [e["t"] for e in r.events if e["k"] == "pub" and e.get("kind") == "rpc"]
    replies = [e["t"] for e in r.events if e["k"] == "frame" and e.get("cause") == "reply"]
    # calls: 1 item1 (E1), 2 item1 again (ok), 3 item2 (E2: the Map fails), 4 item1 of the re-run Map
    a2 = rpcs[2:4] if len(rpcs) >= 4 else rpcs[2:]
    f2 = replies[2:3]
    return {"id": oid, "kind": "leak", "stype": "Map", "retriers": [], "catchers": [], "outcomes": [], "attempts": [], "fails": [],
            "final": {"kind": "none", "idx": 0, "error": "", "output": tagged.enc(None)}, "input": tagged.enc(None),
            "attempts2": a2, "fails2": f2, "interval2": i2}


def case_space(thorough, rng):
    retr_pool = [[]]
    singles = []
    for errs in ERR_SETS:
        for interval in (1, 2, 3, None):
            for mx in (0, 1, 2, None):
                for rate in (1, 1.5, 2, None):
                    singles.append({"errs": errs, "interval": interval, "max": mx, "rate": rate})
    catch_single = [{"errs": errs, "rp": rp} for errs in ERR_SETS for rp in CATCH_RPS]
    outcome_seqs = []
    names = ["E1", "E2", "States.Timeout", "States.TaskFailed", "States.Runtime", "States.Permissions"]
    for n in range(1, 5):
        for seq in itertools.product(names[:3] if n > 2 else names, repeat=n):
            outcome_seqs.append(list(seq) + ["ok"])
            outcome_seqs.append(list(seq))
    n_cases = 12000 if thorough else 420
    cases = []
    seen = set()
    while len(cases) < n_cases:
        nr = rng.choice([0, 1, 1, 2])
        nc = rng.choice([0, 1, 1, 2])
        retr = [rng.choice(singles) for _ in range(nr)]
        catch = [rng.choice(catch_single) for _ in range(nc)]
        outs = rng.choice(outcome_seqs)
        # keep backoff delays integral in ms: with rate 1.5 at most 3 retries matter
        stype = rng.choice(["Task", "Task", "Parallel", "Map"])
        key = json.dumps([stype, retr, catch, outs], sort_keys=True)
        if key in seen:
            continue
        seen.add(key)
        cases.append((stype, retr, catch, outs))
    return cases


def run(tier_name=None, replay=None):
    t = get_tier(tier_name)
    thorough = t == "thorough"
    v = Verdict("C07", t)
    rng = random.Random(get_seed() * 101 + 7)
    if replay:
        rp = json.load(open(replay))
        fails, stats = judge.run_judge("JudgeC07", [rp["obs"]], os.path.join(RUN, "C07-replay"))
        for f in fails:
            print("  ", f)
            v.violation(rp, f["clause"])
        v.coverage = {"states": max(stats["states"], 1), "transitions": max(stats["transitions"], 1),
                      "traces_validated_against_impl": 1, "samples": [rp.get("case")]}
        return v.finish()
    obs = []
    meta = {}
    n = 0
    for stype, retr, catch, outs in case_space(thorough, rng):
        n += 1
        o = observe(n, stype, retr, catch, outs, rng)
        obs.append(o)
        meta[n] = {"stype": stype, "retriers": retr, "catchers": catch, "outcomes": outs}
    for stype, outer, inner, outs in nested_cases(thorough, rng):
        n += 1
        obs.append(observe_nested(n, stype, outer, inner, outs))
        meta[n] = {"nested": stype, "outer": outer, "inner": inner, "outcomes": outs}
    # the execution's own timeout against every kind of handler, the Task's event handled before, between and after the deadlines
    hs = [([{"errs": ["States.ALL"], "interval": 1, "max": 2, "rate": None}], []),
          ([], [{"errs": ["States.ALL"], "rp": None}]),
          ([{"errs": ["States.Timeout"], "interval": 1, "max": 1, "rate": None}], [{"errs": ["States.TaskFailed"], "rp": "$.e"}]),
          ([], [{"errs": ["States.Timeout"], "rp": None}, {"errs": ["States.ALL"], "rp": None}])]
    for retr, catch in hs if thorough else hs[:3]:
        for timeout_s, exect in ((2, 5), (5, 2), (3, 3)):
            for delay in (0, 2500, 4000, 6000, 9000) if thorough else (0, 4000, 9000):
                n += 1
                obs.append(observe_exect(n, retr, catch, timeout_s, exect, delay))
                meta[n] = {"execution_timeout": exect, "task_timeout": timeout_s, "retriers": retr, "catchers": catch, "event_delayed_ms": delay}
    for i2 in (1, 3):
        n += 1
        obs.append(leak_mc_obs(n, i2))
        meta[n] = {"leak_across_map_blocks": i2}
    for i1, i2 in ((1, 1), (1, 2), (2, 3), (3, 1)):
        n += 1
        obs.append(leak_obs(n, i1, i2))
        meta[n] = {"leak": [i1, i2]}
    try:
        fails, stats = judge.run_judge("JudgeC07", obs, os.path.join(RUN, "C07-" + t))
        ok, lawstats, tail = judge.run_laws("ErrorPolicy")
        if not ok:
            v.machinery_failure("a law of ErrorPolicy.tla fails in TLC: " + tail[-800:])
        stats["states"] += lawstats["law_states"]
        stats["transitions"] += lawstats["law_states"]
    except Exception as ex:
        v.machinery_failure(str(ex)[:1500])
        return v.finish()
    by_id = {o["id"]: o for o in obs}
    cl = collections.Counter()
    for f in fails:
        o = by_id[f["id"]]
        cl[(f["clause"], f["kf"])] += 1
        if f["kf"]:
            v.known_finding(f["kf"])
        else:
            v.violation({"property": "C07", "obs": o, "case": meta[f["id"]]},
                        "%s: %s attempts=%s fails=%s final=%s" % (f["clause"], json.dumps(meta[f["id"]])[:300], o["attempts"], o["fails"],
                                                               json.dumps({k: o["final"][k] for k in ("kind", "idx", "error")})))
    retried = sum(1 for o in obs if len(o["attempts"]) > 1)
    caught = sum(1 for o in obs if o["final"]["kind"] == "caught")
    v.coverage = {"states": stats["states"], "transitions": stats["transitions"], "traces_validated_against_impl": len(obs),
                  "evaluations": len(obs), "distinct_nontrivial": sum(1 for o in obs if len(o["attempts"]) > 1 or o["final"]["kind"] in ("caught", "failed")),
                  "rule": "distinct (state type, retrier list, catcher list, outcome sequence) tuples sampled (seeded) from the product of: 0-2 retriers x 0-2 catchers, "
                          "ErrorEquals over {E1, E2, E1+E2, States.ALL, States.Timeout, States.TaskFailed, States.Runtime}, IntervalSeconds {1,2,3,default}, MaxAttempts {0,1,2,default}, "
                          "BackoffRate {1,1.5,2,default}, outcome sequences of length <= 4 (+ success); non-trivial = the run retried at least once or ended in a catcher/failure",
                  "samples": [meta[i] for i in (1, 2, 3)], "runs_with_retries": retried, "runs_caught": caught,
                  "failed_clauses": {"%s|%s" % k: c for k, c in cl.items()}, "exhaustive": False, "tlc_cpu_s": stats["tlc_cpu_s"]}
    v.assumptions = ["attempt instants are the virtual-clock times at which the requests reach the broker",
                     "Cause texts are not compared", "States.TaskFailed as a wildcard and per-retrier vs per-state counting are left open"]
    return v.finish()


if __name__ == "__main__":
    sys.exit(run(*(sys.argv[1:2])))
