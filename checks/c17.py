"""C17: names and ARNs round-trip and link executions to their state machine.

(a) judge mode: the real valid_name / create_arn / parse_arn against spec/Arn.tla on every
    string of length <= 4 over a ten-character alphabet (and on seeded samples up to length 81
    at thorough);
(b) site consistency: machines are created and executions started through the real API (and as
    raw start events), STANDARD and EXPRESS, with crash/restart, the execution-timeout backstop
    and child launches; every identifier met (API responses, notifications, records) is handed
    to TLC as a character list and decided with Arn.tla (spec/JudgeC17.tla)."""
import asyncio
import collections
import itertools
import json
import os
import random
import sys
import threading

from common import Verdict, tier as get_tier, seed as get_seed, RUN
import judge

from vsim import tagged
from vsim import world as W
from vsim.explore import run_once
from vsim import scenarios as S

import asl_workflow_engine.arn as arn_mod
import asl_workflow_engine.rest_api_asyncio as ra

ALPHA = ["a", "0", ":", "/", ".", "-", "_", " ", "\n", "#"]
FORBIDDEN = " <>{}[]?*\"#%\\^|~`$&,;:/"
SM_PREFIX = "arn:aws:states:local:0123456789:stateMachine:"
EX_PREFIX = "arn:aws:states:local:0123456789:execution:m:"
ch = tagged.chars

# names the API must accept (and under which executions are really run)
GOOD_NAMES = ["a", "0", "m.1-a_b", "A.b-c_d9", "-", "_x_", "x" * 80, "9" * 79 + "."]
# names the API must refuse
BAD_NAMES = ["", "x" * 81, "a:b", "a/b", ":", "a b", "a#b", "a\n:b", "a:\nb", "\n/", "a,b", "a;b", "a$b", "a*"]


def all_strings(maxlen, alpha=ALPHA):
    for n in range(maxlen + 1):
        for t in itertools.product(alpha, repeat=n):
            yield "".join(t)


# ---- observations of the functions ---------------------------------------------------------
def parts_t(d):
    """parse_arn's dictionary (or create_arn's arguments) as the record Arn.tla uses"""
    rt = d.get("resource_type")
    return {"ok": True, "arn": ch(d["arn"]), "partition": ch(d["partition"]), "service": ch(d["service"]),
            "region": ch(d["region"]), "account": ch(d["account"]), "hasType": rt is not None,
            "rtype": ch(rt or ""), "resource": ch(d["resource"])}


NOPARTS = {"ok": False, "arn": [], "partition": [], "service": [], "region": [], "account": [],
           "hasType": False, "rtype": [], "resource": []}


def obs_valid(oid, s, real=None, where="valid_name"):
    if real is None:
        real = bool(ra.valid_name(s))
    return {"id": oid, "kind": "valid", "s": ch(s), "real": bool(real), "where": where,
            "text": "%s name=%r accepted=%s" % (where, s if len(s) < 90 else s[:87] + "...", bool(real))}


def obs_parse(oid, x):
    try:
        d = arn_mod.parse_arn(x)
        out = parts_t(d)
    except Exception:
        out = dict(NOPARTS)
    return {"id": oid, "kind": "parse", "x": ch(x), "out": out}


def obs_create(oid, d, as_dict=False):
    if as_dict:
        text = arn_mod.create_arn(dict(d))
    else:
        text = arn_mod.create_arn(resource=d["resource"], arn=d["arn"], partition=d["partition"], service=d["service"],
                                  region=d["region"], account=d["account"], resource_type=d["resource_type"])
    return {"id": oid, "kind": "create", "p": parts_t(d), "out": ch(text), "text": text}


def create_cases(resources):
    for partition in ("aws", ""):
        for service in ("states", "iam", "rpcmessage"):
            for region in ("local", ""):
                for account in ("0123456789", ""):
                    for rt in (None, "", "stateMachine", "execution", "role"):
                        for res in resources:
                            yield {"arn": "arn", "partition": partition, "service": service, "region": region,
                                   "account": account, "resource_type": rt, "resource": res}


# ---- observations at the sites of real runs ----------------------------------------------------
def link(site, via, sm, name, exec_arn, sm_seen=None, name_seen=None, recipe=None, found=True):
    """found: the site visibly acted on the machine (False: it behaved as if the machine did not exist)"""
    return {"kind": "link", "site": site, "via": via, "found": bool(found), "sm": ch(sm), "hasName": name is not None, "name": ch(name or ""),
            "exec": ch(exec_arn or ""), "hasSm": sm_seen is not None, "smSeen": ch(sm_seen or ""),
            "hasNameSeen": name_seen is not None, "nameSeen": ch(name_seen or ""),
            "text": "%s/%s machine=%r name=%r exec=%r sm_seen=%r name_seen=%r" % (site, via, sm, name, exec_arn, sm_seen, name_seen),
            "recipe": recipe or {}}


def note_links(events, via_of, sm_of, name_of, recipe_of, skip=()):
    """one link observation per notification (and one more for its subject and resources)"""
    out = []
    for e in events:
        if e["k"] != "note":
            continue
        arn = e["exec"]
        if arn in skip or arn not in sm_of:
            continue
        det = e["detail"]
        site = "notification-" + str(e["status"])
        out.append(link(site, via_of[arn], sm_of[arn], name_of[arn], arn, det.get("stateMachineArn"), det.get("name"), recipe_of[arn]))
        subj = e["subject"]
        sfx = "." + str(e["status"])
        res = (e["event"].get("resources") or [""])[0]
        out.append(link(site + "-subject", via_of[arn], sm_of[arn], name_of[arn], res,
                        subj[:-len(sfx)] if subj.endswith(sfx) else subj, None, recipe_of[arn]))
    return out


MACHINE = S.chain(("A", S.P()), ("B", S.T("f")), ("C", S.P(Result={"x": 1})))


def api_post_async(w, action, params):
    """An API call whose handler waits for the engine (StartSyncExecution): post it, let the
    engine run, then collect the response."""
    I = w.i0()
    if I.api_client is None:
        w.api("ListStateMachines", {})
    coro = I.api_client.post("/", data=json.dumps(params), headers={
        "Content-Type": "application/x-amz-json-1.0", "x-amz-target": "AWSStepFunctions." + action})
    task = w.loop.create_task(coro)
    for _ in range(3):
        for _ in range(200):
            w.loop.run_until_complete(asyncio.sleep(0))
            if task.done():
                break
        if task.done():
            break
        w.run()
    if not task.done():
        task.cancel()
        try:
            w.loop.run_until_complete(asyncio.sleep(0))
        except BaseException:
            pass
        return 0, {}
    resp = task.result()
    data = w.loop.run_until_complete(resp.get_data())
    try:
        return resp.status_code, json.loads(data.decode("utf-8")) if data else {}
    except ValueError:
        return resp.status_code, {"__text__": data.decode("utf-8", "replace")[:200]}


OTHER_ROLE = "arn:aws:iam::987654321098:role/other"      # a role of another account


def api_sites(typ, sm_names, exec_names, vias=("api", "raw", "raw-unnamed", "sync"), rerole=False):
    """Machines created and executions started through the real API / as raw events; every
    identifier met afterwards.  rerole: the machine's roleArn is first changed (UpdateStateMachine)
    to a role of another account -- the machine's ARN keeps the account it was created with.
    Returns (observations, stats)."""
    obs = []
    stats = collections.Counter()
    w = W.World(tag="c17")
    try:
        w.add_worker("f")
        for smn in sm_names:
            st, body = w.api("CreateStateMachine", {"name": smn, "definition": json.dumps(MACHINE), "roleArn": W.ROLE, "type": typ})
            if st != 200:
                obs.append(obs_valid(0, smn, False, "CreateStateMachine"))
                continue
            obs.append(obs_valid(0, smn, True, "CreateStateMachine"))
            sm = body["stateMachineArn"]
            obs.append(dict(obs_parse(0, sm), where="CreateStateMachine"))
            if rerole:
                st, body = w.api("UpdateStateMachine", {"stateMachineArn": sm, "roleArn": OTHER_ROLE})
                if st != 200:
                    stats["rerole-refused"] += 1
            via_of, sm_of, name_of, rec_of = {}, {}, {}, {}
            w.rec.events.clear()
            for en in exec_names:
                for via in vias:
                    rcp = {"group": "api", "type": typ, "sm": smn, "exec": en, "via": via, "rerole": rerole}
                    if via == "api":
                        st, b = w.api("StartExecution", {"stateMachineArn": sm, "name": en, "input": "{}"})
                        obs.append(obs_valid(0, en, st == 200, "StartExecution"))
                        if st != 200:
                            continue
                        arn = b["executionArn"]
                        obs.append(link("StartExecution-response", via, sm, en, arn, None, None, rcp))
                        name = en
                    elif via == "sync":
                        if typ != "EXPRESS":
                            continue
                        name = en + "s" if len(en) < 80 else en[:-1] + "s"
                        st, b = api_post_async(w, "StartSyncExecution", {"stateMachineArn": sm, "name": name, "input": "{}"})
                        if st != 200:
                            stats["sync-failed"] += 1
                            continue
                        arn = b.get("executionArn") or ""
                        obs.append(link("StartSyncExecution-response", via, sm, name, arn, b.get("stateMachineArn"), b.get("name"), rcp))
                    elif via == "raw":
                        name = en + "r" if len(en) < 80 else en[:-1] + "r"
                        w.start_raw(sm, {"k": 1}, name=name)
                        arn = None
                    else:
                        name = None
                        w.start_raw(sm, {"k": 1}, name=None)
                        arn = None
                    stats["executions"] += 1
                    if arn is None:
                        # the engine mints the ARN: it is learnt from the first notification that is new
                        w.run()
                        new = [e["exec"] for e in w.rec.events if e["k"] == "note" and e["exec"] not in sm_of]
                        if not new:
                            stats["lost-start"] += 1
                            continue
                        arn = new[0]
                    via_of[arn], sm_of[arn], name_of[arn], rec_of[arn] = via, sm, name, rcp
            w.run()
            got = note_links(w.rec.events, via_of, sm_of, name_of, rec_of)
            obs.extend(got)
            stats["notifications"] += len(got) // 2
            for arn in sm_of:
                n_notes = len([1 for e in w.rec.events if e["k"] == "note" and e["exec"] == arn])
                if n_notes < 2:
                    stats["missing-notification"] += 1
            if typ == "STANDARD":
                st, lst = w.api("ListExecutions", {"stateMachineArn": sm})
                listed = {x["executionArn"]: x for x in (lst.get("executions", []) if st == 200 else [])}
                for arn in sm_of:
                    st, d = w.api("DescribeExecution", {"executionArn": arn})
                    if st != 200:
                        stats["missing-record"] += 1
                        continue
                    obs.append(link("DescribeExecution", via_of[arn], sm_of[arn], name_of[arn], d.get("executionArn"),
                                    d.get("stateMachineArn"), d.get("name"), rec_of[arn]))
                    stats["records"] += 1
                    x = listed.get(arn)
                    if x is None:
                        stats["missing-listing"] += 1
                    else:
                        obs.append(link("ListExecutions", via_of[arn], sm_of[arn], name_of[arn], x.get("executionArn"),
                                        x.get("stateMachineArn"), x.get("name"), rec_of[arn]))
                    st, d = w.api("DescribeStateMachineForExecution", {"executionArn": arn})
                    if st == 200:
                        obs.append(link("DescribeStateMachineForExecution", via_of[arn], sm_of[arn], name_of[arn], arn,
                                        d.get("stateMachineArn"), None, rec_of[arn]))
                    else:
                        stats["missing-machine-for-execution"] += 1
    finally:
        w.close()
    return obs, stats


def crash_sites(typ, smn, en, frames=(1, 2, 3, 4)):
    """crash and restart: the redelivered events meet an empty executions store, the record is
    re-created from the execution ARN alone"""
    obs = []
    stats = collections.Counter()
    sc = S.scn("c17-crash", MACHINE, typ=typ)
    sc["machines"][0]["name"] = smn
    sc["starts"] = [{"machine": smn, "name": en, "input": {}, "via": "api"}]
    sm = W.sm_arn(smn)
    for k in frames:
        rcp = {"group": "crash", "type": typ, "sm": smn, "exec": en, "frame": k}
        r = run_once(sc, crash={"frame": k}, d1=False)
        if r.error:
            stats["escaped"] += 1
        arn_want = W.exec_arn(smn, en)
        arns = {e["exec"] for e in r.events if e["k"] == "note"} | {arn_want}
        via_of = {a: "crash@%d" % k for a in arns}
        obs.extend(note_links(r.events, via_of, {a: sm for a in arns}, {a: en for a in arns}, {a: rcp for a in arns}))
        stats["runs"] += 1
        rec = r.outcomes.get(arn_want)
        if rec is not None:
            obs.append(link("record-after-restart", "crash@%d" % k, sm, en, rec.get("executionArn"),
                            rec.get("stateMachineArn"), rec.get("name"), rcp))
            if rec.get("input") is None:
                stats["recreated-records"] += 1
        elif typ == "STANDARD":
            stats["missing-record"] += 1
    return obs, stats


def backstop_sites(typ, smn, en, kind="par"):
    """a fan-out whose branch waits in a long retry interval past the machine's TimeoutSeconds:
    the heartbeat back-stop fails the execution, deriving the machine from the execution ARN"""
    retry = [{"ErrorEquals": ["Boom"], "IntervalSeconds": 250, "MaxAttempts": 2, "BackoffRate": 1.0}]
    if kind == "par":
        asl = S.SM("P", P=S.Par([S.SM("A", A=S.T("f", Retry=retry, End=True)), S.SM("B", B=S.P(End=True))], End=True))
    else:
        asl = S.SM("M", M=S.Mp(S.SM("A", A=S.T("f", Retry=retry, End=True)), End=True))
    asl["TimeoutSeconds"] = 30
    sc = S.scn("c17-backstop", asl, typ=typ, oracle={"f": [{"error": "Boom"}]}, execution_ttl=500)
    sc["machines"][0]["name"] = smn
    sc["starts"] = [{"machine": smn, "name": en, "input": [1, 2], "via": "api"}]
    rcp = {"group": "backstop", "type": typ, "sm": smn, "exec": en, "fanout": kind}
    r = run_once(sc, d1=False)
    sm = W.sm_arn(smn)
    arn_want = W.exec_arn(smn, en)
    arns = {e["exec"] for e in r.events if e["k"] == "note"} | {arn_want}
    obs = note_links(r.events, {a: "backstop" for a in arns}, {a: sm for a in arns}, {a: en for a in arns}, {a: rcp for a in arns})
    stats = collections.Counter()
    stats["runs"] += 1
    if any("Forcing clean up" in str(e["detail"].get("cause")) for e in r.events if e["k"] == "note"):
        stats["backstop-hit"] += 1
    rec = r.outcomes.get(arn_want)
    if rec is not None:
        # the back-stop looks the machine up under the ARN it derives; only with the machine (its type) in hand
        # does it write the terminal status it announces into the stored record
        ended = [e["status"] for e in r.events if e["k"] == "note" and e["exec"] == arn_want and e["status"] != "RUNNING"]
        obs.append(link("record-after-backstop", "backstop", sm, en, rec.get("executionArn"), rec.get("stateMachineArn"), rec.get("name"), rcp,
                        found=(not ended or rec.get("status") == ended[0])))
    elif typ == "STANDARD":
        stats["missing-record"] += 1
    return obs, stats


CHILD = S.chain(("C1", S.P(Result={"c": 1})))


def child_sites(ctyp, resource, cname):
    """a Task launching a child execution under Parameters.Name"""
    obs = []
    stats = collections.Counter()
    rcp = {"group": "child", "type": ctyp, "resource": resource, "exec": cname}
    w = W.World(tag="c17")
    try:
        st, b = w.api("CreateStateMachine", {"name": "kid.1", "definition": json.dumps(CHILD), "roleArn": W.ROLE, "type": ctyp})
        if st != 200:
            return [obs_valid(0, "kid.1", False, "CreateStateMachine")], stats
        kid = b["stateMachineArn"]
        params = {"StateMachineArn": kid, "Input": {"a": 1}, "Name": cname}
        parent = S.SM("T", T={"Type": "Task", "Resource": "arn:aws:states:::states:" + resource, "Parameters": params, "End": True})
        st, b = w.api("CreateStateMachine", {"name": "par", "definition": json.dumps(parent), "roleArn": W.ROLE, "type": "STANDARD"})
        if st != 200:
            return [obs_valid(0, "par", False, "CreateStateMachine")], stats
        st, b2 = w.api("StartExecution", {"stateMachineArn": b["stateMachineArn"], "name": "p1", "input": "{}"})
        if st != 200:
            return [obs_valid(0, "p1", False, "StartExecution")], stats
        w.rec.events.clear()
        w.run()
        kid_notes = [e for e in w.rec.events if e["k"] == "note" and not e["exec"].startswith(W.exec_arn("par", ""))]
        accepted = len(kid_notes) > 0
        obs.append({"kind": "child", "name": ch(cname), "accepted": accepted, "text": "child %s %s Name=%r" % (ctyp, resource, cname), "recipe": rcp})
        stats["child-runs"] += 1
        if 1 <= len(cname) <= 80 and not any(c in cname for c in FORBIDDEN) and accepted:
            arns = {e["exec"] for e in kid_notes}
            obs.extend(note_links(kid_notes, {a: "child" for a in arns}, {a: kid for a in arns}, {a: cname for a in arns}, {a: rcp for a in arns}))
            prec = w.outcome(b2["executionArn"]) or {}
            try:
                out = json.loads(prec.get("output") or "null")
            except ValueError:
                out = None
            if isinstance(out, dict):
                low = {k.lower(): v for k, v in out.items()}
                if isinstance(low.get("executionarn"), str):
                    obs.append(link("parent-task-result", "child", kid, cname, low["executionarn"],
                                    low.get("statemachinearn") if isinstance(low.get("statemachinearn"), str) else None,
                                    low.get("name") if isinstance(low.get("name"), str) else None, rcp))
            if ctyp == "STANDARD":
                for a in arns:
                    st, d = w.api("DescribeExecution", {"executionArn": a})
                    if st == 200:
                        obs.append(link("DescribeExecution", "child", kid, cname, d.get("executionArn"), d.get("stateMachineArn"), d.get("name"), rcp))
    finally:
        w.close()
    return obs, stats


def for_tlc(o):
    """what TLC needs of an observation (free text stays on the Python side)"""
    return {k: x for k, x in o.items() if k not in ("text", "recipe", "where")}


def replay_case(rp):
    """re-run the case of a replay file on the real code; returns observations"""
    o = rp["obs"]
    k = o["kind"]
    if k == "valid" and o.get("where", "valid_name") == "valid_name":
        return [obs_valid(1, rp["input"])]
    if k == "parse" and "input" in rp:
        return [obs_parse(1, rp["input"])]
    if k == "create" and "input" in rp:
        return [obs_create(1, rp["input"], rp.get("as_dict", False))]
    r = o.get("recipe") or rp.get("recipe") or {}
    g = r.get("group")
    if g == "api":
        obs, _ = api_sites(r["type"], [r["sm"]], [r["exec"]], vias=(r["via"],), rerole=r.get("rerole", False))
    elif g == "crash":
        obs, _ = crash_sites(r["type"], r["sm"], r["exec"], frames=(r["frame"],))
    elif g == "backstop":
        obs, _ = backstop_sites(r["type"], r["sm"], r["exec"], r.get("fanout", "par"))
    elif g == "child":
        obs, _ = child_sites(r["type"], r["resource"], r["exec"])
    else:
        return [o]
    same = [x for x in obs if x["kind"] == k and x.get("site") == o.get("site")]
    return same or obs


def run(tier_name=None, replay=None):
    t = get_tier(tier_name)
    thorough = t == "thorough"
    v = Verdict("C17", t)
    rng = random.Random(get_seed() * 7919 + 17)
    workdir = os.path.join(RUN, "C17-" + t)

    if replay:
        rp = json.load(open(replay))
        rows = replay_case(rp)
        for j, o in enumerate(rows):
            o["id"] = j + 1
        fails, stats = judge.run_judge("JudgeC17", [for_tlc(o) for o in rows], os.path.join(RUN, "C17-replay"))
        for f in fails:
            print("  ", f)
            (v.known_finding(f["kf"]) if f["kf"] else v.violation(rp, f["clause"]))
        v.coverage = {"states": stats["states"] or 1, "transitions": max(stats["transitions"], 1),
                      "traces_validated_against_impl": len(rows), "samples": [rp.get("text", "")]}
        return v.finish()

    # the laws of Arn.tla are model-checked while the real code is being observed
    laws = {}

    def laws_thread():
        try:
            laws["r"] = judge.run_laws("Arn", workers=6)
        except Exception as ex:     # noqa
            laws["err"] = str(ex)
    th = threading.Thread(target=laws_thread)
    th.start()

    obs = []
    inputs = {}

    def add(o, inp=None, **meta):
        o["id"] = len(obs) + 1
        obs.append(o)
        if inp is not None:
            inputs[o["id"]] = dict(meta, input=inp)

    # ---- (a) the functions on the whole small space -------------------------------------------
    space = list(all_strings(4))
    for j, s in enumerate(space):
        add(obs_valid(0, s), s)
        add(obs_parse(0, "a:b:c:" + s), "a:b:c:" + s)          # 3..7 colons: malformed and well-formed texts
        if thorough or len(s) <= 3 or j % 5 == 0:                # (quick: the long prefixes on a fifth of the 4-character strings)
            add(obs_parse(0, SM_PREFIX + s), SM_PREFIX + s)
        if len(s) <= 3:
            add(obs_parse(0, EX_PREFIX + s), EX_PREFIX + s)
    for ln in (0, 1, 2, 79, 80, 81, 82, 160):           # the length boundary, with and without a forbidden character
        for c in ("x", "9", ".", "-", "_"):
            add(obs_valid(0, c * ln), c * ln)
            if ln:
                for bad in (":", "/", " ", "\n"):
                    add(obs_valid(0, c * (ln - 1) + bad), c * (ln - 1) + bad)
                    add(obs_valid(0, bad + c * (ln - 1)), bad + c * (ln - 1))
    n_created = 0
    seen_text = set()
    if thorough:
        cc = list(create_cases(list(all_strings(2))))
    else:   # every combination of the other parts with the resources of length <= 1; the resources of length 2 under every type
        cc = list(create_cases(list(all_strings(1)))) + [
            d for d in create_cases([s for s in all_strings(2) if len(s) == 2])
            if (d["partition"], d["service"], d["region"], d["account"]) == ("aws", "states", "local", "0123456789")]
    for d in cc:
        as_dict = (n_created % 7 == 0)
        o = obs_create(0, d, as_dict)
        add(o, d, as_dict=as_dict)
        n_created += 1
        if o["text"] not in seen_text and n_created % 3 == 0:
            seen_text.add(o["text"])
            add(obs_parse(0, o["text"]), o["text"])
    n_sampled = 0
    if thorough:
        # seeded samples up to length 81: every forbidden character, the ARN-significant ones,
        # line terminators and a non-ASCII letter; lengths biased to the boundary
        wide = list("abzAZ059._-") + list(FORBIDDEN) + ["\n", "\r", "\t", "\u00e9"]
        mild = list("abzAZ059._-") * 6 + [":", "/", "\n", " ", "#"]
        for j in range(24000):
            ln = rng.choice([1, 2, 3, 5, 8, 13, 40, 78, 79, 80, 80, 81, 81, rng.randrange(1, 82)])
            al = wide if j % 3 == 0 else mild
            if j % 5 == 0:
                s = "".join(rng.choice("abz09._-") for _ in range(ln))
                if j % 10 == 0 and ln > 1:
                    p = rng.randrange(ln)
                    s = s[:p] + rng.choice(FORBIDDEN + "\n") + s[p + 1:]
            else:
                s = "".join(rng.choice(al) for _ in range(ln))
            add(obs_valid(0, s), s)
            n_sampled += 1
            if j % 4 == 0:
                add(obs_parse(0, SM_PREFIX + s), SM_PREFIX + s)
            if j % 8 == 0:
                d = {"arn": "arn", "partition": "aws", "service": "states", "region": rng.choice(["local", "eu-west-1", ""]),
                     "account": rng.choice(["0123456789", ""]), "resource_type": rng.choice([None, "stateMachine", "execution", ""]),
                     "resource": s}
                add(obs_create(0, d), d)
    n_functions = len(obs)

    # ---- (b) the sites ---------------------------------------------------------------------------
    site_stats = collections.Counter()
    harness = []      # expectations of the harness that did not hold: exit 2 unless the judge finds the cause (a violation)

    def take(res, prefix):
        o2, st = res
        for o in o2:
            add(o)
        for k, n in st.items():
            site_stats[prefix + ":" + k] += n

    sm_names = GOOD_NAMES if thorough else GOOD_NAMES[:3] + GOOD_NAMES[6:]
    ex_names = GOOD_NAMES if thorough else [GOOD_NAMES[0], GOOD_NAMES[2], GOOD_NAMES[4], GOOD_NAMES[6], GOOD_NAMES[7]]
    try:
        for typ in ("STANDARD", "EXPRESS"):
            take(api_sites(typ, sm_names, ex_names), "api-" + typ)
            take(api_sites(typ, sm_names[:2], ex_names[:2], rerole=True), "api-rerole-" + typ)
        # names the API must refuse (and every two-character string): CreateStateMachine / StartExecution
        refuse_pool = BAD_NAMES + [s for s in all_strings(2) if s]
        w = W.World(tag="c17")
        try:
            st, b = w.api("CreateStateMachine", {"name": "host", "definition": json.dumps(S.chain(("A", S.P()))), "roleArn": W.ROLE, "type": "EXPRESS"})
            add(obs_valid(0, "host", st == 200, "CreateStateMachine"))
            host = b.get("stateMachineArn") if isinstance(b, dict) else None
            host = host or W.sm_arn("host")
            for s in refuse_pool:
                st, b = w.api("CreateStateMachine", {"name": s, "definition": json.dumps(S.chain(("A", S.P()))), "roleArn": W.ROLE})
                add(obs_valid(0, s, st == 200, "CreateStateMachine"))
                st, b = w.api("StartExecution", {"stateMachineArn": host, "name": s, "input": "{}"})
                add(obs_valid(0, s, st == 200, "StartExecution"))
                site_stats["api-names:calls"] += 2
        finally:
            w.close()
        crash_names = [("m.1-a_b", "e.1_x"), ("x" * 80, "y" * 80)] + ([("a", "0"), ("-", "_x_"), ("9" * 79 + ".", "A.b-c_d9")] if thorough else [])
        for typ in ("STANDARD", "EXPRESS"):
            for smn, en in crash_names:
                take(crash_sites(typ, smn, en, frames=(1, 2, 3, 4, 5) if thorough else (1, 2, 3)), "crash-" + typ)
                for kind in (("par", "map") if thorough else ("par",)):
                    take(backstop_sites(typ, smn, en, kind), "backstop-" + typ)
        child_names = GOOD_NAMES[:4] + ["c:d", "c/d", "", "x" * 81, "a b", "a\n:b"] if thorough else ["k.1", "x" * 80, "c:d", "c/d", "", "x" * 81]
        for ctyp in ("STANDARD", "EXPRESS"):
            for res in (("startExecution", "startExecution.sync", "startExecution.sync:2") if thorough else ("startExecution", "startExecution.sync:2")):
                for cn in child_names:
                    take(child_sites(ctyp, res, cn), "child-" + ctyp)
    except Exception as ex:
        import traceback
        harness.append("site harness: %s\n%s" % (ex, traceback.format_exc()[-1200:]))

    # the harness's own expectations: every started execution was seen at its sites
    for k, n in site_stats.items():
        if k.split(":", 1)[1] in ("missing-record", "missing-listing", "missing-notification", "lost-start", "sync-failed",
                                  "missing-machine-for-execution", "escaped") and n:
            harness.append("site harness: %s = %d (an execution that was started is not visible where it must be)" % (k, n))
    for need in ("crash-STANDARD:recreated-records", "backstop-STANDARD:backstop-hit", "backstop-EXPRESS:backstop-hit"):
        if not site_stats.get(need) and not harness:
            harness.append("site harness: the scenario meant to reach %s did not" % need)

    try:
        fails, stats = judge.run_judge("JudgeC17", [for_tlc(o) for o in obs], workdir, parts=16 if thorough else 8)
    except Exception as ex:
        v.machinery_failure(str(ex)[:1500])
        th.join()
        return v.finish()
    th.join()
    if "r" not in laws:
        v.machinery_failure("MC_Arn did not run: " + laws.get("err", "?")[:600])
        lawstats = {"law_states": 0}
    else:
        ok, lawstats, tail = laws["r"]
        if not ok:
            v.machinery_failure("a law of Arn.tla fails in TLC: " + tail[-800:])
    stats["states"] += lawstats["law_states"]
    stats["transitions"] += lawstats["law_states"]

    by_id = {o["id"]: o for o in obs}
    cl = collections.Counter()
    for f in fails:
        cl[(f["clause"], f["kf"])] += 1
        if f["kf"]:
            v.known_finding(f["kf"])
        else:
            o = by_id[f["id"]]
            payload = {"property": "C17", "obs": o, "text": o.get("text", "")}
            payload.update(inputs.get(o["id"], {}))
            what = o.get("text") or ("%s %r" % (o["kind"], inputs.get(o["id"], {}).get("input")))
            v.violation(payload, "%s: %s" % (f["clause"], str(what)[:300]))
    if not v.violations:
        for h in harness:
            v.machinery_failure(h)
    kinds = collections.Counter(o["kind"] for o in obs)
    sites = collections.Counter(o["site"] for o in obs if o["kind"] == "link")
    distinct = len({json.dumps({k: o[k] for k in o if k not in ("id", "recipe", "text")}, sort_keys=True) for o in obs})
    v.coverage = {
        "states": stats["states"], "transitions": stats["transitions"],
        "traces_validated_against_impl": len(obs), "evaluations": len(obs), "distinct_nontrivial": distinct,
        "rule": "distinct observations: (function, argument) for valid_name / parse_arn / create_arn over all strings of length <= 4 over "
                "{a 0 : / . - _ space newline #} (and seeded samples up to length 81 at thorough); (site, start path, machine name, "
                "execution name, identifiers seen) for the runs",
        "exhaustive": True, "strings_exhaustive": len(space), "strings_sampled": n_sampled,
        "function_observations": n_functions, "observations_by_kind": dict(kinds), "link_sites": dict(sites),
        "site_stats": dict(site_stats), "failed_clauses": {"%s|%s" % k: c for k, c in cl.items()},
        "samples": [{k: o[k] for k in ("kind", "text") if k in o} for o in obs[n_functions:n_functions + 3] + obs[-3:]]
                   + [{"kind": o["kind"], "input": inputs.get(o["id"], {}).get("input")} for o in obs[5000:5003]],
        "tlc_cpu_s": stats["tlc_cpu_s"],
        "laws_model_checked": "MC_Arn: name-as-machine, name-as-execution, breakers refused, ':' and '/' each break a round trip, "
                              "text round trip, totality, shape of ValidName over %d (string <= 4, partner) pairs" % lawstats["law_states"]}
    v.assumptions = ["the forbidden characters of a name are exactly  <>{}[]?*\"#%\\^|~`$&,;:/ and space; control characters other than these are not refused by the statement",
                     "texts with fewer than six ':'-separated fields are not ARNs: any outcome of parse_arn is accepted for them",
                     "an execution ARN is read at its last ':' (the reading every derivation site of the engine uses)"]
    return v.finish()


if __name__ == "__main__":
    sys.exit(run(*(sys.argv[1:2])))
