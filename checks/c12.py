"""C12: InputPath/OutputPath/ResultPath obey the filter laws -- the real path functions (and
single-Pass executions) over an enumerated case space, each observation judged by TLC with
spec/RefPath.tla (spec/JudgeC12.tla)."""
import copy
import itertools
import json
import os
import random
import sys

from common import Verdict, tier as get_tier, seed as get_seed, RUN
import judge

from vsim import tagged
from vsim import world as W
from vsim.explore import run_once
from vsim import scenarios as S

import asl_workflow_engine.state_engine_paths as sp

CTX = {"Execution": {"Id": "arn:x", "Input": {"k": 1}}, "State": {"Name": "S", "EnteredTime": "t"},
       "Map": {"Item": {"Index": 0, "Value": "v"}}}


def simple_key(k):
    return k.isidentifier()


def render(steps, notation):
    """notation: dot (where the key allows), bracket, mixed"""
    out = "$"
    for j, st in enumerate(steps):
        if "idx" in st:
            out += "[%d]" % st["idx"]
        else:
            k = st["key"]
            use_dot = simple_key(k) and (notation == "dot" or (notation == "mixed" and j % 2 == 0))
            out += ("." + k) if use_dot else "['%s']" % k
    return out


def tsteps(steps):
    return [({"k": "idx", "idx": st["idx"]} if "idx" in st else {"k": "key", "key": st["key"]}) for st in steps]


def values_quick():
    return [None, True, 0, "s", [], [1, {"a": 2}], {}, {"a": 1}, {"a b": {"a": None}}]


def docs(thorough, rng):
    V = values_quick()
    out = [None, 0, "s", [], [1, {"a": 2}], [[0, 1], "x"]]
    for va in [Ellipsis] + V:
        for vb in [Ellipsis] + V:
            d = {}
            if va is not Ellipsis:
                d["a"] = copy.deepcopy(va)
            if vb is not Ellipsis:
                d["b"] = copy.deepcopy(vb)
            out.append(d)
    for v in V:
        out.append({"a b": copy.deepcopy(v), "a": 1})
    if thorough:
        keys = ["a", "b", "a b", "c", "k1", "x_y"]

        def rnd(depth):
            r = rng.random()
            if depth == 0 or r < 0.35:
                return rng.choice([None, True, False, 0, 1, -2, 1.5, "", "s", "tt"])
            if r < 0.6:
                return [rnd(depth - 1) for _ in range(rng.randrange(0, 3))]
            return {k: rnd(depth - 1) for k in rng.sample(keys, rng.randrange(0, 4))}
        for _ in range(400):
            out.append(rnd(4))
    return out


def all_steps(maxlen, keys=("a", "b", "a b"), idxs=(0, 1, 2)):
    atoms = [{"key": k} for k in keys] + [{"idx": i} for i in idxs]
    for n in range(1, maxlen + 1):
        for combo in itertools.product(atoms, repeat=n):
            yield list(combo)


def outcome(fn):
    try:
        v = fn()
    except Exception as ex:
        return {"kind": "exc", "cls": type(ex).__name__}
    try:
        json.dumps(v)
    except ValueError:
        return {"kind": "cyclic"}
    except (TypeError, RecursionError):
        return {"kind": "exc", "cls": "NotJson"}
    return {"kind": "value", "v": tagged.enc(v)}


def obs_select(oid, doc, ctx, pkind, steps, text, hard=False):
    d0 = copy.deepcopy(doc)
    c0 = copy.deepcopy(ctx)
    out = outcome(lambda: sp.apply_path(d0, c0, text))
    same = (d0 == doc and c0 == ctx and json.dumps(d0, sort_keys=True) == json.dumps(doc, sort_keys=True))
    return {"id": oid, "kind": "select", "doc": tagged.enc(doc), "ctx": tagged.enc(ctx),
            "path": {"kind": pkind, "steps": tsteps(steps)}, "text": text or "", "out": out, "same": same,
            "res": tagged.enc(None), "hard": hard, "engine": False}


def obs_put(oid, doc, pkind, steps, text, res_spec):
    """res_spec: ("fresh", value) | ("self",) | ("sub", steps)  -- aliasing is preserved"""
    d0 = copy.deepcopy(doc)
    if res_spec[0] == "fresh":
        res = copy.deepcopy(res_spec[1])
        res_val = res_spec[1]
    elif res_spec[0] == "self":
        res = d0
        res_val = doc
    else:
        res = d0
        res_val = doc
        for st in res_spec[1]:
            res = res[st["idx"]] if "idx" in st else res[st["key"]]
            res_val = res_val[st["idx"]] if "idx" in st else res_val[st["key"]]
    out = outcome(lambda: sp.apply_resultpath(d0, res, text))
    return {"id": oid, "kind": "put", "doc": tagged.enc(doc), "ctx": tagged.enc(None),
            "path": {"kind": pkind, "steps": tsteps(steps)}, "text": text or "", "out": out, "same": True,
            "res": tagged.enc(res_val), "hard": False, "engine": False}


def subpaths(doc, maxn=3):
    """some existing sub-tree positions of doc (as step lists)"""
    out = []

    def walk(x, pre):
        if len(out) >= maxn:
            return
        if isinstance(x, dict):
            for k, v in x.items():
                out.append(pre + [{"key": k}])
                walk(v, pre + [{"key": k}])
        elif isinstance(x, list):
            for i, v in enumerate(x):
                out.append(pre + [{"idx": i}])
                walk(v, pre + [{"idx": i}])
    walk(doc, [])
    return out[:maxn]


def engine_cases(rng, n):
    """The same laws through single-Pass executions of the real engine (canonical schedule)."""
    cases = []
    D = [{"a": 1, "b": {"a": [1, 2]}}, {"a": {"b": None}}, [1, {"a": 2}], {"a b": {"a": 1}, "a": 1}, {}, "s", 0]
    steps_pool = list(all_steps(2))
    for j in range(n):
        doc = copy.deepcopy(rng.choice(D))
        steps = rng.choice(steps_pool)
        nota = rng.choice(["dot", "bracket", "mixed"])
        text = render(steps, nota)
        which = rng.choice(["input", "output", "result", "result-alias"])
        cases.append((which, doc, steps, text))
    return cases


def run_engine_case(which, doc, steps, text):
    P, SM, scn = S.P, S.SM, S.scn
    if which == "input":
        st = P(InputPath=text, End=True)
    elif which == "output":
        st = P(OutputPath=text, End=True)
    elif which == "result":
        st = P(Result={"n": 1}, ResultPath=text, End=True)
    else:
        st = P(ResultPath=text, End=True)            # the result is the input itself
    r = run_once(scn("c12", SM("A", A=st), inputs=(doc,)), d1=False)
    rec = list(r.outcomes.values())[0]
    if rec is None:
        return {"kind": "exc", "cls": "NoRecord"}
    if rec["status"] == "SUCCEEDED":
        return {"kind": "value", "v": tagged.enc(json.loads(rec["output"]))}
    err = rec.get("error")
    cause = rec.get("cause") or ""
    if err == "States.ResultPathMatchFailure":
        return {"kind": "exc", "cls": "ResultPathMatchFailure"}
    if err == "States.Runtime" and "Invalid path" in cause:
        return {"kind": "exc", "cls": "PathMatchFailure"}
    if err == "States.Runtime" and "ircular" in cause:
        return {"kind": "cyclic"}
    return {"kind": "exc", "cls": "%s" % err}


def run(tier_name=None, replay=None):
    t = get_tier(tier_name)
    thorough = t == "thorough"
    v = Verdict("C12", t)
    rng = random.Random(get_seed() * 31 + 5)
    obs = []
    info = {}
    n = [0]

    def add(o, **meta):
        obs.append(o)
        info[o["id"]] = dict(meta, text=o["text"], kind=o["kind"])

    def oid():
        n[0] += 1
        return n[0]

    if replay:
        rp = json.load(open(replay))
        rows = [rp["obs"]]
        fails, stats = judge.run_judge("JudgeC12", rows, os.path.join(RUN, "C12-replay"))
        for f in fails:
            print("  ", f)
            (v.known_finding(f["kf"]) if f["kf"] else v.violation(rp, f["clause"]))
        v.coverage = {"states": stats["states"] or 1, "transitions": max(stats["transitions"], 1), "traces_validated_against_impl": 1, "samples": [rp["obs"]["text"]]}
        return v.finish()

    D = docs(thorough, rng)
    maxlen = 3 if thorough else 2
    steps_all = list(all_steps(maxlen))
    fresh = [7, "r", {"n": 1}, None, [1]]
    for doc in D:
        # reads
        add(obs_select(oid(), doc, CTX, "root", [], "$"), doc=doc)
        add(obs_select(oid(), doc, CTX, "null", [], None), doc=doc)
        add(obs_select(oid(), doc, CTX, "ctxroot", [], "$$"), doc=doc)
        for steps in steps_all:
            notations = ["dot", "bracket"] if all(simple_key(s.get("key", "x")) for s in steps) else ["bracket"]
            if len(steps) > 1:
                notations.append("mixed")
            for nota in notations:
                add(obs_select(oid(), doc, CTX, "steps", steps, render(steps, nota)), doc=doc)
        # writes
        results = [("fresh", f) for f in fresh] + [("self",)] + [("sub", p) for p in subpaths(doc)]
        for rs in results:
            add(obs_put(oid(), doc, "root", [], "$", rs), doc=doc, res=rs)
            add(obs_put(oid(), doc, "null", [], None, rs), doc=doc, res=rs)
        wsteps = steps_all if thorough else [s for s in steps_all if len(s) <= 2]
        for steps in wsteps:
            for rs in results if (thorough or len(steps) == 1) else results[:3] + results[5:7]:
                nota = "dot" if all(simple_key(s.get("key", "x")) for s in steps) and (n[0] % 2 == 0) else "bracket"
                add(obs_put(oid(), doc, "steps", steps, render(steps, nota), rs), doc=doc, res=rs)
    # context paths
    for steps in [[{"key": "State"}, {"key": "Name"}], [{"key": "Map"}, {"key": "Item"}, {"key": "Index"}],
                  [{"key": "Execution"}, {"key": "Input"}], [{"key": "Nope"}], [{"key": "State"}, {"key": "Nope"}]]:
        add(obs_select(oid(), {"x": 1}, CTX, "ctx", steps, "$" + render(steps, "dot")), doc={"x": 1})
    add(obs_put(oid(), {"x": 1}, "ctx", [{"key": "a"}], "$$.a", ("fresh", 1)), doc={"x": 1})
    if thorough:
        # keys with characters that matter to path syntaxes (finding F23 lives here)
        for key in ["a.b", "*", "x'y", "$", "0", "12", "a-b", "a[0]"]:
            for doc in ({key: 1, "a": {key: 2}}, {"a": 1}):
                for steps in ([{"key": key}], [{"key": "a"}, {"key": key}]):
                    o = obs_select(oid(), doc, CTX, "steps", steps, render(steps, "bracket"), hard=True)
                    add(o, doc=doc)
    # through the engine
    ecases = engine_cases(rng, 400 if thorough else 80)
    for which, doc, steps, text in ecases:
        out = run_engine_case(which, doc, steps, text)
        i = oid()
        if which in ("input", "output"):
            o = {"id": i, "kind": "select", "doc": tagged.enc(doc), "ctx": tagged.enc(None),
                 "path": {"kind": "steps", "steps": tsteps(steps)}, "text": "engine:" + which + ":" + text,
                 "out": out, "same": True, "res": tagged.enc(None), "hard": False, "engine": True}
        else:
            res = {"n": 1} if which == "result" else doc
            o = {"id": i, "kind": "put", "doc": tagged.enc(doc), "ctx": tagged.enc(None),
                 "path": {"kind": "steps", "steps": tsteps(steps)}, "text": "engine:" + which + ":" + text,
                 "out": out, "same": True, "res": tagged.enc(res), "hard": False, "engine": True}
        add(o, doc=doc, engine=which)
    # $$.Execution.Input after the START state has placed a result into its input (at every depth of an existing
    # container): the context path must still return exactly the original input
    n_ctx = 0
    xcases = [(copy.deepcopy(doc), steps, render(steps, "dot" if k % 2 else "bracket"))
              for doc in ({"a": 1, "b": {"a": [1, 2]}}, {"a": {"b": None}}, [1, {"a": 2}], {"a b": {"a": 1}, "a": 1}, {})
              for k, steps in enumerate(all_steps(2))]
    for doc, steps, text in xcases if thorough else xcases[::2]:
        P, SM = S.P, S.SM
        asl = SM("A", A=P(Result={"n": 1}, ResultPath=text, Next="B"), B=P(Parameters={"orig.$": "$$.Execution.Input"}, End=True))
        r = run_once(S.scn("c12x", asl, inputs=(copy.deepcopy(doc),)), d1=False)
        rec = list(r.outcomes.values())[0]
        if not rec or rec["status"] != "SUCCEEDED":
            continue                                   # (the placement itself failed: judged above)
        n_ctx += 1
        cx = {"Execution": {"Input": doc}}
        psteps = [{"key": "Execution"}, {"key": "Input"}]
        add({"id": oid(), "kind": "select", "doc": tagged.enc({"x": 1}), "ctx": tagged.enc(cx), "path": {"kind": "ctx", "steps": tsteps(psteps)},
             "text": "engine:execution-input-after:" + text, "out": {"kind": "value", "v": tagged.enc(json.loads(rec["output"]).get("orig"))},
             "same": True, "res": tagged.enc(None), "hard": False, "engine": True}, doc=doc, engine="execution-input")
    try:
        fails, stats = judge.run_judge("JudgeC12", obs, os.path.join(RUN, "C12-" + t))
        ok, lawstats, tail = judge.run_laws("RefPath")
        if not ok:
            v.machinery_failure("a law of RefPath.tla fails in TLC: " + tail[-800:])
        stats["states"] += lawstats["law_states"]
        stats["transitions"] += lawstats["law_states"]
    except Exception as ex:
        v.machinery_failure(str(ex)[:1500])
        return v.finish()
    by_id = {o["id"]: o for o in obs}
    import collections
    cl = collections.Counter()
    for f in fails:
        cl[(f["clause"], f["kf"])] += 1
        if f["kf"]:
            v.known_finding(f["kf"])
        else:
            o = by_id[f["id"]]
            m = info[f["id"]]
            v.violation({"property": "C12", "obs": o, "doc": m.get("doc"), "path_text": o["text"]},
                        "%s: %s path %r on %s -> %s" % (f["clause"], o["kind"], o["text"], json.dumps(m.get("doc"))[:80], json.dumps(o["out"])[:100]))
    distinct = len({(json.dumps(o["doc"], sort_keys=True), o["text"], o["kind"], json.dumps(o["res"], sort_keys=True)) for o in obs})
    v.coverage = {"states": stats["states"], "transitions": stats["transitions"],
                  "traces_validated_against_impl": len(obs), "evaluations": len(obs), "distinct_nontrivial": distinct,
                  "rule": "documents (curated objects/arrays over keys a, b, 'a b' and a value pool; random to depth 4 at thorough) x every reference path of "
                          "length <= %d over {a, b, 'a b', [0], [1], [2]} in dot/bracket/mixed notation x results (fresh values, the input itself, sub-trees of it); "
                          "every case is distinct by construction (document, path text, operation, result)" % maxlen,
                  "samples": [{"op": o["kind"], "path": o["text"], "doc": info[o["id"]].get("doc"), "out": o["out"]} for o in obs[1000:1003] + obs[-3:]],
                  "failed_clauses": {"%s|%s" % k: c for k, c in cl.items()}, "exhaustive": True,
                  "documents": len(D), "paths": len(steps_all), "engine_runs": len(ecases), "tlc_cpu_s": stats["tlc_cpu_s"],
                  "laws_model_checked": "MC_RefPath: put-get, frame, root-replaces, placeability agreement over %d (document, path, result) triples" % lawstats["law_states"]}
    v.assumptions = ["the naive reference semantics of spec/RefPath.tla is what the States Language means by a reference path",
                     "integer-looking keys and placement below null are left open (either outcome accepted)"]
    return v.finish()


if __name__ == "__main__":
    sys.exit(run(*(sys.argv[1:2])))
