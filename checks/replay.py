"""Spec -> code: the labelled state graph of Engine.tla for a scenario (tlc -dump dot,actionlabels)
is covered by paths from the initial state, and every path is driven step by step through the
REAL engine.  The real run is recorded (and validated against Trace.tla like any other run);
every frame's operation list is compared with the model's (`drift`)."""
import collections
import json
import os
import re

from vsim import world as W
from vsim.explore import setup_world, do_starts


# ---- a small parser for TLC's value syntax -------------------------------------------------
class P:
    def __init__(self, s):
        self.s, self.i = s, 0

    def ws(self):
        while self.i < len(self.s) and self.s[self.i] in " \n\t":
            self.i += 1

    def peek(self, t):
        self.ws()
        return self.s.startswith(t, self.i)

    def eat(self, t):
        self.ws()
        assert self.s.startswith(t, self.i), (t, self.s[self.i:self.i + 40])
        self.i += len(t)

    def value(self):
        self.ws()
        c = self.s[self.i]
        if self.peek("<<"):
            self.eat("<<")
            out = []
            while not self.peek(">>"):
                out.append(self.value())
                if self.peek(","):
                    self.eat(",")
            self.eat(">>")
            return out
        if c == "[":
            self.eat("[")
            d = {}
            while not self.peek("]"):
                self.ws()
                m = re.match(r"\w+", self.s[self.i:])
                k = m.group(0)
                self.i += len(k)
                self.eat("|->")
                d[k] = self.value()
                if self.peek(","):
                    self.eat(",")
            self.eat("]")
            return d
        if c == "{":
            self.eat("{")
            out = []
            while not self.peek("}"):
                out.append(self.value())
                if self.peek(","):
                    self.eat(",")
            self.eat("}")
            return {"__set__": out}
        if c == "(":
            # function (a :> b @@ c :> d)
            self.eat("(")
            pairs = []
            while True:
                k = self.value()
                self.eat(":>")
                v = self.value()
                pairs.append((k, v))
                if self.peek("@@"):
                    self.eat("@@")
                    continue
                break
            self.eat(")")
            return {"__fn__": pairs}
        if c == '"':
            j = self.i + 1
            out = []
            while self.s[j] != '"':
                if self.s[j] == "\\":
                    j += 1
                out.append(self.s[j])
                j += 1
            self.i = j + 1
            return "".join(out)
        m = re.match(r"-?\d+|TRUE|FALSE", self.s[self.i:])
        assert m, self.s[self.i:self.i + 40]
        self.i += len(m.group(0))
        t = m.group(0)
        return True if t == "TRUE" else False if t == "FALSE" else int(t)


def parse_state(label):
    """'/\\ a = v\n/\\ b = w' -> {a: v, b: w} for the variables we need"""
    out = {}
    for part in re.split(r"(?:^|\n)/\\ ", label):
        if not part.strip():
            continue
        name, _, val = part.partition(" = ")
        if name in ("fr", "ops", "notes"):
            out[name] = P(val).value()
    return out


def parse_dot(path):
    nodes, edges, init = {}, collections.defaultdict(list), None
    with open(path) as f:
        for line in f:
            m = re.match(r'^(-?\d+) -> (-?\d+) \[label="((?:[^"\\]|\\.)*)"', line)
            if m:
                edges[m.group(1)].append((m.group(3).replace('\\"', '"'), m.group(2)))
                continue
            m = re.match(r'^(-?\d+) \[label="((?:[^"\\]|\\.)*)"(,style = filled)?', line)
            if m:
                lab = m.group(2).replace("\\n", "\n").replace('\\"', '"').replace("\\\\", "\\")
                nodes[m.group(1)] = lab
                if m.group(3):
                    init = m.group(1)
    return nodes, edges, init


def edge_cover(edges, init, max_len=400):
    """paths from the initial state that together cover every edge (greedy nearest uncovered edge)"""
    uncovered = {(a, l, b) for a, out in edges.items() for (l, b) in out}
    paths = []
    while uncovered:
        prev = {init: None}
        q = collections.deque([init])
        hit = None
        while q and not hit:
            a = q.popleft()
            for (l, b) in edges.get(a, []):
                if (a, l, b) in uncovered:
                    hit = (a, l, b)
                    break
                if b not in prev:
                    prev[b] = (a, l)
                    q.append(b)
        if not hit:
            break
        a, l, b = hit
        path = [hit]
        x = a
        while prev[x] is not None:
            pa, pl = prev[x]
            path.insert(0, (pa, pl, x))
            x = pa
        uncovered.discard(hit)
        cur = b
        while len(path) < max_len:
            out = edges.get(cur, [])
            if not out:
                break
            nxt = next(((cur, l2, b2) for (l2, b2) in out if (cur, l2, b2) in uncovered), None) or (cur, out[0][0], out[0][1])
            path.append(nxt)
            uncovered.discard(nxt)
            cur = nxt[2]
        paths.append(path)
    return paths


# ---- driving the real world along a model path ---------------------------------------------
def model_ops(ops):
    """the model's operation list as comparable tuples (records are not compared: the simulated
    store observes them, it does not see the write operations)"""
    out = []
    for o in ops:
        k = o["op"]
        if k == "pub":
            m = o["m"]
            out.append(("pub", m.get("state", "") if m["kind"] == "event" else "rpc:" + m.get("fn", "")))
        elif k == "ack":
            i = o["id"]
            out.append(("ack", "reply" if i and i[0] == 0 else tuple(i)))
        elif k == "note":
            out.append(("note", o["s"]))
        elif k == "hist":
            out.append(("hist", o["ty"]))
    return out


class Replayer:
    def __init__(self, scn):
        self.scn = scn
        self.w = setup_world(scn)
        do_starts(self.w, scn)
        self.causal = {}        # real message id -> causal id (tuple)
        self.rev = {}
        k = 0
        for e in self.w.rec.events:
            if e["k"] == "pub" and e.get("kind") == "event":
                k += 1
                self.bind(e["mid"], (k,))
        self.seen = len(self.w.rec.events)
        self.tagmap = {}        # (ch, tag) -> ("event", mid) | ("reply", corr)
        self.drift = []
        self.down = False
        self.cut = False
        self.escaped = ""
        self.unrealisable = False

    def bind(self, mid, cid):
        self.causal[mid] = cid
        self.rev[cid] = mid

    def real_frame_ops(self, trig_mid, tcid=None, model=None):
        """operations of the frame just executed (events after self.seen), as comparable tuples;
        binds the causal ids of the messages it published"""
        ev = self.w.rec.events[self.seen:]
        self.seen = len(self.w.rec.events)
        out = []
        npub = 0
        nev = 0
        model_ids = None
        if model is not None:
            model_ids = [tuple(o["m"]["id"]) for o in model if o["op"] == "pub" and o["m"]["kind"] == "event"]
        tcid = tcid or self.causal.get(trig_mid)      # (an orphan-scan frame has the model's trigger <<0>>)
        for e in ev:
            k = e["k"]
            if k == "frame" and e.get("cause") in ("deliver", "reply"):
                self.tagmap[(e["ch"], e["tag"])] = ("event", e["mid"]) if e["cause"] == "deliver" else ("reply", e["corr"])
            elif k == "pub" and e.get("kind") == "event" and e["conn"].startswith("i"):
                npub += 1
                nev += 1
                if model_ids is not None and nev <= len(model_ids):
                    self.bind(e["mid"], model_ids[nev - 1])       # the k-th event published = the model's k-th
                elif tcid is not None:
                    self.bind(e["mid"], tcid + (npub,))
                out.append(("pub", e.get("state", "")))
            elif k == "pub" and e.get("kind") == "rpc":
                npub += 1
                out.append(("pub", "rpc:" + e.get("fn", "")))
            elif k == "ack":
                what = self.tagmap.get((e["ch"], e["tag"]))
                if what is None:
                    out.append(("ack", "?"))
                elif what[0] == "reply":
                    out.append(("ack", "reply"))
                else:
                    out.append(("ack", self.causal.get(what[1], what[1])))
            elif k == "note":
                out.append(("note", e["status"]))
            elif k == "hist":
                out.append(("hist", e["event"].get("type")))
        return out

    def step(self, label, target, crash_after=None, want_prefix=None):
        """take the real step corresponding to a model edge; returns False if it is not enabled.
        crash_after = j: the frame is cut short by a crash after its j-th broker operation (the model
        crashed with operations of this frame still pending; want_prefix = the operations it had executed)"""
        w = self.w
        b = w.broker
        name = label.split("(")[0]
        if name == "DoOp":
            return True
        if name == "Crash":
            if not self.down:
                w.crash("i0")
                self.down = True
                self.seen = len(w.rec.events)
            return True
        if name == "Age":
            # time passes: this incarnation has been up for longer than the orphan retention period
            I = w.inst.get("i0")
            if I is not None:
                t0 = getattr(I.engine.task_dispatcher, "startup_time", W.CLOCK.now)
                target = t0 + (I.engine.task_dispatcher.orphaned_response_retention_ms or 0) / 1000.0
                if W.CLOCK.now < target:
                    w.advance(target)
            return True
        if name == "Restart":
            w.restart("i0")
            self.down = False
            self.seen = len(w.rec.events)
            return True
        if name.startswith("Worker"):
            fn = re.search(r'"([^"]*)"', label).group(1)
            if not b.queues.get(fn):
                self.drift.append(("not-enabled", label))
                return False
            w.do(("wtake", fn))
            for r in sorted(w.pending_replies):
                w.do(("wreply", r[1]))
            self.seen = len(w.rec.events)
            return True
        fr = target.get("fr", {})
        cause = fr.get("cause", "")
        trig = tuple(fr.get("trig", []))
        mid = self.rev.get(trig)
        if name.startswith("FrameDeliver"):
            if cause == "deliver":
                step = None
                for q in list(b.queues):
                    if w.is_event_queue(q) and b.queues[q] and self.causal.get(b.queues[q][0]["props"].message_id) == trig and b.eligible_consumers(q):
                        mid = b.queues[q][0]["props"].message_id      # (a handler run twice around a crash publishes the same causal id twice)
                        step = ("dlv", q, b.eligible_consumers(q)[0])
                if step is None:
                    self.drift.append(("not-enabled", label, trig))
                    return False
            else:
                step = None
                for q in list(b.queues):
                    if w.is_reply_queue(q) and b.queues[q] and self.causal.get(W._strip_corr(b.queues[q][0]["props"].correlation_id or "")) == trig and b.eligible_consumers(q):
                        mid = W._strip_corr(b.queues[q][0]["props"].correlation_id or "")
                        step = ("dlv", q, b.eligible_consumers(q)[0])
                if step is None:
                    self.drift.append(("not-enabled", label, trig))
                    return False
            if not self._do(step, crash_after):
                return not self.escaped
        else:
            kind = cause
            cand = None
            for iname, h in w._timer_list():
                if h.kind == kind and (kind == "orphanscan" or any(self.causal.get(m) == trig for m in h.trig)):
                    cand = ("timer", iname, h.seq)
                    mid = next((m for m in h.trig if self.causal.get(m) == trig), mid)
                    break
            if cand is None:
                self.drift.append(("not-enabled", "timer:" + kind, trig))
                return False
            # the model has no clock: a path that fires a timer while another one is due strictly earlier cannot
            # happen in time -- it is not followed any further (and is not drift)
            mine = next(h for (_, h) in w._timer_list() if h.seq == cand[2])
            if any(h.due < mine.due - 1e-9 for (_, h) in w._timer_list()):
                self.unrealisable = True
                return False
            if not self._do(cand, crash_after):
                return not self.escaped
        real = self.real_frame_ops(mid, trig if mid is None and trig else None,
                                   model=(target.get("ops", []) if crash_after is None else (want_prefix or [])))
        if crash_after is None:
            want = model_ops(target.get("ops", []))
            # (one scan may hand over several parked replies; the order among them is the iteration order of a dict
            # in the code, an arbitrary CHOOSE in the model: compared as bags)
            same = sorted(map(str, real)) == sorted(map(str, want)) if cause == "orphanscan" else real == want
            if not same:
                self.drift.append(("frame-ops", cause, trig, want, real))
        else:
            # the frame was cut short: compare the broker operations (the store writes between the last broker
            # operation and the crash are done in the real run, pending in the model)
            want = [o for o in model_ops(want_prefix or []) if o[0] != "hist"]
            got = [o for o in real if o[0] != "hist"]
            if got != want:
                self.drift.append(("cut-frame-ops", cause, trig, want, got))
        return True

    def _do(self, step, crash_after):
        try:
            return self._do1(step, crash_after)
        except Exception as ex:           # an exception escaping a handler is an observation (the run is judged as it stands)
            import traceback
            w = self.w
            self.escaped = "%s: %s | %s" % (type(ex).__name__, ex, traceback.format_exc()[-600:])
            if w.rec.in_frame:
                w.rec.end_frame()
            w.rec.emit("escaped", err=self.escaped[:300])
            self.drift.append(("escaped", self.escaped[:200]))
            self.seen = len(w.rec.events)
            return False

    def _do1(self, step, crash_after):
        if crash_after is None:
            self.w.do(step)
            return True
        did = self.w.crash_inside("i0", step, crash_after - 1)
        if did:
            self.down = True
        self.cut = did
        return True

    def finish(self):
        w = self.w
        try:
            w.run()
            w.quiesce("D0")
            w.run_to_d1()
            w.quiesce("D1")
        except Exception as ex:           # an exception escaping a frame is an observation, not a harness failure
            import traceback
            self.escaped = "%s: %s | %s" % (type(ex).__name__, ex, traceback.format_exc()[-600:])
            if w.rec.in_frame:
                w.rec.end_frame()
            w.rec.emit("escaped", err=self.escaped[:300])
        finally:
            ev = w.rec.events
            notes = w.notes()
            w.close()
        return ev, notes


def replay_paths(scn, dot_path, max_paths=None):
    nodes, edges, init = parse_dot(dot_path)
    parsed = {}
    paths = edge_cover(edges, init)
    if max_paths:
        paths = paths[:max_paths]
    results = []
    nedges = sum(len(v) for v in edges.values())
    for path in paths:
        rp = Replayer(scn)
        ok = True
        crashes = []
        for i, (a, label, bnode) in enumerate(path):
            if bnode not in parsed:
                parsed[bnode] = parse_state(nodes[bnode])
            crash_after, prefix = None, None
            if label.startswith("Frame") or label.startswith("Next"):      # (TLC labels the timer frames "Next")
                # does the model crash before this frame's operations are all executed?
                k = 0
                j = i + 1
                while j < len(path) and path[j][1].startswith("DoOp"):
                    k += 1
                    j += 1
                total = parsed[bnode].get("ops", [])
                if j < len(path) and path[j][1].startswith("Crash") and k < len(total):
                    prefix = total[:k]
                    crash_after = sum(1 for o in prefix if o["op"] in ("pub", "ack", "note"))
                    crashes.append({"frame": len([1 for x in path[:i] if x[1].startswith(("Frame", "Next"))]), "op": crash_after})
            elif label.startswith("Crash") and not rp.down:
                crashes.append({"frame": len([1 for x in path[:i] if x[1].startswith(("Frame", "Next"))])})
            if not rp.step(label, parsed[bnode], crash_after, prefix):
                ok = False
                break
        if rp.down:
            rp.w.restart("i0")
            rp.down = False
        ev, notes = rp.finish()
        last = parsed.get(path[-1][2], {})
        results.append({"events": ev, "notes": notes, "drift": rp.drift, "followed": ok, "length": len(path), "crashes": crashes, "escaped": rp.escaped, "unrealisable": rp.unrealisable,
                        "labels": [l.split("(")[0] for (_, l, _) in path]})
    return results, {"nodes": len(nodes), "edges": nedges, "paths": len(paths)}


def parse_error_trace(out):
    """TLC's counterexample: [(action label, state dict)] after the initial state"""
    steps = []
    for m in re.finditer(r"State (\d+): <(\w+)([^\n]*)>\n(.*?)(?=\n\nState |\n\n|\Z)", out, re.S):
        name = m.group(2)
        body = m.group(4)
        st = parse_state(body)
        steps.append((name, st, body))
    return steps


def replay_counterexample(scn, tlc_out):
    """Drive the real engine along a TLC counterexample of Engine.tla.  Worker steps carry no
    parameter in the trace: the function is recovered from the queue that changed."""
    steps = parse_error_trace(tlc_out)
    rp = Replayer(scn)
    followed = True
    prev_inv = None
    for name, st, body in steps:
        if name in ("Initial",):
            m = re.search(r"/\\ inv = (.*)", body)
            prev_inv = m.group(1) if m else None
            continue
        label = name
        if name == "Worker":
            m = re.search(r"/\\ inv = (.*)", body)
            cur = P(m.group(1)).value()
            old = P(prev_inv).value() if prev_inv else {"__fn__": []}
            curd = dict(cur["__fn__"]) if "__fn__" in cur else cur
            oldd = dict(old["__fn__"]) if "__fn__" in old else old
            fn = next(k for k in curd if curd[k] != oldd.get(k, 0))
            label = 'Worker("%s")' % fn
        if name == "Next":
            label = "Next"
        m = re.search(r"/\\ inv = (.*)", body)
        if m:
            prev_inv = m.group(1)
        if not rp.step(label, st):
            followed = False
            break
    ev, notes = rp.finish()
    return {"events": ev, "notes": notes, "drift": rp.drift, "followed": followed, "steps": len(steps)}
