"""C19: work is routed to the right queue/instance; messages map faithfully to AMQP.
(1) multi-instance worlds run the scenario corpus; every delivery/publish/declaration is
checked by TLC against the routing clauses of Trace.tla (Affinity, StartOnShared,
ExclusiveInstanceQueue, RpcAddressing, DurableQueuesDeclared, AckOnce) and Broker.tla;
(2) address strings from the documented grammar are opened with the REAL messaging modules
(asyncio and blocking) on the simulated broker and what the broker saw is judged with
spec/AddressString.tla; (3) messages of every field combination are sent and received."""
import asyncio
import collections
import itertools
import json
import os
import random
import sys

from common import Verdict, tier as get_tier, seed as get_seed, RUN
import judge

from vsim import tlc, scenarios as S
from vsim import world as W
from vsim.explore import explore_dfs, explore_random, run_once
from vsim.tracefile import BatchWriter

import pika
from vsim.broker import Broker

MINE = {"C19"}
ALSO = {"AckOnce:unknown-or-repeated-delivery-tag", "AckOnce:multiple"}


# ---------------- routing on multi-instance worlds ------------------------------------------
def routing_scenarios(thorough):
    base = {s["id"]: s for s in S.protocol_scenarios() + S.failure_scenarios()}
    ids = ["task-chain", "two-execs", "par-task-end", "map-task-mc1", "task-retry", "nested", "child-sync-ok"]
    if thorough:
        ids += ["task-task", "par-2step", "map-task", "par-fail-unhandled", "par-inner-catch", "wait-chain", "express-par"]
    out = []
    for i in ids:
        for n, qt, tr in ((2, "classic", "asyncio"), (3, "quorum", "asyncio"), (2, "classic", "blocking")) if thorough or i != "nested" else ((2, "classic", "asyncio"),):
            s = dict(base[i])
            s = json.loads(json.dumps(s))
            s["id"] = "%s@%d-%s-%s" % (i, n, qt, tr)
            s["world"] = {"instances": n, "queue_type": qt, "transport": tr}
            if i not in ("two-execs", "child-sync-ok"):      # (the child has a fixed name: one parent only)
                s["starts"] = s["starts"] + [dict(s["starts"][0], name="e2")]
            out.append(s)
    # a request that no queue takes (the function does not exist: the mandatory publish is RETURNED, a message without a
    # delivery tag) while another execution on the same channel holds an unacknowledged delivery: handling the return must
    # settle nothing (AckOnce: exactly that delivery and no other)
    un = S.scn("unroutable-beside-waiting", S.SM("C", C=S.Ch([{"Variable": "$.x", "NumericEquals": 1, "Next": "U"}], "A"),
                                                 U=S.T("nobody", End=True), A=S.T("f", End=True)), inputs=({"x": 2}, {"x": 1}))
    for n, tr in ((1, "asyncio"), (1, "blocking"), (2, "asyncio")) if thorough else ((1, "asyncio"), (1, "blocking")):
        s = json.loads(json.dumps(un))
        s["id"] = "unroutable-beside-waiting@%d-classic-%s" % (n, tr)
        s["workers"] = ["f"]
        s["world"] = {"instances": n, "queue_type": "classic", "transport": tr}
        out.append(s)
    return out


# ---------------- address strings ---------------------------------------------------------------
class NullRec:
    """records what the broker sees while an address is opened"""
    def __init__(self):
        self.ev = []

    def current_trigger(self):
        return ()

    def ms(self, t):
        return 0

    def op(self, k, **f):
        self.ev.append(dict(f, k=k))

    def publish(self, ch, m, routed):
        self.ev.append({"k": "pub", "x": m["exchange"], "key": m["key"], "routed": routed, "props": m["props"], "body": m["body"], "mandatory": m["mandatory"]})


def render_address(a):
    node, link = {}, {}
    n, l = a["node"], a["link"]
    if n["durable"]:
        node["durable"] = n["durable"] == "t"
    if n["autodelete"]:
        node["auto-delete"] = n["autodelete"] == "t"
    xd = {}
    if n["xq"]:
        xd["queue"] = n["xq"]
    if n["xx"]:
        xd["exchange"] = n["xx"]
    if n["xxtype"]:
        xd["exchange-type"] = n["xxtype"]
    for k, f in (("xdurable", "durable"), ("xexclusive", "exclusive"), ("xautodelete", "auto-delete")):
        if n[k]:
            xd[f] = n[k] == "t"
    if n["qtype"]:
        xd["arguments"] = {"x-queue-type": n["qtype"]}
    if xd:
        node["x-declare"] = xd
    if n["nbind"]:
        node["x-bindings"] = [{"exchange": "amq.topic", "queue": a["name"], "key": "k1"}]
    ld = {}
    if l["lq"]:
        ld["queue"] = l["lq"]
    if l["lexclusive"]:
        ld["exclusive"] = l["lexclusive"] == "t"
    if ld:
        link["x-declare"] = ld
    xs = {}
    if l["sexclusive"]:
        xs["exclusive"] = l["sexclusive"] == "t"
    if l["prio"]:
        xs["arguments"] = {"x-priority": l["prio"]}
    if xs:
        link["x-subscribe"] = xs
    opts = {}
    if node:
        opts["node"] = node
    if link:
        opts["link"] = link
    text = a["name"] + (("/" + a["subject"]) if a["subject"] else "")
    if opts:
        text += "; " + json.dumps(opts)
    return text


def blank_address(name="q1", subject=""):
    return {"name": name, "subject": subject,
            "node": {"durable": "", "autodelete": "", "xq": "", "xx": "", "xxtype": "", "xdurable": "", "xexclusive": "", "xautodelete": "", "qtype": "", "nbind": 0},
            "link": {"lq": "", "lexclusive": "", "sexclusive": "", "prio": 0}}


def address_space(thorough, rng):
    out = []
    tri = ["", "t", "f"]
    # queue consumers / producers around the engine's own addresses
    node_opts = [("durable", tri), ("autodelete", tri), ("xdurable", tri), ("xexclusive", tri), ("xautodelete", tri), ("qtype", ["", "quorum"]), ("nbind", [0, 1])]
    link_opts = [("sexclusive", tri), ("prio", [0, 10])]
    singles = [(k, v, "node") for k, vs in node_opts for v in vs[1:]] + [(k, v, "link") for k, vs in link_opts for v in vs[1:]]
    combos = [()] + [(x,) for x in singles] + [c for c in itertools.combinations(singles, 2) if c[0][0] != c[1][0]]
    for role in ("consumer", "producer"):
        for c in combos:
            a = blank_address("q1")
            for (k, val, where) in c:
                a[where][k] = val
            if role == "producer" and any(w == "link" or k in ("nbind", "qtype", "xexclusive") for (k, v, w) in c):
                continue
            if a["node"]["qtype"] and (a["node"]["xexclusive"] == "t" or a["node"]["xautodelete"] == "t" or a["node"]["autodelete"] == "t"):
                continue        # quorum queues cannot be exclusive / auto-delete on a real broker: outside the grammar's sensible part
            out.append((role, a, []))
    # exchange addresses
    for role in ("consumer", "producer"):
        for known in ([], ["news"]):
            for subject in ("", "sports"):
                for xx, xxtype in (("", ""), ("news", "topic"), ("other", "fanout")):
                    for lq, lex in (("", ""), ("newsq", ""), ("newsq", "f")):
                        for xq in ("", "nq"):
                            if role == "producer" and (lq or xq):
                                continue
                            a = blank_address("news", subject)
                            a["node"].update(xx=xx, xxtype=xxtype, xq=xq)
                            a["link"].update(lq=lq, lexclusive=lex)
                            out.append((role, a, known))
    # the engine's own addresses, literally
    return out


def open_address(role, text, known, transport):
    """open the address with the real messaging module on a fresh simulated broker; return what it saw"""
    rec = NullRec()
    clock = W.CLOCK
    b = Broker(clock, rec)
    for x in known:
        b.exchanges[x] = {"type": "topic", "durable": True}
    pika.BROKER = b
    refused = False
    err = ""
    target = {"x": "", "key": ""}
    try:
        if transport == "asyncio":
            import asl_workflow_engine.amqp_0_9_1_messaging_asyncio as M
            loop = asyncio.new_event_loop()
            asyncio.set_event_loop(loop)

            async def go():
                conn = M.Connection("amqp://localhost:5672")
                await conn.open()
                sess = await conn.session()
                if role == "consumer":
                    c = await sess.consumer(text)
                    await c.set_message_listener(lambda m: None)
                    return c
                p = await sess.producer(text)
                p.send(M.Message("probe", subject=None))
                return p
            try:
                obj = loop.run_until_complete(asyncio.wait_for(go(), 5))
            finally:
                loop.close()
        else:
            import asl_workflow_engine.amqp_0_9_1_messaging as M
            conn = M.Connection("amqp://localhost:5672")
            conn.open()
            sess = conn.session()
            if role == "consumer":
                c = sess.consumer(text)
                c.set_message_listener(lambda m: None)
            else:
                p = sess.producer(text)
                p.send(M.Message("probe", subject=None))
    except Exception as ex:
        refused = True
        err = type(ex).__name__
    seen = {"refused": refused, "err": err, "exchanges": [], "queues": [], "binds": [], "consumes": [], "target": target}
    for e in rec.ev:
        if e["k"] == "xdeclare":
            seen["exchanges"].append({"x": e["x"], "xtype": e["xtype"], "durable": e["durable"]})
        elif e["k"] == "qdeclare":
            seen["queues"].append({"q": e["q"], "durable": e["durable"], "exclusive": e["exclusive"], "autodelete": e["autodelete"], "qtype": e["qtype"]})
        elif e["k"] == "bind":
            seen["binds"].append({"x": e["x"], "q": e["q"], "key": e["key"]})
        elif e["k"] == "consume":
            seen["consumes"].append({"exclusive": e["exclusive"], "prio": e["prio"]})
        elif e["k"] == "pub":
            seen["target"] = {"x": e["x"], "key": e["key"]}
    return seen


# ---------------- messages -------------------------------------------------------------------------
def message_cases(thorough):
    exps = [None, 0, 5, 1500, "250", "12.7", 12.7, -3, "-1", "abc", "", 99999999]
    cases = []
    for exp in exps:
        for subj, corr, rto, mid in (("q1", None, None, None), ("q1", "c-1", "reply-q", "id-1"), ("q1", "c.waitForTaskToken", None, "m2")):
            for props in ({}, {"x-SendTaskSuccess": True, "k": "v"}):
                for ctype in (None, "application/json"):
                    for durable in (True, False):
                        cases.append({"body": '{"a": 1}', "exp": exp, "subject": subj, "corr": corr, "replyto": rto, "mid": mid, "props": props, "ctype": ctype, "durable": durable})
    return cases if thorough else cases[::3]


def send_receive(case, transport):
    rec = NullRec()
    b = Broker(W.CLOCK, rec)
    pika.BROKER = b
    got = []
    if transport == "asyncio":
        import asl_workflow_engine.amqp_0_9_1_messaging_asyncio as M
        loop = asyncio.new_event_loop()
        asyncio.set_event_loop(loop)

        async def go():
            conn = M.Connection("amqp://localhost:5672")
            await conn.open()
            sess = await conn.session()
            c = await sess.consumer("q1")
            await c.set_message_listener(got.append)
            p = await sess.producer()
            m = M.Message(case["body"], properties=dict(case["props"]), content_type=case["ctype"], durable=case["durable"],
                          correlation_id=case["corr"], reply_to=case["replyto"], expiration=case["exp"], message_id=case["mid"], subject=case["subject"])
            p.send(m)
        try:
            loop.run_until_complete(asyncio.wait_for(go(), 5))
        finally:
            loop.close()
    else:
        import asl_workflow_engine.amqp_0_9_1_messaging as M
        conn = M.Connection("amqp://localhost:5672")
        conn.open()
        sess = conn.session()
        c = sess.consumer("q1")
        c.set_message_listener(got.append)
        p = sess.producer()
        m = M.Message(case["body"], properties=dict(case["props"]), content_type=case["ctype"], durable=case["durable"],
                      correlation_id=case["corr"], reply_to=case["replyto"], expiration=case["exp"], message_id=case["mid"], subject=case["subject"])
        p.send(m)
    for q, ci in b.deliverable():
        b.deliver(q, ci)
    return got[0] if got else None


def exp_abs(e):
    if e is None:
        return {"k": "none", "n": 0}
    try:
        return {"k": "int", "n": int(float(e))}
    except (TypeError, ValueError):
        return {"k": "bad", "n": 0}


def msg_obs(oid, case, transport):
    try:
        g = send_receive(case, transport)
        err = ""
    except Exception as ex:
        g, err = None, type(ex).__name__
    def norm_props(p, subject):
        p = dict(p or {})
        p.pop("x-amqp-0-9-1.subject", None)
        return sorted("%s=%s" % (k, v) for k, v in p.items())
    sent = {"body": case["body"], "subject": case["subject"] or "", "corr": case["corr"] or "", "replyto": case["replyto"] or "",
            "mid": case["mid"] or "", "ctype": case["ctype"] or "", "props": norm_props(case["props"], None), "durable": case["durable"],
            "exp": exp_abs(case["exp"])}
    if g is None:
        got = {"body": "<nothing received: %s>" % err, "subject": "", "corr": "", "replyto": "", "mid": "", "ctype": "", "props": [], "durable": False,
               "exp": {"set": False, "n": -1}}
    else:
        body = g.body.decode() if isinstance(g.body, bytes) else g.body
        e = g.expiration
        if e is None:
            ge = {"set": False, "n": 0}
        else:
            ge = {"set": True, "n": int(e) if isinstance(e, str) and e.lstrip("-").isdigit() else -999}
        got = {"body": body, "subject": g.subject or "", "corr": g.correlation_id or "", "replyto": g.reply_to or "", "mid": g.message_id or "",
               "ctype": g.content_type or "", "props": norm_props(g.properties, None), "durable": bool(g.durable), "exp": ge}
    return {"id": oid, "kind": "msg", "transport": transport, "sent": sent, "got": got,
            "role": "", "a": blank_address(), "known": [], "seen": {"refused": False, "err": "", "exchanges": [], "queues": [], "binds": [], "consumes": [], "target": {"x": "", "key": ""}},
            "same": True}


def run(tier_name=None, replay=None):
    t = get_tier(tier_name)
    thorough = t == "thorough"
    v = Verdict("C19", t)
    rng = random.Random(get_seed() + 19)
    sd = get_seed()
    work = os.path.join(RUN, "C19-" + t)
    os.makedirs(work, exist_ok=True)
    if replay:
        rp = json.load(open(replay))
        if "obs" in rp:
            fails, stats = judge.run_judge("JudgeC19", [rp["obs"]], os.path.join(RUN, "C19-replay"))
            for f in fails:
                print("  ", f)
                v.violation(rp, f["clause"])
        else:
            r = run_once(rp["scenario"], schedule=rp.get("schedule", []), d1=False)
            b = BatchWriter(os.path.join(RUN, "C19-replay.ndjson"))
            b.add_run(r.events, "replay")
            b.close()
            fails, stats = tlc.check_traces([b.path])
            for f in fails:
                print("  ", f["prop"], f["clause"], f["w"][:200])
                if f["prop"] in MINE:
                    v.violation(rp, f["clause"])
        v.coverage = {"states": 1, "transitions": 1, "traces_validated_against_impl": 1, "samples": ["replay"]}
        return v.finish()
    # ---- (1) routing
    NB = 16
    bws = [BatchWriter(os.path.join(work, "b%02d.ndjson" % i)) for i in range(NB)]
    meta, k, nruns, by_scn = {}, [0], [0], {}
    taken_by = collections.Counter()

    def on_run(r, s):
        b = bws[k[0] % NB]
        k[0] += 1
        tid = b.add_run(r.events, s["id"])
        meta[(b.path, tid)] = (s["id"], list(r.schedule))
        nruns[0] += 1
        for e in r.events:
            if e["k"] == "frame" and e.get("cause") == "deliver" and e.get("q", "").startswith("asl_workflow_events") and not e["q"].rsplit("-", 1)[-1].startswith("i"):
                taken_by[e["i"]] += 1
    for s in routing_scenarios(thorough):
        by_scn[s["id"]] = s
        n, done = explore_dfs(s, budget=120 if thorough else 16, d1=False, on_run=lambda r, s=s: on_run(r, s))
        explore_random(s, 30 if thorough else 6, sd * 31 + len(s["id"]), d1=False, on_run=lambda r, s=s: on_run(r, s))
    for b in bws:
        b.close()
    batches = [b.path for b in bws if b.lines]
    try:
        fails, tstats = tlc.check_traces(batches)
    except tlc.TLCError as ex:
        v.machinery_failure(str(ex)[:1500])
        return v.finish()
    cl = collections.Counter()
    for f in fails:
        sid, sched = meta[(f["batch"], f["tid"])]
        if f["prop"] == "ENV":
            v.machinery_failure("simulator disagrees with Broker.tla: %s in %s line %s" % (f["clause"], sid, f["n"]))
            continue
        if f["prop"] in MINE or f["clause"] in ALSO:
            cl[(f["clause"], f["kf"])] += 1
            if f["kf"]:
                v.known_finding(f["kf"])
            else:
                v.violation({"property": "C19", "scenario": by_scn[sid], "schedule": sched, "clause": f["clause"]},
                            "%s in %s schedule=%s line=%s %s" % (f["clause"], sid, sched, f["n"], f["w"][:200]))
    # ---- (2) address strings and (3) messages, on both transports
    obs, info = [], {}
    n = 0
    for role, a, known in address_space(thorough, rng):
        text = render_address(a)
        seen_by = {}
        for tr in ("asyncio", "blocking"):
            n += 1
            seen = open_address(role, text, known, tr)
            seen_by[tr] = seen
            obs.append({"id": n, "kind": "addr", "role": role, "a": a, "known": known, "transport": tr, "seen": seen, "same": True,
                        "sent": msg_obs(0, message_cases(False)[0], "none")["sent"] if False else {"body": "", "subject": "", "corr": "", "replyto": "", "mid": "", "ctype": "", "props": [], "durable": False, "exp": {"k": "none", "n": 0}},
                        "got": {"body": "", "subject": "", "corr": "", "replyto": "", "mid": "", "ctype": "", "props": [], "durable": False, "exp": {"set": False, "n": 0}}})
            info[n] = {"address": text, "role": role, "known": known, "transport": tr}
        n += 1
        strip = lambda z: {kk: vv for kk, vv in z.items() if kk != "err"}
        obs.append(dict(obs[-1], id=n, kind="pair", same=strip(seen_by["asyncio"]) == strip(seen_by["blocking"])))
        info[n] = {"address": text, "role": role, "known": known, "transport": "both", "asyncio": seen_by["asyncio"], "blocking": seen_by["blocking"]}
    n_addr = n
    for case in message_cases(thorough):
        for tr in ("asyncio", "blocking"):
            n += 1
            obs.append(msg_obs(n, case, tr))
            info[n] = dict(case, transport=tr)
    try:
        jf, jstats = judge.run_judge("JudgeC19", obs, os.path.join(work, "judge"))
    except Exception as ex:
        v.machinery_failure(str(ex)[:1500])
        return v.finish()
    by_id = {o["id"]: o for o in obs}
    for f in jf:
        o = by_id[f["id"]]
        cl[(f["clause"], f["kf"])] += 1
        if f["kf"]:
            v.known_finding(f["kf"])
        else:
            v.violation({"property": "C19", "obs": o, "case": info[f["id"]]},
                        "%s: %s -> %s" % (f["clause"], json.dumps(info[f["id"]], default=str)[:300], json.dumps(o["seen"] if o["kind"] != "msg" else o["got"])[:300]))
    v.coverage = {"states": tstats["states"] + jstats["states"], "transitions": tstats["transitions"] + jstats["transitions"],
                  "traces_validated_against_impl": nruns[0], "evaluations": nruns[0] + len(obs), "distinct_nontrivial": nruns[0] + len(obs),
                  "rule": "routing: runs of the corpus on 2-3 instances (classic/quorum naming, asyncio/blocking transport) under enumerated and random schedules, every "
                          "delivery/publish/declaration checked by TLC; addresses: the option combinations (<= 2 per map) around the engine's own queue addresses and the exchange "
                          "forms, consumer and producer, each opened with both real messaging modules; messages: every combination of expiration x ids x properties x content type x "
                          "durability sent and received on both transports; all distinct by construction",
                  "samples": [info[1], info[n_addr + 1]], "routing_runs": nruns[0], "start_events_taken_by_instance": dict(taken_by),
                  "addresses": n_addr, "messages": len(obs) - n_addr, "failed_clauses": {"%s|%s" % kk: c for kk, c in cl.items()}, "exhaustive": False}
    v.assumptions = ["the simulated broker implements the AMQP 0-9-1 declaration/consume/route rules of spec/Broker.tla", "threads of the blocking transport are not modelled"]
    rc = v.finish()
    if rc == 0:
        for b in batches:
            try:
                os.remove(b)
            except OSError:
                pass
    return rc


if __name__ == "__main__":
    sys.exit(run(*(sys.argv[1:2])))
