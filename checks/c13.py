"""C13: payload templates and intrinsic functions evaluate as specified and fail cleanly.

Intrinsic expressions are generated as ABSTRACT SYNTAX from the function grammar and rendered to
States-Language text, so the real regular-expression tokeniser is tested against the syntax tree;
the real `evaluate_payload_template` is run on templates mixing literal and ".$" members; every
observation (value or exception class, template/input/context unchanged, same result under another
PYTHONHASHSEED, through a single Pass state) is judged by TLC with spec/Template.tla
(spec/JudgeC13.tla)."""
import base64
import collections
import copy
import hashlib
import itertools
import json
import os
import random
import re
import resource
import subprocess
import sys
import time
import uuid as real_uuid
import warnings
from concurrent.futures import ThreadPoolExecutor

from common import Verdict, tier as get_tier, seed as get_seed, RUN
from vsim import tagged

CTX = {"Execution": {"Id": "arn:x", "Input": {"k": 1}}, "State": {"Name": "S", "EnteredTime": "t"},
       "Map": {"Item": {"Index": 0, "Value": "v"}}}
OTHER_SEED = "4242"
NO_CTX = {}                 # engine runs use the engine's own context object (cases with $$ paths are not sent there)
ALPHA = list(",'\\(){}[]^ ab-1")
CURATED_STR = ["", "a", "a,b", "a)b", "(a", "it's", "a\\b", "{}", "a{b}", "[x]", "^", "^a", "a-c", "a b",
               "x,y z", "'", "\\", "a\\", "),(", "b,a,b", "a(b)c", "1", " a ", "a]b", "a^b-c"]
FUNCS = ["States.Format", "States.StringToJson", "States.JsonToString", "States.Array", "States.ArrayPartition",
         "States.ArrayContains", "States.ArrayRange", "States.ArrayGetItem", "States.ArrayLength",
         "States.ArrayUnique", "States.Base64Encode", "States.Base64Decode", "States.Hash", "States.JsonMerge",
         "States.MathRandom", "States.MathAdd", "States.StringSplit", "States.UUID"]
ALGS = ["MD5", "SHA-1", "SHA-256", "SHA-384", "SHA-512"]
NONDET = {"States.UUID", "States.MathRandom"}
PARTS = 6


# ---- encoding: tagged JSON with character-list strings and keys (spec/Template.tla) ---------------
def E(v):
    if isinstance(v, str):
        return {"t": "str", "c": tagged.chars(v)}
    if isinstance(v, (list, tuple)):
        return {"t": "arr", "a": [E(x) for x in v]}
    if isinstance(v, dict):
        return {"t": "obj", "k": [tagged.chars(str(k)) for k in v], "v": [E(x) for x in v.values()]}
    return tagged.enc(v)


def unchars(c):
    return "".join(x if len(x) == 1 else chr(int(x[1:])) for x in c)


def D(t):
    k = t["t"]
    if k == "str":
        return unchars(t["c"])
    if k == "arr":
        return [D(x) for x in t["a"]]
    if k == "obj":
        return {unchars(kk): D(vv) for kk, vv in zip(t["k"], t["v"])}
    return tagged.dec(t)


def has_big(t):
    if t["t"] == "big":
        return True
    if t["t"] == "arr":
        return any(has_big(x) for x in t["a"])
    if t["t"] == "obj":
        return any(has_big(x) for x in t["v"])
    return False


# ---- abstract syntax ------------------------------------------------------------------------------
def lit(v):
    return {"k": "lit", "v": E(v)}


def path(kind, *steps):
    return {"k": "path", "p": {"kind": kind, "steps": [({"k": "idx", "idx": s} if isinstance(s, int)
                                                         else {"k": "key", "key": tagged.chars(s)}) for s in steps]}}


def call(f, *args, mal=""):
    return {"k": "call", "f": f, "args": list(args), "mal": mal}


class Dyn:
    """the value of a ".$" member: an expression"""

    def __init__(self, e):
        self.e = e


def nodes(e):
    yield e
    if e["k"] == "call":
        for a in e["args"]:
            for n in nodes(a):
                yield n


def raw_valid(s):
    """can s stand between apostrophes as it is (every apostrophe escaped, no dangling backslash)?"""
    i = 0
    while i < len(s):
        if s[i] == "\\":
            if i + 1 >= len(s):
                return False
            i += 2
        elif s[i] == "'":
            return False
        else:
            i += 1
    return True


def normalize(e):
    """The first argument of States.Format is rendered raw (Format interprets the escapes itself), so it
    must be raw-valid text: escape where it is not."""
    if e["k"] == "call":
        for a in e["args"]:
            normalize(a)
        if e["f"] == "States.Format" and e["args"] and e["args"][0]["k"] == "lit" and e["args"][0]["v"]["t"] == "str":
            s = D(e["args"][0]["v"])
            if not raw_valid(s):
                e["args"][0]["v"] = E(s.replace("\\", "\\\\").replace("'", "\\'"))
    return e


def render_path(p):
    out = "$$" if p["kind"] in ("ctx", "ctxroot") else "$"
    for st in p["steps"]:
        out += ("[%d]" % st["idx"]) if st["k"] == "idx" else ("." + unchars(st["key"]))
    return out


def render(e, sep=", ", raw=False):
    if e["k"] == "lit":
        v = D(e["v"])
        if isinstance(v, str):
            return "'" + (v if raw else v.replace("\\", "\\\\").replace("'", "\\'")) + "'"
        if v is None:
            return "null"
        if v is True:
            return "true"
        if v is False:
            return "false"
        return repr(v)
    if e["k"] == "path":
        return render_path(e["p"])
    args = [render(a, sep, raw=(e["f"] == "States.Format" and j == 0)) for j, a in enumerate(e["args"])]
    mal = e["mal"]
    if mal == "noopen":
        return e["f"]
    if mal == "bare":
        return "nope"
    if mal == "empty":
        return ""
    if mal == "noclose":
        return e["f"] + "(" + sep.join(args)
    if mal == "trailing":
        return e["f"] + "(" + sep.join(args) + ") x"
    if mal == "nocomma":
        return e["f"] + "(" + " ".join(args) + ")"
    return e["f"] + "(" + sep.join(args) + ")"


def to_real(t, sep):
    if isinstance(t, Dyn):
        return render(t.e, sep)
    if isinstance(t, dict):
        return {k: to_real(v, sep) for k, v in t.items()}
    if isinstance(t, list):
        return [to_real(v, sep) for v in t]
    return t


def to_tla(t):
    if isinstance(t, Dyn):
        return {"t": "dyn", "e": t.e}
    if isinstance(t, dict):
        return {"t": "obj", "k": [tagged.chars(k) for k in t], "v": [to_tla(v) for v in t.values()]}
    if isinstance(t, list):
        return {"t": "arr", "a": [to_tla(v) for v in t]}
    return E(t)


def tla_exprs(t):
    if t["t"] == "dyn":
        yield t["e"]
    elif t["t"] == "obj":
        for v in t["v"]:
            for e in tla_exprs(v):
                yield e
    elif t["t"] == "arr":
        for v in t["a"]:
            for e in tla_exprs(v):
                yield e


# ---- known answers of the uninterpreted functions ("facts") ---------------------------------------
def strings_of(v, out):
    if isinstance(v, str):
        out.add(v)
    elif isinstance(v, list):
        for x in v:
            strings_of(x, out)
    elif isinstance(v, dict):
        for x in v.values():
            strings_of(x, out)


def _no_const(x):
    raise ValueError(x)


def facts_for(tla_tpl, inp, ctx, outval):
    fs = set()
    for e in tla_exprs(tla_tpl):
        for n in nodes(e):
            if n["k"] == "call":
                fs.add(n["f"])
    F = {"json": [], "b64": [], "hash": []}
    want_json = fs & {"States.StringToJson", "States.JsonToString"}
    want_b64 = fs & {"States.Base64Encode", "States.Base64Decode"}
    want_hash = "States.Hash" in fs
    if not (want_json or want_b64 or want_hash):
        return F
    cand = set()
    for e in tla_exprs(tla_tpl):
        for n in nodes(e):
            if n["k"] == "lit" and n["v"]["t"] == "str":
                cand.add(D(n["v"]))
    strings_of(inp, cand)
    strings_of(ctx, cand)
    strings_of(outval, cand)
    cand = sorted(s for s in cand if len(s) <= 300 and all(32 <= ord(c) < 127 for c in s))
    if want_json:
        for s in cand:
            try:
                v = json.loads(s, parse_constant=_no_const)
            except (ValueError, RecursionError):
                F["json"].append({"s": tagged.chars(s), "ok": False, "v": E(None)})
                continue
            t = E(v)
            if not has_big(t):
                F["json"].append({"s": tagged.chars(s), "ok": True, "v": t})
    if want_b64:
        seen = set()
        for s in cand:
            enc = base64.b64encode(s.encode("utf-8")).decode("ascii")
            seen.add((s, enc))
            try:
                dec = base64.b64decode(s.encode("ascii"), validate=True).decode("utf-8")
                if len(s) % 4 == 0 and all(32 <= ord(c) < 127 for c in dec):
                    seen.add((dec, s))
            except Exception:
                pass
        F["b64"] = [{"p": tagged.chars(p), "e": tagged.chars(e)} for p, e in sorted(seen)]
    if want_hash:
        algs = [a for a in ALGS if a in cand]
        for d in cand:
            for a in algs:
                h = hashlib.new(a.replace("-", "").lower(), d.encode("utf-8")).hexdigest()
                F["hash"].append({"d": tagged.chars(d), "a": tagged.chars(a), "h": tagged.chars(h)})
    return F


# ---- running the real code ------------------------------------------------------------------------
LEAK = re.compile(r"<class |<built-in|<function|<module | object at 0x|<bound method|<method")


def canon(v):
    return json.dumps(v, sort_keys=True)


_CANON = {}


def canon_cached(v):
    """canonical text of an input/context object that is shared by many cases (never mutated here)"""
    k = id(v)
    if k not in _CANON:
        _CANON[k] = (v, canon(v), E(v))
    return _CANON[k]


def run_real(sp, real_tpl, inp, ctx):
    """-> (outcome for TLC, python value or None, unchanged?)"""
    ci, cc, ct = canon_cached(inp)[1], canon_cached(ctx)[1], canon(real_tpl)
    t0, i0, c0 = json.loads(ct), json.loads(ci), json.loads(cc)       # fresh copies for the real code
    try:
        v = sp.evaluate_payload_template(i0, c0, t0)
    except RecursionError:
        out, val = {"kind": "exc", "cls": "RecursionError"}, None
    except Exception as ex:
        out, val = {"kind": "exc", "cls": type(ex).__name__}, None
    else:
        try:
            val = json.loads(json.dumps(v))
            out = {"kind": "value", "v": E(val)}
        except (TypeError, ValueError, RecursionError):
            out, val = {"kind": "notjson"}, None
    try:
        same = canon(t0) == ct and canon(i0) == ci and canon(c0) == cc
    except (TypeError, ValueError):
        same = False
    return out, val, same


def key_of(out, val):
    return ("V:" + canon(val)) if out["kind"] == "value" else ("X:" + out.get("cls", out["kind"]))


def child_main(path):
    """Re-evaluate the cases of a file in this process (started under another PYTHONHASHSEED)."""
    from vsim import world as W          # noqa: F401  (sets sys.path for the real code)
    import asl_workflow_engine.state_engine_paths as sp
    warnings.simplefilter("ignore", FutureWarning)
    sp.uuid = real_uuid
    with open(path) as f:
        doc = json.load(f)
    res = {}
    for c in doc["cases"]:
        out, val, _same = run_real(sp, c["tpl"], doc["inputs"][c["i"]], doc["ctxs"][c["c"]])
        res[str(c["id"])] = key_of(out, val)
    with open(path + ".out", "w") as f:
        json.dump(res, f)
    return 0


def start_other_seed(cases, workdir):
    """Start re-evaluating cases (dicts(id, tpl, input, ctx)) in a process under OTHER_SEED."""
    os.makedirs(workdir, exist_ok=True)
    p = os.path.join(workdir, "seedcases.json")
    inputs, ctxs, iidx, cidx, rows = [], [], {}, {}, []
    for c in cases:                      # the few distinct input/context objects are written once
        if id(c["input"]) not in iidx:
            iidx[id(c["input"])] = len(inputs)
            inputs.append(c["input"])
        if id(c["ctx"]) not in cidx:
            cidx[id(c["ctx"])] = len(ctxs)
            ctxs.append(c["ctx"])
        rows.append({"id": c["id"], "tpl": c["tpl"], "i": iidx[id(c["input"])], "c": cidx[id(c["ctx"])]})
    with open(p, "w") as f:
        json.dump({"inputs": inputs, "ctxs": ctxs, "cases": rows}, f)
    env = dict(os.environ, PYTHONHASHSEED=OTHER_SEED, LOG_LEVEL="CRITICAL", PYTHONDONTWRITEBYTECODE="1")
    proc = subprocess.Popen([sys.executable, os.path.abspath(__file__), "--child", p], env=env,
                            stdout=subprocess.PIPE, stderr=subprocess.STDOUT, text=True)
    return proc, p


def finish_other_seed(handle):
    """-> {id: outcome key} as computed under OTHER_SEED"""
    proc, p = handle
    try:
        outtext, _ = proc.communicate(timeout=1800)
    except subprocess.TimeoutExpired:
        proc.kill()
        raise RuntimeError("hash-seed child timed out")
    if proc.returncode != 0 or not os.path.exists(p + ".out"):
        raise RuntimeError("hash-seed child failed rc=%s: %s" % (proc.returncode, (outtext or "")[-1500:]))
    with open(p + ".out") as f:
        res = json.load(f)
    for q in (p, p + ".out"):
        os.remove(q)
    return {int(k): v for k, v in res.items()}


def rerun_other_seed(cases, workdir):
    return finish_other_seed(start_other_seed(cases, workdir))


def run_engine(real_tpl, inp):
    from vsim.explore import run_once
    from vsim import scenarios as S
    st = S.P(Parameters=real_tpl, End=True)
    r = run_once(S.scn("c13", S.SM("A", A=st), inputs=(inp,)), d1=False)
    rec = list(r.outcomes.values())[0]
    if rec is None:
        return {"kind": "exc", "cls": "NoRecord"}, None
    if rec["status"] == "SUCCEEDED":
        val = json.loads(rec["output"])
        return {"kind": "value", "v": E(val)}, val
    err = rec.get("error") or "NoErrorName"
    return {"kind": "exc", "cls": err[len("States."):] if err.startswith("States.") else err}, None


# ---- generation -----------------------------------------------------------------------------------
def make_inputs(rng):
    base = {"s": "a,b", "n": 3, "f": 1.5, "t": True, "z": None, "arr": [3, 1, 3, 2], "strs": ["b", "a", "b", "c"],
            "objs": [{"a": 1}, {"a": 1}], "mix": [1, True, "1", None, 1], "o1": {"x": 1, "y": {"p": 1}},
            "o2": {"y": {"q": 2}, "z": 3}, "e": [], "eo": {}, "b64": "YSxi", "js": "{\"a\": [1, 2]}",
            "tpl": "v={} w={}", "sep": ", "}
    out = [base]
    for _ in range(3):
        d = copy.deepcopy(base)
        d["s"] = rand_str(rng, 5)
        d["strs"] = [rng.choice(["a", "b", "c", "d", "e", "f", "it's", "x,y", "(", ")"]) for _ in range(rng.randrange(2, 7))]
        d["arr"] = [rng.randrange(-2, 4) for _ in range(rng.randrange(1, 7))]
        d["n"] = rng.randrange(0, 4)
        d["mix"] = [rng.choice([1, 0, True, False, "1", None, 2]) for _ in range(rng.randrange(2, 6))]
        d["o2"] = {k: rng.choice([1, "v", {"q": 2}, None]) for k in rng.sample(["x", "y", "z", "w"], rng.randrange(0, 4))}
        d["sep"] = rng.choice([",", " ", ",)", "b", "^", "-a"])
        out.append(d)
    return out


# typed paths into every input of make_inputs
PATHS = {
    "str": [path("steps", "s"), path("steps", "strs", 0), path("ctx", "State", "Name"), path("steps", "b64"), path("steps", "js"),
            path("steps", "tpl"), path("steps", "sep")],
    "int": [path("steps", "n"), path("steps", "arr", 0), path("steps", "o1", "x"), path("ctx", "Map", "Item", "Index")],
    "float": [path("steps", "f")],
    "null": [path("steps", "z")],
    "bool": [path("steps", "t")],
    "arr": [path("steps", "arr"), path("steps", "strs"), path("steps", "objs"), path("steps", "mix"), path("steps", "e")],
    "obj": [path("steps", "o1"), path("steps", "o2"), path("steps", "eo"), path("root"), path("ctx", "Execution", "Input")],
    "missing": [path("steps", "nope"), path("steps", "arr", 9), path("ctx", "Nope"), path("steps", "o1", "x", "deeper")],
}
TYPES = ["str", "int", "float", "null", "bool", "arr", "obj"]


def rand_str(rng, maxlen=4):
    if rng.random() < 0.35:
        return rng.choice(CURATED_STR)
    return "".join(rng.choice(ALPHA) for _ in range(rng.randrange(0, maxlen + 1)))


FMT_TOKENS = ["a", "b", " ", ",", "(", ")", "[", "]", "^", "-", "1", "{}", "{}", "{}", "\\{", "\\}", "\\'", "\\\\"]
FMT_DUBIOUS = ["{", "}", "{0}", "{0.__class__}", "{1}", "{:>4}", "{0!r}", "\\a", "{x}", "{0[0]}", "{0.__class__.__mro__}"]


def fmt_template(rng, dubious=0.12):
    toks = [rng.choice(FMT_TOKENS) for _ in range(rng.randrange(0, 6))]
    if rng.random() < dubious:
        toks.insert(rng.randrange(0, len(toks) + 1), rng.choice(FMT_DUBIOUS))
    return "".join(toks)


class Gen:
    def __init__(self, rng):
        self.rng = rng

    def literal(self, ty):
        r = self.rng
        if ty == "str":
            return lit(rand_str(r))
        if ty == "int":
            return lit(r.choice([0, 1, 2, 3, -1, -2, 5, 12]))
        if ty == "float":
            return lit(r.choice([1.5, -0.25, 2.75]))
        if ty == "null":
            return lit(None)
        return lit(r.random() < 0.5)

    def typed(self, ty, depth):
        """an expression whose value has JSON type ty"""
        r = self.rng
        x = r.random()
        if depth > 0 and (x < 0.45 or (ty in ("arr", "obj") and x < 0.6)):
            return self.typed_call(ty, depth - 1)
        if ty in ("arr", "obj") or x > 0.8:
            return copy.deepcopy(r.choice(PATHS[ty]))
        return self.literal(ty)

    def typed_call(self, ty, depth):
        r = self.rng
        if ty == "str":
            f = r.choice(["States.Format", "States.JsonToString", "States.Base64Encode", "States.Base64Decode", "States.Hash",
                          "States.ArrayGetItem", "States.UUID"])
            if f == "States.ArrayGetItem":
                return call(f, copy.deepcopy(PATHS["arr"][1]), lit(r.randrange(0, 2)))
            if f == "States.Base64Decode":
                return call(f, call("States.Base64Encode", self.typed("str", depth)))
            return self.good(f, depth)
        if ty == "int":
            f = r.choice(["States.MathAdd", "States.ArrayLength", "States.ArrayGetItem", "States.MathRandom"])
            if f == "States.ArrayGetItem":
                return call(f, copy.deepcopy(PATHS["arr"][0]), lit(0))
            return self.good(f, depth)
        if ty == "bool":
            return self.good("States.ArrayContains", depth)
        if ty == "arr":
            return self.good(r.choice(["States.Array", "States.ArrayPartition", "States.ArrayRange", "States.ArrayUnique",
                                       "States.StringSplit"]), depth)
        if ty == "obj":
            if r.random() < 0.5:
                return self.good("States.JsonMerge", depth)
            return call("States.StringToJson", r.choice([lit("{\"a\": 1}"), copy.deepcopy(PATHS["str"][4]),
                                                         call("States.JsonToString", self.typed("obj", depth))]))
        return self.literal(ty)     # float, null

    def anyarg(self, depth):
        r = self.rng
        if r.random() < 0.06:
            return copy.deepcopy(r.choice(PATHS["missing"]))
        return self.typed(r.choice(TYPES), depth)

    def good(self, f, depth):
        """a call of f with the right number of arguments of the right types (values may still be ill-formed)"""
        r = self.rng
        T = lambda ty: self.typed(ty, depth)          # noqa: E731
        if f == "States.Format":
            tpl = fmt_template(r)
            n = tpl.count("{}") + (r.choice([-1, 1]) if r.random() < 0.1 else 0)
            first = lit(tpl) if r.random() < 0.9 else T("str")
            return call(f, first, *[self.typed(r.choice(["str", "str", "int", "null", "bool", "str", "float", "arr"]), depth)
                                    for _ in range(max(n, 0))])
        if f == "States.StringToJson":
            return call(f, r.choice([lit("1"), lit("true"), lit("[1, 2]"), lit("{\"a\": [1, 2]}"), lit("nope"), lit(""),
                                     lit("\"s\""), lit("null"), lit("{\"a\": 1"), T("str")]))
        if f == "States.JsonToString":
            return call(f, self.anyarg(depth))
        if f == "States.Array":
            return call(f, *[self.anyarg(depth) for _ in range(r.randrange(0, 5))])
        if f == "States.ArrayPartition":
            return call(f, T("arr"), lit(r.choice([1, 2, 2, 3, 4, 0, -1, 7])) if r.random() < 0.8 else T("int"))
        if f == "States.ArrayContains":
            return call(f, T("arr"), self.typed(r.choice(["int", "str", "bool", "null", "int", "str", "float", "obj"]), depth))
        if f == "States.ArrayRange":
            return call(f, lit(r.randrange(-4, 9)), lit(r.randrange(-4, 12)), lit(r.choice([1, 2, 3, 1, 2, -1, -2, -3, 0, 5])))
        if f == "States.ArrayGetItem":
            return call(f, T("arr"), lit(r.choice([0, 1, 2, 3, 0, 1, -1, 9])) if r.random() < 0.8 else T("int"))
        if f in ("States.ArrayLength", "States.ArrayUnique"):
            return call(f, T("arr"))
        if f == "States.Base64Encode":
            return call(f, T("str"))
        if f == "States.Base64Decode":
            x = r.random()
            if x < 0.4:
                return call(f, lit(base64.b64encode(rand_str(r).encode()).decode()))
            if x < 0.7 and depth > 0:
                return call(f, call("States.Base64Encode", self.typed("str", depth - 1)))
            return call(f, T("str"))
        if f == "States.Hash":
            return call(f, T("str"), lit(r.choice(ALGS + ALGS + ["md5", "SHA-2", ""])))
        if f == "States.JsonMerge":
            return call(f, T("obj"), T("obj"), lit(r.choice([False, False, False, True, 0])))
        if f == "States.MathRandom":
            lo = r.randrange(-3, 6)
            hi = lo + r.choice([1, 2, 5, 9, 3, 4, 0, -2])
            args = [lit(lo), lit(hi)]
            if r.random() < 0.4:
                args.append(r.choice([lit(7), lit("seed"), lit(1.5), copy.deepcopy(PATHS["obj"][0]), copy.deepcopy(PATHS["arr"][0]), lit(None)]))
            return call(f, *args)
        if f == "States.MathAdd":
            if r.random() < 0.08:
                return call(f, lit(r.choice([2147483647, -2147483648, 10 ** 12])), lit(r.choice([1, -1, 10 ** 12])))
            return call(f, T("int"), T("int"))
        if f == "States.StringSplit":
            seps = r.choice([",", " ", ", ", ",)", "(", "b", "ab", "^", "^a", "a-c", "]", "\\", "[", "-", "{}", "'", "", "a^"])
            return call(f, T("str"), lit(seps) if r.random() < 0.85 else T("str"))
        if f == "States.UUID":
            return call(f)
        raise ValueError(f)

    def anycall(self, depth):
        """every function, 0..4 arguments of every JSON type"""
        r = self.rng
        f = r.choice(FUNCS)
        x = r.random()
        if x < 0.7:
            return self.good(f, depth)
        return call(f, *[self.anyarg(depth) for _ in range(r.randrange(0, 5))])


REP = {"str": lambda: lit("a,b"), "int": lambda: lit(2), "float": lambda: lit(1.5), "null": lambda: lit(None),
       "bool": lambda: lit(True), "arr": lambda: copy.deepcopy(PATHS["arr"][0]), "obj": lambda: copy.deepcopy(PATHS["obj"][0])}


def exhaustive_exprs(thorough, rng):
    """every function x arity 0..2 (0..3 at thorough) x every tuple of JSON types; arity 3 completely for
    the three-argument functions, sampled for the others at quick"""
    out = []
    for f in FUNCS:
        for n in range(0, 4):
            combos = list(itertools.product(TYPES, repeat=n))
            if n == 3 and not thorough and f not in ("States.JsonMerge", "States.ArrayRange", "States.MathRandom", "States.Format"):
                combos = rng.sample(combos, 12)
            for tys in combos:
                out.append(call(f, *[REP[t]() for t in tys]))
        if thorough:
            for tys in rng.sample(list(itertools.product(TYPES, repeat=4)), 60):
                out.append(call(f, *[REP[t]() for t in tys]))
    return out


def curated_exprs():
    L = lit
    A = lambda *a: call("States.Array", *a)         # noqa: E731
    out = [
        # strings containing the characters that matter to the tokeniser
        A(L("a,b"), L("c(d")), A(L("a)b")), A(L("it's")), A(L("a\\b")), A(L("a\\")), A(L("'")), A(L("")), A(L("  a ")),
        A(L("{}"), L("[x]"), L("^")), A(L("a, 'b'")), A(L("x"), L(1), L(None), L(True), L(False), L(1.5), L(-2)),
        # nesting 1, 2, 3
        A(A(L(1)), L(2)), A(A(A(L(1)))), A(A(A(A(L(1))))), A(A(L("a)b"))), A(A(L("a,b")), L("c")), A(A(L("(")), L(")")),
        call("States.ArrayLength", A(A(L(1)), A(L(2)))), call("States.MathAdd", call("States.MathAdd", L(1), L(2)), L(3)),
        call("States.MathAdd", call("States.MathAdd", call("States.MathAdd", L(1), L(2)), L(3)), L(4)),
        call("States.Format", L("{}-{}"), call("States.Format", L("<{}>"), L("x")), L("y")),
        # Format
        call("States.Format", L("{0.__class__}"), L(1)), call("States.Format", L("{0.__class__.__mro__}"), L("x")),
        call("States.Format", L("{0}"), L("x")), call("States.Format", L("{:>4}"), L("x")), call("States.Format", L("{0[0]}"), L("xy")),
        call("States.Format", L("a\\{b\\}{}"), L(1)), call("States.Format", L("it\\'s {}"), L("x")), call("States.Format", L("\\\\{}"), L("x")),
        call("States.Format", L("{}"), L(None)), call("States.Format", L("{}"), L(True)), call("States.Format", L("{}"), L(False)),
        call("States.Format", L("{} {}"), L(1)), call("States.Format", L("{}"), L(1), L(2)), call("States.Format", L("{"), L(1)),
        call("States.Format", L("}")), call("States.Format", L("plain")), call("States.Format"), call("States.Format", L(5)),
        call("States.Format", L("{},{}"), L("a,b"), L(12)), call("States.Format", path("steps", "tpl"), L(1), L("z")),
        # ArrayUnique / ArrayContains / ArrayRange / ArrayGetItem / ArrayPartition
        call("States.ArrayUnique", A(L("a"), L("b"), L("c"), L("a"))), call("States.ArrayUnique", A(L(3), L(1), L(3), L(2))),
        call("States.ArrayUnique", path("steps", "objs")), call("States.ArrayUnique", path("steps", "mix")),
        call("States.ArrayUnique", A(L("d"), L("c"), L("b"), L("a"), L("e"), L("f"), L("g"))), call("States.ArrayUnique", path("steps", "e")),
        call("States.ArrayContains", A(L(1), L(2)), L(True)), call("States.ArrayContains", A(L(1), L(2)), L(2)),
        call("States.ArrayContains", A(L("a")), L("a")), call("States.ArrayContains", A(L(True)), L(1)), call("States.ArrayContains", path("steps", "objs"), path("steps", "o1")),
        call("States.ArrayRange", L(1), L(9), L(2)), call("States.ArrayRange", L(9), L(1), L(-2)), call("States.ArrayRange", L(1), L(9), L(-2)),
        call("States.ArrayRange", L(5), L(5), L(-1)), call("States.ArrayRange", L(1), L(10), L(3)), call("States.ArrayRange", L(3), L(1), L(1)),
        call("States.ArrayRange", L(1), L(2), L(0)), call("States.ArrayRange", L(0), L(1000), L(1)), call("States.ArrayRange", L(0), L(999), L(1)),
        call("States.ArrayGetItem", A(L(1), L(2)), L(True)), call("States.ArrayGetItem", A(L(1), L(2)), L(2)), call("States.ArrayGetItem", A(L(1), L(2)), L(-1)),
        call("States.ArrayPartition", A(L(1), L(2), L(3)), L(2)), call("States.ArrayPartition", A(L(1), L(2), L(3)), L(True)),
        call("States.ArrayPartition", A(L(1), L(2), L(3), L(4)), L(2)), call("States.ArrayPartition", path("steps", "e"), L(2)),
        # StringSplit
        call("States.StringSplit", L("a^b"), L("^")), call("States.StringSplit", L("abc"), L("^a")), call("States.StringSplit", L("abcd"), L("a-c")),
        call("States.StringSplit", L("a]b"), L("]")), call("States.StringSplit", L("a\\b"), L("\\")), call("States.StringSplit", L("a,b c"), L(", ")),
        call("States.StringSplit", L("a.b+c"), L(".+")), call("States.StringSplit", L("a,,b"), L(",")), call("States.StringSplit", L("x"), L("")),
        call("States.StringSplit", L("1,2,3"), L(",")), call("States.StringSplit", L("a[b"), L("[")),
        # numbers, merge, codecs
        call("States.MathAdd", L(2147483647), L(1)), call("States.MathAdd", L(1.5), L(1)), call("States.MathAdd", L(True), L(1)), call("States.MathAdd", L(-3), L(3)),
        call("States.MathRandom", L(1), L(1)), call("States.MathRandom", L(5), L(1)), call("States.MathRandom", L(1), L(5), L("x")),
        call("States.MathRandom", L(1), L(5), path("steps", "o1")), call("States.MathRandom", L(1), L(2)), call("States.MathRandom", L(True), L(5)),
        call("States.JsonMerge", path("steps", "o1"), path("steps", "o2"), L(False)), call("States.JsonMerge", path("steps", "o1"), path("steps", "o2"), L(True)),
        call("States.JsonMerge", path("steps", "o1"), path("steps", "o2"), L(0)), call("States.JsonMerge", path("steps", "arr"), path("steps", "o2"), L(False)),
        call("States.JsonMerge", path("steps", "s"), path("steps", "o2"), L(False)), call("States.JsonMerge", path("steps", "o2"), path("steps", "o1"), L(False)),
        call("States.Base64Encode", L("a,b")), call("States.Base64Decode", L("YSxi")), call("States.Base64Decode", call("States.Base64Encode", L("x y"))),
        call("States.Base64Decode", L("!!!")), call("States.Base64Decode", L("gA==")), call("States.Base64Encode", L(1)),
        call("States.Hash", L("a"), L("MD5")), call("States.Hash", L("a"), L("SHA-256")), call("States.Hash", L("a"), L("md5")), call("States.Hash", L(1), L("MD5")),
        call("States.Hash", path("steps", "s"), L("SHA-1")), call("States.Hash", L("a,b"), L("SHA-512")), call("States.Hash", L(""), L("SHA-384")),
        call("States.StringToJson", L("{\"a\": 1}")), call("States.StringToJson", L("nope")), call("States.StringToJson", L(1)),
        call("States.StringToJson", call("States.JsonToString", path("steps", "o1"))), call("States.JsonToString", path("steps", "o1")),
        call("States.JsonToString", L("x")), call("States.JsonToString", path("steps", "arr")),
        call("States.UUID"), A(call("States.UUID"), call("States.UUID"), call("States.UUID")), call("States.UUID", L(1)),
        # paths as arguments
        A(path("steps", "nope")), A(path("ctx", "State", "Name")), A(path("ctx", "Nope")), A(path("root")), A(path("ctxroot")),
        call("States.ArrayLength", path("steps", "nope")), call("States.Nope", path("steps", "nope")),
        # unknown and non-intrinsic names (dispatch)
    ]
    for f in ["States.Nope", "States.States.Array", "States.array", "states.Array", "Array", "asl_intrinsic_Array", "asl_intrinsic_Default",
              "input", "context", "template", "evaluate_intrinsic_function", "evaluate", "clone", "func", "args", "arglist",
              "normalised_func", "intrinsic", "arg", "i", "print", "re.split", "json.dumps", "States.Default", "States.", "States"]:
        out.append(call(f, L(1)))
        out.append(call(f, L("States.UUID()")))
        out.append(call(f))
    # ill-formed call text
    for mal in ["noopen", "bare", "empty", "noclose", "trailing", "nocomma"]:
        out.append(call("States.Array", L(1), L(2), mal=mal))
        out.append(call("States.MathAdd", L(1), L(2), mal=mal))
        out.append(call("States.UUID", mal=mal))
        out.append(call("States.Format", L("x{}"), L("y"), mal=mal))
    return out


def template_tree(g, depth, rng, odd=0.0):
    """an object mixing literal and ".$" members, nested to `depth`"""
    lit_keys = ["k", "a b", "n", "lit", "$x", "x.y", "p$", ".$x", "m.$.z", "q"]
    dyn_keys = ["x", "y", "r", "a b", "v.w", "$", ""]
    scal = [0, 1, -2, 1.5, True, False, None, "", "s", "$.n", "$", "$$.State.Name", "States.UUID()", "States.Array(1)",
            "$.nope", "a.$ b", "'q'", "x,y"]
    n = rng.randrange(1, 5)
    t = {}
    used = set()
    for _ in range(n):
        x = rng.random()
        if x < 0.4:
            k = rng.choice(dyn_keys)
            if k in used:
                continue
            used.add(k)
            y = rng.random()
            if y < 0.35:
                e = copy.deepcopy(rng.choice(PATHS[rng.choice(TYPES)]))
            elif y < 0.42:
                e = copy.deepcopy(rng.choice(PATHS["missing"]))
            else:
                e = normalize(g.anycall(rng.randrange(0, 3)))
            t[k + ".$"] = Dyn(e)
        else:
            k = rng.choice(lit_keys)
            if k in used:
                continue
            used.add(k)
            y = rng.random()
            if depth > 0 and y < 0.3:
                t[k] = template_tree(g, depth - 1, rng, odd)
            elif depth > 0 and y < 0.5:
                t[k] = [(template_tree(g, depth - 1, rng, odd) if rng.random() < 0.4 else
                         ([rng.choice(scal), template_tree(g, depth - 1, rng, odd)] if rng.random() < 0.2 else rng.choice(scal)))
                        for _ in range(rng.randrange(0, 4))]
            else:
                t[k] = rng.choice(scal)
    if rng.random() < odd:           # the shapes of the known findings K9 / K10 and a ".$" member holding a structure
        z = rng.random()
        if z < 0.4:
            t["arr"] = [1, rng.choice(["$.n.$", "lit.$", "States.ArrayLength($.arr).$", ".$"])]
        elif z < 0.8:
            t["bad.$"] = rng.choice([5, None, True, 1.5])
        else:
            t["st.$"] = rng.choice([{"y": 1}, [1, 2]])
    return t


ODD_INPUTS = [5, "str", True, [1, 2], {"k.$": "$.a", "a": 7}, [1, "$.a.$"], {"a": {"b.$": "States.Array(1)"}}, {"k.$": 5, "a": 1},
              {"a": [1, {"c": "x.$"}]}, {}, [], {"a": 1}]


# ---- the check ------------------------------------------------------------------------------------
def build_cases(thorough, rng):
    """-> list of dicts(kind, tree (python template with Dyn), input, ctx, sep)"""
    g = Gen(rng)
    inputs = make_inputs(rng)
    cases = []

    def expr_case(e, inp=None, kind="expr"):
        cases.append({"kind": kind, "tree": {"x.$": Dyn(normalize(e))}, "input": inp if inp is not None else rng.choice(inputs),
                      "ctx": CTX, "sep": rng.choice([", ", ",", ",  "])})

    for e in curated_exprs():
        expr_case(e, inputs[0])
    for e in exhaustive_exprs(thorough, rng):
        expr_case(e, inputs[0])
    n_rand = 66000 if thorough else 2300
    for _ in range(n_rand):
        expr_case(g.anycall(rng.choice([0, 1, 1, 2, 2, 3])))
    # ".$": "$" and other paths at the top of a template, on ordinary and on odd inputs (finding K1)
    for inp in ODD_INPUTS + inputs[:2]:
        for p in (path("root"), path("steps", "a"), path("ctxroot"), path("ctx", "State", "Name")):
            expr_case(copy.deepcopy(p), inp, kind="template")
        expr_case(call("States.Array", path("root")), inp, kind="template")
    n_tpl = 24000 if thorough else 1950
    for j in range(n_tpl):
        tree = template_tree(g, rng.randrange(0, 5 if thorough else 4), rng, odd=0.04)
        if not tree:
            tree = {"k": 1}
        inp = rng.choice(ODD_INPUTS) if rng.random() < 0.05 else rng.choice(inputs)
        cases.append({"kind": "template", "tree": tree, "input": inp, "ctx": CTX, "sep": rng.choice([", ", ","])})
    return cases


def is_nondet(tla_tpl):
    return any(n["k"] == "call" and n["f"] in NONDET for e in tla_exprs(tla_tpl) for n in nodes(e))


def uses_ctx(tla_tpl):
    return any(n["k"] == "path" and n["p"]["kind"] in ("ctx", "ctxroot") for e in tla_exprs(tla_tpl) for n in nodes(e))


def make_obs(oid, kind, tla_tpl, inp, ctx, out, val, same, seedsame, engine):
    leak = bool(out["kind"] == "value" and LEAK.search(json.dumps(val)))
    return {"id": oid, "kind": kind, "engine": engine, "tpl": tla_tpl, "input": canon_cached(inp)[2], "ctx": canon_cached(ctx)[2],
            "facts": facts_for(tla_tpl, inp, ctx, val), "out": out, "same": same, "seedsame": seedsame, "leak": leak}


def judge_and_report(v, obs, info, workdir):
    import judge
    try:
        with ThreadPoolExecutor(max_workers=1) as ex:          # the laws are model-checked while the judge runs
            laws = ex.submit(judge.run_laws, "Template")
            fails, stats = judge.run_judge("JudgeC13", obs, workdir, parts=PARTS if len(obs) < 20000 else 16)
            ok, lawstats, tail = laws.result()
        if not ok:
            v.machinery_failure("a law of Template.tla fails in TLC: " + tail[-800:])
        stats["states"] += lawstats["law_states"]
        stats["transitions"] += lawstats["law_states"]
    except Exception as ex:
        v.machinery_failure(str(ex)[:1500])
        return None
    cl = collections.Counter()
    for f in fails:
        cl[(f["clause"], f["kf"])] += 1
        m = info[f["id"]]
        if f["kf"]:
            v.known_finding(f["kf"])
        else:
            o = m["obs"]
            v.violation({"property": "C13", "clause": f["clause"], "template": m["real"], "input": m["input"], "ctx": m["ctx"],
                         "engine": o["engine"], "kind": o["kind"], "tla_tpl": o["tpl"], "observed": m["shown"]},
                        "%s: %s%s on input %s -> %s" % (f["clause"], "engine Pass Parameters=" if o["engine"] else "template ",
                                                       json.dumps(m["real"])[:140], json.dumps(m["input"])[:60], m["shown"][:100]))
    stats["failed_clauses"] = {"%s|%s" % k: c for k, c in sorted(cl.items())}
    stats.update(lawstats)
    return stats


def shown(out, val):
    return json.dumps(val)[:300] if out["kind"] == "value" else out.get("cls", out["kind"])


def run(tier_name=None, replay=None):
    t = get_tier(tier_name)
    thorough = t == "thorough"
    v = Verdict("C13", t)
    from vsim import world as W
    import asl_workflow_engine.state_engine_paths as sp
    warnings.simplefilter("ignore", FutureWarning)      # re.split on the unescaped separator class (finding KC13-8)
    fake_uuid = sp.uuid
    sp.uuid = real_uuid                       # States.UUID is judged by its shape: no deterministic ids here
    try:
        if replay:
            return run_replay(v, sp, replay)
        return run_check(v, sp, t, thorough)
    finally:
        sp.uuid = fake_uuid


def run_replay(v, sp, replay):
    rp = json.load(open(replay))
    work = os.path.join(RUN, "C13-replay")
    tla_tpl, real, inp, ctx = rp["tla_tpl"], rp["template"], rp["input"], rp["ctx"]
    if rp.get("engine"):
        out, val = run_engine(real, inp)
        same, seedsame = True, True
    else:
        out, val, same = run_real(sp, real, inp, ctx)
        seedsame = True
        if not is_nondet(tla_tpl):
            other = rerun_other_seed([{"id": 1, "tpl": real, "input": inp, "ctx": ctx}], work)
            seedsame = other[1] == key_of(out, val)
    o = make_obs(1, rp.get("kind", "template"), tla_tpl, inp, ctx, out, val, same, seedsame, bool(rp.get("engine")))
    info = {1: {"obs": o, "real": real, "input": inp, "ctx": ctx, "shown": shown(out, val)}}
    print("   replayed: %s on %s -> %s" % (json.dumps(real)[:200], json.dumps(inp)[:80], shown(out, val)[:200]))
    stats = judge_and_report(v, [o], info, work)
    if stats:
        v.coverage = {"states": stats["states"], "transitions": max(stats["transitions"], 1), "traces_validated_against_impl": 1,
                      "samples": [{"template": real, "observed": shown(out, val)}], "failed_clauses": stats["failed_clauses"]}
    return v.finish()


def run_check(v, sp, t, thorough):
    rng = random.Random(get_seed() * 131 + 13)
    phases, tick = {}, [time.time()]

    def phase(name):
        phases[name] = round(time.time() - tick[0], 2)
        tick[0] = time.time()
    work = os.path.join(RUN, "C13-" + t)
    os.makedirs(work, exist_ok=True)
    cases = build_cases(thorough, rng)
    obs, info, seedcases = [], {}, []
    raw, prepared = [], []
    for oid, c in enumerate(cases, 1):
        real = to_real(c["tree"], c["sep"])
        tla_tpl = to_tla(c["tree"])
        nd = is_nondet(tla_tpl)
        prepared.append((oid, c, real, tla_tpl, nd))
        if not nd:
            seedcases.append({"id": oid, "tpl": real, "input": c["input"], "ctx": c["ctx"]})
    try:
        child = start_other_seed(seedcases, work)          # runs while this process evaluates the same cases
    except Exception as ex:
        v.machinery_failure("hash-seed re-run: " + str(ex)[:800])
        return v.finish()
    for oid, c, real, tla_tpl, nd in prepared:
        out, val, same = run_real(sp, real, c["input"], c["ctx"])
        raw.append((oid, c, real, tla_tpl, out, val, same, nd))
    phase("generate_and_evaluate")
    try:
        other = finish_other_seed(child)
    except Exception as ex:
        v.machinery_failure("hash-seed re-run: " + str(ex)[:800])
        return v.finish()
    for oid, c, real, tla_tpl, out, val, same, nd in raw:
        seedsame = nd or other.get(oid) == key_of(out, val)
        o = make_obs(oid, c["kind"], tla_tpl, c["input"], c["ctx"], out, val, same, seedsame, False)
        obs.append(o)
        info[oid] = {"obs": o, "real": real, "input": c["input"], "ctx": c["ctx"], "shown": shown(out, val)}
    phase("hash_seed_rerun")
    # through a single Pass state of the real engine: ill-formed calls must give States.IntrinsicFailure
    n_eng = 1500 if thorough else 260
    pool = [r for r in raw if not uses_ctx(r[3]) and not isinstance(r[1]["input"], (str, int, bool)) and r[1]["input"] is not None]
    illformed = [r for r in pool if r[4]["kind"] == "exc"]
    erng = random.Random(get_seed() * 17 + 3)
    chosen = erng.sample(illformed, min(len(illformed), n_eng // 2)) + erng.sample(pool, min(len(pool), n_eng - n_eng // 2))
    oid = len(raw)
    n_engine = 0
    for (_o, c, real, tla_tpl, _out, _val, _same, nd) in chosen:
        oid += 1
        try:
            out, val = run_engine(real, c["input"])
        except Exception as ex:
            v.machinery_failure("engine run failed: %s: %s" % (type(ex).__name__, str(ex)[:300]))
            break
        n_engine += 1
        o = make_obs(oid, c["kind"], tla_tpl, c["input"], NO_CTX, out, val, True, True, True)
        obs.append(o)
        info[oid] = {"obs": o, "real": real, "input": c["input"], "ctx": NO_CTX, "shown": shown(out, val)}
    phase("engine_runs")
    stats = judge_and_report(v, obs, info, work)
    if stats is None:
        return v.finish()
    phase("tlc_judge_and_laws")
    ru = resource.getrusage(resource.RUSAGE_CHILDREN)
    n_expr = sum(1 for c in cases if c["kind"] == "expr")
    fn_count = collections.Counter()
    depth_count = collections.Counter()
    outcome_count = collections.Counter()
    for (_o, c, real, tla_tpl, out, val, same, nd) in raw:
        for e in tla_exprs(tla_tpl):
            for nnode in nodes(e):
                if nnode["k"] == "call":
                    fn_count[nnode["f"] if nnode["f"] in FUNCS else "(other name)"] += 1
            depth_count[call_depth(e)] += 1
        outcome_count[out["kind"] if out["kind"] != "exc" else "exc:" + out["cls"]] += 1
    distinct = len({(canon(m["real"]), canon(m["input"]), m["obs"]["engine"]) for m in info.values()})
    pick = [1, 2, len(raw) // 3, len(raw) // 2, len(raw) - 2, len(raw)]
    v.coverage = {
        "states": stats["states"], "transitions": stats["transitions"],
        "traces_validated_against_impl": len(obs), "evaluations": len(obs), "distinct_nontrivial": distinct,
        "rule": "an observation counts when its (rendered template, input, direct/engine) triple is distinct; expressions are generated as abstract "
                "syntax (every function x arity 0..3 x every tuple of JSON types exhaustively%s, plus random well-typed and ill-typed calls nested "
                "to depth 3 over strings from the alphabet , ' \\ ( ) { } [ ] ^ space a b - 1), rendered to text and evaluated by the real "
                "evaluate_payload_template; templates mix literal and '.$' members to depth %d" % (
                    "" if thorough else " (arity 3 sampled for functions of other arities)", 4 if thorough else 3),
        "expressions": n_expr, "templates": len(cases) - n_expr, "engine_runs": n_engine,
        "hash_seed_reruns": len(seedcases), "hash_seeds": [os.environ.get("PYTHONHASHSEED", "random"), OTHER_SEED],
        "calls_per_function": dict(sorted(fn_count.items())), "expressions_per_nesting_depth": dict(sorted(depth_count.items())),
        "observed_outcomes": dict(sorted(outcome_count.items())),
        "samples": [{"template": info[j]["real"], "observed": info[j]["shown"]} for j in pick if j in info],
        "failed_clauses": stats["failed_clauses"], "exhaustive": False, "tlc_cpu_s": stats["tlc_cpu_s"], "tlc_wall_s": stats["tlc_wall_s"],
        "phase_wall_s": phases, "cpu_s": {"python": round(time.process_time(), 1), "children_user_sys": round(ru.ru_utime + ru.ru_stime, 1)},
        "laws_model_checked": "MC_Template: partition/flatten, ArrayRange length and inclusive end, JsonMerge shallow laws, ArrayUnique "
                              "idempotent/order/first occurrences, StringSplit-join identity, Format escapes and no index access, codec round "
                              "trips and known answers, template walk frame law over %d cases" % stats["law_states"]}
    v.assumptions = [
        "States.Format renders strings as they are, integers in decimal and null/true/false as in JSON; a brace that is neither escaped nor part of '{}', "
        "a backslash before another character and surplus arguments may fail or be taken literally (nothing else)",
        "a string literal denotes its characters with \\' and \\\\ unescaped; the first argument of States.Format is interpreted by Format itself",
        "left open (any value or a specified failure, never an arbitrary exception): ArrayContains/ArrayUnique with object or array items, MathAdd "
        "beyond 32 bit or with fractions, fractions as indexes, deep JsonMerge, empty MathRandom ranges, non-integer seeds, more than 1000 range items, "
        "empty StringSplit separators, whether StringSplit keeps empty pieces, Base64Decode of text that is not a known encoding, '.$' members whose "
        "value is an object or array, members colliding after renaming",
        "Base64, Hash and JSON text are uninterpreted: judged by round-trip laws and by known answers computed by the harness with the standard library",
        "a descending ArrayRange is either refused or inclusive of its end"]
    return v.finish()


def call_depth(e):
    if e["k"] != "call":
        return 0
    return max([1 + call_depth(a) for a in e["args"] if a["k"] == "call"] or [0])


if __name__ == "__main__":
    if len(sys.argv) >= 3 and sys.argv[1] == "--child":
        sys.exit(child_main(sys.argv[2]))
    sys.exit(run(*(sys.argv[1:2])))
