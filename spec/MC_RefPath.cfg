INIT Init
NEXT Next
INVARIANT LawPutGet
INVARIANT LawFrame
INVARIANT LawRootReplaces
INVARIANT LawPlaceabilityAgrees
INVARIANT LawSelectOfMissingIsMissing
CHECK_DEADLOCK FALSE
