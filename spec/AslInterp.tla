------------------------------- MODULE AslInterp -------------------------------
(***************************************************************************)
(* Big-step meaning of a state machine (C01): what the States Language     *)
(* prescribes for a definition, an input and a fixed behaviour of the      *)
(* tasks.  Everything is a tagged JSON value (JsonValue): the definition   *)
(* itself, the data, the context object.                                   *)
(*                                                                         *)
(* Each state applies InputPath, Parameters, its work, ResultSelector,     *)
(* ResultPath and OutputPath in that order, then follows Next/End.         *)
(* Choice takes the first matching rule else Default; Fail reports its     *)
(* Error; Parallel yields the branch outputs in branch order, Map the      *)
(* iteration outputs in item order; errors go through Retry/Catch          *)
(* (ErrorPolicy); SUCCEEDED iff a Succeed/End state is reached, FAILED iff *)
(* a Fail state or an unhandled error.                                     *)
(*                                                                         *)
(* Reference paths arrive pre-parsed: the harness replaces every path text *)
(* in the definition by an object {"$path": kind, "steps": [...]} (kinds:   *)
(* root, null, steps, ctx, ctxroot), so that this module needs no string   *)
(* parsing; payload templates may contain such path objects under keys     *)
(* ending in ".$".  Task behaviour: `tasks` maps a function name to        *)
(* {"k":"echo"} | {"k":"ok","v":value} | {"k":"err","e":name}.             *)
(*                                                                         *)
(* Result of Run: [status, out, err, open, trail] -- `open` marks a run in *)
(* which the statement leaves the outcome undetermined (several branches   *)
(* fail; a construct outside the modelled subset); `trail` collects facts  *)
(* about the path taken that known findings are keyed on.                  *)
(***************************************************************************)
EXTENDS RefPath, ErrorPolicy

S(o, key) == Member(o, key)
Str(o, key) == IF HasKey(o, key) /\ IsStr(S(o, key)) THEN S(o, key).s ELSE ""
Truthy(o, key) == HasKey(o, key) /\ S(o, key) = JBool(TRUE)

(* ---- paths as prepared by the harness --------------------------------------- *)
IsPathObj(v) == IsObj(v) /\ HasKey(v, "$path")
RECURSIVE StepsOf(_)
StepsOf(a) == [i \in 1..Len(a) |-> IF HasKey(a[i], "key") THEN KeyStep(S(a[i], "key").s) ELSE IdxStep(S(a[i], "idx").n)]
PathOf(v) == [kind |-> S(v, "$path").s, steps |-> StepsOf(S(v, "steps").a)]
(* the path of a state field, with the default when the field is absent *)
FieldPath(st, f, default) == IF HasKey(st, f) THEN PathOf(S(st, f)) ELSE [kind |-> default, steps |-> <<>>]

(* ---- results ------------------------------------------------------------------ *)
Ok(v) == [ok |-> TRUE, v |-> v, e |-> "", open |-> FALSE]
Err(e) == [ok |-> FALSE, v |-> JNull, e |-> e, open |-> FALSE]
Open == [ok |-> FALSE, v |-> JNull, e |-> "", open |-> TRUE]

SelectR(doc, ctx, p) ==
    LET r == PathValue(doc, ctx, p) IN IF IsMissing(r) THEN Err("States.Runtime") ELSE Ok(r)

(* ---- payload templates (paths only; intrinsic functions are C13's) ---------------- *)
EndsWithDollar(k) == FALSE   \* keys are prepared by the harness: evaluated members arrive as {"$eval": path, "name": k}
RECURSIVE Template(_, _, _)
(* template members: a literal value is copied verbatim (at any depth); {"$eval": pathobj} is replaced
   by the selected value.  Returns a result (the first failing selection fails the template). *)
Template(t, input, ctx) ==
    IF IsObj(t) /\ HasKey(t, "$eval")
    THEN SelectR(input, ctx, PathOf(S(t, "$eval")))
    ELSE IF IsObj(t)
    THEN LET rs == [i \in 1..Len(t.v) |-> Template(t.v[i], input, ctx)]
             bad == {i \in 1..Len(rs) : ~rs[i].ok}
         IN IF bad # {} THEN rs[CHOOSE i \in bad : \A j \in bad : i <= j]
            ELSE Ok(JObj(t.k, [i \in 1..Len(rs) |-> rs[i].v]))
    ELSE IF IsArr(t)
    THEN LET rs == [i \in 1..Len(t.a) |-> Template(t.a[i], input, ctx)]
             bad == {i \in 1..Len(rs) : ~rs[i].ok}
         IN IF bad # {} THEN rs[CHOOSE i \in bad : \A j \in bad : i <= j]
            ELSE Ok(JArr([i \in 1..Len(rs) |-> rs[i].v]))
    ELSE Ok(t)

ApplyTemplate(st, f, input, ctx) == IF HasKey(st, f) THEN Template(S(st, f), input, ctx) ELSE Ok(input)

(* ---- Choice (the operators the generated programs use; C14 covers all of them) ---- *)
NumLess(a, b) == a.n * b.d < b.n * a.d
RECURSIVE Rule(_, _, _)
(* "match" | "nomatch" | "open" *)
Rule(r, input, ctx) ==
    IF HasKey(r, "And") THEN (IF \A i \in 1..Len(S(r, "And").a) : Rule(S(r, "And").a[i], input, ctx) = "match" THEN "match"
                              ELSE IF \E i \in 1..Len(S(r, "And").a) : Rule(S(r, "And").a[i], input, ctx) = "open" THEN "open" ELSE "nomatch")
    ELSE IF HasKey(r, "Or") THEN (IF \E i \in 1..Len(S(r, "Or").a) : Rule(S(r, "Or").a[i], input, ctx) = "match" THEN "match"
                                  ELSE IF \E i \in 1..Len(S(r, "Or").a) : Rule(S(r, "Or").a[i], input, ctx) = "open" THEN "open" ELSE "nomatch")
    ELSE IF HasKey(r, "Not") THEN (LET x == Rule(S(r, "Not"), input, ctx) IN IF x = "match" THEN "nomatch" ELSE IF x = "nomatch" THEN "match" ELSE "open")
    ELSE LET var == PathValue(input, ctx, PathOf(S(r, "Variable")))
             present == ~IsMissing(var)
         IN IF HasKey(r, "IsPresent") THEN (IF present = S(r, "IsPresent").b THEN "match" ELSE "nomatch")
            ELSE IF ~present THEN "nomatch"
            ELSE IF HasKey(r, "NumericEquals") THEN (IF var.t = "num" /\ var.n * S(r, "NumericEquals").d = S(r, "NumericEquals").n * var.d THEN "match" ELSE "nomatch")
            ELSE IF HasKey(r, "NumericLessThan") THEN (IF var.t = "num" /\ NumLess(var, S(r, "NumericLessThan")) THEN "match" ELSE "nomatch")
            ELSE IF HasKey(r, "NumericGreaterThanEquals") THEN (IF var.t = "num" /\ ~NumLess(var, S(r, "NumericGreaterThanEquals")) THEN "match" ELSE "nomatch")
            ELSE IF HasKey(r, "StringEquals") THEN (IF var = S(r, "StringEquals") THEN "match" ELSE "nomatch")
            ELSE IF HasKey(r, "BooleanEquals") THEN (IF var = S(r, "BooleanEquals") THEN "match" ELSE "nomatch")
            ELSE IF HasKey(r, "IsNull") THEN (IF IsNull(var) = S(r, "IsNull").b THEN "match" ELSE "nomatch")
            ELSE IF HasKey(r, "IsString") THEN (IF IsStr(var) = S(r, "IsString").b THEN "match" ELSE "nomatch")
            ELSE IF HasKey(r, "IsNumeric") THEN (IF (var.t = "num") = S(r, "IsNumeric").b THEN "match" ELSE "nomatch")
            (* a variable-to-variable comparison: the second path is read from the same (effective) input as Variable; *)
            (* what happens when it selects nothing is left open                                                      *)
            ELSE IF HasKey(r, "NumericEqualsPath")
                 THEN (LET w == PathValue(input, ctx, PathOf(S(r, "NumericEqualsPath")))
                       IN IF IsMissing(w) THEN "open"
                          ELSE IF var.t = "num" /\ w.t = "num" /\ var.n * w.d = w.n * var.d THEN "match" ELSE "nomatch")
            ELSE "open"

RECURSIVE FirstMatch(_, _, _, _)
FirstMatch(rules, i, input, ctx) ==
    IF i > Len(rules) THEN [k |-> "none", next |-> ""]
    ELSE LET x == Rule(rules[i], input, ctx) IN
         IF x = "match" THEN [k |-> "next", next |-> Str(rules[i], "Next")]
         ELSE IF x = "open" THEN [k |-> "open", next |-> ""]
         ELSE FirstMatch(rules, i + 1, input, ctx)

(* ---- error handling --------------------------------------------------------------- *)
ErrSet(c) == {S(c, "ErrorEquals").a[i].s : i \in 1..Len(S(c, "ErrorEquals").a)}
CatcherList(st) == IF HasKey(st, "Catch") THEN [i \in 1..Len(S(st, "Catch").a) |-> [errs |-> ErrSet(S(st, "Catch").a[i]), next |-> Str(S(st, "Catch").a[i], "Next")]] ELSE <<>>
ErrorOutput(e) == JObj(<<"Error", "Cause">>, <<JStr(e), JStr("<cause>")>>)
(* would some retrier of st re-run the state on error e?  (the interpreter itself does not re-run: the task
   behaviours are constant, so a retry changes nothing in what the States Language prescribes -- but where the
   retry happens matters for the known protocol findings, see Raise) *)
WouldRetry(st, e) ==
    /\ HasKey(st, "Retry") /\ e \notin Unrecoverable
    /\ \E i \in 1..Len(S(st, "Retry").a) :
          LET r == S(st, "Retry").a[i] IN
          /\ (e \in ErrSet(r) \/ ErrSet(r) = {"States.ALL"} \/ "States.TaskFailed" \in ErrSet(r))
          /\ (~HasKey(r, "MaxAttempts") \/ S(r, "MaxAttempts").n > 0)

(* ---- the interpreter ------------------------------------------------------------------ *)
StateOf(states, name) == S(states, name)
FuelStart == 60

RECURSIVE RunFrom(_, _, _, _, _, _), RunState(_, _, _, _, _, _)

(* run the machine `m` (an object with StartAt/States) from state `name` on `data`.
   tr: the trail so far.  Returns [status, out, err, open, trail] *)
Done(status, out, err, open, tr) == [status |-> status, out |-> out, err |-> err, open |-> open, trail |-> tr]

Mark(tr, v) ==
    (* facts known findings are keyed on: a null value handed on (F5), an object with a truthy Error member (F2) *)
    tr \cup (IF IsNull(v) THEN {"null-value"} ELSE {})
       \cup (IF IsObj(v) /\ HasKey(v, "Error") /\ S(v, "Error") \notin {JNull, JBool(FALSE), JStr(""), JNum(0)} THEN {"error-member"} ELSE {})

RunFrom(m, name, data, ctx, tasks, fuelTr) ==
    LET fuel == fuelTr[1]  tr == fuelTr[2] IN
    IF fuel = 0 THEN Done("", JNull, "", TRUE, tr)
    ELSE IF ~HasKey(S(m, "States"), name) THEN Done("FAILED", JNull, "States.Runtime", FALSE, tr)
    ELSE RunState(m, name, data, ctx, tasks, <<fuel - 1, Mark(tr, data)>>)

(* after a state's work: ResultPath on the raw input, OutputPath, then Next/End *)
Finish(m, st, raw, result, ctx, tasks, fuelTr, withResultPath) ==
    LET placed == IF withResultPath THEN ResultValue(raw, FieldPath(st, "ResultPath", "root"), result) ELSE result
        (* tm: what the known findings are keyed on, seen in the result and in the value OutputPath is applied to *)
        tm == Mark(IF IsFail(placed) THEN {} ELSE Mark({}, placed), result)
    IN IF IsFail(placed) THEN [k |-> "err", e |-> "States.ResultPathMatchFailure", v |-> JNull, tm |-> tm]
       ELSE LET out == SelectR(placed, ctx, FieldPath(st, "OutputPath", "root"))
            IN IF ~out.ok THEN [k |-> "err", e |-> out.e, v |-> JNull, tm |-> tm] ELSE [k |-> "ok", e |-> "", v |-> out.v, tm |-> tm]

Continue(m, st, v, ctx, tasks, fuelTr) ==
    IF Truthy(st, "End") THEN Done("SUCCEEDED", v, "", FALSE, Mark(fuelTr[2], v))
    ELSE IF ~HasKey(st, "Next") THEN Done("FAILED", JNull, "States.Runtime", FALSE, fuelTr[2])
    ELSE RunFrom(m, Str(st, "Next"), v, ctx, tasks, fuelTr)

(* an error raised by state `st` (whose raw input is `raw`): Catch (Task/Parallel/Map) or fail *)
Raise(m, st, raw, e, ctx, tasks, fuelTr) ==
    LET t == Str(st, "Type")
        c == IF t \in {"Task", "Parallel", "Map"} THEN CatchDecision(CatcherList(st), e) ELSE [act |-> "fail", idx |-> 0]
        fan == t \in {"Parallel", "Map"}
        (* facts the known protocol findings are keyed on: a retry taken by a state ("retried"; inside a fan-out it
           becomes "retry-in-fanout", see Parallel/Map), a retried fan-out, a fan-out failure taken by its own Catch *)
        tr0 == fuelTr[2] \cup (IF t \in {"Task", "Parallel", "Map"} /\ WouldRetry(st, e) THEN (IF fan THEN {"retried", "retry-in-fanout"} ELSE {"retried"}) ELSE {})
    IN IF c.act = "open" THEN Done("", JNull, "", TRUE, tr0)
       ELSE IF c.act = "fail" THEN Done("FAILED", JNull, e, FALSE, tr0)
       ELSE LET cat == S(st, "Catch").a[c.idx]
                placed == ResultValue(raw, FieldPath(cat, "ResultPath", "root"), ErrorOutput(e))
                tr1 == tr0 \cup {"caught"} \cup (IF fan THEN {"fanout-caught"} ELSE {})
            IN IF IsFail(placed) THEN Done("FAILED", JNull, "States.ResultPathMatchFailure", FALSE, tr1)
               ELSE RunFrom(m, Str(cat, "Next"), placed, ctx, tasks, <<fuelTr[1], tr1>>)

TaskResult(tasks, fn, payload) ==
    IF ~HasKey(tasks, fn) THEN Ok(JObj(<<"fn", "in">>, <<JStr(fn), payload>>))
    ELSE LET b == S(tasks, fn) IN
         IF S(b, "k").s = "echo" THEN Ok(JObj(<<"fn", "in">>, <<JStr(fn), payload>>))
         ELSE IF S(b, "k").s = "ok" THEN Ok(S(b, "v"))
         ELSE Err(S(b, "e").s)

RunState(m, name, raw, ctx, tasks, fuelTr) ==
    LET st == StateOf(S(m, "States"), name)
        t == Str(st, "Type")
        tr == fuelTr[2]
    IN
    IF t = "Fail" THEN Done("FAILED", JNull, IF HasKey(st, "Error") THEN Str(st, "Error") ELSE "Unspecified", FALSE, tr)
    ELSE
    LET inp == SelectR(raw, ctx, FieldPath(st, "InputPath", "root")) IN
    IF ~inp.ok THEN Raise(m, st, raw, inp.e, ctx, tasks, fuelTr)
    ELSE
    LET trI == Mark(tr, inp.v)
        ft == <<fuelTr[1], Mark(tr, inp.v)>> IN
    CASE t = "Succeed" ->
           LET out == SelectR(inp.v, ctx, FieldPath(st, "OutputPath", "root"))
           IN IF out.ok THEN Done("SUCCEEDED", out.v, "", FALSE, Mark(trI, out.v)) ELSE Done("FAILED", JNull, out.e, FALSE, trI)
      [] t = "Pass" ->
           LET par == ApplyTemplate(st, "Parameters", inp.v, ctx) IN
           IF ~par.ok THEN Raise(m, st, raw, par.e, ctx, tasks, ft)
           ELSE LET res == IF HasKey(st, "Result") THEN S(st, "Result") ELSE par.v
                    f == Finish(m, st, raw, res, ctx, tasks, ft, TRUE)
                IN IF f.k = "err" THEN Raise(m, st, raw, f.e, ctx, tasks, <<ft[1], ft[2] \cup f.tm>>) ELSE Continue(m, st, f.v, ctx, tasks, <<ft[1], Mark(trI, res)>>)
      [] t = "Wait" ->
           LET f == Finish(m, st, raw, inp.v, ctx, tasks, ft, FALSE)
           IN IF f.k = "err" THEN Raise(m, st, raw, f.e, ctx, tasks, <<ft[1], ft[2] \cup f.tm>>) ELSE Continue(m, st, f.v, ctx, tasks, ft)
      [] t = "Choice" ->
           LET pick == FirstMatch(S(st, "Choices").a, 1, inp.v, ctx)
               out == SelectR(inp.v, ctx, FieldPath(st, "OutputPath", "root"))
           IN IF pick.k = "open" THEN Done("", JNull, "", TRUE, trI)
              ELSE IF ~out.ok THEN Done("FAILED", JNull, out.e, FALSE, trI)
              ELSE IF pick.k = "next" THEN RunFrom(m, pick.next, out.v, ctx, tasks, ft)
              ELSE IF HasKey(st, "Default") THEN RunFrom(m, Str(st, "Default"), out.v, ctx, tasks, ft)
              ELSE Done("FAILED", JNull, "States.NoChoiceMatched", FALSE, trI)
      [] t = "Task" ->
           LET par == ApplyTemplate(st, "Parameters", inp.v, ctx) IN
           IF ~par.ok THEN Raise(m, st, raw, par.e, ctx, tasks, ft)
           ELSE LET r == TaskResult(tasks, Str(st, "$fn"), par.v) IN
                IF ~r.ok THEN Raise(m, st, raw, r.e, ctx, tasks, ft)
                ELSE LET sel == ApplyTemplate(st, "ResultSelector", r.v, ctx) IN
                     IF ~sel.ok THEN Raise(m, st, raw, sel.e, ctx, tasks, ft)
                     ELSE LET f == Finish(m, st, raw, sel.v, ctx, tasks, ft, TRUE)
                          IN IF f.k = "err" THEN Raise(m, st, raw, f.e, ctx, tasks, <<ft[1], ft[2] \cup f.tm>>)
                             ELSE Continue(m, st, f.v, ctx, tasks, <<ft[1], Mark(Mark(trI, r.v), sel.v)>>)
      [] t = "Parallel" ->
           LET par == ApplyTemplate(st, "Parameters", inp.v, ctx) IN
           IF ~par.ok THEN Raise(m, st, raw, par.e, ctx, tasks, ft)
           ELSE LET bs == S(st, "Branches").a
                    rs == [i \in 1..Len(bs) |-> RunFrom(bs[i], Str(bs[i], "StartAt"), par.v, ctx, tasks, <<ft[1], {}>>)]
                    failed == {i \in 1..Len(rs) : rs[i].status = "FAILED"}
                    tr2 == LET u == UNION {rs[i].trail : i \in 1..Len(rs)} IN trI \cup u \cup (IF "retried" \in u THEN {"retry-in-fanout"} ELSE {})
                IN IF \E i \in 1..Len(rs) : rs[i].open THEN Done("", JNull, "", TRUE, tr2)
                   ELSE IF Cardinality(failed) > 1 THEN Done("", JNull, "", TRUE, tr2)     \* which branch fails first is schedule-dependent
                   (* a fan-out that fails while it has other branches: territory of F18 (their deferred handlers still run) *)
                   ELSE IF failed # {} THEN Raise(m, st, raw, rs[CHOOSE i \in failed : TRUE].err, ctx, tasks,
                                                 <<ft[1], tr2 \cup (IF Len(rs) > 1 THEN {"fanout-failed-with-siblings"} ELSE {})>>)
                   ELSE LET res == JArr([i \in 1..Len(rs) |-> rs[i].out])
                            sel == ApplyTemplate(st, "ResultSelector", res, ctx)
                        IN IF ~sel.ok THEN Raise(m, st, raw, sel.e, ctx, tasks, <<ft[1], tr2>>)
                           ELSE LET f == Finish(m, st, raw, sel.v, ctx, tasks, ft, TRUE)
                                IN IF f.k = "err" THEN Raise(m, st, raw, f.e, ctx, tasks, <<ft[1], tr2 \cup f.tm>>)
                                   ELSE Continue(m, st, f.v, ctx, tasks, <<ft[1], tr2 \cup {"fanout"}>>)
      [] t = "Map" ->
           LET itemsR == SelectR(inp.v, ctx, FieldPath(st, "ItemsPath", "root")) IN
           IF ~itemsR.ok THEN Raise(m, st, raw, itemsR.e, ctx, tasks, ft)
           ELSE IF ~IsArr(itemsR.v) THEN Done("", JNull, "", TRUE, trI)      \* a non-array ItemsPath target: left open
           ELSE LET items == itemsR.v.a
                    proc == S(st, "ItemProcessor")
                    ctxFor(i) == SetMember(ctx, "Map", JObj(<<"Item">>, <<JObj(<<"Index", "Value">>, <<JNum(i - 1), items[i]>>)>>))
                    inFor(i) == IF HasKey(st, "ItemSelector") THEN Template(S(st, "ItemSelector"), inp.v, ctxFor(i)) ELSE Ok(items[i])
                    badSel == {i \in 1..Len(items) : ~inFor(i).ok}
                IN IF badSel # {} THEN Raise(m, st, raw, inFor(CHOOSE i \in badSel : \A j \in badSel : i <= j).e, ctx, tasks, ft)
                   ELSE LET rs == [i \in 1..Len(items) |-> RunFrom(proc, Str(proc, "StartAt"), inFor(i).v, ctx, tasks, <<ft[1], {}>>)]
                            failed == {i \in 1..Len(rs) : rs[i].status = "FAILED"}
                            tr2 == LET u == UNION {rs[i].trail : i \in 1..Len(rs)} IN trI \cup u \cup (IF "retried" \in u THEN {"retry-in-fanout"} ELSE {})
                        IN IF \E i \in 1..Len(rs) : rs[i].open THEN Done("", JNull, "", TRUE, tr2)
                           ELSE IF Cardinality({rs[i].err : i \in failed}) > 1 THEN Done("", JNull, "", TRUE, tr2)
                           ELSE IF failed # {} THEN Raise(m, st, raw, rs[CHOOSE i \in failed : TRUE].err, ctx, tasks,
                                                         <<ft[1], tr2 \cup (IF Len(rs) > 1 THEN {"fanout-failed-with-siblings"} ELSE {})>>)
                           ELSE LET res == JArr([i \in 1..Len(rs) |-> rs[i].out])
                                    sel == ApplyTemplate(st, "ResultSelector", res, ctx)
                                IN IF ~sel.ok THEN Raise(m, st, raw, sel.e, ctx, tasks, <<ft[1], tr2>>)
                                   ELSE LET f == Finish(m, st, raw, sel.v, ctx, tasks, ft, TRUE)
                                        IN IF f.k = "err" THEN Raise(m, st, raw, f.e, ctx, tasks, <<ft[1], tr2 \cup f.tm>>)
                                           ELSE Continue(m, st, f.v, ctx, tasks, <<ft[1], tr2 \cup {"fanout"}>>)
      [] OTHER -> Done("", JNull, "", TRUE, trI)

Run(def, input, ctx, tasks) == RunFrom(def, Str(def, "StartAt"), input, ctx, tasks, <<FuelStart, {}>>)
=============================================================================
