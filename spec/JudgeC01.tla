------------------------------- MODULE JudgeC01 -------------------------------
(***************************************************************************)
(* Judge for C01: the terminal status and output (or error name) of a real *)
(* execution against AslInterp!Run.                                        *)
(*  obs: def (prepared definition, tagged), input, ctx, tasks (tagged),    *)
(*       status, output (tagged; Cause texts normalised), error            *)
(***************************************************************************)
EXTENDS AslInterp, Json, IOUtils

Obs == ndJsonDeserialize(IOEnv.OBS_FILE)
N == Len(Obs)
VARIABLES i, viol
vars == <<i, viol>>

Judge(o, want) ==
    IF want.open THEN "ok"
    ELSE IF o.status # want.status THEN "RunOutcomeMatches:status"
    ELSE IF want.status = "SUCCEEDED" /\ ~JEq(o.output, want.out) THEN "RunOutcomeMatches:output"
    ELSE IF want.status = "FAILED" /\ o.error # want.err THEN "RunOutcomeMatches:error"
    ELSE "ok"

Known == JsonDeserialize(IOEnv.KNOWN_FINDINGS)
ActiveK == {Known.findings[j].id : j \in {j \in 1..Len(Known.findings) : Known.findings[j].status = "known"}}
(* F2: a value with a truthy "Error" member travelled through the execution (the engine signals failures in band);
   F5: a JSON null was handed from one step to the next (the engine turns it into {});
   F19/F24: see below *)
KF(o, want, v) ==
    IF "F2" \in ActiveK /\ "error-member" \in want.trail THEN "F2"
    ELSE IF "F5" \in ActiveK /\ "null-value" \in want.trail THEN "F5"
    (* protocol findings met by generated programs: a fan-out failure taken by the fan-out's own Catch leaves the
       siblings running (F19); a retry taken inside a fan-out, or of a fan-out (F24, F22) *)
    ELSE IF "F19" \in ActiveK /\ "fanout-caught" \in want.trail THEN "F19"
    ELSE IF "F18" \in ActiveK /\ "fanout-failed-with-siblings" \in want.trail THEN "F18"
    ELSE IF "F24" \in ActiveK /\ "retry-in-fanout" \in want.trail THEN "F24"
    ELSE ""

Init == i = 1 /\ viol = <<>>
Next == /\ i <= N /\ i' = i + 1
        /\ LET o == Obs[i]
               want == Run(o.def, o.input, o.ctx, o.tasks)
               v == Judge(o, want)
           IN viol' = IF v = "ok" THEN viol
                      ELSE Append(viol, [id |-> o.id, clause |-> v, kf |-> KF(o, want, v),
                                         want |-> [status |-> want.status, err |-> want.err]])
Spec == Init /\ [][Next]_vars
Report == (i = N + 1) => PrintT("VERDICT " \o ToJson([lines |-> N, failures |-> viol]))
=============================================================================
