------------------------------- MODULE JudgeC15 -------------------------------
(***************************************************************************)
(* Judge for C15.  Observation kinds:                                       *)
(*  child  form, ptype, ctype ("" = the child machine does not exist),      *)
(*         coutcome ("SUCCEEDED" | "FAILED" | "" if never started),         *)
(*         child = [arn, outputJson, outputText, error],                    *)
(*         task = [kind |-> "result", v |-> tagged] | [kind |-> "error", error, cause (tagged, parsed if JSON)] | [kind |-> "none"], *)
(*         order = "before" | "same" | "after" | "n/a": the frame of the parent's continuation  *)
(*                 relative to the frame in which the child became terminal,                    *)
(*         childstarted (BOOL), childran (BOOL: the child went on independently)                *)
(*  token  calls (sequence of [api, token, out (tagged), error]), responses (sequence of        *)
(*         [status, type]), completedBy (index of the call after which the task completed, 0 =  *)
(*         none), task (as above), early (BOOL: completed before any callback)                  *)
(*  cancel parent timeout with a blocked synchronous child: leftover (what the engine still     *)
(*         holds for the child after the parent's failure frame), childrpcs_after               *)
(***************************************************************************)
EXTENDS Child, Json, IOUtils

Obs == ndJsonDeserialize(IOEnv.OBS_FILE)
N == Len(Obs)
VARIABLES i, viol
vars == <<i, viol>>

JudgeChild(o) ==
    LET valid == o.ctype # "" /\ ValidCombination(o.form, o.ptype, o.ctype)
    IN IF ~valid
       THEN (IF o.task.kind = "error" THEN "ok" ELSE "ChildResultShape:invalid-combination-not-refused")
       ELSE IF o.form = "async"
       THEN (IF o.task.kind = "result" /\ AsyncOK(o.task.v, o.child) /\ o.order \in {"before", "n/a"} THEN "ok"
             ELSE IF o.task.kind # "result" THEN "ChildResultShape:async-did-not-return"
             ELSE IF ~AsyncOK(o.task.v, o.child) THEN "ChildResultShape:async-result"
             ELSE "ChildResultShape:async-waited-for-the-child")
       ELSE (* synchronous forms *)
            IF o.order = "before" THEN "ChildCompletesParent:before-the-child-ended"
            ELSE IF o.order = "after" THEN "ChildCompletesParent:not-in-the-child's-terminal-frame"
            ELSE IF o.coutcome = "SUCCEEDED"
            THEN (IF o.task.kind = "result" /\ SyncSuccessOK(o.form, o.task.v, o.child) THEN "ok"
                  ELSE IF o.task.kind # "result" THEN "ChildResultShape:success-reported-as-failure"
                  ELSE "ChildResultShape:sync-result-fields")
            ELSE IF o.coutcome = "FAILED"
            THEN (IF o.task.kind = "error" /\ o.task.error = "States.TaskFailed"
                     /\ IsObj(o.task.cause) /\ HasKey(o.task.cause, "Error") /\ Member(o.task.cause, "Error") = JStr(o.child.error)
                  THEN "ok" ELSE "ChildResultShape:child-failure-not-carried")
            ELSE "ChildCompletesParent:child-never-ended"

JudgeToken(o) ==
    LET k == FirstExact(o.calls)
        (* the right token: 200; the right token with an output that is not JSON text: 400 InvalidOutput (and the
           task does not complete); anything else: 400 InvalidToken *)
        RespOK(j) == IF o.calls[j].token = "exact" THEN o.responses[j].status = 200
                     ELSE IF o.calls[j].token = "badoutput" THEN o.responses[j].status = 400 /\ o.responses[j].type = "InvalidOutput"
                     ELSE o.responses[j].status = 400 /\ o.responses[j].type = "InvalidToken"
        respOK == \A j \in 1..Len(o.calls) : RespOK(j)
        badResp == CHOOSE j \in 1..Len(o.calls) : ~RespOK(j)
    IN IF o.early THEN "TokenExact:completed-without-callback"
       ELSE IF o.completedBy # k THEN "TokenExact:completed-by-the-wrong-call"
       ELSE IF k # 0 /\ o.calls[k].api = "success" /\ ~(o.task.kind = "result" /\ JEq(o.task.v, o.calls[k].out)) THEN "TokenExact:output-not-exact"
       ELSE IF k # 0 /\ o.calls[k].api = "failure" /\ ~(o.task.kind = "error" /\ o.task.error = o.calls[k].error) THEN "TokenExact:error-not-exact"
       ELSE IF ~respOK THEN "TokenExact:response:" \o o.calls[badResp].token
       ELSE "ok"

JudgeCancel(o) ==
    IF o.endedtwice THEN "ChildCancelled:ended-twice"
    ELSE IF o.leftover.cancellers = 0 /\ o.leftover.pending = 0 /\ o.leftover.waits = 0 /\ o.childrpcs_after = 0 THEN "ok"
    ELSE "ChildCancelled"

Judge(o) == CASE o.kind = "child" -> JudgeChild(o)
              [] o.kind = "token" -> JudgeToken(o)
              [] o.kind = "cancel" -> JudgeCancel(o)
              [] OTHER -> "ok"

Known == JsonDeserialize(IOEnv.KNOWN_FINDINGS)
ActiveK == {Known.findings[j].id : j \in {j \in 1..Len(Known.findings) : Known.findings[j].status = "known"}}
(* F17: the API is stateless: a well-formed but forged token (right shape, unknown task) is answered 200 *)
KF(o, v) == IF "F17" \in ActiveK /\ o.kind = "token" /\ v = "TokenExact:response:forged" THEN "F17" ELSE ""

Init == i = 1 /\ viol = <<>>
Next == /\ i <= N /\ i' = i + 1
        /\ LET o == Obs[i]  v == Judge(o)
           IN viol' = IF v = "ok" THEN viol ELSE Append(viol, [id |-> o.id, clause |-> v, kf |-> KF(o, v)])
Spec == Init /\ [][Next]_vars
Report == (i = N + 1) => PrintT("VERDICT " \o ToJson([lines |-> N, failures |-> viol]))
=============================================================================
