SPECIFICATION Spec
CONSTANTS
 MaxMsg = 3
 MaxLoss = 2
INVARIANT Structural
INVARIANT Conservation
INVARIANT StaysInItsQueue
INVARIANT RedOnlyAfterLoss
PROPERTY FifoSteps
PROPERTY TagsGrow
CHECK_DEADLOCK FALSE
