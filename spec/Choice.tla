------------------------------- MODULE Choice -------------------------------
(***************************************************************************)
(* The Choice state of the States Language over tagged JSON values (C14).  *)
(*                                                                         *)
(* Values are the tagged records of JsonValue.  TLC can neither order      *)
(* strings nor look inside them, so every *string* value additionally      *)
(* carries, prepared by the harness (checks/c14.py, from an independent    *)
(* reference),                                                             *)
(*    cp : the sequence of its code points                                 *)
(*    ts : [ok |-> BOOLEAN, sec |-> Int, ns |-> Int] -- if ok, the instant *)
(*         the text denotes as an RFC 3339 timestamp: whole seconds since  *)
(*         2000-01-01T00:00:00Z and nanoseconds within the second          *)
(* e.g. [t |-> "str", s |-> "a", cp |-> <<97>>, ts |-> NoTs].              *)
(* A variable or a referenced value that does not exist is RefPath!Missing.*)
(*                                                                         *)
(* A rule is a tree of nodes; a node has the fields its kind uses           *)
(* (And/Or/Not: op, kids; a comparison: op, var, path and lit or ref):     *)
(*    op   : "And" | "Or" | "Not" | a comparison operator WITHOUT the      *)
(*           "Path" suffix ("NumericLessThan", "IsPresent", ...)           *)
(*    kids : the sub-rules of And / Or / Not                               *)
(*    var  : the Variable, as RefPath steps into the effective input       *)
(*    path : TRUE for the *Path variant of the operator                    *)
(*    lit  : the comparison constant (literal form)                        *)
(*    ref  : RefPath steps of the comparison value (Path form)             *)
(*    next : the Next field (top-level rules only)                         *)
(*                                                                         *)
(* The result of evaluating a rule is a SET of the possible results        *)
(* "match" / "nomatch" / "error": a singleton where the property statement *)
(* decides, Open (all three) where it is silent.  Verdict3 maps the set to *)
(* "match" / "nomatch" / "open".                                           *)
(*                                                                         *)
(* `dev` is a set of named deviations: the behaviour the code under test   *)
(* is KNOWN to show instead of the specified one (known findings).  The    *)
(* specification proper is dev = {}.                                       *)
(***************************************************************************)
EXTENDS RefPath

NoTs == [ok |-> FALSE, sec |-> 0, ns |-> 0]
Str(s, cp) == [t |-> "str", s |-> s, cp |-> cp, ts |-> NoTs]
TsStr(s, cp, sec, ns) == [t |-> "str", s |-> s, cp |-> cp, ts |-> [ok |-> TRUE, sec |-> sec, ns |-> ns]]

(* rule constructors for models (every field present; the harness writes the used ones as JSON) *)
Atom(op, v, lit) == [op |-> op, kids |-> <<>>, var |-> <<KeyStep(v)>>, path |-> FALSE,
                     lit |-> lit, ref |-> <<>>, next |-> ""]
PathAtom(op, v, r) == [op |-> op, kids |-> <<>>, var |-> <<KeyStep(v)>>, path |-> TRUE,
                       lit |-> JNull, ref |-> <<KeyStep(r)>>, next |-> ""]
Node(op, kids) == [op |-> op, kids |-> kids, var |-> <<>>, path |-> FALSE,
                   lit |-> JNull, ref |-> <<>>, next |-> ""]
WithNext(r, n) == [r EXCEPT !.next = n]

(* ---- result sets ---------------------------------------------------------- *)
Match == {"match"}
NoMatch == {"nomatch"}
Open == {"match", "nomatch", "error"}
B(b) == IF b THEN Match ELSE NoMatch
Verdict3(S) == IF S = Match THEN "match" ELSE IF S = NoMatch THEN "nomatch" ELSE "open"

Flip(x) == IF x = "match" THEN "nomatch" ELSE IF x = "nomatch" THEN "match" ELSE x
NotR(S) == {Flip(x) : x \in S}
(* ss: a sequence of result sets.  Conjunction: it can match only if every member can, it *)
(* can fail to match if some member can; an error anywhere may surface.                   *)
AndR(ss) == (IF \A i \in DOMAIN ss : "match" \in ss[i] THEN {"match"} ELSE {})
            \cup (IF \E i \in DOMAIN ss : "nomatch" \in ss[i] THEN {"nomatch"} ELSE {})
            \cup (IF \E i \in DOMAIN ss : "error" \in ss[i] THEN {"error"} ELSE {})
OrR(ss) == (IF \E i \in DOMAIN ss : "match" \in ss[i] THEN {"match"} ELSE {})
           \cup (IF \A i \in DOMAIN ss : "nomatch" \in ss[i] THEN {"nomatch"} ELSE {})
           \cup (IF \E i \in DOMAIN ss : "error" \in ss[i] THEN {"error"} ELSE {})

(* ---- the operators ---------------------------------------------------------- *)
StringRelOps == {"StringEquals", "StringLessThan", "StringGreaterThan",
                 "StringLessThanEquals", "StringGreaterThanEquals"}
NumericOps == {"NumericEquals", "NumericLessThan", "NumericGreaterThan",
               "NumericLessThanEquals", "NumericGreaterThanEquals"}
TimestampOps == {"TimestampEquals", "TimestampLessThan", "TimestampGreaterThan",
                 "TimestampLessThanEquals", "TimestampGreaterThanEquals"}
TypeTests == {"IsNull", "IsPresent", "IsNumeric", "IsString", "IsBoolean", "IsTimestamp"}
ValueOps == StringRelOps \cup {"StringMatches"} \cup NumericOps \cup {"BooleanEquals"} \cup TimestampOps
(* every value comparison except StringMatches also exists as <op>Path: 17 + 16 + 6 = 39 *)
PathOps == ValueOps \ {"StringMatches"}
Combinators == {"And", "Or", "Not"}

RelOf == [StringEquals |-> "eq", StringLessThan |-> "lt", StringGreaterThan |-> "gt",
          StringLessThanEquals |-> "le", StringGreaterThanEquals |-> "ge",
          NumericEquals |-> "eq", NumericLessThan |-> "lt", NumericGreaterThan |-> "gt",
          NumericLessThanEquals |-> "le", NumericGreaterThanEquals |-> "ge",
          TimestampEquals |-> "eq", TimestampLessThan |-> "lt", TimestampGreaterThan |-> "gt",
          TimestampLessThanEquals |-> "le", TimestampGreaterThanEquals |-> "ge"]

(* a relation from the two facts "a < b" and "a = b" of a total order *)
Cmp(rel, lt, eq) ==
    CASE rel = "eq" -> eq
      [] rel = "lt" -> lt
      [] rel = "le" -> lt \/ eq
      [] rel = "gt" -> ~lt /\ ~eq
      [] rel = "ge" -> ~lt
      [] OTHER -> FALSE

(* ---- strings by code point -------------------------------------------------- *)
RECURSIVE CpLess(_, _)
CpLess(a, b) ==
    IF b = <<>> THEN FALSE
    ELSE IF a = <<>> THEN TRUE
    ELSE IF Head(a) # Head(b) THEN Head(a) < Head(b)
    ELSE CpLess(Tail(a), Tail(b))

(* ---- numbers: reduced fractions n/d with d > 0 (32-bit products: the harness keeps them small,
   anything else travels as "big" and is left open) ------------------------------------------- *)
NumLess(a, b) == a.n * b.d < b.n * a.d
NumEq(a, b) == a.n * b.d = b.n * a.d

(* ---- StringMatches: '*' matches any run of characters (also the empty one), a backslash
   makes the following '*' or backslash an ordinary character, nothing else is special ---------- *)
STAR == 42
BACKSLASH == 92
QUESTION == 63
Lit(c) == [k |-> "lit", c |-> c]
StarTok == [k |-> "star", c |-> 0]
Any1Tok == [k |-> "any1", c |-> 0]
BadTok == [k |-> "bad", c |-> 0]

RECURSIVE Tokens(_, _)
Tokens(p, dev) ==
    IF p = <<>> THEN <<>>
    ELSE IF Head(p) = BACKSLASH
         THEN IF Len(p) >= 2 /\ p[2] = STAR THEN <<Lit(STAR)>> \o Tokens(SubSeq(p, 3, Len(p)), dev)
              ELSE IF "BackslashEscapesOnlyStar" \in dev THEN <<Lit(BACKSLASH)>> \o Tokens(Tail(p), dev)
              ELSE IF Len(p) >= 2 /\ p[2] = BACKSLASH THEN <<Lit(BACKSLASH)>> \o Tokens(SubSeq(p, 3, Len(p)), dev)
              ELSE <<BadTok>> \o Tokens(Tail(p), dev)
    ELSE IF Head(p) = STAR THEN <<StarTok>> \o Tokens(Tail(p), dev)
    ELSE IF Head(p) = QUESTION /\ "QuestionMarkIsWildcard" \in dev THEN <<Any1Tok>> \o Tokens(Tail(p), dev)
    ELSE <<Lit(Head(p))>> \o Tokens(Tail(p), dev)

(* a backslash before anything but '*' or a backslash (or at the end): the statement does not
   say whether it escapes, stands for itself or is an error *)
PatternUnspecified(p) == LET tk == Tokens(p, {}) IN \E i \in DOMAIN tk : tk[i].k = "bad"

RECURSIVE TokMatch(_, _, _, _)
TokMatch(tk, i, s, j) ==          (* tokens from i on against s from j on *)
    IF i > Len(tk) THEN j > Len(s)
    ELSE IF tk[i].k = "star" THEN \E k \in j..(Len(s) + 1) : TokMatch(tk, i + 1, s, k)
    ELSE IF tk[i].k = "any1" THEN j <= Len(s) /\ TokMatch(tk, i + 1, s, j + 1)
    ELSE j <= Len(s) /\ s[j] = tk[i].c /\ TokMatch(tk, i + 1, s, j + 1)

Glob(p, s, dev) == TokMatch(Tokens(p, dev), 1, s, 1)

(* ---- timestamps ------------------------------------------------------------------ *)
Digit(c) == c >= 48 /\ c <= 57
Num2(cp, i) == (cp[i] - 48) * 10 + (cp[i + 1] - 48)
(* index of the first character of the zone designator, 0 if the fraction is malformed *)
ZoneStart(cp) ==
    IF cp[20] = 46
    THEN LET ds == {j \in 21..Len(cp) : \A k \in 21..j : Digit(cp[k])}
         IN IF ds = {} THEN 0 ELSE Max(ds) + 1
    ELSE 20
ZoneOK(cp, z) ==
    /\ z > 0 /\ z <= Len(cp)
    /\ \/ cp[z] = 90 /\ z = Len(cp)                                     (* Z *)
       \/ /\ cp[z] \in {43, 45} /\ Len(cp) = z + 5                        (* +hh:mm  -hh:mm *)
          /\ Digit(cp[z + 1]) /\ Digit(cp[z + 2]) /\ cp[z + 3] = 58
          /\ Digit(cp[z + 4]) /\ Digit(cp[z + 5])
          /\ Num2(cp, z + 1) <= 23 /\ Num2(cp, z + 4) <= 59
(* yyyy-mm-ddThh:mm:ss[.f+](Z|+hh:mm|-hh:mm) with upper-case T and Z and every field in range *)
StrictTimestampShape(cp) ==
    /\ Len(cp) >= 20
    /\ \A i \in {1, 2, 3, 4, 6, 7, 9, 10, 12, 13, 15, 16, 18, 19} : Digit(cp[i])
    /\ cp[5] = 45 /\ cp[8] = 45 /\ cp[11] = 84 /\ cp[14] = 58 /\ cp[17] = 58
    /\ Num2(cp, 6) \in 1..12 /\ Num2(cp, 9) \in 1..31
    /\ Num2(cp, 12) <= 23 /\ Num2(cp, 15) <= 59 /\ Num2(cp, 18) <= 59
    /\ ZoneOK(cp, ZoneStart(cp))
(* "yes": a well-formed timestamp whose instant the reference could compute;
   "no" : not a string, or a string without even a date's worth of digits;
   "odd": everything between (lower-case t/z, blanks, leap seconds, date only, day 31 of a
          short month, ...) -- the statement does not say *)
TsClass(x) ==
    IF ~IsStr(x) THEN "no"
    ELSE IF StrictTimestampShape(x.cp) /\ x.ts.ok THEN "yes"
    ELSE IF Cardinality({i \in DOMAIN x.cp : Digit(x.cp[i])}) < 8 THEN "no"
    ELSE "odd"
Ns(a, dev) == IF "SubMicrosecondIgnored" \in dev THEN a.ns \div 1000 ELSE a.ns
InstLess(a, b, dev) == a.sec < b.sec \/ (a.sec = b.sec /\ Ns(a, dev) < Ns(b, dev))
InstEq(a, b, dev) == a.sec = b.sec /\ Ns(a, dev) = Ns(b, dev)

(* ---- one comparison --------------------------------------------------------------- *)
(* the type tests "report the type facts"; only IsPresent is defined for a missing Variable *)
TypeTest(op, var, arg) ==
    IF IsMissing(arg) \/ ~IsBool(arg) THEN Open        (* the constant is not true/false *)
    ELSE IF op = "IsPresent" THEN B((~IsMissing(var)) = arg.b)
    ELSE IF IsMissing(var) THEN Open
    ELSE CASE op = "IsNull" -> B(IsNull(var) = arg.b)
           [] op = "IsNumeric" -> B(IsNum(var) = arg.b)
           [] op = "IsString" -> B(IsStr(var) = arg.b)
           [] op = "IsBoolean" -> B(IsBool(var) = arg.b)
           [] op = "IsTimestamp" -> (LET c == TsClass(var) IN IF c = "odd" THEN Open ELSE B((c = "yes") = arg.b))
           [] OTHER -> Open

(* a value comparison matches exactly when the Variable exists, has the operator's type and
   satisfies the relation; a comparison value of another type can satisfy no relation *)
ValueCompare(op, var, arg, dev) ==
    IF IsMissing(arg) THEN Open                         (* <op>Path whose reference does not exist *)
    ELSE IF IsMissing(var) THEN NoMatch
    ELSE IF op \in NumericOps
         THEN IF ~IsNum(var) \/ ~IsNum(arg) THEN NoMatch
              ELSE IF var.t = "big" \/ arg.t = "big" THEN Open
              ELSE B(Cmp(RelOf[op], NumLess(var, arg), NumEq(var, arg)))
    ELSE IF op \in StringRelOps
         THEN IF ~IsStr(var) \/ ~IsStr(arg) THEN NoMatch
              ELSE B(Cmp(RelOf[op], CpLess(var.cp, arg.cp), var.cp = arg.cp))
    ELSE IF op = "StringMatches"
         THEN IF ~IsStr(var) \/ ~IsStr(arg) THEN NoMatch
              ELSE IF PatternUnspecified(arg.cp) THEN Open
              ELSE B(Glob(arg.cp, var.cp, dev))
    ELSE IF op = "BooleanEquals"
         THEN IF ~IsBool(var) \/ ~IsBool(arg) THEN NoMatch ELSE B(var.b = arg.b)
    ELSE IF op \in TimestampOps
         THEN LET cv == TsClass(var)  ca == TsClass(arg)
              IN IF cv = "no" \/ ca = "no" THEN NoMatch
                 ELSE IF cv = "yes" /\ ca = "yes"
                      THEN B(Cmp(RelOf[op], InstLess(var.ts, arg.ts, dev), InstEq(var.ts, arg.ts, dev)))
                 ELSE Open
    ELSE Open                                            (* not an operator of the language *)

EvalAtom(op, var, arg, dev) ==
    IF op \in TypeTests THEN TypeTest(op, var, arg)
    ELSE ValueCompare(op,
                      IF IsMissing(var) /\ "MissingVariableIsFalse" \in dev THEN JBool(FALSE) ELSE var,
                      arg, dev)

(* ---- rule trees --------------------------------------------------------------------- *)
(* input: the effective input (after InputPath); raw: the state's raw input *)
ArgOf(r, input, raw, dev) ==
    IF r.path THEN Select(IF "PathReadsRawInput" \in dev THEN raw ELSE input, r.ref) ELSE r.lit

RECURSIVE Eval(_, _, _, _)
Eval(r, input, raw, dev) ==
    CASE r.op = "And" -> AndR([i \in DOMAIN r.kids |-> Eval(r.kids[i], input, raw, dev)])
      [] r.op = "Or" -> OrR([i \in DOMAIN r.kids |-> Eval(r.kids[i], input, raw, dev)])
      [] r.op = "Not" -> NotR(Eval(r.kids[1], input, raw, dev))
      [] OTHER -> EvalAtom(r.op, Select(input, r.var), ArgOf(r, input, raw, dev), dev)

(* ---- the Choice state: first match, Default, States.NoChoiceMatched ------------------- *)
GoTo(n) == [kind |-> "next", name |-> n]
NoChoiceMatched == [kind |-> "fail", name |-> "States.NoChoiceMatched"]
AnyFailure == [kind |-> "fail", name |-> "*"]          (* only where a rule's result is open *)

(* the set of admissible outcomes of rules i, i+1, ... (a singleton when every rule is decided) *)
RECURSIVE OutcomesFrom(_, _, _, _, _, _)
OutcomesFrom(rules, i, default, input, raw, dev) ==
    IF i > Len(rules) THEN {IF default.set THEN GoTo(default.next) ELSE NoChoiceMatched}
    ELSE LET e == Eval(rules[i], input, raw, dev)
         IN (IF "match" \in e THEN {GoTo(rules[i].next)} ELSE {})
            \cup (IF "error" \in e THEN {AnyFailure} ELSE {})
            \cup (IF "nomatch" \in e THEN OutcomesFrom(rules, i + 1, default, input, raw, dev) ELSE {})

(* st = [inpath |-> steps, rules |-> <<...>>, default |-> [set, next]] *)
ChoiceOutcomes(st, raw, dev) ==
    OutcomesFrom(st.rules, 1, st.default, Select(raw, st.inpath), raw, dev)

Admits(adm, out) == out \in adm \/ (out.kind = "fail" /\ AnyFailure \in adm)
=============================================================================
