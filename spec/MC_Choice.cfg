INIT Init
NEXT Next
INVARIANT LawDeMorgan
INVARIANT LawDoubleNegation
INVARIANT LawIdentityElements
INVARIANT LawCommutativeAssociative
INVARIANT LawExcludedMiddle
INVARIANT LawTwoValued
INVARIANT LawPathAgreesWithLiteral
INVARIANT LawMissingNeverMatches
INVARIANT LawTypeDiscipline
INVARIANT LawTotalOrders
INVARIANT LawTimestampInstant
INVARIANT LawTypeFacts
INVARIANT LawFirstMatch
INVARIANT LawDecidedIsSingleton
INVARIANT LawOrderOnlyThroughFirstMatch
INVARIANT LawAfterFirstMatchIrrelevant
INVARIANT LawNonMatchingRemovable
INVARIANT LawDefault
INVARIANT LawCodePointOrder
INVARIANT LawWildcard
INVARIANT LawDeviations
INVARIANT LawResultSets
CHECK_DEADLOCK FALSE
