-------------------------------- MODULE Engine --------------------------------
(***************************************************************************)
(* The event-driven interpreter of local-step-functions as a state machine: *)
(* one engine instance, a broker with its three queues (shared start queue, *)
(* per-instance event queue, reply queue), worker queues, timers, crash and *)
(* restart.  The handlers are transcribed AS THE CODE IS STRUCTURED         *)
(* (state_engine.py / task_dispatcher.py): each is an operator from         *)
(*      x = [e |-> volatile engine state, o |-> operations issued so far]   *)
(* to a new x.  A frame (FrameDeliver / FrameTimer) computes the operation  *)
(* list of one handler invocation; DoOp then performs the operations ONE AT *)
(* A TIME on the broker and the stores, so that Crash can fall between any  *)
(* two of them.  Data is symbolic (Layer A decides what states compute);    *)
(* what is modelled exactly is the protocol: publishes, acknowledgements,   *)
(* records, notifications, history, joins, cancellation, redelivery.        *)
(*                                                                         *)
(* Scenario constants (generated per scenario by checks/model.py):          *)
(*   Def       state name -> state record (all nesting levels, one name space) *)
(*   StartAt   name of the first state                                      *)
(*   Inputs    sequence of execution inputs (one execution each)            *)
(*   Outcomes  function name -> sequence of outcomes of its invocations     *)
(*             ("ok" | "silent" | an error name); the last one repeats      *)
(*   MaxCrash  crash budget;  Durable: TRUE if execution records survive a  *)
(*             crash (Redis store), FALSE for the file-backed configuration *)
(*   Express   TRUE for an EXPRESS machine (no record, no history)           *)
(*   Dev       the named deviations of THIS CODE from the design that are   *)
(*             switched on ("F18", "F19": see known_findings.json); with    *)
(*             Dev = {} the module is the design, with all of them the code *)
(***************************************************************************)
EXTENDS Naturals, Integers, Sequences, FiniteSets, TLC, Props, EngineChoice

CONSTANTS Def, StartAt, Inputs, Outcomes, MaxCrash, Durable, Express, Dev

NExec == Len(Inputs)
Execs == 1..NExec
Fns == DOMAIN Outcomes
EngineQueues == {"shared", "inst", "reply"}
QNames == EngineQueues \cup Fns

VARIABLES queues,    \* queue name -> sequence of messages
          unacked,   \* messages delivered to the engine and not yet acknowledged (broker side)
          eng,       \* volatile state of the engine instance
          ops,       \* operations of the current frame still to be performed
          fr,        \* the current frame: trigger id, its execution, whether the trigger was acknowledged
          rec,       \* execution -> record (status, output)
          notes,     \* execution -> sequence of notified statuses
          hist,      \* execution -> [n, last, terms]: length, last event type, number of terminal events
          inv,       \* function -> number of invocations so far
          crashes,
          bad        \* name of the first property clause broken by an operation ("" = none)
vars == <<queues, unacked, eng, ops, fr, rec, notes, hist, inv, crashes, bad>>

(* ---- values --------------------------------------------------------------- *)
None == [t |-> "none"]
Val(v) == [t |-> "val", v |-> v]
TermMark == [t |-> "term"]
CaughtMark == [t |-> "caught"]
IsErr(d) == d.t = "err"
ErrData(e) == [t |-> "err", e |-> e]
Data(v) == [t |-> "data", v |-> v]

NoIdx == 0 - 1
Frame(id, index, length, rstart, rend, input, parent) ==
    [id |-> id, index |-> index, length |-> length, rstart |-> rstart, rend |-> rend, input |-> input, parent |-> parent,
     retry |-> 0]

Event(id, exec, state, data, branch, retry) ==
    [kind |-> "event", id |-> id, exec |-> exec, state |-> state, data |-> data, branch |-> branch,
     retry |-> retry, red |-> FALSE]

FreshEng == [up |-> TRUE, held |-> {}, bm |-> <<>>, pending |-> <<>>, cancellers |-> <<>>,
             orphaned |-> <<>>, timers |-> {}, scan |-> FALSE, aged |-> FALSE]
NoFr == [trig |-> <<>>, exec |-> 0, acked |-> FALSE, cause |-> ""]

(* ---- operations ------------------------------------------------------------ *)
Pub(q, m)     == [op |-> "pub", q |-> q, m |-> m]
AckOp(id)     == [op |-> "ack", id |-> id]
NoteOp(x, s)  == [op |-> "note", x |-> x, s |-> s]
RecOp(x, s, out) == [op |-> "rec", x |-> x, s |-> s, out |-> out]
HistOp(x, ty) == [op |-> "hist", x |-> x, ty |-> ty]

Emit(x, op) == IF Express /\ op.op \in {"hist", "rec"} THEN x ELSE [x EXCEPT !.o = Append(@, op)]
RECURSIVE EmitAll(_, _)
EmitAll(x, s) == IF s = <<>> THEN x ELSE EmitAll(Emit(x, Head(s)), Tail(s))
Fn(f, k, d) == IF k \in DOMAIN f THEN f[k] ELSE d
Upd(f, k, v) == [y \in (DOMAIN f) \cup {k} |-> IF y = k THEN v ELSE f[y]]
Del(f, k) == [y \in (DOMAIN f) \ {k} |-> f[y]]

(* event_dispatcher.acknowledge(id): only if the message is still held *)
Ack(x, id) == IF id \in x.e.held THEN Emit([x EXCEPT !.e.held = @ \ {id}], AckOp(id)) ELSE x

(* the k-th message published by the frame triggered by `trig` gets the causal id <<trig, k>> *)
NPub(x) == Cardinality({k \in 1..Len(x.o) : x.o[k].op = "pub"})
(* causal ids: <<trigger id, ordinal of the publication in its frame>>; a handler that runs again after a crash   *)
(* publishes a DIFFERENT message (a new uuid in the code), hence the incarnation in the ordinal                   *)
NextId(x) == Append(x.t, NPub(x) + 1 + 10 * crashes)

(* ---- branch metadata -------------------------------------------------------- *)
BM(x, ex) == Fn(x.e.bm, ex, <<>>)                     \* fan-out id -> results record
HasBM(x, ex) == ex \in DOMAIN x.e.bm
NewResults(n) == [results |-> [k \in 1..n |-> None], ids |-> [k \in 1..n |-> <<>>],
                  state |-> [k \in 1..n |-> ""], term |-> <<>>]
SetRes(x, ex, id, r) == [x EXCEPT !.e.bm = Upd(@, ex, Upd(BM(x, ex), id, r))]
Top(br) == br[Len(br)]
RangeOf(f) == IF f.rend >= 0 THEN <<f.rstart, f.rend>> ELSE <<0, f.length>>

RECURSIVE CheckPending(_, _), CancelTask(_, _), HandleError(_, _, _, _, _), HandleTerminal(_, _, _, _),
          CollectResults(_, _, _, _), EndExecution(_, _, _), OnResponse(_, _, _, _), WaitDone(_, _, _, _)

AckList(x, ex, id) ==
    (* acknowledge_event_list on the ids of fan-out `id`; each acknowledged slot is cleared *)
    LET r == BM(x, ex)[id]
        RECURSIVE Go(_, _)
        Go(y, k) == IF k > Len(r.ids) THEN y
                    ELSE IF r.ids[k] # <<>> THEN Go(Ack(y, r.ids[k]), k + 1) ELSE Go(y, k + 1)
        y1 == Go(x, 1)
    IN IF HasBM(y1, ex) /\ id \in DOMAIN BM(y1, ex)
       THEN SetRes(y1, ex, id, [BM(y1, ex)[id] EXCEPT !.ids = [k \in 1..Len(@) |-> <<>>]])
       ELSE y1

(* check_pending_results *)
CheckPending(x, ex) ==
    IF ~HasBM(x, ex) THEN x
    ELSE
    LET all == BM(x, ex)
        anyTerm == \E id \in DOMAIN all : all[id].term # <<>>
        (* cancel the pending tasks of unfinished slots, one after the other (callbacks may re-enter) *)
        RECURSIVE Cancel(_, _, _)
        Cancel(y, todo, pend) ==
            IF todo = {} \/ ~HasBM(y, ex) THEN [y |-> y, pend |-> pend, gone |-> ~HasBM(y, ex)]
            ELSE LET s == CHOOSE s \in todo : TRUE
                     evid == all[s[1]].ids[s[2]]
                 IN IF evid # <<>> /\ evid \in DOMAIN y.e.cancellers
                    THEN Cancel(CancelTask(y, evid), todo \ {s}, pend)
                    ELSE Cancel(y, todo \ {s}, TRUE)
        open == IF anyTerm
                THEN {<<id, k>> \in {<<id, k>> : id \in DOMAIN all, k \in 1..8} :
                         /\ k <= Len(all[id].results)
                         /\ LET rg == IF all[id].term # <<>> THEN all[id].term ELSE <<0, Len(all[id].results)>>
                            IN k - 1 >= rg[1] /\ k - 1 < rg[2]
                         /\ all[id].results[k].t \in {"none", "caught"}}
                ELSE {}
        c == Cancel(x, open, FALSE)
    IN IF c.gone THEN c.y
       ELSE LET RECURSIVE AckAll(_, _)
                AckAll(y, ids) == IF ids = {} \/ ~HasBM(y, ex) THEN y
                                  ELSE LET i == CHOOSE i \in ids : TRUE
                                       IN AckAll(IF i \in DOMAIN BM(y, ex) THEN AckList(y, ex, i) ELSE y, ids \ {i})
                y2 == AckAll(c.y, DOMAIN BM(c.y, ex))
            IN IF ~c.pend THEN [y2 EXCEPT !.e.bm = Del(@, ex)] ELSE y2

(* task_dispatcher.branch_has_terminated(execution, branch id) *)
TDTerminated(x, ex, bid) ==
    bid # <<>> /\ HasBM(x, ex) /\ bid \in DOMAIN BM(x, ex) /\ BM(x, ex)[bid].term # <<>>

(* state_engine.branch_has_terminated: returns [x, term] *)
BranchHasTerminated(x, stype, ev, id) ==
    IF ev.branch = <<>> THEN [x |-> x, term |-> FALSE]
    ELSE
    LET ex == ev.exec
        top == Top(ev.branch)
        x0 == IF HasBM(x, ex) THEN x ELSE [x EXCEPT !.e.bm = Upd(@, ex, <<>>)]
        x1 == IF top.id \in DOMAIN BM(x0, ex) THEN x0 ELSE SetRes(x0, ex, top.id, NewResults(top.length))
        hasParent == Len(ev.branch) > 1
        par == IF hasParent THEN ev.branch[Len(ev.branch) - 1] ELSE top
        parKnown == hasParent /\ par.id \in DOMAIN BM(x1, ex)
        parTerm == parKnown /\ BM(x1, ex)[par.id].term # <<>>
        r == BM(x1, ex)[top.id]
        idx == IF top.index = NoIdx THEN 0 ELSE top.index
        has == r.term # <<>> \/ parTerm
        leaf == stype \notin {"Parallel", "Map"}
    IN IF has
       THEN LET r1 == [r EXCEPT !.term = RangeOf(top), !.results[idx + 1] = TermMark,
                                !.ids[idx + 1] = IF leaf THEN <<>> ELSE @]
                x2 == SetRes(x1, ex, top.id, r1)
                x3 == IF parTerm
                      THEN SetRes(x2, ex, par.id, [BM(x2, ex)[par.id] EXCEPT !.results[par.index + 1] = TermMark])
                      ELSE x2
                x4 == IF leaf THEN Ack(x3, id) ELSE x3
            IN [x |-> CheckPending(x4, ex), term |-> TRUE]
       ELSE [x |-> IF leaf THEN SetRes(x1, ex, top.id, [r EXCEPT !.ids[idx + 1] = id]) ELSE x1, term |-> FALSE]

(* ---- state transitions -------------------------------------------------------- *)
ChangeState(x, stype, next, ev) ==
    LET ev1 == [ev EXCEPT !.state = next, !.retry = 0, !.id = NextId(x), !.red = FALSE]
    IN Emit(Emit(x, HistOp(ev.exec, stype \o "StateExited")), Pub("inst", ev1))

EndExecution(x, stype, ev) ==
    LET ex == ev.exec
        failed == IsErr(ev.data)
        x1 == IF failed THEN x ELSE Emit(x, HistOp(ex, stype \o "StateExited"))
        x2 == IF failed
              THEN EmitAll(x1, <<RecOp(ex, "FAILED", ev.data), HistOp(ex, "ExecutionFailed")>>)
              ELSE EmitAll([x1 EXCEPT !.e.bm = Del(@, ex)], <<RecOp(ex, "SUCCEEDED", ev.data), HistOp(ex, "ExecutionSucceeded")>>)
        x3 == Emit(x2, NoteOp(ex, IF failed THEN "FAILED" ELSE "SUCCEEDED"))
    IN IF failed /\ HasBM(x3, ex) THEN CheckPending(x3, ex) ELSE x3

Matches(errs, e) == e \notin {"States.Runtime", "States.ExecutionTimeout", "Task.Terminated"}
                    /\ (e \in errs \/ errs = {"States.ALL"} \/ "States.TaskFailed" \in errs)

(* handle_error(state, error): st is the state whose Retry/Catch apply, ev the current event *)
HandleError(x, stname, ev, e, id) ==
    LET st == Def[stname]
        ex == ev.exec
        fan == st.type \in {"Parallel", "Map"}
        canRetry == st.retrymax >= 0 /\ Matches(st.retryerrs, e)
        doRetry == canRetry /\ ev.retry < st.retrymax
        canCatch == ~doRetry /\ st.catchnext # "" /\ Matches(st.catcherrs, e)
    IN IF doRetry
       THEN LET x1 == IF HasBM(x, ex) THEN CheckPending(x, ex) ELSE x
                ev1 == [ev EXCEPT !.retry = @ + 1, !.id = NextId(x1), !.red = FALSE]
            IN Emit(x1, Pub("inst", ev1))
       ELSE IF canCatch
       THEN LET x0 == IF fan THEN Emit(x, HistOp(ex, st.type \o "StateFailed")) ELSE x
                (* design: the siblings of a caught fan-out failure are cancelled; the code (F19) leaves them running *)
                x1 == IF fan /\ "F19" \notin Dev /\ HasBM(x0, ex) THEN CheckPending(x0, ex) ELSE x0
                ev1 == [ev EXCEPT !.data = ErrData(e)]
                x2 == ChangeState(x1, st.type, st.catchnext, ev1)
                (* a caught error inside a branch marks its slot __CAUGHT__ *)
                x3 == IF ev.branch # <<>> /\ HasBM(x2, ex) /\ Top(ev.branch).id \in DOMAIN BM(x2, ex) /\ Top(ev.branch).index # NoIdx
                      THEN SetRes(x2, ex, Top(ev.branch).id,
                                  [BM(x2, ex)[Top(ev.branch).id] EXCEPT !.results[Top(ev.branch).index + 1] = CaughtMark])
                      ELSE x2
            IN x3
       ELSE LET x1 == IF fan /\ e \notin {"Task.Terminated", "States.ExecutionTimeout"}
                      THEN Emit(x, HistOp(ex, st.type \o "StateFailed")) ELSE x
            IN HandleTerminal(x1, st.type, [ev EXCEPT !.data = ErrData(e)], <<>>)

(* handle_terminal_state(state_type, event, id) *)
HandleTerminal(x, stype, ev, id) ==
    LET ex == ev.exec
        err == IsErr(ev.data)
        terminated == err /\ ev.data.e = "Task.Terminated"
    IN IF ev.branch # <<>>
       THEN LET x1 == IF err THEN x ELSE Emit(x, HistOp(ex, stype \o "StateExited"))
            IN CollectResults(x1, stype, ev, id)
       ELSE LET x1 == IF terminated
                      THEN (IF HasBM(x, ex) THEN CheckPending(x, ex) ELSE EndExecution(x, stype, ev))
                      ELSE EndExecution(x, stype, ev)
            IN IF id # <<>> THEN Ack(x1, id) ELSE x1

(* asl_state_collect_results(previous state type) *)
CollectResults(x, prevType, ev, id) ==
    LET ex == ev.exec
        top == Top(ev.branch)
        pname == top.parent
        pst == Def[pname]
        x0 == IF HasBM(x, ex) THEN x ELSE [x EXCEPT !.e.bm = Upd(@, ex, <<>>)]
        x1 == IF top.id \in DOMAIN BM(x0, ex) THEN x0 ELSE SetRes(x0, ex, top.id, NewResults(top.length))
        r0 == BM(x1, ex)[top.id]
        leaf == prevType \notin {"Parallel", "Map"}
        err == IsErr(ev.data)
        r1 == [r0 EXCEPT !.results[top.index + 1] = IF err THEN [t |-> "errv", e |-> ev.data.e] ELSE Val(ev.data.v),
                         !.ids[top.index + 1] = IF leaf THEN id ELSE @]
        x2 == SetRes(x1, ex, top.id, r1)
        n == Len(r1.results)
        mc == pst.mc
        start == IF top.rend >= 0 THEN top.rstart ELSE 0
        end == IF mc > 0 THEN (IF start + mc < n THEN start + mc ELSE n) ELSE n
        incomplete(lo, hi) == \E k \in (lo + 1)..hi : r1.results[k].t \in {"none", "caught"}
        popped == SubSeq(ev.branch, 1, Len(ev.branch) - 1)
    IN IF ~err /\ incomplete(0, n)
       THEN (* not all results yet: with MaxConcurrency, a complete batch re-enters the Map state *)
            IF mc > 0 /\ ~incomplete(start, end)
            THEN LET nend == IF end + mc < n THEN end + mc ELSE n
                     reent == [ev EXCEPT !.state = pname, !.data = Data(top.input), !.retry = top.retry,
                                         !.branch = Append(popped, [top EXCEPT !.index = NoIdx, !.rstart = end, !.rend = nend]),
                                         !.id = NextId(x2), !.red = FALSE]
                 IN Emit(x2, Pub("inst", reent))
            ELSE x2
       ELSE
       LET evp == [ev EXCEPT !.state = pname, !.branch = popped, !.retry = top.retry]
       IN IF err
          THEN LET r2 == [r1 EXCEPT !.term = <<start, end>>,
                                    !.ids[top.index + 1] = IF prevType \in {"Task", "Wait"} THEN <<>> ELSE @]
                   x3 == SetRes(x2, ex, top.id, r2)
                   e == ev.data.e
                   x4 == IF e \notin {"Task.Terminated", "States.ExecutionTimeout"} /\ pst.type = "Map"
                         THEN Emit(x3, HistOp(ex, "MapIterationFailed")) ELSE x3
               IN HandleError(x4, pname, [evp EXCEPT !.data = Data(top.input)], e, <<>>)
          (* (a slot may hold the error object of a branch that failed earlier -- the late join of F18: it is data here) *)
          ELSE LET out == [k \in 1..n |-> IF r1.results[k].t = "errv" THEN [Error |-> r1.results[k].e] ELSE r1.results[k].v]
                   evq == [evp EXCEPT !.data = Data(out)]
                   x3 == IF pst.end THEN x2 ELSE ChangeState(x2, pst.type, pst.next, evq)
                   x4 == IF pst.end THEN HandleTerminal(x3, pst.type, evq, <<>>) ELSE x3
                   (* the held events are acknowledged after the consequences have been issued *)
               IN IF HasBM(x4, ex) /\ top.id \in DOMAIN BM(x4, ex) THEN AckList(x4, ex, top.id)
                  ELSE LET RECURSIVE Go(_, _)
                           Go(y, k) == IF k > n THEN y ELSE Go(IF r1.ids[k] # <<>> THEN Ack(y, r1.ids[k]) ELSE y, k + 1)
                       IN Go(x4, 1)

(* ---- tasks ------------------------------------------------------------------------ *)
(* cancel_task(event id) *)
CancelTask(x, evid) ==
    IF evid \notin DOMAIN x.e.cancellers THEN x
    ELSE LET c == x.e.cancellers[evid]
             x1 == [x EXCEPT !.e.cancellers = Del(@, evid)]
         IN IF c.type = "Timeout"
            THEN LET x2 == [x1 EXCEPT !.e.timers = {t \in @ : ~(t.kind = "wait" /\ t.id = evid)}]
                 IN WaitDone(x2, evid, c.ev, "Task.Terminated")
            ELSE IF c.task \in DOMAIN x1.e.pending
                 THEN LET p == x1.e.pending[c.task]
                          x2 == [x1 EXCEPT !.e.pending = Del(@, c.task),
                                           !.e.timers = {t \in @ : ~(t.kind = "tasktimeout" /\ t.id = c.task)}]
                      IN OnResponse(x2, p.id, p.ev, [k |-> "err", e |-> "Task.Terminated"])
                 ELSE x1

(* on_response(result) of the Task state whose event is ev (id) *)
OnResponse(x, id, ev, result) ==
    LET st == Def[ev.state]
    IN IF result.k = "err"
       THEN LET x1 == CancelTask(x, id)
                x2 == HandleError(x1, ev.state, ev, result.e, id)
            IN Ack(x2, id)
       ELSE LET x1 == [x EXCEPT !.e.cancellers = Del(@, id)]
                ev1 == [ev EXCEPT !.data = Data(result.v)]
            IN IF st.end THEN HandleTerminal(x1, "Task", ev1, id)
               ELSE Ack(ChangeState(x1, "Task", st.next, ev1), id)

(* on_timeout of a Wait state (error = "" when the wait completes normally) *)
WaitDone(x, id, ev, error) ==
    LET st == Def[ev.state]
        x1 == [x EXCEPT !.e.cancellers = Del(@, id)]
    IN IF error # "" THEN Ack(HandleError(x1, ev.state, ev, error, id), id)
       ELSE IF st.end THEN HandleTerminal(x1, "Wait", ev, id)
       ELSE Ack(ChangeState(x1, "Wait", st.next, ev), id)

BranchIdOf(ev) == IF ev.branch = <<>> THEN <<>> ELSE Top(ev.branch).id

(* asl_state_Task_delegate -> task_dispatcher.execute_task (rpcmessage) *)
TaskDelegate(x, id, ev, red) ==
    LET st == Def[ev.state]
        x1 == [x EXCEPT !.e.cancellers = Upd(@, id, [type |-> "Function", task |-> id, ev |-> ev]),
                        !.e.timers = @ \cup {[kind |-> "tasktimeout", id |-> id, ev |-> ev, red |-> FALSE]},
                        !.e.pending = Upd(@, id, [id |-> id, ev |-> ev, bid |-> BranchIdOf(ev)])]
    IN IF red THEN x1
       ELSE EmitAll(x1, <<Pub(st.fn, [kind |-> "rpc", corr |-> id, fn |-> st.fn, payload |-> (IF IsErr(ev.data) THEN [Error |-> ev.data.e] ELSE ev.data.v), exec |-> ev.exec]),
                          HistOp(ev.exec, "LambdaFunctionScheduled")>>)

(* the code mints a fresh uuid per run of a Parallel/Map delegate: the event that is entering, and the incarnation *)
(* of the engine that runs it (a redelivered event fans out AGAIN, under a new id)                              *)
FanId(id) == IF crashes = 0 THEN id ELSE Append(id, 100 + crashes)

(* asl_state_Parallel_delegate *)
ParallelDelegate(x, id, ev) ==
    LET st == Def[ev.state]
        ex == ev.exec
        n == Len(st.branches)
        (* a Parallel inside a branch records its type in the enclosing results *)
        x0 == IF ev.branch # <<>> /\ HasBM(x, ex) /\ Top(ev.branch).id \in DOMAIN BM(x, ex) /\ Top(ev.branch).index # NoIdx
              THEN SetRes(x, ex, Top(ev.branch).id, [BM(x, ex)[Top(ev.branch).id] EXCEPT !.state[Top(ev.branch).index + 1] = "Parallel"])
              ELSE x
        x1 == Emit(x0, HistOp(ex, "ParallelStateStarted"))
        RECURSIVE Launch(_, _)
        Launch(y, k) ==
            IF k > n THEN y
            ELSE LET f == [Frame(FanId(id), k - 1, n, 0, NoIdx, ev.data.v, ev.state) EXCEPT !.retry = ev.retry]
                     b == Event(NextId(y), ex, st.branches[k], ev.data, Append(ev.branch, f), 0)
                 IN Launch(Emit(y, Pub("inst", b)), k + 1)
    IN Ack(Launch(x1, 1), id)

(* asl_state_Map_delegate *)
MapDelegate(x, id, ev) ==
    LET st == Def[ev.state]
        ex == ev.exec
        reentry == ev.branch # <<>> /\ Top(ev.branch).index = NoIdx /\ Top(ev.branch).parent = ev.state
        items == ev.data.v
        n == Len(items)
        start == IF reentry THEN Top(ev.branch).rstart ELSE 0
        mcc == IF st.mc = 0 THEN n ELSE st.mc
        end == IF start + mcc < n THEN start + mcc ELSE n
        base == IF reentry THEN SubSeq(ev.branch, 1, Len(ev.branch) - 1) ELSE ev.branch
        mapid == IF reentry THEN Top(ev.branch).id ELSE FanId(id)
        x0 == IF ~reentry /\ n > 0 /\ ev.branch # <<>> /\ HasBM(x, ex) /\ Top(ev.branch).id \in DOMAIN BM(x, ex) /\ Top(ev.branch).index # NoIdx
              THEN SetRes(x, ex, Top(ev.branch).id, [BM(x, ex)[Top(ev.branch).id] EXCEPT !.state[Top(ev.branch).index + 1] = "Map"])
              ELSE x
        x1 == IF n > 0 /\ ~reentry THEN Emit(x0, HistOp(ex, "MapStateStarted")) ELSE x0
        RECURSIVE Launch(_, _)
        Launch(y, k) ==
            IF k > end THEN y
            ELSE LET f == [Frame(mapid, k - 1, n, start, end, items, ev.state) EXCEPT !.retry = IF reentry THEN Top(ev.branch).retry ELSE ev.retry]
                     b == Event(NextId(y), ex, st.proc, Data(items[k]), Append(base, f), 0)
                 IN Launch(EmitAll(y, <<HistOp(ex, "MapIterationStarted"), Pub("inst", b)>>), k + 1)
    IN IF n > 0 THEN Ack(Launch(x1, start + 1), id)
       ELSE LET ev1 == [ev EXCEPT !.data = Data(<<>>)]
            IN IF st.end THEN HandleTerminal(x1, "Map", ev1, id)
               ELSE Ack(ChangeState(x1, "Map", st.next, ev1), id)

(* ---- Choice ------------------------------------------------------------------------ *)
(* asl_state_Choice: the rules are tried in order, the first that holds names the next state, else Default, else *)
(* States.NoChoiceMatched.  The rule language of the model: comparisons of the value at a path of member names    *)
(* (eq / gt / lt / ge / le against a literal of the same type, present) combined with and / or / not -- the       *)
(* typed core of spec/Choice.tla (Layer A decides the full operator table; what this layer adds is the protocol   *)
(* around a data-dependent transition: which event is published, what the history says, when the trigger is       *)
(* acknowledged, and what happens to a branch whose Choice matches nothing).                                      *)
(* Lookup and RuleHolds live in EngineChoice.tla (a constant module, so that MC_EngineChoice can check them against Layer A) *)
ChoiceValue(d) == IF IsErr(d) THEN [Error |-> d.e] ELSE d.v
ChoiceNext(st, d) ==
    LET v == ChoiceValue(d)
        hits == {i \in 1..Len(st.rules) : RuleHolds(st.rules[i], v)}
    IN IF hits = {} THEN st.dflt
       ELSE st.rules[CHOOSE i \in hits : \A j \in hits : i <= j].next

(* ---- notify --------------------------------------------------------------------- *)
StartExecution(x, ev) ==
    EmitAll(x, <<RecOp(ev.exec, "RUNNING", Data(<<>>)), HistOp(ev.exec, "ExecutionStarted"), NoteOp(ev.exec, "RUNNING")>>)

Notify(x, id, ev0, red) ==
    LET starting == ev0.state = ""
        name == IF starting THEN StartAt ELSE ev0.state
        ev == [ev0 EXCEPT !.state = name]
        st == Def[name]
        x1 == IF starting THEN StartExecution(x, ev) ELSE x
        b == BranchHasTerminated(x1, st.type, ev, id)
    IN IF b.term THEN b.x
       ELSE
       LET reent == st.type = "Map" /\ ev.branch # <<>> /\ Top(ev.branch).index = NoIdx /\ Top(ev.branch).parent = name
           x2 == IF ev.retry = 0 /\ ~reent THEN Emit(b.x, HistOp(ev.exec, st.type \o "StateEntered")) ELSE b.x
       IN CASE st.type = "Pass" ->
                 LET ev1 == IF st.result.set THEN [ev EXCEPT !.data = Data(st.result.v)] ELSE ev
                 IN IF st.end THEN HandleTerminal(x2, "Pass", ev1, id)
                    ELSE Ack(ChangeState(x2, "Pass", st.next, ev1), id)
            [] st.type = "Choice" ->
                 LET nx == ChoiceNext(st, ev.data)
                 IN IF nx # "" THEN Ack(ChangeState(x2, "Choice", nx, ev), id)
                    ELSE Ack(HandleError(x2, name, ev, "States.NoChoiceMatched", id), id)
            [] st.type = "Succeed" -> HandleTerminal(x2, "Succeed", ev, id)
            [] st.type = "Fail" -> HandleTerminal(x2, "Fail", [ev EXCEPT !.data = ErrData(st.error)], id)
            [] st.type = "Wait" ->
                 [x2 EXCEPT !.e.timers = @ \cup {[kind |-> "wait", id |-> id, ev |-> ev, red |-> red]},
                            !.e.cancellers = Upd(@, id, [type |-> "Timeout", task |-> id, ev |-> ev])]
            [] st.type \in {"Task", "Parallel", "Map"} ->
                 [x2 EXCEPT !.e.timers = @ \cup {[kind |-> "delegate", id |-> id, ev |-> ev, red |-> red]}]

(* task_dispatcher.handle_rpcmessage_response(message) *)
HandleReply(x, m) ==
    IF m.corr \in DOMAIN x.e.pending
    THEN LET p == x.e.pending[m.corr]
             x1 == [x EXCEPT !.e.pending = Del(@, m.corr),
                             !.e.orphaned = Del(@, m.corr),
                             !.e.timers = {t \in @ : ~(t.kind \in {"tasktimeout", "retention"} /\ t.id = m.corr)}]
             term == TDTerminated(x1, p.ev.exec, p.bid)
             res == IF term THEN [k |-> "err", e |-> "Task.Terminated"] ELSE m.result
             x2 == IF term THEN x1
                   ELSE Emit(x1, HistOp(p.ev.exec, IF res.k = "err" THEN "LambdaFunctionFailed" ELSE "LambdaFunctionSucceeded"))
             x3 == OnResponse(x2, p.id, p.ev, res)
         IN Emit(x3, AckOp(m.id))
    ELSE IF m.corr \in DOMAIN x.e.orphaned THEN x       \* (a second orphan for the same id: not modelled)
    (* an instance that has been up for longer than the retention period does not park a reply without a request:
       it logs and acknowledges it at once *)
    ELSE IF x.e.aged THEN Emit(x, AckOp(m.id))
    ELSE [x EXCEPT !.e.orphaned = Upd(@, m.corr, m),
                   !.e.timers = @ \cup {[kind |-> "retention", id |-> m.corr, ev |-> m, red |-> FALSE]}]

(* the periodic scan: an orphaned reply whose request has been reconstructed is handled *)
OrphanScan(x) ==
    LET ready == {c \in DOMAIN x.e.orphaned : c \in DOMAIN x.e.pending}
        RECURSIVE Go(_, _)
        Go(y, s) == IF s = {} THEN y
                    ELSE LET c == CHOOSE c \in s : TRUE
                         (* each parked reply is handled as in its own reply frame: what it publishes is named after ITS event *)
                         IN Go(IF c \in DOMAIN y.e.orphaned /\ c \in DOMAIN y.e.pending THEN HandleReply([y EXCEPT !.t = c], y.e.orphaned[c]) ELSE y, s \ {c})
    IN Go(x, ready)

(* ---- actions ------------------------------------------------------------------------ *)
Up == eng.up
Idle == ops = <<>>
X0 == [e |-> eng, o |-> <<>>, t |-> <<0>>]
XT(trig) == [e |-> eng, o |-> <<>>, t |-> trig]

Init ==
    /\ queues = [q \in QNames |-> IF q = "shared"
                                  THEN [k \in Execs |-> Event(<<k>>, k, "", Data(Inputs[k]), <<>>, 0)] ELSE <<>>]
    /\ unacked = {}
    /\ eng = FreshEng
    /\ ops = <<>>
    /\ fr = NoFr
    /\ rec = [k \in Execs |-> [status |-> "NONE", out |-> Data(<<>>)]]
    /\ notes = [k \in Execs |-> <<>>]
    /\ hist = [k \in Execs |-> [n |-> 0, last |-> "", terms |-> 0]]
    /\ inv = [f \in Fns |-> 0]
    /\ crashes = 0
    /\ bad = ""

FrameDeliver(q) ==
    /\ Up /\ Idle /\ q \in EngineQueues /\ queues[q] # <<>>
    /\ LET m == Head(queues[q])
           trig == IF m.kind = "event" THEN m.id ELSE m.corr
           exc == IF m.kind = "event" THEN m.exec ELSE 0
       IN /\ fr' = [trig |-> trig, exec |-> exc, acked |-> FALSE, cause |-> IF m.kind = "event" THEN "deliver" ELSE "reply"]
          /\ queues' = [queues EXCEPT ![q] = Tail(@)]
          /\ unacked' = unacked \cup {[m |-> m, q |-> q]}
          /\ LET x == IF m.kind = "event"
                      THEN LET y == Notify([XT(trig) EXCEPT !.e.held = @ \cup {m.id}], m.id, m, m.red)
                           (* dispatch(): after notify, look at the orphans (schedule_orphaned_response_handler) *)
                           IN IF DOMAIN y.e.orphaned # {} THEN [y EXCEPT !.e.scan = TRUE] ELSE y
                      ELSE HandleReply(XT(trig), m)
             IN eng' = x.e /\ ops' = x.o
    /\ UNCHANGED <<rec, notes, hist, inv, crashes, bad>>

TimerKinds == {"delegate", "wait", "tasktimeout", "retention"}
IsTermStatus(s) == s \in {"SUCCEEDED", "FAILED"}

OutcomeOf(f, n) == Outcomes[f][IF n <= Len(Outcomes[f]) THEN n ELSE Len(Outcomes[f])]
(* the request of task event t has been (or will be) met with silence *)
Silent(t) == \E f \in Fns : f = Def[t.ev.state].fn /\ \E n \in 1..(inv[f] + 1) : OutcomeOf(f, n) = "silent"

FrameTimer(kind, id) ==
    /\ Up /\ Idle
    /\ \E t \in eng.timers : t.kind = kind /\ t.id = id
    /\ LET t == CHOOSE t \in eng.timers : t.kind = kind /\ t.id = id
           x0 == [XT(t.id) EXCEPT !.e.timers = @ \ {t}]
           (* a task timeout is only interesting when the worker will never answer *)
           (* design: a deferred handler re-checks that its branch is still alive; the code (F18) does not *)
           chk == IF "F18" \in Dev THEN [x |-> x0, term |-> FALSE]
                  ELSE BranchHasTerminated(x0, Def[t.ev.state].type, t.ev, t.id)
           gone == kind = "delegate" /\ (chk.term \/ ("F18" \notin Dev /\ IsTermStatus(rec[t.ev.exec].status)))
           x == CASE kind = "delegate" /\ gone -> (IF chk.term THEN chk.x ELSE Ack(x0, t.id))
                  [] kind = "delegate" /\ ~gone ->
                       (CASE Def[t.ev.state].type = "Task" -> TaskDelegate(chk.x, t.id, t.ev, t.red)
                          [] Def[t.ev.state].type = "Parallel" -> ParallelDelegate(chk.x, t.id, t.ev)
                          [] Def[t.ev.state].type = "Map" -> MapDelegate(chk.x, t.id, t.ev))
                  [] kind = "wait" -> WaitDone(x0, t.id, t.ev, "")
                  [] kind = "tasktimeout" ->
                       IF t.id \in DOMAIN x0.e.pending
                       THEN LET p == x0.e.pending[t.id]
                                x1 == [x0 EXCEPT !.e.pending = Del(@, t.id)]
                                term == TDTerminated(x1, p.ev.exec, p.bid)
                                x2 == IF term THEN x1 ELSE Emit(x1, HistOp(p.ev.exec, "LambdaFunctionTimedOut"))
                            IN OnResponse(x2, p.id, p.ev, [k |-> "err", e |-> IF term THEN "Task.Terminated" ELSE "States.Timeout"])
                       ELSE x0
                  [] kind = "retention" ->
                       IF t.id \in DOMAIN x0.e.orphaned
                       THEN Emit([x0 EXCEPT !.e.orphaned = Del(@, t.id)], AckOp(t.ev.id))
                       ELSE x0
       IN /\ (kind = "tasktimeout" => Silent(t))
          (* these timers are armed for at least the retention period: when they fire the instance has aged *)
          /\ (kind \in {"retention", "tasktimeout"} => eng.aged)
          /\ fr' = [trig |-> t.id, exec |-> IF kind = "retention" THEN 0 ELSE t.ev.exec, acked |-> FALSE, cause |-> kind]
          /\ eng' = x.e /\ ops' = x.o
    /\ UNCHANGED <<queues, unacked, rec, notes, hist, inv, crashes, bad>>

(* perform the next operation of the frame on the broker / the stores, checking the ordering clauses *)
DoOp ==
    /\ Up /\ ops # <<>>
    /\ LET o == Head(ops) IN
       /\ ops' = Tail(ops)
       /\ CASE o.op = "pub" ->
                 /\ queues' = [queues EXCEPT ![o.q] = Append(@, o.m)]
                 /\ bad' = IF bad = "" /\ fr.acked /\ o.m.kind = "event" /\ o.m.exec = fr.exec THEN "TriggerAckLast:pub"
                           ELSE IF bad = "" /\ o.m.kind = "event" /\ IsTermStatus(rec[o.m.exec].status) /\ Len(notes[o.m.exec]) = 2 THEN "NoLateEffects:pub"
                           ELSE bad
                 /\ UNCHANGED <<unacked, rec, notes, hist, fr>>
            [] o.op = "ack" ->
                 /\ unacked' = {u \in unacked : u.m.id # o.id}
                 /\ bad' = IF bad = "" /\ ~\E u \in unacked : u.m.id = o.id THEN "AckOnce" ELSE bad
                 /\ fr' = IF o.id = fr.trig THEN [fr EXCEPT !.acked = TRUE] ELSE fr
                 /\ UNCHANGED <<queues, rec, notes, hist>>
            [] o.op = "note" ->
                 /\ notes' = [notes EXCEPT ![o.x] = IF Len(@) < 3 THEN Append(@, o.s) ELSE @]
                 /\ bad' = IF bad = "" /\ fr.acked /\ o.x = fr.exec /\ IsTermStatus(o.s) THEN "TriggerAckLast:terminal-note" ELSE bad
                 /\ UNCHANGED <<queues, unacked, rec, hist, fr>>
            [] o.op = "rec" ->
                 /\ rec' = [rec EXCEPT ![o.x] = [status |-> o.s, out |-> o.out]]
                 /\ bad' = IF bad = "" /\ fr.acked /\ o.x = fr.exec /\ IsTermStatus(o.s) THEN "TriggerAckLast:terminal-record"
                           ELSE IF bad = "" /\ IsTermStatus(rec[o.x].status) THEN "TerminalFrozen"
                           ELSE bad
                 /\ UNCHANGED <<queues, unacked, notes, hist, fr>>
            [] o.op = "hist" ->
                 /\ hist' = [hist EXCEPT ![o.x] = [n |-> IF @.n < 60 THEN @.n + 1 ELSE @.n, last |-> o.ty,
                                                   terms |-> IF o.ty \in HistTerminalTypes /\ @.terms < 2 THEN @.terms + 1 ELSE @.terms]]
                 /\ bad' = IF bad = "" /\ hist[o.x].terms > 0 THEN "NothingAfterTerminal" ELSE bad
                 /\ UNCHANGED <<queues, unacked, rec, notes, fr>>
    /\ UNCHANGED <<eng, inv, crashes>>

Worker(f) ==
    /\ (Idle \/ ~Up) /\ queues[f] # <<>>
    /\ LET m == Head(queues[f])
           n == inv[f] + 1
           out == OutcomeOf(f, n)
           reply == [kind |-> "reply", id |-> <<0>> \o m.corr \o <<n>>, corr |-> m.corr, exec |-> m.exec, red |-> FALSE,
                     result |-> IF out \in {"ok", "okv"} THEN [k |-> "ok", v |-> [fn |-> f, in |-> m.payload]] ELSE [k |-> "err", e |-> out]]
       IN /\ inv' = [inv EXCEPT ![f] = n]
          /\ queues' = IF out = "silent" THEN [queues EXCEPT ![f] = Tail(@)]
                       ELSE [queues EXCEPT ![f] = Tail(@), !["reply"] = Append(@, reply)]
    /\ UNCHANGED <<unacked, eng, ops, fr, rec, notes, hist, crashes, bad>>

(* the engine process dies: volatile state and the rest of the frame are lost; the broker requeues
   the unacknowledged deliveries at the head of their queues, flagged redelivered *)
Crash ==
    /\ Up /\ crashes < MaxCrash
    /\ eng' = [FreshEng EXCEPT !.up = FALSE]
    /\ ops' = <<>> /\ fr' = NoFr
    /\ crashes' = crashes + 1
    /\ LET back(q) == LET S == {u \in unacked : u.q = q}
                          RECURSIVE Ord(_, _)
                          (* original delivery order is not tracked: any fixed order (by id length, then value) *)
                          Ord(T, acc) == IF T = {} THEN acc
                                         ELSE LET u == CHOOSE u \in T : \A w \in T : Len(u.m.id) <= Len(w.m.id) IN Ord(T \ {u}, Append(acc, [u.m EXCEPT !.red = TRUE]))
                      IN Ord(S, <<>>)
       IN queues' = [q \in QNames |-> IF q \in EngineQueues THEN back(q) \o queues[q] ELSE queues[q]]
    /\ unacked' = {}
    /\ rec' = IF Durable THEN rec ELSE [k \in Execs |-> IF IsTermStatus(rec[k].status) THEN rec[k] ELSE [status |-> "NONE", out |-> Data(<<>>)]]
    /\ UNCHANGED <<notes, hist, inv, bad>>

Restart ==
    /\ ~Up /\ eng' = FreshEng
    /\ UNCHANGED <<queues, unacked, ops, fr, rec, notes, hist, inv, crashes, bad>>

(* time passes: the instance has now been up for longer than the orphan retention period (the model has no clock;
   this is the one fact about elapsed time that the handlers look at) *)
Age ==
    /\ Up /\ Idle /\ ~eng.aged
    (* an engine that has something to deliver or a deferred handler to run does so before seconds pass *)
    /\ \A q \in EngineQueues : queues[q] = <<>>
    /\ ~\E t \in eng.timers : t.kind = "delegate"
    /\ eng' = [eng EXCEPT !.aged = TRUE]
    /\ UNCHANGED <<queues, unacked, ops, fr, rec, notes, hist, inv, crashes, bad>>

IdSpace == UNION {{t.id : t \in eng.timers}}

(* the periodic scan of the orphaned replies (handle_orphaned_responses) *)
FrameScan ==
    /\ Up /\ Idle /\ eng.scan
    /\ LET y == OrphanScan([X0 EXCEPT !.e.scan = FALSE])
           x == IF DOMAIN y.e.orphaned # {} THEN [y EXCEPT !.e.scan = TRUE] ELSE y
       IN /\ x.e # eng \/ x.o # <<>>        \* (a scan that changes nothing is a stuttering step)
          /\ eng' = x.e /\ ops' = x.o
          /\ fr' = [trig |-> <<0>>, exec |-> 0, acked |-> FALSE, cause |-> "orphanscan"]
    /\ UNCHANGED <<queues, unacked, rec, notes, hist, inv, crashes, bad>>

Next ==
    \/ \E q \in EngineQueues : FrameDeliver(q)
    \/ \E kind \in TimerKinds : \E id \in IdSpace : FrameTimer(kind, id)
    \/ FrameScan
    \/ DoOp
    \/ Age
    \/ \E f \in Fns : Worker(f)
    \/ Crash
    \/ Restart

Spec == Init /\ [][Next]_vars /\ WF_vars(Next)

(* ---- properties (the clauses of Props over the observation variables) -------------- *)
NoBadOp == bad = ""
NotifOK == \A k \in Execs : NotifSeqOK(IF Len(notes[k]) <= 2 THEN notes[k] ELSE notes[k])
Quiescent == Up /\ Idle /\ (\A q \in QNames : queues[q] = <<>>)
             /\ \A t \in eng.timers : t.kind = "retention"
AllDone == \A k \in Execs : Len(notes[k]) = 2
Drained == (Quiescent /\ AllDone) =>
              /\ unacked \subseteq {u \in unacked : u.m.kind = "reply"}
              /\ eng.held = {} /\ DOMAIN eng.bm = {} /\ DOMAIN eng.pending = {} /\ DOMAIN eng.cancellers = {}
NoLoss == Quiescent => AllDone
(* with a crash budget (C04): whatever the crash point and the schedule, once nothing is left to do every *)
(* execution has announced a terminal status -- nothing is silently lost.  (The announcements themselves  *)
(* may repeat: a handler cut short by the crash runs again.)                                              *)
TerminalReached(k) == \E i \in 1..Len(notes[k]) : IsTermStatus(notes[k][i])
NoLossUnderCrash == Quiescent => \A k \in Execs : TerminalReached(k)

(* what the machine computes when no task fails (big-step; branch and item order) *)
RECURSIVE Eval(_, _)
Eval(name, v) ==
    LET st == Def[name]
        out == CASE st.type = "Pass" -> (IF st.result.set THEN st.result.v ELSE v)
                 [] st.type = "Task" -> [fn |-> st.fn, in |-> v]
                 [] st.type = "Parallel" -> [k \in 1..Len(st.branches) |-> Eval(st.branches[k], v)]
                 [] st.type = "Map" -> [k \in 1..Len(v) |-> Eval(st.proc, v[k])]
                 [] OTHER -> v
        nx == IF st.type = "Choice" THEN ChoiceNext(st, Data(v)) ELSE st.next
    IN IF st.end \/ st.type = "Succeed" \/ nx = "" THEN out ELSE Eval(nx, out)
(* the machine itself can fail on this input without any task failing: a Fail state, or a Choice that matches nothing *)
RECURSIVE MayFail(_, _)
MayFail(name, v) ==
    LET st == Def[name]
        here == CASE st.type = "Fail" -> TRUE
                  [] st.type = "Choice" -> ChoiceNext(st, Data(v)) = ""
                  [] st.type = "Parallel" -> \E k \in 1..Len(st.branches) : MayFail(st.branches[k], v)
                  [] st.type = "Map" -> \E k \in 1..Len(v) : MayFail(st.proc, v[k])
                  [] OTHER -> FALSE
        out == CASE st.type = "Pass" -> (IF st.result.set THEN st.result.v ELSE v)
                 [] st.type = "Task" -> [fn |-> st.fn, in |-> v]
                 [] st.type = "Parallel" -> [k \in 1..Len(st.branches) |-> Eval(st.branches[k], v)]
                 [] st.type = "Map" -> [k \in 1..Len(v) |-> Eval(st.proc, v[k])]
                 [] OTHER -> v
        nx == IF st.type = "Choice" THEN ChoiceNext(st, Data(v)) ELSE st.next
    IN here \/ (~(st.end \/ st.type = "Succeed") /\ MayFail(nx, out))
AllOK == \A f \in Fns : \A n \in 1..Len(Outcomes[f]) : Outcomes[f][n] = "ok"
JoinPositional == AllOK => \A k \in Execs : (rec[k].status = "SUCCEEDED" /\ ~MayFail(StartAt, Inputs[k]))
                                                => rec[k].out = Data(Eval(StartAt, Inputs[k]))
EventuallyDone == <>[]AllDone
=============================================================================
