------------------------------ MODULE Timestamps ------------------------------
(***************************************************************************)
(* RFC 3339 date-time text -> instant, with integers only (C08, C14).      *)
(* The text is a tuple of one-character strings:                           *)
(*      YYYY-MM-DDTHH:MM:SS[.fraction](Z|z|+HH:MM|-HH:MM)                  *)
(* The instant is <<days since 1970-01-01, second of the day, microseconds>>*)
(* (fractions beyond microseconds are truncated, as every consumer of the  *)
(* engine's clock has microsecond resolution).                             *)
(***************************************************************************)
EXTENDS Integers, Sequences, TLC

Dg(c) == CASE c = "0" -> 0 [] c = "1" -> 1 [] c = "2" -> 2 [] c = "3" -> 3 [] c = "4" -> 4
           [] c = "5" -> 5 [] c = "6" -> 6 [] c = "7" -> 7 [] c = "8" -> 8 [] c = "9" -> 9
IsDigit(c) == c \in {"0", "1", "2", "3", "4", "5", "6", "7", "8", "9"}

RECURSIVE Num(_)
Num(s) == IF s = <<>> THEN 0 ELSE 10 * Num(SubSeq(s, 1, Len(s) - 1)) + Dg(s[Len(s)])
AllDigits(s) == \A i \in 1..Len(s) : IsDigit(s[i])

(* days since 1970-01-01 of a proleptic Gregorian date (Hinnant's days_from_civil) *)
DaysFromCivil(y0, m, d) ==
  LET y   == IF m <= 2 THEN y0 - 1 ELSE y0
      era == (IF y >= 0 THEN y ELSE y - 399) \div 400
      yoe == y - era * 400
      mp  == (m + 9) % 12
      doy == (153 * mp + 2) \div 5 + d - 1
      doe == yoe * 365 + yoe \div 4 - yoe \div 100 + doy
  IN era * 146097 + doe - 719468

Zulu(s) == s[Len(s)] \in {"Z", "z"}
TzLen(s) == IF Zulu(s) THEN 1 ELSE 6
Body(s) == SubSeq(s, 1, Len(s) - TzLen(s))
Frac(s) == IF Len(Body(s)) > 20 THEN SubSeq(Body(s), 21, Len(Body(s))) ELSE <<>>

(* syntactic well-formedness of what the instant is read from *)
WellFormed(s) ==
    /\ Len(s) >= 20
    /\ (Zulu(s) \/ (Len(s) >= 25 /\ s[Len(s) - 5] \in {"+", "-"} /\ s[Len(s) - 2] = ":"
                    /\ AllDigits(SubSeq(s, Len(s) - 4, Len(s) - 3)) /\ AllDigits(SubSeq(s, Len(s) - 1, Len(s)))))
    /\ LET b == Body(s) IN
       /\ Len(b) >= 19
       /\ AllDigits(SubSeq(b, 1, 4)) /\ b[5] = "-" /\ AllDigits(SubSeq(b, 6, 7)) /\ b[8] = "-"
       /\ AllDigits(SubSeq(b, 9, 10)) /\ b[11] \in {"T", "t"} /\ AllDigits(SubSeq(b, 12, 13)) /\ b[14] = ":"
       /\ AllDigits(SubSeq(b, 15, 16)) /\ b[17] = ":" /\ AllDigits(SubSeq(b, 18, 19))
       /\ (Len(b) = 19 \/ (Len(b) >= 21 /\ b[20] = "." /\ AllDigits(SubSeq(b, 21, Len(b)))))

OffsetSeconds(s) ==
    IF Zulu(s) THEN 0
    ELSE LET o == SubSeq(s, Len(s) - 5, Len(s))
             mag == Num(SubSeq(o, 2, 3)) * 3600 + Num(SubSeq(o, 5, 6)) * 60
         IN IF o[1] = "-" THEN -mag ELSE mag

Instant(s) ==
  LET y == Num(SubSeq(s, 1, 4))   mo == Num(SubSeq(s, 6, 7))   d == Num(SubSeq(s, 9, 10))
      h == Num(SubSeq(s, 12, 13)) mi == Num(SubSeq(s, 15, 16)) se == Num(SubSeq(s, 18, 19))
      frac == Frac(s)
      f6 == [i \in 1..6 |-> IF i <= Len(frac) THEN frac[i] ELSE "0"]
      sod == h * 3600 + mi * 60 + se - OffsetSeconds(s)
      dshift == IF sod < 0 THEN -1 ELSE IF sod >= 86400 THEN 1 ELSE 0
  IN <<DaysFromCivil(y, mo, d) + dshift, sod - dshift * 86400, Num(f6)>>

(* order and difference of instants *)
Before(a, b) == a[1] < b[1] \/ (a[1] = b[1] /\ (a[2] < b[2] \/ (a[2] = b[2] /\ a[3] < b[3])))
SameInstant(a, b) == a = b
(* milliseconds from a to b (floor), assuming the instants are within about 20 days of each other *)
MillisBetween(a, b) == (b[1] - a[1]) * 86400000 + (b[2] - a[2]) * 1000 + (b[3] - a[3]) \div 1000

(* ---- laws --------------------------------------------------------------- *)
(* the same moment written with another offset denotes the same instant: shifting the wall
   clock fields by the offset and naming the offset cancels out (checked in MC_Timestamps) *)
=============================================================================
