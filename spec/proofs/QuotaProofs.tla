---------------------------- MODULE QuotaProofs ----------------------------
(* Unbounded proofs (TLAPS) of the boundary laws of Quota: for ALL limits, not only the small ones MC_Quota tries. *)
EXTENDS Quota, TLAPS

ASSUME LimitsAreNat == L_DATA \in Nat /\ L_DEF \in Nat /\ L_NAME \in Nat /\ L_HIST \in Nat
ASSUME LimitsPositive == L_DATA >= 1 /\ L_DEF >= 1 /\ L_NAME >= 1

(* values exactly at a limit are accepted, values one over are refused -- at every enforcement point *)
THEOREM ExactAtTheBoundary == \A p \in Points : Accepts(p, Limit(p)) /\ ~Accepts(p, Limit(p) + 1)
  BY LimitsAreNat, LimitsPositive DEF Points, ApiPoints, ExecutionPoints, InputPoints, CallbackPoints, DefinitionPoints,
     NamePoints, StateOutputPoints, TaskResultPoints, Accepts, Accept, Limit, MinSize

(* acceptance is monotone: whatever is accepted stays accepted when it gets shorter (down to the minimum) *)
THEOREM Monotone == \A p \in Points : \A n, m \in Nat : (Accepts(p, n) /\ MinSize(p) <= m /\ m <= n) => Accepts(p, m)
  BY LimitsAreNat DEF Accepts, Accept, Limit, MinSize

(* the two readings of a size decide together or leave the case open, never contradict each other *)
THEOREM DecisionSound == \A p \in Points : \A n, a \in Nat :
            /\ (Decision(p, n, a) = "accept" => Accepts(p, n) /\ Accepts(p, a))
            /\ (Decision(p, n, a) = "refuse" => ~Accepts(p, n) /\ ~Accepts(p, a))
  BY DEF Decision

(* the history rule: a history that fits is never refused, one that enters a state beyond the limit never accepted *)
THEOREM HistorySound == \A n, e \in Nat :
            /\ (n <= L_HIST => HistoryDecision(n, e) = "accept")
            /\ (n > L_HIST /\ e > L_HIST => HistoryDecision(n, e) = "refuse")
  BY LimitsAreNat DEF HistoryDecision, Accept
=============================================================================
