------------------------------- MODULE MC_Arn -------------------------------
(***************************************************************************)
(* The round-trip laws of Arn, checked exhaustively by TLC: one state per  *)
(* (string s of length <= 4 over a ten-character alphabet, partner m).     *)
(* s plays the state-machine name with m as the execution name, and the    *)
(* execution name with m as the machine name.                              *)
(***************************************************************************)
EXTENDS Arn

Alphabet == {"a", "0", ":", "/", ".", "-", "_", " ", "u10", "#"}
Strings(n) == UNION {[1..k -> Alphabet] : k \in 0..n}
(* partners: accepted names of several shapes (refused partners would make the laws vacuous) *)
P1 == <<"a">>
Partners == {P1, <<"a", ".", "0">>, <<"-", "_">>, <<"u10", "0", "a", ".">>}

R == <<"l", "o", "c", "a", "l">>
Acc == <<"0", "1", "2">>
Sm(n) == SmArnOf(R, Acc, n)
Prefix5 == <<"a", ":", "b", ":", "c", ":", "d", ":", "e", ":">>

VARIABLES s, m
(* the strings grow one character at a time, so that TLC's workers share the enumeration *)
Init == s = <<>> /\ m \in Partners
Next == Len(s) < 4 /\ \E a \in Alphabet : s' = Append(s, a) /\ m' = m

(* every accepted name round-trips, as a machine name and as an execution name *)
LawNameAsMachine == (ValidName(s) /\ ValidName(m)) => LinkRoundTrip(Sm(s), m)
LawNameAsExecution == (ValidName(s) /\ ValidName(m)) => LinkRoundTrip(Sm(m), s)
(* (the laws that do not involve the partner are evaluated once per string, at the first partner) *)
LawNameInParts ==
    (m = P1 /\ ValidName(s)) => /\ PartsRoundTrip(R, Acc, TRUE, T_stateMachine, s)
                                /\ PartsRoundTrip(R, Acc, TRUE, T_execution, s)
                                /\ PartsRoundTrip(R, Acc, FALSE, <<>>, s)
                                /\ TextRoundTrip(Sm(s))

(* names that would break a round trip are refused (the contrapositive, spelt out) *)
BreaksSomething ==
    \/ (m = P1 /\ ~PartsRoundTrip(R, Acc, TRUE, T_stateMachine, s))
    \/ (m = P1 /\ ~TextRoundTrip(Sm(s)))
    \/ ~LinkRoundTrip(Sm(s), m)
    \/ ~LinkRoundTrip(Sm(m), s)
LawBreakersRefused == BreaksSomething => ~ValidName(s)

(* ... and the two ARN-significant characters are refused for a reason: each one does break a round trip *)
LawColonBreaks == Has(s, Colon) => ~LinkRoundTrip(Sm(m), s)
LawSlashBreaks == (m = P1 /\ Has(s, Slash)) => ~TextRoundTrip(Sm(s))

(* text -> parts -> text is the identity on every well-formed ARN whose resource has no '/'
   and no empty type (a leading ':') *)
LawTextRoundTrip == (m = P1 /\ ~Has(s, Slash) /\ (Len(s) = 0 \/ s[1] # Colon)) => TextRoundTrip(Prefix5 \o s)
LawParseTotal == m = P1 => /\ ParseArn(Prefix5 \o s).ok
                           /\ ~ParseArn(s).ok
                           /\ ParseArn(Sm(s)).ok

(* only the forbidden characters and the length decide *)
LawValidNameShape == ValidName(s) <=> (Len(s) >= 1 /\ \A i \in 1..Len(s) : s[i] \in {"a", "0", ".", "-", "_", "u10"})

ASSUME \A x \in Partners : ValidName(x)
ASSUME ~ValidName(<<>>)
ASSUME ValidName([i \in 1..80 |-> "a"])
ASSUME ~ValidName([i \in 1..81 |-> "a"])
ASSUME ValidName(<<"a">>)
ASSUME LinkRoundTrip(Sm([i \in 1..80 |-> "a"]), [i \in 1..80 |-> "b"])
=============================================================================
