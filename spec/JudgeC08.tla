------------------------------- MODULE JudgeC08 -------------------------------
(***************************************************************************)
(* Judge for C08.  Observation kinds:                                       *)
(*  ts     the real parser applied to text `s` (character list): out =      *)
(*         [kind |-> "instant", i |-> <<days, sod, us>>] | [kind |-> "exc"] *)
(*  wait   a Wait state run on the real engine under virtual time:          *)
(*         entered (ms), handled (ms: when the state's event was handled),  *)
(*         spec = [k |-> "seconds", n |-> ..] | [k |-> "timestamp", s |-> chars, base |-> instant of t=0],*)
(*         done (ms, completion instant) or -1, status                      *)
(*  task   a Task with TimeoutSeconds: entered, timeout (s), reply (ms or -1*)
(*         = never), observed outcome and its instant                       *)
(*  exect  machine TimeoutSeconds with Retry/Catch on States.ALL: outcome   *)
(* All instants in ms of virtual time relative to the scenario start.       *)
(***************************************************************************)
EXTENDS Timestamps, Naturals, Json, IOUtils

Obs == ndJsonDeserialize(IOEnv.OBS_FILE)
N == Len(Obs)
VARIABLES i, viol
vars == <<i, viol>>

MaxI(a, b) == IF a > b THEN a ELSE b

JudgeTs(o) ==
    IF ~WellFormed(o.s) THEN "ok"        \* outside the statement: any outcome
    ELSE IF Instant(o.s) # o.ref THEN "SPEC:Instant-disagrees-with-the-independent-reference"
    ELSE IF o.out.kind # "instant" THEN "Timestamp:rejected-legal-text"
    ELSE IF o.out.i = Instant(o.s) THEN "ok" ELSE "Timestamp:wrong-instant"

(* target instant of a wait, in ms relative to the scenario start *)
WaitTarget(o) ==
    IF o.spec.k = "seconds" THEN o.entered + o.spec.n * 1000
    ELSE MillisBetween(o.spec.base, Instant(o.spec.s))

JudgeWait(o) ==
    LET target == WaitTarget(o)
        want == MaxI(target, o.handled)
    IN IF o.done < 0 THEN "Wait:never-completed"
       ELSE IF o.done < target THEN "WaitNotEarly"
       ELSE IF o.done # want THEN "WaitAtTarget"
       ELSE "ok"

(* a Task not completed TimeoutSeconds after entry fails with States.Timeout at that instant,
   unless the reply came first *)
(* a Task under a machine-level TimeoutSeconds (execution started at instant 0), no reply: the timeout fires at   *)
(* c = the earlier deadline, or the instant the Task's event is handled if that is later; from the execution's     *)
(* deadline on it is the execution that has run too long -- no Catch may intercept it                             *)
MinI(a, b) == IF a < b THEN a ELSE b
JudgeTaskX(o) ==
    LET td == o.entered + o.timeout * 1000
        ed == o.exect * 1000
        c == MaxI(o.handled, MinI(td, ed))
    IN IF c >= ed
       THEN (IF o.outcome = "FAILED" /\ o.at = c THEN "ok"
             ELSE IF o.outcome = "CAUGHT" \/ o.outcome = "SUCCEEDED" THEN "ExecTimeoutUninterceptable"
             ELSE "ExecTimeoutAt")
       ELSE (IF o.outcome = o.expect /\ o.at = c THEN "ok" ELSE "TaskTimeoutAt")

JudgeTask(o) ==
    IF o.exect > 0 THEN JudgeTaskX(o) ELSE
    LET deadline == o.entered + o.timeout * 1000
        replied == o.reply >= 0 /\ o.reply < deadline
    IN IF replied
       THEN (IF o.outcome = "SUCCEEDED" /\ o.at = o.reply THEN "ok" ELSE "TaskTimeoutAt:reply-before-deadline-not-honoured")
       ELSE IF o.reply = deadline THEN "ok"     \* a tie is not fixed by the statement
       ELSE IF o.outcome = o.expect /\ o.at = deadline THEN "ok"
       ELSE IF o.at < deadline /\ o.outcome # "SUCCEEDED" THEN "TaskTimeoutAt:early"
       ELSE "TaskTimeoutAt"

JudgeExecT(o) ==
    LET deadline == o.timeout * 1000
    IN IF o.outcome = "FAILED" /\ o.error = "States.Timeout" /\ o.at = deadline THEN "ok"
       ELSE IF o.outcome = "SUCCEEDED" /\ o.at <= deadline /\ o.natural THEN "ok"
       ELSE IF o.outcome # "FAILED" \/ o.error # "States.Timeout" THEN "ExecTimeoutUninterceptable"
       ELSE "ExecTimeoutAt"

Judge(o) == CASE o.kind = "ts" -> JudgeTs(o)
              [] o.kind = "wait" -> JudgeWait(o)
              [] o.kind = "task" -> JudgeTask(o)
              [] o.kind = "exect" -> JudgeExecT(o)
              [] OTHER -> "ok"

Known == JsonDeserialize(IOEnv.KNOWN_FINDINGS)
ActiveK == {Known.findings[j].id : j \in {j \in 1..Len(Known.findings) : Known.findings[j].status = "known"}}
KF(o, v) == ""

Init == i = 1 /\ viol = <<>>
Next == /\ i <= N /\ i' = i + 1
        /\ LET o == Obs[i]  v == Judge(o)
           IN viol' = IF v = "ok" THEN viol ELSE Append(viol, [id |-> o.id, clause |-> v, kf |-> KF(o, v)])
Spec == Init /\ [][Next]_vars
Report == (i = N + 1) => PrintT("VERDICT " \o ToJson([lines |-> N, failures |-> viol]))
=============================================================================
