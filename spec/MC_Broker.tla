----------------------------- MODULE MC_Broker -----------------------------
(***************************************************************************)
(* Model checking of the broker rules themselves (the trusted base of the  *)
(* protocol checks): two queues, two connections with one channel each,    *)
(* up to MaxMsg messages, every interleaving of declare / consume /         *)
(* publish / deliver / ack / drop / connection loss and re-open.            *)
(* Invariants: the structural ones of Broker.tla and CONSERVATION -- every *)
(* published message is at every instant in exactly one place: waiting in   *)
(* its queue, delivered and unacknowledged, or settled (acknowledged /      *)
(* dropped) -- so that "requeue at the head on connection loss", on which    *)
(* the crash properties (C04) rest, can neither lose nor duplicate one.     *)
(* Action properties: a queue only ever loses its head to a delivery and    *)
(* gains at its tail by a publish, except for the requeue at its head.      *)
(***************************************************************************)
EXTENDS Broker

CONSTANTS MaxMsg, MaxLoss

Queues == {"q1", "q2"}
Conns == {"c1", "c2"}
Base(c) == IF c = "c1" THEN 1 ELSE 2

VARIABLES b,        \* the broker state (Broker.tla)
          pub,      \* serial numbers published so far: sn -> queue
          settled,  \* serial numbers acknowledged or dropped
          losses
vars == <<b, pub, settled, losses>>

Init == /\ b = EmptyBroker
        /\ pub = <<>> /\ settled = {} /\ losses = 0

(* a connection that comes back opens a NEW channel (delivery tags are per channel and start afresh) *)
IsOpen(c) == \E ch \in DOMAIN b.chconn : b.chconn[ch] = c
ChanOf(c) == IF IsOpen(c) THEN CHOOSE ch \in DOMAIN b.chconn : b.chconn[ch] = c ELSE Base(c) + 2 * losses

Declare(q) == /\ ~HasQueue(b, q) /\ b' = DeclareQueue(b, q) /\ UNCHANGED <<pub, settled, losses>>
Open(c) == /\ ~IsOpen(c)
           /\ b' = OpenChannel(b, ChanOf(c), c) /\ UNCHANGED <<pub, settled, losses>>
DoConsume(c, q, excl) ==
    /\ IsOpen(c) /\ CanConsume(b, q, excl)
    /\ ~\E x \in Consumers(b, q) : x.ch = ChanOf(c)
    /\ b' = Consume(b, q, ChanOf(c), excl, IF c = "c1" THEN 10 ELSE 0)
    /\ UNCHANGED <<pub, settled, losses>>
DoPublish(q) ==
    /\ HasQueue(b, q) /\ Len(pub) < MaxMsg
    /\ LET sn == Len(pub) + 1 IN b' = Publish(b, sn, {q}) /\ pub' = Append(pub, q)
    /\ UNCHANGED <<settled, losses>>
DoDeliver(q, c) ==
    /\ HasQueue(b, q) /\ b.queues[q] # <<>> /\ IsOpen(c)
    /\ LET sn == Head(b.queues[q])  tag == b.nexttag[ChanOf(c)] + 1
       IN CanDeliver(b, q, ChanOf(c), tag, sn) /\ b' = Deliver(b, q, ChanOf(c), tag, sn)
    /\ UNCHANGED <<pub, settled, losses>>
DoAck(u) == /\ u \in b.unacked /\ b' = Ack(b, u.ch, u.tag) /\ settled' = settled \cup {u.sn} /\ UNCHANGED <<pub, losses>>
DoAckMultiple(u) ==
    /\ u \in b.unacked /\ b' = AckMultiple(b, u.ch, u.tag)
    /\ settled' = settled \cup {v.sn : v \in {v \in b.unacked : v.ch = u.ch /\ v.tag <= u.tag}}
    /\ UNCHANGED <<pub, losses>>
DoDrop(q) == /\ HasQueue(b, q) /\ b.queues[q] # <<>>
             /\ b' = DropHead(b, q) /\ settled' = settled \cup {Head(b.queues[q])} /\ UNCHANGED <<pub, losses>>
Lose(c) == /\ IsOpen(c) /\ losses < MaxLoss
           /\ b' = ConnectionLost(b, c) /\ losses' = losses + 1 /\ UNCHANGED <<pub, settled>>

Next == \/ \E q \in Queues : Declare(q) \/ DoPublish(q) \/ DoDrop(q)
        \/ \E c \in Conns : Open(c) \/ Lose(c)
        \/ \E c \in Conns, q \in Queues, x \in BOOLEAN : DoConsume(c, q, x)
        \/ \E c \in Conns, q \in Queues : DoDeliver(q, c)
        \/ \E u \in b.unacked : DoAck(u) \/ DoAckMultiple(u)
Spec == Init /\ [][Next]_vars

(* ---- invariants ---------------------------------------------------------------------- *)
Structural == ExclusiveRespected(b) /\ TagsUnique(b) /\ NoDuplicateInQueues(b)

InQueue(sn) == \E q \in DOMAIN b.queues : \E i \in 1..Len(b.queues[q]) : b.queues[q][i] = sn
InFlight(sn) == \E u \in b.unacked : u.sn = sn
Places(sn) == (IF InQueue(sn) THEN 1 ELSE 0) + (IF InFlight(sn) THEN 1 ELSE 0) + (IF sn \in settled THEN 1 ELSE 0)
Conservation == \A sn \in 1..Len(pub) : Places(sn) = 1
(* a message never changes queue; what is in flight belongs to an open channel *)
StaysInItsQueue == /\ \A q \in DOMAIN b.queues : \A i \in 1..Len(b.queues[q]) : pub[b.queues[q][i]] = q
                   /\ \A u \in b.unacked : pub[u.sn] = u.q /\ u.ch \in DOMAIN b.chconn
(* redelivered flags only on messages that were once delivered and came back *)
RedOnlyAfterLoss == b.red # {} => losses > 0

(* ---- action properties ------------------------------------------------------------------ *)
IsSuffix(s, t) == Len(s) <= Len(t) /\ s = SubSeq(t, Len(t) - Len(s) + 1, Len(t))
IsPrefixS(s, t) == Len(s) <= Len(t) /\ s = SubSeq(t, 1, Len(s))
(* FIFO: between two states a queue loses at most its head, or gains at its tail, or gets requeued messages at its head *)
QueueStep(q) ==
    (q \in DOMAIN b.queues /\ q \in DOMAIN b'.queues) =>
        LET old == b.queues[q]  new == b'.queues[q]
        IN \/ new = old
           \/ (old # <<>> /\ new = Tail(old))
           \/ (Len(new) = Len(old) + 1 /\ IsPrefixS(old, new))
           \/ (IsSuffix(old, new) /\ \A i \in 1..(Len(new) - Len(old)) : new[i] \in b'.red)
FifoSteps == [][\A q \in Queues : QueueStep(q)]_vars
(* delivery tags of a channel only grow *)
TagsGrow == [][\A ch \in DOMAIN b.nexttag : ch \in DOMAIN b'.nexttag => b'.nexttag[ch] >= b.nexttag[ch]]_vars
=============================================================================
