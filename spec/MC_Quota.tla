------------------------------ MODULE MC_Quota ------------------------------
(***************************************************************************)
(* The quota rules model-checked with small symbolic limits (MC_Quota.cfg) *)
(* and related to the real limits: a model size L + d behaves like the     *)
(* real size L_real + d.  One state per (enforcement point, size, other    *)
(* reading of the size).                                                    *)
(***************************************************************************)
EXTENDS Quota, TLC

Real == INSTANCE Quota WITH L_DATA <- 262144, L_DEF <- 1048576, L_NAME <- 80, L_HIST <- 25000

MaxL == IF L_DATA > L_DEF THEN (IF L_DATA > L_NAME THEN L_DATA ELSE L_NAME) ELSE (IF L_DEF > L_NAME THEN L_DEF ELSE L_NAME)
Sizes == 0..(MaxL + 3)

VARIABLES p, size, alt
Init == p \in Points /\ size \in Sizes /\ alt \in Sizes
Next == UNCHANGED <<p, size, alt>>

(* every point with the same quota takes the same decision on the same size *)
LawPointsAgree ==
    \A q \in Points : (Limit(q) = Limit(p) /\ MinSize(q) = MinSize(p)) => (Accepts(q, size) = Accepts(p, size))
(* it is  size <= L  and nothing else (above the minimum) *)
LawIsSizeLeL == size >= MinSize(p) => (Accepts(p, size) <=> size <= Limit(p))
(* the boundary: L is accepted, L + 1 is refused with the documented error *)
LawBoundary == /\ Expected(p, Limit(p)) = [accepted |-> TRUE, err |-> ""]
               /\ Expected(p, Limit(p) + 1) = [accepted |-> FALSE, err |-> ErrorOf(p)]
               /\ Limit(p) >= MinSize(p)
(* monotone: whatever is accepted stays accepted when it shrinks (down to the minimum) *)
LawMonotone == (Accepts(p, size) /\ alt <= size /\ alt >= MinSize(p)) => Accepts(p, alt)
(* empty definitions and names are refused, an empty JSON text cannot be too large *)
LawEmpty == Accepts(p, 0) <=> p \notin (DefinitionPoints \cup NamePoints)
(* two readings: decided iff they agree, and then it is the decision of either *)
LawDecision == LET d == Decision(p, size, alt) IN
    /\ d \in {"accept", "refuse", "open"}
    /\ (d = "accept" => Accepts(p, size) /\ Accepts(p, alt))
    /\ (d = "refuse" => ~Accepts(p, size) /\ ~Accepts(p, alt))
    /\ (d = "open" => Accepts(p, size) # Accepts(p, alt))
    /\ Decision(p, size, size) # "open"
(* documented errors: API points answer with an API error type, execution points with the error name *)
LawErrors == /\ (p \in ExecutionPoints <=> ErrorOf(p) = "States.DataLimitExceeded")
             /\ (p \in ApiPoints => ErrorOf(p) \in {"InvalidExecutionInput", "InvalidOutput", "InvalidDefinition", "InvalidName"})
(* the model limits stand for the real ones: offset d from L behaves like offset d from L_real *)
LawShift == \A d \in -2..2 :
    (Limit(p) + d >= 0) => (Accepts(p, Limit(p) + d) = Real!Accepts(p, Real!Limit(p) + d))
(* the history quota: at the limit accepted; a state entry beyond it refused; decided
   whenever the last entry lies on the same side as the end *)
LawHistory ==
    /\ HistoryDecision(L_HIST, L_HIST) = "accept"
    /\ HistoryDecision(size, alt) \in {"accept", "refuse", "open"}
    /\ (alt <= size => /\ (size <= L_HIST => HistoryDecision(size, alt) = "accept")
                       /\ (alt > L_HIST => HistoryDecision(size, alt) = "refuse")
                       /\ ((size > L_HIST /\ alt <= L_HIST) => HistoryDecision(size, alt) = "open"))
    /\ HistoryDecision(L_HIST + 1, L_HIST + 1) = "refuse"
    /\ HistoryBounded(L_HIST + 1, 0) /\ ~HistoryBounded(L_HIST + alt + 2, alt)

(* the window L-2..L+2 of the model must lie above the minimum sizes, as the real one does *)
ASSUME L_DATA >= 3 /\ L_DEF >= 3 /\ L_NAME >= 3 /\ L_HIST >= 3
ASSUME Points = ApiPoints \cup ExecutionPoints /\ ApiPoints \cap ExecutionPoints = {}
ASSUME Real!Limit("Task.result") = 262144 /\ Real!Limit("UpdateStateMachine.definition") = 1048576
ASSUME Real!Limit("StartExecution.name") = 80 /\ Real!HistoryDecision(25000, 24998) = "accept"
ASSUME Real!HistoryDecision(25003, 25001) = "refuse" /\ Real!HistoryDecision(25002, 25000) = "open"
=============================================================================
