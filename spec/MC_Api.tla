------------------------------- MODULE MC_Api -------------------------------
(***************************************************************************)
(* Exhaustive exploration of the keyed-store reference model (C10).        *)
(* Every action parameter ranges over a constant pool, so the edge labels  *)
(* of `-dump dot,actionlabels` carry the complete call, e.g.               *)
(*     Create("n1", "r1", "d1", "t_none", "l_none", "b_ok")                *)
(* The call space is the set of calls that deviate from a plain valid call *)
(* in at most MaxDevs arguments (so every single fault, every pair of      *)
(* faults and every pair of valid variations occurs); a malformed request  *)
(* body is sent once per action.  The stored records may deviate from the  *)
(* default record in at most MaxStored fields altogether (CONSTRAINT).     *)
(* The logical clock, the dates and the last response are hidden behind    *)
(* the VIEW: they never influence what can happen next, so they must not   *)
(* multiply states; the action properties are still evaluated on every     *)
(* transition with the concrete values.                                    *)
(***************************************************************************)
EXTENDS Api
CONSTANTS MaxDevs, MaxStored

B(p) == IF p THEN 1 ELSE 0
CreateDevs(n, r, d, t, l) == B(n # "n1") + B(r # "r1") + B(d # "d1") + B(t # "t_none") + B(l # "l_none")
UpdateDevs(m, r, d, l)    == B(m # "a1") + B(r # "r_none") + B(d # "d_none") + B(l # "l_none")
Budget(b, devs) == IF b = "b_ok" THEN devs <= MaxDevs ELSE devs = 0

Create(n, r, d, t, l, b)  == Budget(b, CreateDevs(n, r, d, t, l)) /\ CreateStateMachine(n, r, d, t, l, b)
Update(m, r, d, l, b)     == Budget(b, UpdateDevs(m, r, d, l)) /\ UpdateStateMachine(m, r, d, l, b)
Delete(m, b)              == Budget(b, B(m # "a1")) /\ DeleteStateMachine(m, b)
Describe(m, b)            == Budget(b, B(m # "a1")) /\ DescribeStateMachine(m, b)
DescribeForExec(x, b)     == Budget(b, B(x # "x11")) /\ DescribeStateMachineForExecution(x, b)
ListMachines(b)           == b \in Bodies /\ ListStateMachines(b)
Start(m, e, i, b)         == Budget(b, B(m # "a1") + B(e # "e1") + B(i # "i1")) /\ StartExecution(m, e, i, b)
DescribeExec(x, b)        == Budget(b, B(x # "x11")) /\ DescribeExecution(x, b)
ListExecs(m, f, b)        == Budget(b, B(m # "a1") + B(f # "f_none")) /\ ListExecutions(m, f, b)

MCNext ==
    \/ \E n \in Names, r \in CreateRoles, d \in CreateDefs, t \in Types, l \in Logs, b \in Bodies : Create(n, r, d, t, l, b)
    \/ \E m \in MachineArns, r \in UpdateRoles, d \in UpdateDefs, l \in Logs, b \in Bodies : Update(m, r, d, l, b)
    \/ \E m \in MachineArns, b \in Bodies : Delete(m, b)
    \/ \E m \in MachineArns, b \in Bodies : Describe(m, b)
    \/ \E x \in ExecArns, b \in Bodies : DescribeForExec(x, b)
    \/ \E b \in Bodies : ListMachines(b)
    \/ \E m \in MachineArns, e \in ExecNames, i \in Inputs, b \in Bodies : Start(m, e, i, b)
    \/ \E x \in ExecArns, b \in Bodies : DescribeExec(x, b)
    \/ \E m \in MachineArns, f \in Filters, b \in Bodies : ListExecs(m, f, b)
    \/ EngineRuns

MCSpec == ApiInit /\ [][MCNext]_apiVars

StoredDevs(rec) == IF ~rec.live THEN 0
                   ELSE B(rec.def # "d1") + B(rec.role # "r1") + B(rec.typ # "STANDARD") + B(rec.log # "OFF")
Constraint == StoredDevs(sm["a1"]) + StoredDevs(sm["a2"]) <= MaxStored

View == <<[a \in LiveArns |-> [sm[a] EXCEPT !.cre = 0, !.upd = 0]], ex>>
=============================================================================
