-------------------------------- MODULE Quota --------------------------------
(***************************************************************************)
(* Service quotas and where they are enforced (C16).  The limits are       *)
(* symbolic: MC_Quota checks the rules with small values, JudgeC16         *)
(* instantiates them with the real ones.  A size is a number of characters *)
(* (of a JSON text, a definition, a name) or of events (a history).        *)
(***************************************************************************)
EXTENDS Naturals, Integers, FiniteSets

CONSTANTS L_DATA,     (* characters of an input / output / result JSON text *)
          L_DEF,      (* characters of a state machine definition *)
          L_NAME,     (* characters of a name *)
          L_HIST      (* events of an execution history *)

Accept(size, L) == size <= L

(* ---- enforcement points --------------------------------------------------- *)
(* answered by the API with a validation error *)
InputPoints == {"StartExecution.input", "StartSyncExecution.input"}
CallbackPoints == {"SendTaskSuccess.output"}
DefinitionPoints == {"CreateStateMachine.definition", "UpdateStateMachine.definition"}
NamePoints == {"CreateStateMachine.name", "StartExecution.name", "StartSyncExecution.name"}
(* decided inside an execution: the state fails *)
(* Catch.output: the Error Output placed by a Catcher's ResultPath into the state's input IS the state's output *)
StateOutputPoints == {"Pass.output", "Task.output", "Map.output", "Parallel.output", "Catch.output"}
TaskResultPoints == {"Task.result", "Task.reply"}

ApiPoints == InputPoints \cup CallbackPoints \cup DefinitionPoints \cup NamePoints
ExecutionPoints == StateOutputPoints \cup TaskResultPoints
Points == ApiPoints \cup ExecutionPoints

Limit(p) == IF p \in DefinitionPoints THEN L_DEF
            ELSE IF p \in NamePoints THEN L_NAME
            ELSE L_DATA
(* definitions and names must not be empty; a JSON text has no lower bound of its own *)
MinSize(p) == IF p \in DefinitionPoints \cup NamePoints THEN 1 ELSE 0

(* the documented answer when the quota refuses: an API error type, or the error name with
   which the state fails *)
ErrorOf(p) == IF p \in InputPoints THEN "InvalidExecutionInput"
              ELSE IF p \in CallbackPoints THEN "InvalidOutput"
              ELSE IF p \in DefinitionPoints THEN "InvalidDefinition"
              ELSE IF p \in NamePoints THEN "InvalidName"
              ELSE "States.DataLimitExceeded"

Accepts(p, size) == size >= MinSize(p) /\ Accept(size, Limit(p))
Expected(p, size) == IF Accepts(p, size) THEN [accepted |-> TRUE, err |-> ""]
                     ELSE [accepted |-> FALSE, err |-> ErrorOf(p)]

(* Where the JSON text of a value is not unique (the engine has to serialise a value itself),
   two readings of the size are handed in; the outcome is decided only if they agree.
   "accept" | "refuse" | "open" *)
Decision(p, size, alt) ==
    IF Accepts(p, size) = Accepts(p, alt) THEN (IF Accepts(p, size) THEN "accept" ELSE "refuse") ELSE "open"

(* ---- the history quota ------------------------------------------------------------------ *)
(* natural: the number of events the execution would log if nothing stopped it;
   lastEntry: the number of its last state-entered event.
   An execution whose whole history fits is not failed for its history; one that would still
   enter a state with more than L_HIST events logged is failed (no error name is documented).
   In between -- only closing events (the last state's exit, the execution's end) lie beyond
   the limit -- the statement does not say whether they count: open. *)
HistoryDecision(natural, lastEntry) ==
    IF Accept(natural, L_HIST) THEN "accept"
    ELSE IF ~Accept(lastEntry, L_HIST) THEN "refuse"
    ELSE "open"
(* "rather than growing without bound": a failed execution has stopped by the first state
   entry beyond the limit; gap = the largest number of events between two state entries *)
HistoryBounded(stored, gap) == stored <= L_HIST + gap + 1
=============================================================================
