------------------------------ MODULE MC_RefPath ------------------------------
(***************************************************************************)
(* The algebraic laws of RefPath, checked exhaustively by TLC over a small *)
(* alphabet: put-get, frame, `$` = replace, totality of Placeability.      *)
(* One "state" per (document, path, result) triple.                        *)
(***************************************************************************)
EXTENDS RefPath

Scalars == {JNull, JBool(TRUE), JNum(0), JStr("s")}
Keys == {"a", "b"}
(* depth-1 values *)
Objs1 == {JObj(<<>>, <<>>)} \cup {JObj(<<k>>, <<v>>) : k \in Keys, v \in Scalars}
         \cup {JObj(<<"a", "b">>, <<v, w>>) : v \in Scalars, w \in Scalars}
Arrs1 == {JArr(<<>>)} \cup {JArr(<<v>>) : v \in Scalars} \cup {JArr(<<v, w>>) : v \in {JNum(0)}, w \in Scalars}
Vals1 == Scalars \cup Objs1 \cup Arrs1
(* depth-2 documents *)
Docs == Vals1 \cup {JObj(<<k>>, <<v>>) : k \in Keys, v \in Vals1}
        \cup {JObj(<<"a", "b">>, <<v, w>>) : v \in Objs1 \cup Arrs1, w \in {JNum(0), JObj(<<"a">>, <<JNull>>)}}
        \cup {JArr(<<v>>) : v \in Objs1 \cup Arrs1}
Steps == {KeyStep("a"), KeyStep("b"), IdxStep(0), IdxStep(1)}
Paths == {<<>>} \cup {<<s>> : s \in Steps} \cup {<<s, u>> : s \in Steps, u \in Steps}
         \cup {<<s, u, w>> : s \in {KeyStep("a"), IdxStep(0)}, u \in Steps, w \in {KeyStep("b"), IdxStep(1)}}
Results == {JNum(7), JObj(<<"n">>, <<JNum(1)>>), JNull}

VARIABLES d, p, r
Init == d \in Docs /\ p \in Paths /\ r \in Results
Next == UNCHANGED <<d, p, r>>

LawPutGet == PutGet(d, p, r)
LawFrame == \A o \in Paths : Frame(d, p, r, o)
LawRootReplaces == Put(d, <<>>, r) = r
LawPlaceabilityAgrees ==
    LET pl == Placeability(d, p) IN
    /\ pl \in {"yes", "no", "open"}
    /\ (pl = "yes" => ~IsFail(Put(d, p, r)))
    /\ (pl = "no" => IsFail(Put(d, p, r)))
LawSelectOfMissingIsMissing == IsMissing(Select(Missing, p))
=============================================================================
