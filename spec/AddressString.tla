----------------------------- MODULE AddressString -----------------------------
(***************************************************************************)
(* What an address string of the messaging layer declares on the broker    *)
(* (C19), and how a message maps to AMQP properties and back.              *)
(*                                                                         *)
(* An address in abstract form (the harness renders it as text):           *)
(*  [name, subject,                                                        *)
(*   node |-> [durable, autodelete : "" | "t" | "f",                       *)
(*             xq, xx, xxtype : strings ("" = absent)  -- x-declare queue / exchange / exchange-type *)
(*             xdurable, xexclusive, xautodelete : "" | "t" | "f",         *)
(*             qtype : "" | "quorum" ...  -- x-declare.arguments.x-queue-type *)
(*             nbind : 0..1  -- an explicit x-binding {exchange amq.topic, queue name, key k1}],   *)
(*   link |-> [lq : string, lexclusive : ""|"t"|"f", sexclusive : ""|"t"|"f", prio : Int (0 = absent)]] *)
(* `known`: the exchange names that exist before the address is opened.     *)
(***************************************************************************)
EXTENDS Integers, Sequences, FiniteSets, TLC

T(x, default) == IF x = "" THEN default ELSE x = "t"

(* ---- consumers ------------------------------------------------------------ *)
(* the node is an exchange when an exchange of that name exists, or when the address has a
   subject and declares that very exchange itself *)
ConsumerExchange(a, known) ==
    IF a.name = "" THEN ""
    ELSE IF a.name \in known THEN a.name
    ELSE IF a.subject # "" /\ a.node.xx = a.name THEN a.name
    ELSE ""

ConsumerQueueName(a, known) ==
    IF ConsumerExchange(a, known) = "" THEN a.name
    ELSE IF a.node.xq # "" THEN a.node.xq
    ELSE a.link.lq                       \* "" = a server-named queue

(* is the address usable at all?  a name with a subject that is not an exchange is refused *)
ConsumerRefused(a, known) ==
    a.name # "" /\ a.name \notin known /\ a.subject # "" /\ a.node.xx # a.name

ConsumerDeclares(a, known) ==
    LET x == ConsumerExchange(a, known)
        q == ConsumerQueueName(a, known)
        useLink == x # "" /\ a.node.xq = ""
        durable == IF useLink THEN FALSE ELSE (T(a.node.xdurable, FALSE) \/ T(a.node.durable, FALSE))
        exclusive == IF useLink THEN T(a.link.lexclusive, TRUE) ELSE T(a.node.xexclusive, FALSE)
        autodel == IF useLink THEN TRUE
                   ELSE (T(a.node.xautodelete, FALSE) \/ T(a.node.autodelete, FALSE) \/ q = "")
        binds == (IF a.node.nbind = 1 THEN {[x |-> "amq.topic", q |-> a.name, key |-> "k1"]} ELSE {})
                 \cup (IF x # "" /\ a.node.nbind = 0 /\ a.subject # "" THEN {[x |-> x, q |-> q, key |-> a.subject]} ELSE {})
    IN [exchanges |-> IF a.node.xx # "" THEN {[x |-> a.node.xx, xtype |-> IF a.node.xxtype = "" THEN "direct" ELSE a.node.xxtype,
                                               durable |-> T(a.node.xdurable, FALSE) \/ T(a.node.durable, FALSE)]} ELSE {},
        queue |-> [q |-> q, durable |-> durable, exclusive |-> exclusive, autodelete |-> autodel,
                   qtype |-> IF useLink \/ a.node.qtype = "" THEN "classic" ELSE a.node.qtype],
        binds |-> binds,
        consume |-> [exclusive |-> T(a.link.sexclusive, FALSE), prio |-> a.link.prio]]

(* ---- producers ------------------------------------------------------------- *)
(* a producer publishes to the exchange named by the address if it exists (or is declared by the
   address); otherwise to the default exchange with the name as routing key *)
ProducerDeclares(a, known) ==
    [exchanges |-> IF a.node.xx # "" THEN {[x |-> a.node.xx, xtype |-> IF a.node.xxtype = "" THEN "direct" ELSE a.node.xxtype,
                                            durable |-> T(a.node.xdurable, FALSE) \/ T(a.node.durable, FALSE)]} ELSE {},
     target |-> IF a.name # "" /\ (a.name \in known \/ a.node.xx = a.name) THEN [x |-> a.name, key |-> a.subject]
                ELSE [x |-> "", key |-> a.name]]

(* ---- messages -------------------------------------------------------------- *)
(* the expiration that travels: absent stays absent; a number or numeric text is truncated to an
   integer and clamped at 0; anything else becomes 0 -- always a non-negative integer in text form.
   e = [k |-> "none"] | [k |-> "int", n |-> Int] | [k |-> "bad"]  (floats are truncated by the harness into "int") *)
Clamp(e) == IF e.k = "none" THEN [set |-> FALSE, n |-> 0]
            ELSE IF e.k = "int" THEN [set |-> TRUE, n |-> IF e.n < 0 THEN 0 ELSE e.n]
            ELSE [set |-> TRUE, n |-> 0]

(* Receive(Send(m)) = m on every field but the expiration, which is clamped *)
RoundTrip(sent, got) ==
    /\ got.body = sent.body /\ got.subject = sent.subject /\ got.corr = sent.corr /\ got.replyto = sent.replyto
    /\ got.mid = sent.mid /\ got.ctype = sent.ctype /\ got.props = sent.props /\ got.durable = sent.durable
    /\ got.exp = Clamp(sent.exp)

LawClampIdempotent(e) == LET c == Clamp(e) IN c.set => (c.n >= 0 /\ Clamp([k |-> "int", n |-> c.n]) = c)
=============================================================================
