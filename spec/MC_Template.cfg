INIT Init
NEXT Next
INVARIANT LawPartition
INVARIANT LawRange
INVARIANT LawMerge
INVARIANT LawUnique
INVARIANT LawSplit
INVARIANT LawFormat
INVARIANT LawCodec
INVARIANT LawWalk
CHECK_DEADLOCK FALSE
