SPECIFICATION Spec
INVARIANT InvRefinesMapping
INVARIANT InvCacheCoherent
INVARIANT InvCacheWatched
INVARIANT InvCacheBounded
INVARIANT InvTtlApplied
INVARIANT InvFileWrittenThrough
CHECK_DEADLOCK FALSE
