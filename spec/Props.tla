-------------------------------- MODULE Props --------------------------------
(***************************************************************************)
(* Property clauses of C02, C03, C09, C11 (and the pieces of C05/C06/C08   *)
(* that are read off a trace) as predicates over OBSERVATION values only:  *)
(* notification sequences, execution records, history events, the broker   *)
(* operations of a frame, the sizes of the engine's volatile dictionaries. *)
(* The same text is evaluated by Trace.tla on every line of every recorded *)
(* run of the real engine and by the Engine model on every reachable state.*)
(***************************************************************************)
EXTENDS Naturals, Integers, Sequences, FiniteSets, TLC

Terminal == {"SUCCEEDED", "FAILED"}

(* ---- C02 ---------------------------------------------------------------- *)
(* per execution the notification statuses form a prefix of RUNNING.(S|F)     *)
NotifSeqOK(notes) ==
    \/ notes = <<>>
    \/ notes = <<"RUNNING">>
    \/ (Len(notes) = 2 /\ notes[1] = "RUNNING" /\ notes[2] \in Terminal)

IsTerminalRec(r) == r.status \in Terminal

(* stopDate set iff terminal; output set iff SUCCEEDED; error set iff FAILED; *)
(* cause set only if FAILED.  (An unset slot is JSON null or an absent key.)  *)
RecordShape(r) ==
    /\ r.status \in {"RUNNING"} \cup Terminal
    /\ (r.stop.set <=> IsTerminalRec(r))
    /\ (r.output.set <=> r.status = "SUCCEEDED")
    /\ (r.error.set <=> r.status = "FAILED")
    /\ (r.cause.set => r.status = "FAILED")
    /\ r.start.set

(* the fields that must never change once the record is terminal              *)
FrozenPart(r) == [status |-> r.status, output |-> r.output, error |-> r.error,
                  cause |-> r.cause, stop |-> r.stop]

TerminalFrozen(old, new) == IsTerminalRec(old) => FrozenPart(new) = FrozenPart(old)

(* ---- C11 ---------------------------------------------------------------- *)
EventKeys == {"version", "id", "detail-type", "source", "account", "time",
              "region", "resources", "detail"}

SeqToSet(s) == {s[i] : i \in 1..Len(s)}

NotifShape(n) ==
    /\ n.subject = n.sm \o "." \o n.status
    /\ SeqToSet(n.evkeys) = EventKeys
    /\ n.source = "aws.states"
    /\ n.dtype = "Step Functions Execution Status Change"
    /\ n.resources = <<n.exec>>
    /\ n.version = "0"
    /\ n.start.set /\ n.start.unit = "ms" /\ n.start.isint
    /\ (n.stop.set => (n.stop.unit = "ms" /\ n.stop.isint))
    /\ (n.stop.set <=> n.status \in Terminal)

(* the stored record keeps epoch seconds                                      *)
RecordKeepsSeconds(r) ==
    /\ (r.start.set => r.start.unit = "s")
    /\ (r.stop.set => r.stop.unit = "s")

(* record and notification detail tell the same story (dates: ms = floor)     *)
NoteAgreesWithRecord(n, r) ==
    /\ n.status = r.status
    /\ n.exec = r.arn
    /\ n.sm = r.sm
    /\ n.name = r.name
    /\ n.input = r.input
    /\ n.output = r.output
    /\ n.error = r.error
    /\ n.cause = r.cause
    /\ (r.start.set /\ r.start.unit = "s" /\ n.start.unit = "ms") => n.start.ms = r.start.ms
    /\ (r.stop.set /\ r.stop.unit = "s" /\ n.stop.set /\ n.stop.unit = "ms") => n.stop.ms = r.stop.ms

(* ---- C09 ---------------------------------------------------------------- *)
HistTerminalTypes == {"ExecutionSucceeded", "ExecutionFailed", "ExecutionAborted", "ExecutionTimedOut"}

(* h: the history so far (sequence of event summaries), e: the event appended  *)
HistAppendOK(h, e) ==
    /\ e.id = Len(h) + 1
    /\ e.prev = e.id - 1
    /\ (Len(h) = 0 => e.type = "ExecutionStarted")
    /\ (Len(h) > 0 => e.type # "ExecutionStarted")
    /\ e.ts.set /\ e.ts.unit = "s"
    /\ (Len(h) > 0 =>
          LET p == h[Len(h)].ts IN p.ms < e.ts.ms \/ (p.ms = e.ts.ms /\ p.us <= e.ts.us))

(* "every state that is entered logs StateEntered ... and StateExited": an exit event is preceded by an entry of the *)
(* same state (same type and name) that no earlier exit has used up                                                   *)
StateTypeNames == {"Pass", "Task", "Choice", "Wait", "Succeed", "Fail", "Parallel", "Map"}
ExitFollowsEnter(h, e) ==
    \A t \in StateTypeNames :
        e.type = t \o "StateExited" =>
            Cardinality({i \in 1..Len(h) : h[i].type = t \o "StateEntered" /\ h[i].name = e.name})
              > Cardinality({i \in 1..Len(h) : h[i].type = t \o "StateExited" /\ h[i].name = e.name})

(* "... and, unless it failed or was cut short by a failure elsewhere in its Parallel/Map state, StateExited with its  *)
(* output": in the history of an execution that SUCCEEDED and in which nothing failed, timed out or was aborted, every  *)
(* state has been exited as often as it was entered                                                                    *)
TroubleTypes == {"ExecutionFailed", "ExecutionAborted", "ExecutionTimedOut", "LambdaFunctionFailed", "LambdaFunctionTimedOut",
                 "TaskFailed", "TaskTimedOut", "MapStateFailed", "ParallelStateFailed", "MapIterationFailed", "MapIterationAborted",
                 "MapStateAborted", "ParallelStateAborted", "FailStateEntered", "LambdaFunctionScheduleFailed", "LambdaFunctionStartFailed"}
EnteredStatesExit(h) ==
    (Len(h) > 0 /\ h[Len(h)].type = "ExecutionSucceeded" /\ \A i \in 1..Len(h) : h[i].type \notin TroubleTypes) =>
        \A t \in StateTypeNames : \A nm \in {h[i].name : i \in {i \in 1..Len(h) : h[i].type = t \o "StateEntered"}} :
            Cardinality({i \in 1..Len(h) : h[i].type = t \o "StateEntered" /\ h[i].name = nm})
              = Cardinality({i \in 1..Len(h) : h[i].type = t \o "StateExited" /\ h[i].name = nm})

NothingAfterTerminal(h) ==
    \A i \in 1..Len(h) : h[i].type \in HistTerminalTypes => i = Len(h)

HistAgreesWithRecord(h, r) ==
    IF IsTerminalRec(r)
    THEN /\ Len(h) > 0
         /\ LET z == h[Len(h)] IN
            /\ z.type = (IF r.status = "SUCCEEDED" THEN "ExecutionSucceeded" ELSE "ExecutionFailed")
            /\ (r.status = "SUCCEEDED" => z.output = r.output)
            /\ (r.status = "FAILED" => (z.error = r.error /\ z.cause = r.cause))
    ELSE \A i \in 1..Len(h) : h[i].type \notin HistTerminalTypes

(* ---- C03 ---------------------------------------------------------------- *)
DrainKinds == {"retention", "orphanscan"}

SizesEmpty(z) == z.unacked = 0 /\ z.bm = 0 /\ z.pending = 0 /\ z.cancellers = 0

(* D0: every execution terminal, nothing enabled now: only orphan retention may remain *)
DrainedD0(z, nunacked) ==
    /\ SizesEmpty(z)
    /\ SeqToSet(z.timers) \subseteq DrainKinds
    /\ (z.orphaned > 0 => "retention" \in SeqToSet(z.timers))

DrainedD1(z) == SizesEmpty(z) /\ z.orphaned = 0 /\ z.timers = <<>>
=============================================================================
