--------------------------------- MODULE Api ---------------------------------
(***************************************************************************)
(* C10: the state-machine and execution API as a keyed store.              *)
(*                                                                         *)
(* The reference model is two maps:                                        *)
(*   sm : machine ARN -> [live, name, def, role, typ, log, cre, upd]       *)
(*   ex : execution ARN -> [live, sm, name, status, input]                 *)
(* and a logical clock that stamps creationDate / updateDate.  Every API   *)
(* operation is a FUNCTION of the pre-state and the call:                  *)
(*   Response(S, c) = [status, types, body]                                *)
(*     status 200  the call succeeds, body is what is described back       *)
(*     status 400  the call is refused; `types` is the SET of admissible   *)
(*                 documented error types (one per fault of the call: the  *)
(*                 statement fixes the type per fault, not a precedence)   *)
(*     status 0    the statement is silent (malformed request body, bogus  *)
(*                 statusFilter): any answer but an internal error         *)
(*   Apply(S, c)  = the post-state (S itself unless status is 200)         *)
(*                                                                         *)
(* Arguments are SYMBOLS drawn from small constant pools of valid and      *)
(* invalid values; checks/c10.py maps every symbol to concrete request     *)
(* JSON.  A call is the record                                             *)
(*   [a, n, r, m, d, t, l, b, f, e, x, i]  (unused arguments are "")       *)
(*                                                                         *)
(* Left open on purpose (the step is not part of the model, Enabled):      *)
(*   starting an execution whose name is in use; StartExecution on an      *)
(*   EXPRESS machine (whether it is recorded); UpdateStateMachine that     *)
(*   supplies only a loggingConfiguration; the engine finishing an         *)
(*   execution whose machine has been deleted.                             *)
(***************************************************************************)
EXTENDS Naturals, FiniteSets, Sequences, TLC

(* ---- pools ---------------------------------------------------------------- *)
ValidNames  == {"n1", "n2"}
BadNames    == {"n_empty", "n_long", "n_char"}       \* "", 81 characters, a forbidden character
Names       == ValidNames \cup BadNames

ValidRoles  == {"r1", "r2"}
CreateRoles == {"r1", "r_bad", "r_none"}              \* valid, malformed, missing
UpdateRoles == {"r_none", "r1", "r2", "r_bad"}

LiveArns    == {"a1", "a2"}                           \* the ARNs of the valid names
MachineArns == LiveArns \cup {"a_ghost", "a_bad", "a_none"}   \* + unknown machine, malformed, missing
ArnOf(n)    == IF n = "n1" THEN "a1" ELSE "a2"
NameOf(a)   == IF a = "a1" THEN "n1" ELSE "n2"

ValidDefs   == {"d1", "d2"}
BadDefs     == {"d_json", "d_big", "d_obj"}           \* not JSON, over the quota, not a string
CreateDefs  == ValidDefs \cup BadDefs \cup {"d_empty"}
UpdateDefs  == ValidDefs \cup BadDefs \cup {"d_none"}

Types       == {"t_none", "STANDARD", "EXPRESS", "t_bogus"}
Logs        == {"l_none", "l_off", "l_all", "l_level", "l_nodest", "l_str"}
BadLogs     == {"l_level", "l_nodest", "l_str"}        \* bad level, destinations missing, not an object
Bodies      == {"b_ok", "b_text", "b_array"}           \* well-formed, not JSON, JSON but not an object
Filters     == {"f_none", "RUNNING", "SUCCEEDED", "f_bogus"}

ExecNames   == {"e1", "e_bad"}
Inputs      == {"i1", "i_json", "i_num"}               \* valid, not JSON, not a string
RealExecs   == {"x11", "x21"}
ExecArns    == RealExecs \cup {"x_ghost", "x_bad", "x_none"}
ExecArnOf(m, e) == IF m = "a1" THEN "x11" ELSE "x21"   \* e = "e1" is the only valid name
SmOfExec(x)     == IF x = "x11" THEN "a1" ELSE "a2"

ErrorTypes == {"StateMachineAlreadyExists", "StateMachineDoesNotExist", "ExecutionDoesNotExist",
               "InvalidArn", "InvalidName", "InvalidDefinition", "InvalidExecutionInput",
               "InvalidLoggingConfiguration", "MissingRequiredParameter", "StateMachineTypeNotSupported"}

Actions == {"Create", "Update", "Delete", "Describe", "DescribeForExec", "ListMachines",
            "Start", "DescribeExec", "ListExecs"}

(* ---- records -------------------------------------------------------------- *)
NoSm == [live |-> FALSE, name |-> "", def |-> "", role |-> "", typ |-> "", log |-> "", cre |-> 0, upd |-> 0]
NoEx == [live |-> FALSE, sm |-> "", name |-> "", status |-> "", input |-> ""]
InitState == [sm |-> [a \in LiveArns |-> NoSm], ex |-> [x \in RealExecs |-> NoEx], clock |-> 0]

Call(a, n, r, m, d, t, l, b, f, e, x, i) ==
    [a |-> a, n |-> n, r |-> r, m |-> m, d |-> d, t |-> t, l |-> l, b |-> b, f |-> f, e |-> e, x |-> x, i |-> i]
NoCall == Call("", "", "", "", "", "", "", "", "", "", "", "")

CreateCall(n, r, d, t, l, b)  == Call("Create", n, r, "", d, t, l, b, "", "", "", "")
UpdateCall(m, r, d, l, b)     == Call("Update", "", r, m, d, "", l, b, "", "", "", "")
DeleteCall(m, b)              == Call("Delete", "", "", m, "", "", "", b, "", "", "", "")
DescribeCall(m, b)            == Call("Describe", "", "", m, "", "", "", b, "", "", "", "")
DescribeForExecCall(x, b)     == Call("DescribeForExec", "", "", "", "", "", "", b, "", "", x, "")
ListMachinesCall(b)           == Call("ListMachines", "", "", "", "", "", "", b, "", "", "", "")
StartCall(m, e, i, b)         == Call("Start", "", "", m, "", "", "", b, "", e, "", i)
DescribeExecCall(x, b)        == Call("DescribeExec", "", "", "", "", "", "", b, "", "", x, "")
ListExecsCall(m, f, b)        == Call("ListExecs", "", "", m, "", "", "", b, f, "", "", "")

(* what a response describes back; `items` is the set a list call enumerates *)
NoBody == [arn |-> "", name |-> "", def |-> "", role |-> "", typ |-> "", log |-> "", status |-> "",
           input |-> "", smarn |-> "", updated |-> FALSE, items |-> {}]
Item(arn, name, typ, status, smarn) == [arn |-> arn, name |-> name, typ |-> typ, status |-> status, smarn |-> smarn]

Ok(body)    == [status |-> 200, types |-> {}, body |-> body]
Err(types)  == [status |-> 400, types |-> types, body |-> NoBody]
Open        == [status |-> 0, types |-> {}, body |-> NoBody]

(* ---- faults of single arguments -> the documented error type(s) ------------- *)
NameFaults(n) == IF n = "n_empty" THEN {"InvalidName", "MissingRequiredParameter"}
                 ELSE IF n \in BadNames THEN {"InvalidName"} ELSE {}
RoleFaults(r) == IF r = "r_bad" THEN {"InvalidArn"} ELSE {}
CreateRoleFaults(r) == IF r = "r_none" THEN {"MissingRequiredParameter", "InvalidArn"} ELSE RoleFaults(r)
DefFaults(d)  == IF d = "d_empty" THEN {"InvalidDefinition", "MissingRequiredParameter"}
                 ELSE IF d \in BadDefs THEN {"InvalidDefinition"} ELSE {}
TypeFaults(t) == IF t = "t_bogus" THEN {"StateMachineTypeNotSupported"} ELSE {}
LogFaults(l)  == IF l \in BadLogs THEN {"InvalidLoggingConfiguration"} ELSE {}
MachineFaults(S, m) ==
    IF m = "a_none" THEN {"MissingRequiredParameter"}
    ELSE IF m = "a_bad" THEN {"InvalidArn"}
    ELSE IF m = "a_ghost" THEN {"StateMachineDoesNotExist"}
    ELSE IF ~S.sm[m].live THEN {"StateMachineDoesNotExist"} ELSE {}
ExecFaults(S, x) ==
    IF x = "x_none" THEN {"MissingRequiredParameter"}
    ELSE IF x = "x_bad" THEN {"InvalidArn"}
    ELSE IF x = "x_ghost" THEN {"ExecutionDoesNotExist"}
    ELSE IF ~S.ex[x].live THEN {"ExecutionDoesNotExist"} ELSE {}
ExecNameFaults(e) == IF e = "e_bad" THEN {"InvalidName"} ELSE {}
InputFaults(i)    == IF i \in {"i_json", "i_num"} THEN {"InvalidExecutionInput"} ELSE {}

StoredType(t) == IF t = "t_none" THEN "STANDARD" ELSE t
StoredLog(l)  == IF l = "l_all" THEN "ALL" ELSE "OFF"

(* ---- what is described back -------------------------------------------------- *)
MachineBody(a, rec) == [NoBody EXCEPT !.arn = a, !.name = rec.name, !.def = rec.def, !.role = rec.role,
                                      !.typ = rec.typ, !.log = rec.log, !.updated = (rec.upd > rec.cre)]
ExecBody(x, rec)    == [NoBody EXCEPT !.arn = x, !.name = rec.name, !.status = rec.status,
                                      !.input = rec.input, !.smarn = rec.sm]
MachineItems(S) == {Item(a, S.sm[a].name, S.sm[a].typ, "", "") : a \in {a \in LiveArns : S.sm[a].live}}
StatusMatches(f, status) == f = "f_none" \/ f = status
ExecItems(S, m, f) ==
    {Item(x, S.ex[x].name, "", S.ex[x].status, m) :
        x \in {x \in RealExecs : S.ex[x].live /\ S.ex[x].sm = m /\ StatusMatches(f, S.ex[x].status)}}

(* ---- the response of every operation, a function of the pre-state ------------ *)
CreateFaults(S, c) ==
    NameFaults(c.n) \cup CreateRoleFaults(c.r) \cup DefFaults(c.d) \cup TypeFaults(c.t) \cup LogFaults(c.l)
    \cup (IF c.n \in ValidNames /\ S.sm[ArnOf(c.n)].live THEN {"StateMachineAlreadyExists"} ELSE {})
UpdateFaults(S, c) ==
    MachineFaults(S, c.m) \cup RoleFaults(c.r) \cup DefFaults(c.d) \cup LogFaults(c.l)
    \cup (IF c.r = "r_none" /\ c.d = "d_none" THEN {"MissingRequiredParameter"} ELSE {})
StartFaults(S, c) == MachineFaults(S, c.m) \cup ExecNameFaults(c.e) \cup InputFaults(c.i)
DescribeForExecFaults(S, c) ==
    LET xf == ExecFaults(S, c.x)
    IN IF xf # {} THEN xf
       ELSE IF ~S.sm[S.ex[c.x].sm].live THEN {"StateMachineDoesNotExist"} ELSE {}

Faults(S, c) ==
    CASE c.a = "Create"          -> CreateFaults(S, c)
      [] c.a = "Update"          -> UpdateFaults(S, c)
      [] c.a \in {"Delete", "Describe", "ListExecs"} -> MachineFaults(S, c.m)
      [] c.a = "DescribeForExec" -> DescribeForExecFaults(S, c)
      [] c.a = "ListMachines"    -> {}
      [] c.a = "Start"           -> StartFaults(S, c)
      [] c.a = "DescribeExec"    -> ExecFaults(S, c.x)
      [] OTHER                   -> {}

OkBody(S, c) ==
    CASE c.a = "Create"          -> [NoBody EXCEPT !.arn = ArnOf(c.n)]
      [] c.a = "Update"          -> [NoBody EXCEPT !.updated = TRUE]
      [] c.a = "Delete"          -> NoBody
      [] c.a = "Describe"        -> MachineBody(c.m, S.sm[c.m])
      [] c.a = "DescribeForExec" -> MachineBody(S.ex[c.x].sm, S.sm[S.ex[c.x].sm])
      [] c.a = "ListMachines"    -> [NoBody EXCEPT !.items = MachineItems(S)]
      [] c.a = "Start"           -> [NoBody EXCEPT !.arn = ExecArnOf(c.m, c.e)]
      [] c.a = "DescribeExec"    -> ExecBody(c.x, S.ex[c.x])
      [] c.a = "ListExecs"       -> [NoBody EXCEPT !.items = ExecItems(S, c.m, c.f)]
      [] OTHER                   -> NoBody

Response(S, c) ==
    IF c.b # "b_ok" THEN Open
    ELSE IF c.a = "ListExecs" /\ c.f = "f_bogus" THEN Open
    ELSE LET fs == Faults(S, c) IN IF fs # {} THEN Err(fs) ELSE Ok(OkBody(S, c))

(* steps the statement does not determine are not part of the model *)
(* (the ...R forms take the response R = Response(S, c), so that it is computed once) *)
EnabledR(S, c, R) ==
    IF R.status # 200 THEN TRUE
    ELSE CASE c.a = "Start"  -> S.sm[c.m].typ # "EXPRESS" /\ ~S.ex[ExecArnOf(c.m, c.e)].live
           [] c.a = "Update" -> ~(c.r = "r_none" /\ c.d = "d_none" /\ c.l # "l_none")
           [] OTHER -> TRUE
Enabled(S, c) == EnabledR(S, c, Response(S, c))

ApplyR(S, c, R) ==
    IF R.status # 200 THEN S
    ELSE CASE c.a = "Create" ->
                [S EXCEPT !.sm[ArnOf(c.n)] = [live |-> TRUE, name |-> c.n, def |-> c.d, role |-> c.r,
                                               typ |-> StoredType(c.t), log |-> StoredLog(c.l),
                                               cre |-> S.clock + 1, upd |-> S.clock + 1],
                          !.clock = S.clock + 1]
           [] c.a = "Update" ->
                [S EXCEPT !.sm[c.m] = [S.sm[c.m] EXCEPT
                                          !.role = IF c.r = "r_none" THEN @ ELSE c.r,
                                          !.def  = IF c.d = "d_none" THEN @ ELSE c.d,
                                          !.log  = IF c.l = "l_none" THEN @ ELSE StoredLog(c.l),
                                          !.upd  = S.clock + 1],
                          !.clock = S.clock + 1]
           [] c.a = "Delete" -> [S EXCEPT !.sm[c.m] = NoSm]
           [] c.a = "Start"  ->
                [S EXCEPT !.ex[ExecArnOf(c.m, c.e)] = [live |-> TRUE, sm |-> c.m, name |-> c.e,
                                                       status |-> "RUNNING", input |-> c.i]]
           [] OTHER -> S
Apply(S, c) == ApplyR(S, c, Response(S, c))

(* the environment: the engine runs every started execution to its end (the valid *)
(* definitions of the pools all succeed)                                          *)
Running(S) == {x \in RealExecs : S.ex[x].live /\ S.ex[x].status = "RUNNING"}
EngineEnabled(S) == Running(S) # {} /\ \A x \in Running(S) : S.sm[S.ex[x].sm].live
EngineApply(S) == [S EXCEPT !.ex = [x \in RealExecs |-> IF x \in Running(S)
                                                        THEN [S.ex[x] EXCEPT !.status = "SUCCEEDED"]
                                                        ELSE S.ex[x]]]
EngineCall == Call("EngineRuns", "", "", "", "", "", "", "b_ok", "", "", "", "")

(* ---- the state machine ---------------------------------------------------------- *)
VARIABLES sm, ex, clock, resp
apiVars == <<sm, ex, clock, resp>>
Cur == [sm |-> sm, ex |-> ex, clock |-> clock]
Post == [sm |-> sm', ex |-> ex', clock |-> clock']

ApiInit == /\ sm = InitState.sm /\ ex = InitState.ex /\ clock = 0
           /\ resp = [call |-> NoCall, status |-> 200, types |-> {}, body |-> NoBody]

Step(c) == LET R == Response(Cur, c)
           IN /\ EnabledR(Cur, c, R)
              /\ LET T == ApplyR(Cur, c, R)
                 IN /\ sm' = T.sm /\ ex' = T.ex /\ clock' = T.clock
                    /\ resp' = [call |-> c, status |-> R.status, types |-> R.types, body |-> R.body]

CreateStateMachine(n, r, d, t, l, b)       == Step(CreateCall(n, r, d, t, l, b))
UpdateStateMachine(m, r, d, l, b)          == Step(UpdateCall(m, r, d, l, b))
DeleteStateMachine(m, b)                   == Step(DeleteCall(m, b))
DescribeStateMachine(m, b)                 == Step(DescribeCall(m, b))
DescribeStateMachineForExecution(x, b)     == Step(DescribeForExecCall(x, b))
ListStateMachines(b)                       == Step(ListMachinesCall(b))
StartExecution(m, e, i, b)                 == Step(StartCall(m, e, i, b))
DescribeExecution(x, b)                    == Step(DescribeExecCall(x, b))
ListExecutions(m, f, b)                    == Step(ListExecsCall(m, f, b))
EngineRuns == /\ EngineEnabled(Cur)
              /\ sm' = sm /\ clock' = clock /\ ex' = EngineApply(Cur).ex
              /\ resp' = [call |-> EngineCall, status |-> 200, types |-> {}, body |-> NoBody]

(* the full call space; MC_Api explores the calls that deviate from a plain valid call in at *)
(* most MaxDevs arguments, and sends a malformed request body once per action               *)
ApiNext ==
    \/ \E n \in Names, r \in CreateRoles, d \in CreateDefs, t \in Types, l \in Logs, b \in Bodies :
          CreateStateMachine(n, r, d, t, l, b)
    \/ \E m \in MachineArns, r \in UpdateRoles, d \in UpdateDefs, l \in Logs, b \in Bodies :
          UpdateStateMachine(m, r, d, l, b)
    \/ \E m \in MachineArns, b \in Bodies : DeleteStateMachine(m, b)
    \/ \E m \in MachineArns, b \in Bodies : DescribeStateMachine(m, b)
    \/ \E x \in ExecArns, b \in Bodies : DescribeStateMachineForExecution(x, b)
    \/ \E b \in Bodies : ListStateMachines(b)
    \/ \E m \in MachineArns, e \in ExecNames, i \in Inputs, b \in Bodies : StartExecution(m, e, i, b)
    \/ \E x \in ExecArns, b \in Bodies : DescribeExecution(x, b)
    \/ \E m \in MachineArns, f \in Filters, b \in Bodies : ListExecutions(m, f, b)
    \/ EngineRuns

ApiSpec == ApiInit /\ [][ApiNext]_apiVars

(* ---- what the statement says, as invariants and action properties -------------- *)
TypeOK ==
    /\ \A a \in LiveArns : sm[a] = NoSm \/ (sm[a].live /\ sm[a].name = NameOf(a) /\ sm[a].def \in ValidDefs
                                             /\ sm[a].role \in ValidRoles /\ sm[a].typ \in {"STANDARD", "EXPRESS"}
                                             /\ sm[a].log \in {"OFF", "ALL"} /\ sm[a].cre <= sm[a].upd /\ sm[a].upd <= clock)
    /\ \A x \in RealExecs : ex[x] = NoEx \/ (ex[x].live /\ ex[x].sm = SmOfExec(x) /\ ex[x].status \in {"RUNNING", "SUCCEEDED"})
    /\ resp.types \subseteq ErrorTypes
    /\ (resp.status = 400) <=> (resp.types # {})

(* no request is answered with an internal error: the model has no 5xx at all *)
NoInternalError == resp.status \in {0, 200, 400}

(* a request that is answered with an error (or that the statement leaves open) leaves every record as it was *)
ErrorLeavesStore == [][resp'.status # 200 => (sm' = sm /\ ex' = ex)]_apiVars

(* a created machine is described back unchanged, at once *)
CreateThenDescribe ==
    [][(resp'.call.a = "Create" /\ resp'.status = 200) =>
          LET c == resp'.call  dsc == Response(Post, DescribeCall(ArnOf(c.n), "b_ok"))
          IN /\ resp'.body.arn = ArnOf(c.n)
             /\ dsc.status = 200
             /\ dsc.body.arn = ArnOf(c.n) /\ dsc.body.name = c.n /\ dsc.body.def = c.d /\ dsc.body.role = c.r
             /\ dsc.body.typ = StoredType(c.t) /\ dsc.body.log = StoredLog(c.l) /\ ~dsc.body.updated
             /\ \A a \in LiveArns \ {ArnOf(c.n)} : sm'[a] = sm[a]
             /\ ex' = ex]_apiVars

(* an update changes only the fields supplied, and updateDate strictly advances *)
UpdateChangesOnlySupplied ==
    [][(resp'.call.a = "Update" /\ resp'.status = 200) =>
          LET c == resp'.call  old == sm[c.m]  new == sm'[c.m]
          IN /\ new.live /\ new.name = old.name /\ new.typ = old.typ /\ new.cre = old.cre
             /\ new.role = (IF c.r = "r_none" THEN old.role ELSE c.r)
             /\ new.def  = (IF c.d = "d_none" THEN old.def ELSE c.d)
             /\ new.log  = (IF c.l = "l_none" THEN old.log ELSE StoredLog(c.l))
             /\ new.upd > old.upd
             /\ \A a \in LiveArns \ {c.m} : sm'[a] = sm[a]
             /\ ex' = ex]_apiVars

(* a delete is visible at once, through every operation that names the machine *)
DeleteVisibleAtOnce ==
    [][(resp'.call.a = "Delete" /\ resp'.status = 200) =>
          LET m == resp'.call.m
          IN /\ Response(Post, DescribeCall(m, "b_ok")).types = {"StateMachineDoesNotExist"}
             /\ Response(Post, ListExecsCall(m, "f_none", "b_ok")).types = {"StateMachineDoesNotExist"}
             /\ Response(Post, StartCall(m, "e1", "i1", "b_ok")).types = {"StateMachineDoesNotExist"}
             /\ \A it \in Response(Post, ListMachinesCall("b_ok")).body.items : it.arn # m
             /\ \A a \in LiveArns \ {m} : sm'[a] = sm[a]
             /\ ex' = ex]_apiVars

(* lists enumerate exactly the live set, with the status filter applied *)
ListsEnumerateLiveSet ==
    /\ LET its == Response(Cur, ListMachinesCall("b_ok")).body.items
       IN /\ \A a \in LiveArns : sm[a].live <=> (\E it \in its : it.arn = a)
          /\ Cardinality(its) = Cardinality({a \in LiveArns : sm[a].live})
          /\ \A it \in its : it.name = sm[it.arn].name /\ it.typ = sm[it.arn].typ
    /\ \A m \in LiveArns, f \in {"f_none", "RUNNING", "SUCCEEDED"} :
          sm[m].live =>
             LET its == Response(Cur, ListExecsCall(m, f, "b_ok")).body.items
             IN /\ \A x \in RealExecs :
                      (\E it \in its : it.arn = x) <=> (ex[x].live /\ ex[x].sm = m /\ (f = "f_none" \/ ex[x].status = f))
                /\ \A it \in its : it.status = ex[it.arn].status /\ it.smarn = m

(* an execution is RUNNING from StartExecution until the engine runs it *)
StartedIsRunning ==
    [][(resp'.call.a = "Start" /\ resp'.status = 200) =>
          LET x == resp'.body.arn
          IN /\ ex'[x].live /\ ex'[x].status = "RUNNING" /\ ex'[x].sm = resp'.call.m /\ ex'[x].input = resp'.call.i
             /\ sm' = sm /\ \A y \in RealExecs \ {x} : ex'[y] = ex[y]]_apiVars

(* reading never writes *)
ReadsAreReads ==
    [][resp'.call.a \in {"Describe", "DescribeForExec", "ListMachines", "DescribeExec", "ListExecs"}
          => (sm' = sm /\ ex' = ex /\ clock' = clock)]_apiVars
=============================================================================
