------------------------------- MODULE JudgeC13 -------------------------------
(***************************************************************************)
(* Judge for C13: every observation of the real evaluate_payload_template   *)
(* (and of single-Pass executions using the template as Parameters) is      *)
(* recomputed with Template and compared.                                   *)
(* Observation (all of one shape):                                          *)
(*   id, kind ("expr" | "template"), engine (through a Pass state),         *)
(*   tpl (template with [t |-> "dyn", e |-> abstract syntax] at ".$" members), *)
(*   input, ctx, facts (known answers of the uninterpreted functions),      *)
(*   out = [kind |-> "value", v |-> tagged] | [kind |-> "exc", cls |-> name] *)
(*       | [kind |-> "notjson"],                                            *)
(*   same (template, input and context deep-equal before and after),        *)
(*   seedsame (same result under another PYTHONHASHSEED),                   *)
(*   leak (the result shows a Python object representation)                 *)
(***************************************************************************)
EXTENDS Template, Json, IOUtils

Obs == ndJsonDeserialize(IOEnv.OBS_FILE)
N == Len(Obs)

VARIABLES i, viol
vars == <<i, viol>>

Env(o) == [input |-> o.input, ctx |-> o.ctx, facts |-> o.facts]
Want(o) == Walk(o.tpl, Env(o), <<>>)

(* the exception classes (error names, through the engine) the statement names *)
SpecExc(o) == IF o.engine THEN {"IntrinsicFailure", "ParameterPathFailure", "Runtime"}
              ELSE {"IntrinsicFailure", "PathMatchFailure", "ParameterPathFailure"}
ClassOf(cls) == IF cls = "IntrinsicFailure" THEN "IntrinsicFailure" ELSE "PathFailure"

JudgeOut(o, want) ==
    IF o.out.kind = "exc"
    THEN IF o.out.cls \notin SpecExc(o) THEN "ArbitraryException"
         ELSE IF MayFailWith(want, ClassOf(o.out.cls)) THEN "ok"
         ELSE IF IsTFail(want) THEN "WrongFailureClass"
         ELSE "UnexpectedFailure"
    ELSE IF o.out.kind = "value"
    THEN IF IsTFail(want) THEN "IllFormedAccepted"
         ELSE IF ~Match(o.out.v, want, o.facts) THEN "WrongValue"
         ELSE IF ~PairwiseDistinct(UuidStrings(o.out.v, want)) THEN "UuidRepeated"
         ELSE "ok"
    ELSE "ResultNotJson"

Judge(o) ==
    IF ~o.same THEN "TemplateInputOrContextModified"
    ELSE IF ~o.seedsame THEN "HashSeedDependent"
    ELSE IF o.leak THEN "InterpreterInternals"
    ELSE JudgeOut(o, Want(o))

(* ---- known findings (signatures over the case at its root cause) ---------- *)
Known == JsonDeserialize(IOEnv.KNOWN_FINDINGS)
ActiveK == {Known.findings[j].id : j \in {j \in 1..Len(Known.findings) : Known.findings[j].status = "known"}}

Tops(o) == DynExprs(o.tpl)                                     \* the expressions of the ".$" members
Nodes(o) == UNION {ExprNodes(e) : e \in Tops(o)}
Calls(o, f) == {n \in Nodes(o) : n.k = "call" /\ n.mal = "" /\ n.f = f}
ArgVals(n, o) == [j \in 1..Len(n.args) |-> NormArg(Eval(n.args[j], Env(o), <<>>))]
Wrong == {"WrongValue", "UnexpectedFailure", "IllFormedAccepted", "WrongFailureClass"}
Raised(o, classes) == o.out.kind = "exc" /\ (o.out.cls \in classes \/ (o.engine /\ o.out.cls = "Runtime"))

(* K1: a ".$" member whose value is "$" re-walks the INPUT as if it were a template: a scalar
   input raises UnboundLocalError, data keys / array strings ending in ".$" are evaluated *)
RECURSIVE HasSuffixData(_)
HasSuffixData(v) ==
    CASE v.t = "obj" -> \E j \in 1..Len(v.k) : EndsDS(v.k[j]) \/ HasSuffixData(v.v[j])
      [] v.t = "arr" -> \E j \in 1..Len(v.a) : (v.a[j].t = "str" /\ EndsDS(v.a[j].c)) \/ HasSuffixData(v.a[j])
      [] OTHER -> FALSE
K1(o, verdict) ==
    /\ \E e \in Tops(o) : e.k = "path" /\ e.p.kind = "root"
    /\ \/ IsScalar(o.input) /\ verdict \in {"ArbitraryException", "WrongFailureClass", "UnexpectedFailure"}
          /\ Raised(o, {"UnboundLocalError"})
       \/ HasSuffixData(o.input) /\ verdict \in Wrong \cup {"ArbitraryException"}

(* K2: the function name is looked up among ALL local names of the evaluator *)
K2(o, verdict) ==
    /\ \E e \in Tops(o) : e.k = "call" /\ e.mal = "" /\ e.f \notin KnownFns
    /\ verdict \in {"ArbitraryException", "IllFormedAccepted", "WrongFailureClass"}

(* K3: States.Format is str.format: no \{ \} \' \\ escapes, {0} {0.attr} {0[k]} {:spec} are
   honoured, None/True/False are rendered as Python spells them *)
FormatDeviates(n, o) ==
    /\ Len(n.args) >= 1
    /\ LET vals == ArgVals(n, o) IN
       /\ vals[1].t = "str"
       /\ \/ \E j \in 2..Len(vals) : vals[j].t # "str"
          \/ "\\" \in CharSet(vals[1].c)
          \/ LET r == FmtRun(vals[1].c, 1, Tail(vals), 1, <<>>, FALSE) IN r.ok /\ r.dub
K3(o, verdict) ==
    /\ \E n \in Calls(o, "States.Format") : FormatDeviates(n, o)
    /\ verdict \in Wrong \cup {"InterpreterInternals"}

(* K4: the regular-expression tokeniser: calls nested two deep, and a ")" inside a string of a
   nested call *)
NestedParen(e) ==
    e.k = "call" /\ \E j \in 1..Len(e.args) :
        e.args[j].k = "call" /\ \E n \in ExprNodes(e.args[j]) : n.k = "lit" /\ n.v.t = "str" /\ ")" \in CharSet(n.v.c)
K4(o, verdict) ==
    /\ \E e \in Tops(o) : e.k = "call" /\ e.mal = "" /\ (CallDepth(e) >= 2 \/ \E n \in ExprNodes(e) : NestedParen(n))
    /\ verdict \in Wrong

(* K5: escaped apostrophes and backslashes in string literals are not unescaped (and a
   literal ending in an escaped backslash is not closed) *)
K5(o, verdict) ==
    /\ \E n \in Nodes(o) : n.k = "lit" /\ n.v.t = "str" /\ CharSet(n.v.c) \cap {"'", "\\"} # {}
    /\ verdict \in Wrong

(* K6: text without "(" raises ValueError (tuple unpacking of str.split) *)
K6(o, verdict) ==
    /\ \E e \in Tops(o) : e.k = "call" /\ e.mal \in {"noopen", "bare", "empty"}
    /\ verdict \in {"ArbitraryException", "WrongFailureClass"} /\ Raised(o, {"ValueError"})

(* K7: ArrayUnique is list(set(...)): order by hash, TypeError on unhashable items, 1 == true *)
K7(o, verdict) ==
    /\ Calls(o, "States.ArrayUnique") # {}
    /\ \/ verdict \in {"WrongValue", "HashSeedDependent", "UnexpectedFailure"}      \* (a shorter result: index out of range)
       \/ verdict \in {"ArbitraryException", "WrongFailureClass"} /\ Raised(o, {"TypeError"})

(* K8: StringSplit pastes the separators into a regular-expression character class *)
RegexSpecial == {"^", "-", "\\", "]", "["}
K8(o, verdict) ==
    /\ \E n \in Calls(o, "States.StringSplit") :
          Len(n.args) = 2 /\ LET vals == ArgVals(n, o) IN vals[2].t = "str" /\ CharSet(vals[2].c) \cap RegexSpecial # {}
    /\ verdict \in Wrong

(* K9: strings inside template ARRAYS that end in ".$" are evaluated (a documented extension
   of the implementation; ValueError when they are not expressions) *)
RECURSIVE ArrayItemDS(_)
ArrayItemDS(t) ==
    CASE t.t = "obj" -> \E j \in 1..Len(t.v) : ArrayItemDS(t.v[j])
      [] t.t = "arr" -> \E j \in 1..Len(t.a) : (t.a[j].t = "str" /\ EndsDS(t.a[j].c)) \/ ArrayItemDS(t.a[j])
      [] OTHER -> FALSE
K9(o, verdict) == ArrayItemDS(o.tpl) /\ verdict \in Wrong \cup {"ArbitraryException"}

(* K10: a ".$" member whose value is a number, boolean or null raises AttributeError *)
RECURSIVE ScalarDS(_)
ScalarDS(t) ==
    CASE t.t = "obj" -> \E j \in 1..Len(t.v) : (EndsDS(t.k[j]) /\ t.v[j].t \in {"num", "bool", "null"}) \/ ScalarDS(t.v[j])
      [] t.t = "arr" -> \E j \in 1..Len(t.a) : ScalarDS(t.a[j])
      [] OTHER -> FALSE
K10(o, verdict) == ScalarDS(o.tpl) /\ verdict \in {"ArbitraryException", "WrongFailureClass"} /\ Raised(o, {"AttributeError"})

(* K11: Python's bool is an int: true/false accepted where an integer is required, 1 == true
   in ArrayContains, 0 accepted as JsonMerge's false *)
IntFns == {"States.MathAdd", "States.ArrayPartition", "States.ArrayGetItem", "States.ArrayRange", "States.MathRandom"}
BoolAsInt(n, o) ==
    LET vals == ArgVals(n, o) IN
    \/ n.f \in IntFns /\ \E j \in 1..Len(vals) : vals[j].t = "bool"
    \/ n.f = "States.JsonMerge" /\ Len(vals) = 3 /\ vals[3].t = "num"
    \/ n.f = "States.ArrayContains" /\ Len(vals) = 2 /\ vals[1].t = "arr"
       /\ \/ vals[2].t = "bool" /\ \E j \in 1..Len(vals[1].a) : vals[1].a[j].t = "num"
          \/ vals[2].t = "num" /\ \E j \in 1..Len(vals[1].a) : vals[1].a[j].t = "bool"
K11(o, verdict) ==
    /\ \E n \in Nodes(o) : n.k = "call" /\ n.mal = "" /\ BoolAsInt(n, o)
    /\ verdict \in {"IllFormedAccepted", "WrongValue"}

(* K12: MathRandom: an empty range raises ValueError, an array/object seed TypeError *)
K12(o, verdict) ==
    /\ Calls(o, "States.MathRandom") # {}
    /\ verdict \in {"ArbitraryException", "WrongFailureClass"} /\ Raised(o, {"ValueError", "TypeError"})

(* K13: ArrayRange with a negative increment uses end + 1 as the exclusive bound of a DESCENDING
   range, so the values end and end + 1 are dropped *)
K13(o, verdict) ==
    /\ \E n \in Calls(o, "States.ArrayRange") :
          Len(n.args) = 3 /\ LET vals == ArgVals(n, o) IN
             /\ \A j \in 1..3 : IntKind(vals[j]) = "int"
             /\ vals[3].n < 0 /\ vals[1].n >= vals[2].n /\ (vals[1].n - vals[2].n) % (-vals[3].n) \in {0, 1}
    /\ verdict = "WrongValue"

(* K14: ill-formed call text is accepted: missing ")", text after ")", missing comma *)
K14(o, verdict) ==
    /\ \E e \in Tops(o) : e.k = "call" /\ e.mal \in {"noclose", "trailing", "nocomma"}
    /\ verdict = "IllFormedAccepted"

KF(o, verdict) ==
    IF "KC13-1" \in ActiveK /\ K1(o, verdict) THEN "KC13-1"
    ELSE IF "KC13-9" \in ActiveK /\ K9(o, verdict) THEN "KC13-9"
    ELSE IF "KC13-10" \in ActiveK /\ K10(o, verdict) THEN "KC13-10"
    ELSE IF "KC13-6" \in ActiveK /\ K6(o, verdict) THEN "KC13-6"
    ELSE IF "KC13-14" \in ActiveK /\ K14(o, verdict) THEN "KC13-14"
    ELSE IF "KC13-2" \in ActiveK /\ K2(o, verdict) THEN "KC13-2"
    ELSE IF "KC13-4" \in ActiveK /\ K4(o, verdict) THEN "KC13-4"
    ELSE IF "KC13-5" \in ActiveK /\ K5(o, verdict) THEN "KC13-5"
    ELSE IF "KC13-3" \in ActiveK /\ K3(o, verdict) THEN "KC13-3"
    ELSE IF "KC13-7" \in ActiveK /\ K7(o, verdict) THEN "KC13-7"
    ELSE IF "KC13-8" \in ActiveK /\ K8(o, verdict) THEN "KC13-8"
    ELSE IF "KC13-13" \in ActiveK /\ K13(o, verdict) THEN "KC13-13"
    ELSE IF "KC13-12" \in ActiveK /\ K12(o, verdict) THEN "KC13-12"
    ELSE IF "KC13-11" \in ActiveK /\ K11(o, verdict) THEN "KC13-11"
    ELSE ""

Init == i = 1 /\ viol = <<>>
Next == /\ i <= N /\ i' = i + 1
        /\ LET o == Obs[i]  v == Judge(o)
           IN viol' = IF v = "ok" THEN viol ELSE Append(viol, [id |-> o.id, clause |-> v, kf |-> KF(o, v)])
Spec == Init /\ [][Next]_vars
Report == (i = N + 1) => PrintT("VERDICT " \o ToJson([lines |-> N, failures |-> viol]))
=============================================================================
