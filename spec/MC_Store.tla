------------------------------ MODULE MC_Store ------------------------------
(***************************************************************************)
(* The Store model explored exhaustively for every store kind in ONE TLC   *)
(* run: the parameter records come from a JSON file written by             *)
(* checks/c20.py (environment variable C20_CONFIGS: {"configs": [P, ...]}),*)
(* the initial states are one per configuration and `cf` (which never      *)
(* changes) says which one a state belongs to, so the state graph is the   *)
(* disjoint union of the graphs of the kinds.                              *)
(* The state holds no history and no observation variable (results are     *)
(* functions of the pre-state), so every distinct state is a distinct      *)
(* store situation.  Action parameters range over constant sets so that    *)
(* `-dump dot,actionlabels` writes them into the edge labels.              *)
(***************************************************************************)
EXTENDS Store, Json, IOUtils

Cfgs == JsonDeserialize(IOEnv.C20_CONFIGS).configs

VARIABLES st, cf
P == Cfgs[cf]
CS == {1, 2}

Op(name, c, k, f, v) == [op |-> name, c |-> c, k |-> k, f |-> f, v |-> v]
TransOK(o, t) == /\ WriteReadBack(P, st, o, t)
                 /\ TtlSet(P, st, o, t)
                 /\ SurvivesReopen(P, st, o, t)
(* the transition clauses are asserted on every explored transition (a failure stops TLC) *)
Do(o) == /\ Enabled(P, st, o)
         /\ LET t == Step(P, st, o)
            IN Assert(TransOK(o, t), <<"a transition clause of Store fails", o, st>>) /\ st' = t /\ cf' = cf

ASet(c, k, i) == Do(Op("Set", c, k, "", i))
ANestedSet(c, k, f, x) == Do(Op("NestedSet", c, k, f, x))
AAppend(c, k, x) == Do(Op("Append", c, k, "", x))
AWriteBack(c, k) == Do(Op("WriteBack", c, k, "", 0))
AGet(c, k) == Do(Op("Get", c, k, "", 0))
ACachedGet(c, k) == Do(Op("CachedGet", c, k, "", 0))
ADel(c, k) == Do(Op("Del", c, k, "", 0))
AContains(c, k) == Do(Op("Contains", c, k, "", 0))
AIter(c) == Do(Op("Iter", c, "", "", 0))
ALen(c) == Do(Op("Len", c, "", "", 0))
ASetTtl(c, k) == Do(Op("SetTtl", c, k, "", 0))
ADeliverInvalidation(c) == Do(Op("DeliverInvalidation", c, "", "", 0))
AReopen(c) == Do(Op("Reopen", c, "", "", 0))

MCInit == cf \in 1..Len(Cfgs) /\ st = Init(P)
MCNext ==
    \/ \E c \in CS, k \in Keys, i \in 1..3 : ASet(c, k, i)
    \/ \E c \in CS, k \in Keys, f \in Fields, x \in Scalars : ANestedSet(c, k, f, x)
    \/ \E c \in CS, k \in Keys, x \in Scalars : AAppend(c, k, x)
    \/ \E c \in CS, k \in Keys : AWriteBack(c, k)
    \/ \E c \in CS, k \in Keys : AGet(c, k)
    \/ \E c \in CS, k \in Keys : ACachedGet(c, k)
    \/ \E c \in CS, k \in Keys : ADel(c, k)
    \/ \E c \in CS, k \in Keys : AContains(c, k)
    \/ \E c \in CS : AIter(c)
    \/ \E c \in CS : ALen(c)
    \/ \E c \in CS, k \in Keys : ASetTtl(c, k)
    \/ \E c \in CS : ADeliverInvalidation(c)
    \/ \E c \in CS : AReopen(c)
Spec == MCInit /\ [][MCNext]_<<st, cf>>

InvRefinesMapping == StoreRefinesMapping(P, st)
InvCacheCoherent == CacheCoherent(P, st)
InvCacheWatched == CacheWatched(P, st)
InvCacheBounded == CacheBounded(P, st)
InvTtlApplied == TtlApplied(P, st)
InvFileWrittenThrough == (P.kind = "file" /\ ~st.dirty) => st.disk = st.kv
=============================================================================
