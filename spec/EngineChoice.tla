---------------------------- MODULE EngineChoice ----------------------------
(***************************************************************************)
(* The rule language in which Engine.tla (Layer B) evaluates Choice states: *)
(* typed comparisons of the value at a path of member names, combined with  *)
(* and / or / not, over plain TLA+ values (records, integers, strings).     *)
(* MC_EngineChoice checks that it agrees with Layer A (Choice.tla, the      *)
(* operator table the judge of C14 uses on the real engine) on its domain.  *)
(***************************************************************************)
EXTENDS Naturals, Integers, Sequences

RECURSIVE Lookup(_, _), RuleHolds(_, _)
Lookup(v, path) == IF path = <<>> THEN [ok |-> TRUE, v |-> v]
                   ELSE IF Head(path) \in DOMAIN v THEN Lookup(v[Head(path)], Tail(path))
                   ELSE [ok |-> FALSE, v |-> 0]
RuleHolds(r, v) ==
    CASE r.kind = "and" -> \A i \in 1..Len(r.subs) : RuleHolds(r.subs[i], v)
      [] r.kind = "or"  -> \E i \in 1..Len(r.subs) : RuleHolds(r.subs[i], v)
      [] r.kind = "not" -> ~RuleHolds(r.subs[1], v)
      [] r.kind = "cmp" ->
           LET l == Lookup(v, r.path)
           IN CASE r.op = "present" -> l.ok = r.val
                [] r.op = "eq" -> l.ok /\ l.v = r.val
                [] r.op = "gt" -> l.ok /\ l.v > r.val
                [] r.op = "lt" -> l.ok /\ l.v < r.val
                [] r.op = "ge" -> l.ok /\ l.v >= r.val
                [] r.op = "le" -> l.ok /\ l.v <= r.val
=============================================================================
