------------------------------- MODULE RefPath -------------------------------
(***************************************************************************)
(* InputPath / OutputPath / ResultPath over tagged JSON values (C12).      *)
(* A definite reference path is a sequence of steps                        *)
(*     [k |-> "key", key |-> "a"]   or   [k |-> "idx", idx |-> 0]          *)
(* (the harness renders it in dot, bracket-quoted and index notation for   *)
(* the real code, so the path *parser* of the implementation is tested     *)
(* against the abstract syntax).                                           *)
(***************************************************************************)
EXTENDS JsonValue

Missing == [t |-> "MISSING"]
IsMissing(x) == x.t = "MISSING"

KeyStep(key) == [k |-> "key", key |-> key]
IdxStep(i) == [k |-> "idx", idx |-> i]

(* ---- reading ------------------------------------------------------------ *)
StepInto(x, st) ==
    IF IsMissing(x) THEN Missing
    ELSE IF st.k = "key"
         THEN (IF IsObj(x) /\ HasKey(x, st.key) THEN Member(x, st.key) ELSE Missing)
         ELSE (IF IsArr(x) /\ st.idx >= 0 /\ st.idx < Len(x.a) THEN x.a[st.idx + 1] ELSE Missing)

RECURSIVE Select(_, _)
Select(doc, steps) ==
    IF steps = <<>> THEN doc ELSE Select(StepInto(doc, Head(steps)), Tail(steps))

(* the value an InputPath/OutputPath yields: a path kind is "null" (-> {}),  *)
(* "root" ($), "steps" on the document, or "ctx" ($$...) on the context      *)
PathValue(doc, ctx, p) ==
    CASE p.kind = "null" -> EmptyObj
      [] p.kind = "root" -> doc
      [] p.kind = "steps" -> Select(doc, p.steps)
      [] p.kind = "ctxroot" -> ctx
      [] p.kind = "ctx" -> Select(ctx, p.steps)

(* ---- writing (ResultPath) ------------------------------------------------ *)
Fail == [t |-> "FAIL"]
IsFail(x) == x.t = "FAIL"

(* Put(doc, steps, r): the tree equal to doc except that reading `steps` yields r;
   intermediate objects are created for missing members; FAIL if unplaceable *)
RECURSIVE Put(_, _, _)
Put(doc, steps, r) ==
    IF steps = <<>> THEN r
    ELSE LET st == Head(steps) IN
         IF st.k = "key"
         THEN IF IsObj(doc)
              THEN LET sub == Put(IF HasKey(doc, st.key) THEN Member(doc, st.key) ELSE EmptyObj, Tail(steps), r)
                   IN IF IsFail(sub) THEN Fail ELSE SetMember(doc, st.key, sub)
              ELSE Fail
         ELSE IF IsArr(doc) /\ st.idx >= 0 /\ st.idx < Len(doc.a)
              THEN LET sub == Put(doc.a[st.idx + 1], Tail(steps), r)
                   IN IF IsFail(sub) THEN Fail ELSE JArr([doc.a EXCEPT ![st.idx + 1] = sub])
              ELSE Fail

(* Where the States Language leaves no doubt.  Keys that look like integers are left open
   (an implementation may read `$.a.0` as an index), as is placing below a JSON null. *)
Digits == {"0", "1", "2", "3", "4", "5", "6", "7", "8", "9"}
RECURSIVE Placeability(_, _)
(* "yes" | "no" | "open" *)
Placeability(doc, steps) ==
    IF steps = <<>> THEN "yes"
    ELSE LET st == Head(steps) IN
         IF st.k = "key"
         THEN IF st.key \in Digits THEN "open"
              ELSE IF IsObj(doc)
                   THEN Placeability(IF HasKey(doc, st.key) THEN Member(doc, st.key) ELSE EmptyObj, Tail(steps))
              ELSE IF IsNull(doc) THEN "open" ELSE "no"
         ELSE IF IsArr(doc) /\ st.idx >= 0 /\ st.idx < Len(doc.a)
              THEN Placeability(doc.a[st.idx + 1], Tail(steps))
              ELSE "no"

(* the outcome of applying a ResultPath: kind null -> the input (result discarded),
   root -> the result, steps -> Put *)
ResultValue(doc, p, r) ==
    CASE p.kind = "null" -> doc
      [] p.kind = "root" -> r
      [] p.kind = "steps" -> Put(doc, p.steps, r)
      [] OTHER -> Fail

(* ---- laws (checked exhaustively by MC_RefPath over a small alphabet) ------ *)
PutGet(doc, steps, r) ==
    LET t == Put(doc, steps, r) IN IsFail(t) \/ JEq(Select(t, steps), r)

(* frame: reading any other path that does not pass through `steps` is unchanged *)
IsPrefixOf(a, b) == Len(a) <= Len(b) /\ \A i \in 1..Len(a) : a[i] = b[i]
Frame(doc, steps, r, other) ==
    LET t == Put(doc, steps, r)
    IN (IsFail(t) \/ IsPrefixOf(steps, other) \/ IsPrefixOf(other, steps))
       \/ Select(t, other) = Select(doc, other)
       \/ (IsMissing(Select(doc, other)) /\ IsMissing(Select(t, other)))
=============================================================================
