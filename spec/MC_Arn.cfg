INIT Init
NEXT Next
INVARIANT LawNameAsMachine
INVARIANT LawNameAsExecution
INVARIANT LawNameInParts
INVARIANT LawBreakersRefused
INVARIANT LawColonBreaks
INVARIANT LawSlashBreaks
INVARIANT LawTextRoundTrip
INVARIANT LawParseTotal
INVARIANT LawValidNameShape
CHECK_DEADLOCK FALSE
