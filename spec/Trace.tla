-------------------------------- MODULE Trace --------------------------------
(***************************************************************************)
(* Validation of recorded runs of the REAL engine against the              *)
(* specification.  The trace file (ndjson, IOEnv.TRACE_FILE) holds a batch *)
(* of runs; `tid` numbers them and every `world` line starts a new run.    *)
(* Each line is one step of this specification:                            *)
(*  (a) environment steps must be transitions of Broker.tla (head of       *)
(*      queue, legal consumer, next delivery tag, requeue on connection    *)
(*      loss, timers firing no earlier than due): failures are reported    *)
(*      with the pseudo-property ENV and mean the simulator is wrong;      *)
(*  (b) the observation state is updated and every clause of Props.tla     *)
(*      (and the fan-out clauses below) is evaluated; failed clauses are   *)
(*      collected in `viol` (one pass reports them all), each tagged with  *)
(*      the known finding whose territory it falls into, if any.           *)
(* The engine is constrained only through the property clauses.            *)
(***************************************************************************)
EXTENDS Naturals, Integers, Sequences, FiniteSets, TLC, Json, IOUtils, Broker, Props, KnownFindings

Tr == ndJsonDeserialize(IOEnv.TRACE_FILE)
N == Len(Tr)

VARIABLES l, st, viol
vars == <<l, st, viol>>

NoFrame == [n |-> 0, cause |-> "", kind |-> "", action |-> "", i |-> "", trig |-> {}, ackedX |-> {}, sn |-> 0, mid |-> "",
            termX |-> {}, nfailed |-> 0, failedNow |-> {}, late |-> {}, retrypub |-> FALSE, retrysib |-> FALSE]

NewEx == [notes |-> <<>>, hasrec |-> FALSE, rec |-> <<>>, recstable |-> FALSE, hist |-> <<>>,
          lastnote |-> <<>>, pendingNote |-> FALSE, sm |-> "", home |-> ""]

NoEv == [exec |-> "", stack |-> <<>>, state |-> "", sn |-> 0, stype |-> "", smid |-> ""]

Fresh(tid) ==
    [tid |-> tid, b |-> EmptyBroker, msg |-> <<>>, ev |-> <<>>, fr |-> NoFrame, ex |-> <<>>,
     timers |-> {}, rpcs |-> {}, smtype |-> <<>>, smmc |-> <<>>, smsucc |-> <<>>, store |-> "file", crashed |-> FALSE,
     launched |-> {}, failedIDs |-> {}, folen |-> <<>>, foparent |-> <<>>, taintX |-> <<>>,
     evprefix |-> "asl_workflow_events", replyprefix |-> "asl_workflow_reply_to", qtype |-> "classic"]

Init == l = 1 /\ st = Fresh(0) /\ viol = <<>>

(* ---- helpers ------------------------------------------------------------ *)
Ex(s, x) == Fn(s.ex, x, NewEx)
SetEx(s, x, r) == [s EXCEPT !.ex = Upd(@, x, r)]
Ev(s, m) == Fn(s.ev, m, NoEv)
Owner(s, m) == Ev(s, m).exec
OwnersOf(s, ms) == {Owner(s, m) : m \in ms} \ {""}
MsgExec(s, sn) == IF sn \in DOMAIN s.msg THEN s.msg[sn].exec ELSE ""
LastNote(s, x) == IF x \in DOMAIN s.ex /\ s.ex[x].notes # <<>> THEN s.ex[x].notes[Len(s.ex[x].notes)] ELSE ""
Running(s) == {x \in DOMAIN s.ex : LastNote(s, x) = "RUNNING"}
AllTerminal(s) == \A x \in DOMAIN s.ex : LastNote(s, x) \in Terminal
IsTerminalX(s, x) == \E k \in 1..Len(Ex(s, x).notes) : Ex(s, x).notes[k] \in Terminal

StackIDs(stack) == {stack[i][1] : i \in 1..Len(stack)}
StackPairs(stack) == {<<stack[i][1], stack[i][2]>> : i \in 1..Len(stack)}
TrigStacks(s) == {Ev(s, m).stack : m \in s.fr.trig}
TrigIDs(s) == UNION {StackIDs(k) : k \in TrigStacks(s)}
TrigPairs(s) == UNION {StackPairs(k) : k \in TrigStacks(s)}
MaxTrigDepth(s) == IF TrigStacks(s) = {} THEN 0
                   ELSE CHOOSE d \in {Len(k) : k \in TrigStacks(s)} : \A k \in TrigStacks(s) : Len(k) <= d
(* the k-th fan-out ID counted from the top of the (deepest) trigger's branch stack *)
TrigIDFromTop(s, k) ==
    LET deep == {z \in TrigStacks(s) : Len(z) = MaxTrigDepth(s)}
        z == CHOOSE z \in deep : TRUE
    IN IF deep = {} \/ k > Len(z) \/ k < 1 THEN "" ELSE z[Len(z) - k + 1][1]

(* is the frame working for an EXPRESS machine?  (by the machine of its trigger events) *)
FrameIsExpress(s) == \E m \in s.fr.trig : Ev(s, m).smid \in DOMAIN s.smtype /\ s.smtype[Ev(s, m).smid] = "EXPRESS"

(* ---- failures: property, clause, execution ("" = whole run), witness ------ *)
FX(prop, clause, x, w) == <<[prop |-> prop, clause |-> clause, x |-> x, w |-> ToString(w)]>>
Chk(cond, prop, clause) == IF cond THEN <<>> ELSE FX(prop, clause, "", "")
ChkW(cond, prop, clause, w) == IF cond THEN <<>> ELSE FX(prop, clause, "", w)
ChkX(cond, prop, clause, x, w) == IF cond THEN <<>> ELSE FX(prop, clause, x, w)

(* ---- carriers ------------------------------------------------------------- *)
QueuedSns(s) == UNION {{s.b.queues[q][i] : i \in 1..Len(s.b.queues[q])} : q \in DOMAIN s.b.queues}

Carried(s) ==
    LET inq == {MsgExec(s, sn) : sn \in QueuedSns(s)}
        una == {MsgExec(s, u.sn) : u \in s.b.unacked}
        rpc == {r.exec : r \in {r \in s.rpcs : r.stage = "taken"}}
        tim == UNION {OwnersOf(s, t.trig) : t \in {t \in s.timers : t.kind # "heartbeat"}}
    IN inq \cup una \cup rpc \cup tim

(* the (fan-out ID, index) pairs that something is still actively working on:
   queued events, requests queued at / taken by workers, replies on their way, armed timers *)
ActivePairs(s) ==
    LET qev == UNION {StackPairs(s.msg[sn].stack) : sn \in {z \in QueuedSns(s) : z \in DOMAIN s.msg /\ s.msg[z].kind = "event"}}
        rp  == UNION {StackPairs(Ev(s, r.base).stack) : r \in {r \in s.rpcs : r.stage \in {"queued", "taken", "replied"}}}
        tm  == UNION {UNION {StackPairs(Ev(s, m).stack) : m \in t.trig} : t \in {t \in s.timers : t.kind \notin {"heartbeat", "retention", "orphanscan"}}}
    IN qev \cup rp \cup tm

ActiveIdx(s, id) == {p[2] : p \in {p \in ActivePairs(s) : p[1] = id}}

(* ---- one step per kind: returns [s |-> new state, f |-> failures] -------- *)
R(s, f) == [s |-> s, f |-> f]

StepWorld(s, e) ==
    R([Fresh(e.tid) EXCEPT !.store = e.store, !.qtype = e.qtype,
                           !.evprefix = IF e.qtype = "quorum" THEN "asl_workflow_events-qq" ELSE "asl_workflow_events",
                           !.replyprefix = IF e.qtype = "quorum" THEN "asl_workflow_reply_to-qq" ELSE "asl_workflow_reply_to"], <<>>)

StepFrame(s, e) ==
    LET fr == [NoFrame EXCEPT !.n = e.fr, !.cause = e.cause, !.kind = e.kind, !.action = e.action, !.i = e.i, !.trig = SeqToSet(e.trig),
                              !.sn = e.sn, !.mid = e.mid]
        (* executions that were already terminal when a frame triggered by one of their events begins *)
        late == {x \in OwnersOf(s, fr.trig) : IsTerminalX(s, x)}
        fr1 == [fr EXCEPT !.late = late]
    IN CASE e.cause \in {"deliver", "reply"} ->
              LET ok == CanDeliver(s.b, e.q, e.ch, e.tag, e.sn)
                  redok == e.red = (e.sn \in s.b.red)
                  m == IF e.sn \in DOMAIN s.msg THEN s.msg[e.sn] ELSE [kind |-> "", exec |-> "", state |-> "", mid |-> "", corr |-> "", stack |-> <<>>]
                  x == m.exec
                  isstart == m.kind = "event" /\ m.state = ""
                  (* C19: every later event of an execution goes to the instance that took its start event *)
                  affine == ~(m.kind = "event" /\ ~isstart /\ x # "" /\ Ex(s, x).home # "") \/ Ex(s, x).home = e.i
                  (* C19: a reply comes back to the instance that sent the request *)
                  sender == {r.conn : r \in {r \in s.rpcs : r.corr = e.corr}}
                  replyok == e.cause # "reply" \/ sender = {} \/ e.i \in sender
                  sh == IF isstart /\ x # "" /\ Ex(s, x).home = "" THEN SetEx(s, x, [Ex(s, x) EXCEPT !.home = e.i]) ELSE s
              IN R([sh EXCEPT !.fr = fr1, !.b = IF ok THEN Deliver(s.b, e.q, e.ch, e.tag, e.sn) ELSE @,
                             !.rpcs = IF e.cause = "reply"
                                      THEN {IF r.corr = e.corr /\ r.stage = "replied" THEN [r EXCEPT !.stage = "done"] ELSE r : r \in @}
                                      ELSE @],
                   Chk(ok, "ENV", "CanDeliver") \o Chk(redok, "ENV", "RedeliveredFlag")
                   \o ChkX(affine, "C19", "Affinity", x, [home |-> Ex(s, x).home, got |-> e.i, state |-> m.state])
                   \o ChkX(replyok, "C19", "RpcAddressing:reply-to-another-instance", x, [sent |-> sender, got |-> e.i]))
         [] e.cause = "wtake" ->
              LET ok == CanDropHead(s.b, e.fn, e.sn)
              IN R([s EXCEPT !.fr = fr1, !.b = IF ok THEN DropHead(s.b, e.fn) ELSE @,
                             !.rpcs = {IF r.sn = e.sn THEN [r EXCEPT !.stage = "taken"] ELSE r : r \in @}],
                   Chk(ok, "ENV", "WorkerTakesHead"))
         [] e.cause = "wreply" ->
              R([s EXCEPT !.fr = fr1,
                          !.rpcs = {IF r.corr = e.corr /\ r.stage = "taken" THEN [r EXCEPT !.stage = "replied"] ELSE r : r \in @}],
                <<>>)
         [] e.cause = "timer" ->
              LET known == \E t \in s.timers : t.conn = e.i /\ t.timer = e.timer
                  tm == CHOOSE t \in s.timers : t.conn = e.i /\ t.timer = e.timer
              IN IF e.kind = "heartbeat" THEN R([s EXCEPT !.fr = fr1, !.timers = {t \in @ : ~(t.conn = e.i /\ t.timer = e.timer)}], <<>>)
                 ELSE IF known
                 THEN R([s EXCEPT !.fr = fr1, !.timers = @ \ {tm}],
                        ChkW(tm.due <= e.t, "C08", "TimerNotEarly", <<tm.due, e.t>>))
                 ELSE R([s EXCEPT !.fr = fr1], FX("C08", "ClearedTimerSilent", "", e.kind))
         [] OTHER -> R([s EXCEPT !.fr = fr1], <<>>)

StepPub(s, e) ==
    LET x == IF e.kind = "event" THEN e.exec
             ELSE IF e.kind \in {"rpc", "reply"}
                  THEN (IF Owner(s, e.corrbase) # "" THEN Owner(s, e.corrbase)
                        ELSE IF OwnersOf(s, s.fr.trig) # {} THEN CHOOSE o \in OwnersOf(s, s.fr.trig) : TRUE ELSE "")
                  ELSE ""
        info == [kind |-> e.kind, exec |-> x, mid |-> e.mid, corr |-> e.corr, state |-> e.state, stack |-> e.stack]
        isev == e.kind = "event"
        byengine == e.conn = s.fr.i /\ s.fr.i # ""
        top == IF e.stack = <<>> THEN <<"", -1>> ELSE e.stack[Len(e.stack)]
        (* a branch/iteration is launched by a publish whose trigger is not already inside it *)
        launch == isev /\ byengine /\ e.stack # <<>> /\ top[2] >= 0 /\ <<top[1], top[2]>> \notin TrigPairs(s)
        relaunch == launch /\ <<top[1], top[2]>> \in s.launched
        (* a publish that leaves a fan-out the trigger was inside of: the join (or its failure/retry) *)
        (* (an event of ANOTHER execution published from inside a fan-out is a child launch, not a join) *)
        popped == IF isev /\ byengine /\ e.exec # "" /\ e.exec \in OwnersOf(s, s.fr.trig) THEN TrigIDs(s) \ StackIDs(e.stack) ELSE {}
        isretry == e.retry > 0
        joinpub == popped # {} /\ ~isretry /\ s.fr.failedNow = {}
        joinok == \A id \in popped :
                      /\ id \in DOMAIN s.folen
                      /\ {p[2] : p \in {p \in s.launched : p[1] = id}} = 0..(s.folen[id] - 1)
                      /\ ActiveIdx(s, id) = {}
        frozenrpc == e.kind = "rpc" /\ (StackIDs(Ev(s, e.corrbase).stack) \cap s.failedIDs) # {}
        frozenev == isev /\ byengine /\ (StackIDs(e.stack) \cap s.failedIDs) # {}
        s1 == [s EXCEPT !.b = Publish(@, e.sn, SeqToSet(e.routed)),
                        !.msg = Upd(@, e.sn, info),
                        !.ev = IF isev /\ e.mid # "" THEN Upd(@, e.mid, [exec |-> e.exec, stack |-> e.stack, state |-> e.state, sn |-> e.sn, stype |-> e.stype, smid |-> e.smid, datatext |-> e.datatext]) ELSE @,
                        !.rpcs = IF e.kind = "rpc" /\ e.routed # <<>>
                                 THEN @ \cup {[sn |-> e.sn, corr |-> e.corr, base |-> e.corrbase, exec |-> x, stage |-> "queued", fn |-> e.fn, conn |-> e.conn]}
                                 ELSE @,
                        !.launched = IF launch THEN @ \cup {<<top[1], top[2]>>} ELSE @,
                        !.folen = IF launch /\ e.blen >= 0 THEN Upd(@, top[1], e.blen) ELSE @,
                        !.foparent = IF launch THEN Upd(@, top[1], [exec |-> e.exec, parent |-> e.bparent]) ELSE @,
                        !.fr.retrypub = @ \/ (isev /\ byengine /\ isretry),
                        (* a fan-out is retried while branches of the failed attempt are still being worked on *)
                        !.fr.retrysib = @ \/ (isev /\ byengine /\ isretry /\ \E id \in popped : ActiveIdx(s, id) # {})]
        routedok == \A i \in 1..Len(e.routed) : HasQueue(s.b, e.routed[i])
        (* at most one request per task entry (the correlation id is the task event's id) *)
        duprpc == e.kind = "rpc" /\ \E r \in s.rpcs : r.corr = e.corr
    IN R(s1,
         Chk(routedok, "ENV", "RoutedToDeclaredQueue")
         \o ChkX(~duprpc, "C04", "NoDuplicateRequest", x, e.corr)
         (* C19: start events published through the API go to the shared queue; every later event goes to
            the publishing instance's own queue; a request names that instance's reply queue and a correlation id *)
         \o ChkX(~(isev /\ e.state = "" /\ s.fr.cause = "api" /\ s.fr.action \in {"StartExecution", "raw-start"}) \/ e.shared,
                 "C19", "StartOnShared", e.exec, e.key)
         \o ChkX(~(isev /\ byengine /\ e.state # "") \/ (~e.shared /\ e.key = s.evprefix \o "-" \o e.conn),
                 "C19", "Affinity:published-to-another-queue", e.exec, e.key)
         (* C01/C09 "in an order consistent with the transitions taken": an event published while an event of state S is
            being handled is for a state the definition lets S lead to (itself, its Next / Choice / Default / Catch targets,
            its branches' start states; out of a fan-out: the fan-out, its Next and Catch targets, outwards) *)
         \o (LET allowed == \E m \in s.fr.trig :
                                LET t == Ev(s, m) IN
                                /\ t.smid = e.smid /\ t.smid \in DOMAIN s.smsucc
                                /\ t.state \in DOMAIN s.smsucc[t.smid] /\ e.state \in s.smsucc[t.smid][t.state]
                 known == \E m \in s.fr.trig : Ev(s, m).smid = e.smid /\ e.smid \in DOMAIN s.smsucc
             IN ChkX(~(isev /\ byengine /\ e.state # "" /\ known) \/ allowed, "C09", "TransitionAllowed", e.exec,
                     [from |-> {Ev(s, m).state : m \in s.fr.trig}, to |-> e.state]))
         (* C19: a child launched synchronously (its parent's pending request lives in this instance) starts on this
            instance's own queue; a fire-and-forget child may be taken by any instance *)
         \o ChkX(~(isev /\ byengine /\ e.state = "" /\ e.childkind = "sync") \/ (~e.shared /\ e.key = s.evprefix \o "-" \o e.conn),
                 "C19", "Affinity:synchronous-child-launched-on-another-queue", e.exec, e.key)
         \o ChkX(~(e.kind = "rpc" /\ byengine) \/ (e.corr # "" /\ e.replyto = s.replyprefix \o "-" \o e.conn /\ e.key = e.fn),
                 "C19", "RpcAddressing", x, [replyto |-> e.replyto, corr |-> e.corr])
         \o ChkX(~(isev /\ byengine /\ e.exec # "" /\ e.exec \in s.fr.ackedX), "C03", "TriggerAckLast:pub", e.exec,
                 [retry |-> e.retry, depth |-> Len(e.stack), trigdepth |-> MaxTrigDepth(s)])
         \o ChkX(~(isev /\ byengine /\ e.exec # "" /\ IsTerminalX(s, e.exec)), "C02", "NoLateEffects:pub", e.exec, e.state)
         \o ChkX(~relaunch, "C05", "ItemOnce", e.exec, top)
         \o ChkX(~joinpub \/ joinok, "C05", "JoinAfterAll", e.exec, [ids |-> popped, state |-> e.state])
         \o ChkX(~frozenrpc, "C06", "SiblingsFrozen:rpc", x, [fn |-> e.fn, kind |-> s.fr.kind])
         \o ChkX(~frozenev, "C06", "SiblingsFrozen:event", e.exec, [state |-> e.state, kind |-> s.fr.kind]))

StepAck(s, e) ==
    LET known == AckKnown(s.b, e.ch, e.tag)
        u == CHOOSE u \in s.b.unacked : u.ch = e.ch /\ u.tag = e.tag
        m == IF known /\ u.sn \in DOMAIN s.msg THEN s.msg[u.sn]
             ELSE [kind |-> "", exec |-> "", mid |-> "", corr |-> "", state |-> "", stack |-> <<>>]
        istrig == known /\ m.kind = "event" /\ m.mid # "" /\ m.mid \in s.fr.trig
        s1 == [s EXCEPT !.b = IF e.multiple THEN AckMultiple(@, e.ch, e.tag) ELSE Ack(@, e.ch, e.tag),
                        !.fr.ackedX = IF istrig /\ m.exec # "" THEN @ \cup {m.exec} ELSE @]
    IN R(s1,
         Chk(known = e.known, "ENV", "AckKnownAgrees")
         \o ChkX(known, "C03", "AckOnce:unknown-or-repeated-delivery-tag", "", [ch |-> e.ch, tag |-> e.tag])
         \o Chk(~e.multiple, "C03", "AckOnce:multiple"))

StepNote(s, e) ==
    LET x == e.exec
        ex0 == Ex(s, x)
        notes1 == Append(ex0.notes, e.status)
        (* a raw start event does not carry its execution ARN: bind it when RUNNING is announced *)
        bind == e.status = "RUNNING" /\ s.fr.cause = "deliver" /\ s.fr.mid # "" /\ Owner(s, s.fr.mid) = ""
        s1 == [SetEx(s, x, [ex0 EXCEPT !.notes = notes1, !.lastnote = e, !.pendingNote = TRUE, !.sm = e.sm,
                                       !.home = IF @ = "" /\ e.status = "RUNNING" THEN s.fr.i ELSE @])
                 EXCEPT !.ev = IF bind THEN Upd(@, s.fr.mid, [Ev(s, s.fr.mid) EXCEPT !.exec = x]) ELSE @,
                        !.msg = IF bind /\ s.fr.sn \in DOMAIN @ THEN [@ EXCEPT ![s.fr.sn].exec = x] ELSE @,
                        !.fr.termX = IF e.status \in Terminal THEN @ \cup {x} ELSE @]
    IN R(s1,
         ChkX(NotifSeqOK(notes1), "C02", "NotifSeqOK", x, notes1)
         \o ChkX(NotifShape(e), "C11", "NotifShape", x, e.subject)
         \o ChkX(~(e.status \in Terminal /\ x \in s.fr.ackedX), "C03", "TriggerAckLast:terminal-note", x, ""))

StepRec(s, e) ==
    LET x == e.exec
        ex0 == Ex(s, x)
        r == e.rec
        becomesTerminal == IsTerminalRec(r) /\ ~(ex0.hasrec /\ IsTerminalRec(ex0.rec))
        (* the first stable observation after a notification must agree with it *)
        cmp == ex0.pendingNote /\ ~e.transient
        s1 == SetEx(s, x, [ex0 EXCEPT !.hasrec = TRUE, !.rec = r, !.recstable = ~e.transient,
                                       !.pendingNote = IF e.transient THEN @ ELSE FALSE])
        (* while a notification is being published the engine shows the dates in milliseconds:
           such an observation (transient) is compared on everything but the dates *)
        bothstable == ex0.recstable /\ ~e.transient
        NoStop(p) == [p EXCEPT !.stop = [set |-> p.stop.set]]
        frozenok == ~ex0.hasrec \/ ~IsTerminalRec(ex0.rec)
                    \/ (IF bothstable THEN FrozenPart(r) = FrozenPart(ex0.rec)
                        ELSE NoStop(FrozenPart(r)) = NoStop(FrozenPart(ex0.rec)))
    IN R(s1,
         ChkX(frozenok, "C02", "TerminalFrozen", x, [old |-> IF ex0.hasrec THEN ex0.rec.status ELSE "", new |-> r.status])
         \o ChkX(~(r.sm \in DOMAIN s.smtype /\ s.smtype[r.sm] = "EXPRESS"), "C09", "ExpressStoresNothing:record", x, r.sm)
         \o ChkX(e.transient \/ RecordShape(r), "C02", "RecordShape", x, r)
         \o ChkX(e.transient \/ RecordKeepsSeconds(r), "C11", "PublishDoesNotAlterRecord:seconds", x, r)
         \o ChkX(~(becomesTerminal /\ x \in s.fr.ackedX), "C03", "TriggerAckLast:terminal-record", x, "")
         \o ChkX(~cmp \/ NoteAgreesWithRecord(ex0.lastnote, r), "C11", "ViewsAgree:note-vs-record", x,
                 [note |-> IF cmp THEN ex0.lastnote.status ELSE "", rec |-> r.status])
         \o ChkX(e.transient \/ ~IsTerminalRec(r) \/ HistAgreesWithRecord(ex0.hist, r), "C09", "HistAgreesWithRecord", x,
                 [last |-> IF Len(ex0.hist) > 0 THEN ex0.hist[Len(ex0.hist)].type ELSE "", status |-> r.status]))

FanOutFailTypes == {"ParallelStateFailed", "MapStateFailed"}

StepHist(s, e) ==
    LET x == e.exec
        ex0 == Ex(s, x)
        h1 == Append(ex0.hist, e.ev)
        isfail == e.ev.type \in FanOutFailTypes
        k == s.fr.nfailed + 1
        id == TrigIDFromTop(s, k)
        again == isfail /\ id # "" /\ id \in s.failedIDs
        s1 == [SetEx(s, x, [ex0 EXCEPT !.hist = h1])
                 EXCEPT !.fr.nfailed = IF isfail THEN k ELSE @,
                        !.fr.failedNow = IF isfail /\ id # "" THEN @ \cup {id} ELSE @,
                        !.failedIDs = IF isfail /\ id # "" THEN @ \cup {id} ELSE @]
    IN R(s1,
         Chk(e.pos = Len(ex0.hist) + 1, "ENV", "HistObservedInOrder")
         \o ChkX(~FrameIsExpress(s) \/ (ex0.sm # "" /\ ex0.sm \in DOMAIN s.smtype /\ s.smtype[ex0.sm] # "EXPRESS"), "C09", "ExpressStoresNothing:history", x, e.ev.type)
         \o ChkX(HistAppendOK(ex0.hist, e.ev), "C09", "HistoryWellFormed", x, e.ev)
         \o ChkX(ExitFollowsEnter(ex0.hist, e.ev), "C09", "ExitFollowsEnter", x, [type |-> e.ev.type, name |-> e.ev.name])
         (* "every state that is entered logs StateEntered with its input": an entry logged while an event is being
            delivered names that event's state and carries that event's data *)
         \o (LET m == IF s.fr.cause = "deliver" /\ s.fr.mid \in DOMAIN s.ev THEN s.ev[s.fr.mid] ELSE [exec |-> "", state |-> "", datatext |-> ""]
                 (* ... and so does ExecutionStarted ("beginning with ExecutionStarted carrying the input") *)
                 entered == e.ev.type = "ExecutionStarted" \/ \E t \in StateTypeNames : e.ev.type = t \o "StateEntered"
             IN ChkX(~(entered /\ s.fr.cause = "deliver" /\ s.fr.mid \in DOMAIN s.ev /\ m.exec \in {"", x})
                     \/ ((m.state = "" \/ e.ev.type = "ExecutionStarted" \/ e.ev.name = m.state) /\ e.ev.input.set /\ e.ev.input.s = m.datatext),
                     "C09", "EnteredWithItsInput", x, [name |-> e.ev.name, state |-> m.state, input |-> e.ev.input]))
         \o ChkX(NothingAfterTerminal(h1), "C09", "NothingAfterTerminal", x, e.ev.type)
         \o ChkX(~again, "C06", "FanOutFailsOnce", x, id))

StepTset(s, e) ==
    R([s EXCEPT !.timers = @ \cup {[conn |-> e.conn, timer |-> e.timer, kind |-> e.kind, due |-> e.due,
                                   trig |-> s.fr.trig]}], <<>>)
StepTclr(s, e) ==
    R([s EXCEPT !.timers = {t \in @ : ~(t.conn = e.conn /\ t.timer = e.timer)}], <<>>)

(* the MaxConcurrency declared for the Map state that owns fan-out `id` (0 = unbounded / not a Map) *)
MaxConc(s, id) ==
    IF id \notin DOMAIN s.foparent THEN 0
    ELSE LET fp == s.foparent[id]
             sm == Ex(s, fp.exec).sm
         IN IF sm \in DOMAIN s.smmc /\ fp.parent \in DOMAIN s.smmc[sm] THEN s.smmc[sm][fp.parent] ELSE 0

StepEnd(s, e) ==
    LET lost == Running(s) \ Carried(s)
        (* a stored status that no notification announced is a silent status change *)
        silent == {x \in DOMAIN s.ex : s.ex[x].hasrec /\
                       (s.ex[x].notes = <<>> \/ s.ex[x].notes[Len(s.ex[x].notes)] # s.ex[x].rec.status)}
        over == {id \in DOMAIN s.foparent : MaxConc(s, id) > 0 /\ Cardinality(ActiveIdx(s, id)) > MaxConc(s, id)}
        (* engine-side work still armed for a fan-out that has failed *)
        stale == {t \in s.timers : t.kind \notin {"heartbeat", "retention", "orphanscan"} /\
                     (UNION {StackIDs(Ev(s, m).stack) : m \in t.trig}) \cap s.failedIDs # {}}
    IN R([s EXCEPT !.fr = NoFrame],
         ChkX(lost = {}, "C03", "CarrierExists", IF lost = {} THEN "" ELSE CHOOSE x \in lost : TRUE, lost)
         \o ChkX(s.crashed \/ silent = {}, "C11", "NotifiedOncePerChange", IF silent = {} THEN "" ELSE CHOOSE x \in silent : TRUE, silent)
         \o ChkW(over = {}, "C05", "InFlightBounded", over)
         \o ChkW(stale = {}, "C06", "SiblingsCancelled", {t.kind : t \in stale}))

StepQuiesce(s, e) ==
    LET zs == e.sizes
        allterm == AllTerminal(s)
        notterm == {x \in DOMAIN s.ex : LastNote(s, x) \notin Terminal}
    IN R(s,
         (IF e.level = "D0" /\ allterm
          THEN ChkW(\A i \in 1..Len(zs) : DrainedD0(zs[i], e.nunacked), "C03", "DrainedD0", zs)
               \o Chk(e.nunacked = 0 \/ \E i \in 1..Len(zs) : zs[i].orphaned > 0, "C03", "DrainedD0:broker-unacked")
          ELSE <<>>)
         \o (IF e.level = "D1"
             THEN ChkX(allterm, "C02", "EventuallyTerminal", IF notterm = {} THEN "" ELSE CHOOSE x \in notterm : TRUE, notterm)
                  \o ChkW(\A i \in 1..Len(zs) : DrainedD1(zs[i]), "C03", "DrainedD1", zs)
                  \o Chk(e.nunacked = 0, "C03", "DrainedD1:broker-unacked")
                  \o ChkW(e.queued = <<>>, "C03", "DrainedD1:queued", e.queued)
                  (* C09: in a trouble-free SUCCEEDED execution every state entered has been exited *)
                  \o (LET bad == {x \in DOMAIN s.ex : ~s.crashed /\ ~EnteredStatesExit(s.ex[x].hist)}
                      IN ChkX(bad = {}, "C09", "EnteredStatesExit", IF bad = {} THEN "" ELSE CHOOSE x \in bad : TRUE, bad))
             ELSE <<>>))

(* the engine process is gone: its timers die with it; with the file-backed configuration the
   execution records and histories (in-memory stores) are lost too *)
StepConnLost(s, e) ==
    R([s EXCEPT !.b = ConnectionLost(@, e.conn),
                !.timers = {t \in @ : t.conn # e.conn},
                !.crashed = TRUE,
                !.ex = IF s.store = "file" /\ ~e.clean
                       THEN [x \in DOMAIN @ |-> [@[x] EXCEPT !.hasrec = FALSE, !.recstable = FALSE, !.hist = <<>>, !.pendingNote = FALSE]]
                       ELSE @], <<>>)

McOf(mc, name) == LET j == CHOOSE j \in 1..Len(mc) : mc[j].state = name IN mc[j].n

StepOther(s, e) ==
    CASE e.k = "qdeclare" ->
           (* C19: the engine's queues are durable, shared (not exclusive to a connection), kept, of the configured type *)
           LET mine == e.q \in {s.evprefix, s.evprefix \o "-" \o e.conn, s.replyprefix \o "-" \o e.conn}
           IN R([s EXCEPT !.b = DeclareQueue(@, e.q)],
                ChkX(~mine \/ (e.durable /\ ~e.exclusive /\ ~e.autodelete /\ e.qtype = s.qtype), "C19", "DurableQueuesDeclared", "",
                     [q |-> e.q, durable |-> e.durable, qtype |-> e.qtype]))
      [] e.k = "qdelete"  -> R([s EXCEPT !.b = DeleteQueue(@, e.q)], <<>>)
      [] e.k = "chopen"   -> R([s EXCEPT !.b = OpenChannel(@, e.ch, e.conn)], <<>>)
      [] e.k = "consume"  -> R([s EXCEPT !.b = Consume(@, e.q, e.ch, e.exclusive, e.prio)],
                               Chk(CanConsume(s.b, e.q, e.exclusive), "ENV", "CanConsume")
                               (* C19: the per-instance event queue has one exclusive consumer; the shared queue is open to all *)
                               \o ChkX(~(e.q = s.evprefix \o "-" \o e.conn) \/ e.exclusive, "C19", "ExclusiveInstanceQueue", "", e.q)
                               \o ChkX(~(e.q = s.evprefix) \/ ~e.exclusive, "C19", "StartOnShared:shared-queue-exclusive", "", e.q))
      [] e.k = "expire"   -> R([s EXCEPT !.b = IF CanDropHead(@, e.q, e.sn) THEN DropHead(@, e.q) ELSE @],
                               Chk(CanDropHead(s.b, e.q, e.sn), "ENV", "ExpireAtHead"))
      [] e.k = "sm"       -> R([s EXCEPT !.smtype = Upd(@, e.arn, e.smtype),
                                         !.smmc = Upd(@, e.arn, [nm \in {e.mc[j].state : j \in 1..Len(e.mc)} |-> McOf(e.mc, nm)]),
                                         !.smsucc = Upd(@, e.arn, [nm \in {e.succ[j].state : j \in 1..Len(e.succ)} |->
                                                                      LET j == CHOOSE j \in 1..Len(e.succ) : e.succ[j].state = nm
                                                                      IN {e.succ[j].to[i] : i \in 1..Len(e.succ[j].to)}])], <<>>)
      [] e.k = "storeerr" -> R(s, FX("ENV", "StoreReadable", "", e.err))
      [] e.k = "escaped"  -> R(s, FX("C18", "NoEscapedException", "", e.err))
      (* the stored history got shorter: a violation of C09; the observation restarts from the first event *)
      [] e.k = "histcut"  -> R(SetEx(s, e.exec, [Ex(s, e.exec) EXCEPT !.hist = <<>>]), FX("C09", "HistoryNeverShrinks", e.exec, ""))
      [] e.k = "histapi"  ->
           (* GetExecutionHistory through the API: the stored list, numbered 1..n, and exactly its reverse *)
           LET n == Len(e.fwd)
               h == Ex(s, e.exec).hist
           IN R(s, ChkX(e.status = 200 /\ e.fwd = [k \in 1..n |-> k] /\ n = Len(h) /\ e.fwdtypes = [k \in 1..n |-> h[k].type],
                        "C09", "HistoryWellFormed:api", e.exec, e.fwd)
                   \o ChkX(Len(e.rev) = n /\ e.rev = [k \in 1..n |-> e.fwd[n + 1 - k]] /\ e.revtypes = [k \in 1..n |-> e.fwdtypes[n + 1 - k]],
                           "C09", "ReverseIsReverse", e.exec, e.rev))
      [] e.k = "expect"   ->
           (* the outcome of the crash-free twin of this run (same scenario, same schedule prefix) *)
           LET ex0 == Ex(s, e.exec)
               last == IF ex0.notes = <<>> THEN "" ELSE ex0.notes[Len(ex0.notes)]
               same == last = e.status /\ (~ex0.hasrec \/ ~ex0.recstable \/ ex0.rec.status # e.status
                                            \/ (ex0.rec.output = e.output /\ ex0.rec.error = e.error))
           IN R(s, ChkX(~e.strict \/ same, "C04", "OutcomePreserved", e.exec,
                        [want |-> e.status, got |-> last]))
      [] OTHER -> R(s, <<>>)

Step(s, e) ==
    CASE e.k = "world"   -> StepWorld(s, e)
      [] e.k = "frame"   -> StepFrame(s, e)
      [] e.k = "pub"     -> StepPub(s, e)
      [] e.k = "ack"     -> StepAck(s, e)
      [] e.k = "note"    -> StepNote(s, e)
      [] e.k = "rec"     -> StepRec(s, e)
      [] e.k = "hist"    -> StepHist(s, e)
      [] e.k = "tset"    -> StepTset(s, e)
      [] e.k = "tclr"    -> StepTclr(s, e)
      [] e.k = "end"     -> StepEnd(s, e)
      [] e.k = "quiesce" -> StepQuiesce(s, e)
      [] e.k = "connlost" -> StepConnLost(s, e)
      [] OTHER -> StepOther(s, e)

(* ---- known findings: taint executions when a finding's root-cause pattern occurs, and tag
        each failed clause that falls into an active finding's territory ---------------------- *)
Active == ActiveFindings(IOEnv.KNOWN_FINDINGS)

Taint(s0, s1, e) ==
    LET add == NewTaints(s0, s1, e, Active)     \* set of <<execution, finding id>>
    IN IF add = {} THEN s1
       ELSE [s1 EXCEPT !.taintX = [x \in (DOMAIN @) \cup {p[1] : p \in add} |->
                                      Fn(@, x, {}) \cup {p[2] : p \in {q \in add : q[1] = x}}]]

Tag(s0, s1, e, f) ==
    [tid |-> e.tid, n |-> e.n, prop |-> f.prop, clause |-> f.clause, x |-> f.x, w |-> f.w,
     kf |-> Territory(s0, s1, e, f, Active)]

Next ==
    /\ l <= N
    /\ l' = l + 1
    /\ LET e == Tr[l]
           r == Step(st, e)
           s1 == Taint(st, r.s, e)
       IN /\ st' = s1
          /\ viol' = viol \o [i \in 1..Len(r.f) |-> Tag(st, s1, e, r.f[i])]

Spec == Init /\ [][Next]_vars

(* ---- invariants of the reconstructed broker (simulator vs Broker.tla) ---- *)
BrokerSane == ExclusiveRespected(st.b) /\ TagsUnique(st.b) /\ NoDuplicateInQueues(st.b)

(* ---- report: one JSON line with every failed clause, printed at the end --- *)
Report ==
    (l = N + 1) =>
        /\ PrintT("VERDICT " \o ToJson([lines |-> N, failures |-> viol]))
=============================================================================
