-------------------------------- MODULE Store --------------------------------
(***************************************************************************)
(* Reference model of the stores of asl_workflow_engine/store.py (C20):    *)
(* a mapping `kv`, and for the Redis kinds a per-client LRU cache that is  *)
(* kept coherent by the server's invalidation messages.                    *)
(*                                                                         *)
(* The module has no constants: every operator takes the parameter record  *)
(*   P = [kind     : "file" | "mem" | "redis",                             *)
(*        shape    : "dict" | "list"      (what the values are),           *)
(*        nclients : 1 | 2, cap : cache capacity, maxlen : longest list,   *)
(*        maxinfl  : bound of the in-flight queues, ttl : seconds,         *)
(*        writer2  : client 2 only writes and reads plainly,               *)
(*        lite     : without Contains, Iter, Len, SetTtl, Reopen,          *)
(*        ttl1     : SetTtl on key k1 only, nkeys : 1 | 2 keys in use]     *)
(* so that MC_Store can explore all kinds in one run and JudgeC20 can replay*)
(* paths of all kinds in one run.  The state is ONE record s; every store  *)
(* operation is a function  Step(P, s, o)  from state to state with the    *)
(* specified result  Expected(P, s, o)  computed from the PRE-state.       *)
(*   o = [op, c (client), k (key or ""), f (member or ""), v (number)]     *)
(*                                                                         *)
(* Values: a dict is a function from a subset of Fields to Scalars, a list *)
(* a sequence of Scalars; the empty dict and the empty list are both <<>>. *)
(***************************************************************************)
EXTENDS Naturals, Sequences, FiniteSets, TLC

Keys == {"k1", "k2"}
KeySeq == <<"k1", "k2">>
Fields == {"f", "g"}
FieldSeq == <<"f", "g">>
Scalars == {1, 2}
Empty == <<>>

(* ---- the documented representational limits, by name ------------------------------- *)
(* Redis cannot hold an empty hash or list: for the Redis kinds an empty value IS absence *)
EmptyIsAbsent(P) == P.kind = "redis"
(* a member update through the view of a FILE store changes memory only; the file is     *)
(* rewritten by the next whole-key write.  The statement is silent about it, so Reopen   *)
(* is not explored (and nothing is demanded) while such an update is pending.            *)
NestedNotWrittenThrough(P) == P.kind = "file"
Durable(P) == P.kind \in {"file", "redis"}
HasCache(P) == P.kind = "redis"

ClientsOf(P) == 1..P.nclients

(* the values a whole-key Set can write (index 1..3); the third is the empty value *)
SetVals(P) == IF P.shape = "dict"
              THEN << [x \in {"f"} |-> 1], [x \in {"f"} |-> 2], Empty >>
              ELSE << <<1>>, <<2>>, Empty >>
(* the member updates explored: f := 2 and g := 1 *)
NestedArgs == {<<"f", 2>>, <<"g", 1>>}

DictPut(d, f, x) == [y \in (DOMAIN d) \cup {f} |-> IF y = f THEN x ELSE d[y]]
KvPut(kv, k, v) == [y \in (DOMAIN kv) \cup {k} |-> IF y = k THEN v ELSE kv[y]]
KvDel(kv, k) == [y \in (DOMAIN kv) \ {k} |-> kv[y]]
Range(q) == {q[i] : i \in 1..Len(q)}

Init(P) == [kv |-> Empty, disk |-> Empty, dirty |-> FALSE,
            cache |-> [c \in ClientsOf(P) |-> <<>>],
            tracking |-> [c \in ClientsOf(P) |-> FALSE],
            tracked |-> [c \in ClientsOf(P) |-> {}],
            inflight |-> [c \in ClientsOf(P) |-> <<>>],
            ttl |-> [k \in Keys |-> 0]]

Present(s, k) == k \in DOMAIN s.kv
(* what a read of k yields where absence cannot be told from emptiness *)
Value(s, k) == IF Present(s, k) THEN s.kv[k] ELSE Empty

(* ---- the server side of client tracking (RESP2, redirect) ---------------------------- *)
(* a read of k by a tracking client makes the server remember (k, client) *)
Read(s, c, k) == IF s.tracking[c] THEN [s EXCEPT !.tracked[c] = @ \cup {k}] ELSE s
(* a modification of k: one invalidation for every client the server remembers for k,     *)
(* and the key is forgotten until it is read again                                        *)
Signal(s, k) ==
    [s EXCEPT !.inflight = [c \in DOMAIN s.inflight |->
                              IF k \in s.tracked[c] THEN Append(s.inflight[c], k) ELSE s.inflight[c]],
              !.tracked = [c \in DOMAIN s.tracked |-> s.tracked[c] \ {k}]]

SyncFile(P, s) == IF P.kind = "file" THEN [s EXCEPT !.disk = s.kv, !.dirty = FALSE] ELSE s

(* ---- operations ------------------------------------------------------------------------ *)
(* store[k] = SetVals[i]   (replaces the whole value) *)
DoSet(P, s, c, k, i) ==
    LET v == SetVals(P)[i] IN
    IF ~EmptyIsAbsent(P) THEN SyncFile(P, [s EXCEPT !.kv = KvPut(s.kv, k, v)])
    ELSE LET s1 == IF Present(s, k)                       (* delete ... *)
                   THEN Signal([s EXCEPT !.kv = KvDel(s.kv, k), !.ttl[k] = 0], k) ELSE s
         IN IF v = Empty THEN s1                           (* ... and nothing to create *)
            ELSE LET s2 == Read(s1, c, k)                  (* the view checks that the key is free *)
                 IN Signal([s2 EXCEPT !.kv = KvPut(s2.kv, k, v)], k)

(* store[k][f] = x   (update one member through the view obtained by []) *)
DoNestedSet(P, s, c, k, f, x) ==
    IF ~EmptyIsAbsent(P)
    THEN (IF Present(s, k)
          THEN [s EXCEPT !.kv = KvPut(s.kv, k, DictPut(s.kv[k], f, x)),
                         !.dirty = (s.dirty \/ NestedNotWrittenThrough(P))]
          ELSE s)
    ELSE Signal([s EXCEPT !.kv = KvPut(s.kv, k, DictPut(Value(s, k), f, x))], k)

(* store[k] = store[k]   (the engine's update idiom: fetch the record, change it in place, assign it back --  *)
(* for the file store the assignment is what writes the pending nested updates through)                       *)
DoWriteBack(P, s, c, k) ==
    IF Present(s, k) THEN SyncFile(P, s) ELSE s

(* store[k].append(x)   (the view asks for the length, then pushes) *)
DoAppend(P, s, c, k, x) ==
    IF ~EmptyIsAbsent(P)
    THEN (IF Present(s, k) THEN [s EXCEPT !.kv = KvPut(s.kv, k, Append(s.kv[k], x))] ELSE s)
    ELSE LET s1 == Read(s, c, k)
         IN Signal([s1 EXCEPT !.kv = KvPut(s1.kv, k, Append(Value(s1, k), x))], k)

DoGet(P, s, c, k) == IF HasCache(P) THEN Read(s, c, k) ELSE s

CacheIndex(s, c, k) == IF \E i \in 1..Len(s.cache[c]) : s.cache[c][i].k = k
                       THEN CHOOSE i \in 1..Len(s.cache[c]) : s.cache[c][i].k = k ELSE 0
WithoutKey(q, k) == LET Keep(e) == e.k # k IN SelectSeq(q, Keep)

(* store.get_cached_view(k): a hit moves the entry to the young end; a miss reads the      *)
(* server (which starts remembering the key), appends and evicts the oldest beyond cap    *)
DoCachedGet(P, s, c, k) ==
    IF ~HasCache(P) THEN s
    ELSE LET s0 == [s EXCEPT !.tracking[c] = TRUE]
             i == CacheIndex(s0, c, k)
         IN IF i # 0
            THEN [s0 EXCEPT !.cache[c] = Append(WithoutKey(@, k), s0.cache[c][i])]
            ELSE LET s1 == Read(s0, c, k)
                     q == Append(s1.cache[c], [k |-> k, v |-> Value(s1, k)])
                 IN [s1 EXCEPT !.cache[c] = IF Len(q) > P.cap THEN Tail(q) ELSE q]

DoDel(P, s, c, k) ==
    IF ~Present(s, k) THEN s
    ELSE IF ~EmptyIsAbsent(P) THEN SyncFile(P, [s EXCEPT !.kv = KvDel(s.kv, k)])
    ELSE Signal([s EXCEPT !.kv = KvDel(s.kv, k), !.ttl[k] = 0], k)

DoContains(P, s, c, k) == IF HasCache(P) THEN Read(s, c, k) ELSE s

(* store.set_ttl(k, P.ttl): a no-op for the file and in-memory kinds and for an absent key *)
DoSetTtl(P, s, c, k) ==
    IF HasCache(P) /\ Present(s, k) THEN Signal([s EXCEPT !.ttl[k] = P.ttl], k) ELSE s

(* the oldest in-flight invalidation reaches the client: the key leaves its cache *)
DoDeliver(P, s, c) ==
    IF s.inflight[c] = <<>> THEN s
    ELSE [s EXCEPT !.inflight[c] = Tail(@), !.cache[c] = WithoutKey(@, Head(s.inflight[c]))]

(* a new store object (a restarted engine) over the same file / server *)
DoReopen(P, s, c) ==
    IF P.kind = "file" THEN [s EXCEPT !.kv = s.disk, !.dirty = FALSE]
    ELSE IF P.kind = "mem" THEN [s EXCEPT !.kv = Empty]
    ELSE [s EXCEPT !.cache[c] = <<>>, !.tracking[c] = FALSE, !.tracked[c] = {}, !.inflight[c] = <<>>]

Step(P, s, o) ==
    CASE o.op = "Set" -> DoSet(P, s, o.c, o.k, o.v)
      [] o.op = "NestedSet" -> DoNestedSet(P, s, o.c, o.k, o.f, o.v)
      [] o.op = "Append" -> DoAppend(P, s, o.c, o.k, o.v)
      [] o.op = "WriteBack" -> DoWriteBack(P, s, o.c, o.k)
      [] o.op = "Get" -> DoGet(P, s, o.c, o.k)
      [] o.op = "CachedGet" -> DoCachedGet(P, s, o.c, o.k)
      [] o.op = "Del" -> DoDel(P, s, o.c, o.k)
      [] o.op = "Contains" -> DoContains(P, s, o.c, o.k)
      [] o.op = "SetTtl" -> DoSetTtl(P, s, o.c, o.k)
      [] o.op = "DeliverInvalidation" -> DoDeliver(P, s, o.c)
      [] o.op = "Reopen" -> DoReopen(P, s, o.c)
      [] OTHER -> s                                   (* Iter, Len *)

(* ---- specified results (from the pre-state) --------------------------------------------- *)
RNone == [kind |-> "none"]
RKeyError == [kind |-> "keyerror"]
RNull == [kind |-> "null"]
RValue(v) == [kind |-> "value", v |-> v]
RBool(b) == [kind |-> "bool", b |-> b]
RKeys(S) == [kind |-> "keys", ks |-> S]
RLen(n) == [kind |-> "len", n |-> n]

Expected(P, s, o) ==
    CASE o.op \in {"Set", "SetTtl", "Reopen", "DeliverInvalidation"} -> RNone
      [] o.op \in {"NestedSet", "Append"} ->
            IF ~EmptyIsAbsent(P) /\ ~Present(s, o.k) THEN RKeyError ELSE RNone
      [] o.op = "WriteBack" -> IF Present(s, o.k) THEN RNone ELSE RKeyError
      [] o.op = "Get" ->
            IF EmptyIsAbsent(P) THEN RValue(Value(s, o.k))
            ELSE IF Present(s, o.k) THEN RValue(s.kv[o.k]) ELSE RKeyError
      [] o.op = "CachedGet" ->
            IF HasCache(P)
            THEN (LET i == CacheIndex(s, o.c, o.k)
                  IN IF i # 0 THEN RValue(s.cache[o.c][i].v) ELSE RValue(Value(s, o.k)))
            ELSE IF Present(s, o.k) THEN RValue(s.kv[o.k]) ELSE RNull
      [] o.op = "Del" -> IF ~EmptyIsAbsent(P) /\ ~Present(s, o.k) THEN RKeyError ELSE RNone
      [] o.op = "Contains" -> RBool(Present(s, o.k))
      [] o.op = "Iter" -> RKeys(DOMAIN s.kv)
      [] o.op = "Len" -> RLen(Cardinality(DOMAIN s.kv))
      [] OTHER -> RNone

(* ---- which operations are explored (the bounds of the model) ----------------------------- *)
Enabled(P, s, o) ==
    /\ o.c \in ClientsOf(P)
    /\ (o.c = 2 /\ P.writer2 => o.op \in {"Set", "NestedSet", "Append", "Del", "SetTtl", "Get"})
    /\ (P.lite => o.op \notin {"Contains", "Iter", "Len", "SetTtl", "Reopen"})
    /\ (P.nkeys = 1 => o.k \in {"", "k1"})
    /\ CASE o.op = "Set" -> o.v \in 1..3
         [] o.op = "NestedSet" -> P.shape = "dict" /\ <<o.f, o.v>> \in NestedArgs
         [] o.op = "WriteBack" -> ~HasCache(P) /\ ~P.lite
         [] o.op = "Append" -> P.shape = "list" /\ o.v \in Scalars /\ Len(Value(s, o.k)) < P.maxlen
         [] o.op = "SetTtl" -> ~P.ttl1 \/ o.k = "k1"
         [] o.op = "DeliverInvalidation" -> HasCache(P) /\ s.inflight[o.c] # <<>>
         [] o.op = "Reopen" -> ~s.dirty
         [] OTHER -> TRUE
    /\ LET t == Step(P, s, o) IN \A c \in ClientsOf(P) : Len(t.inflight[c]) <= P.maxinfl

(* ---- the property clauses ------------------------------------------------------------------ *)
(* StoreRefinesMapping: reads answer from kv, and agree with each other *)
StoreRefinesMapping(P, s) ==
    LET it == Expected(P, s, [op |-> "Iter", c |-> 1, k |-> "", f |-> "", v |-> 0]).ks
        ln == Expected(P, s, [op |-> "Len", c |-> 1, k |-> "", f |-> "", v |-> 0]).n
    IN /\ ln = Cardinality(it)
       /\ \A k \in Keys :
            LET o == [op |-> "Get", c |-> 1, k |-> k, f |-> "", v |-> 0]
                has == Expected(P, s, [o EXCEPT !.op = "Contains"]).b
                g == Expected(P, s, o)
            IN /\ has = (k \in it)
               /\ (has => g = RValue(s.kv[k]))
               /\ (~has => IF EmptyIsAbsent(P) THEN g = RValue(Empty) ELSE g = RKeyError)
       /\ (EmptyIsAbsent(P) => \A k \in DOMAIN s.kv : s.kv[k] # Empty)
(* a Set is read back; a list grows at its end (used on transitions by MC_Store) *)
WriteReadBack(P, s, o, t) ==
    /\ (o.op = "Set" => Value(t, o.k) = SetVals(P)[o.v]
                         /\ (~EmptyIsAbsent(P) => Present(t, o.k)))
    /\ (o.op = "Append" /\ Expected(P, s, o) = RNone => Value(t, o.k) = Append(Value(s, o.k), o.v))
    /\ (o.op = "NestedSet" /\ Expected(P, s, o) = RNone =>
            /\ Value(t, o.k)[o.f] = o.v
            /\ \A f \in DOMAIN Value(s, o.k) \ {o.f} : Value(t, o.k)[f] = Value(s, o.k)[f])
    /\ (o.op = "Del" => ~Present(t, o.k))
    /\ (o.op \notin {"Set", "NestedSet", "Append", "Del", "Reopen"} => t.kv = s.kv)
    /\ \A k \in Keys \ {o.k} : o.op # "Reopen" => Value(t, k) = Value(s, k)

(* CacheCoherent: a cached value differs from the current one only while the server's    *)
(* invalidation for the change is still in flight to that client                          *)
CacheCoherent(P, s) ==
    \A c \in ClientsOf(P) : \A i \in 1..Len(s.cache[c]) :
        LET e == s.cache[c][i] IN e.v = Value(s, e.k) \/ e.k \in Range(s.inflight[c])
(* and the server will speak up for every entry: it remembers the key or has already sent *)
CacheWatched(P, s) ==
    \A c \in ClientsOf(P) : \A i \in 1..Len(s.cache[c]) :
        LET e == s.cache[c][i] IN e.k \in s.tracked[c] \/ e.k \in Range(s.inflight[c])
CacheBounded(P, s) ==
    \A c \in ClientsOf(P) :
        /\ Len(s.cache[c]) <= P.cap
        /\ \A i, j \in 1..Len(s.cache[c]) : i # j => s.cache[c][i].k # s.cache[c][j].k
(* TtlApplied: set_ttl on a present key of a Redis kind records the ttl (checked on the  *)
(* transition); a ttl never outlives its key                                             *)
TtlApplied(P, s) == \A k \in Keys : s.ttl[k] # 0 => HasCache(P) /\ Present(s, k) /\ s.ttl[k] = P.ttl
TtlSet(P, s, o, t) == o.op = "SetTtl" /\ HasCache(P) /\ Present(s, o.k) => t.ttl[o.k] = P.ttl
(* SurvivesReopen: the durable kinds keep every definition; the in-memory kind starts empty *)
SurvivesReopen(P, s, o, t) ==
    o.op = "Reopen" => IF Durable(P) THEN t.kv = s.kv ELSE t.kv = Empty
(* UnreadableFileStartsEmpty: a store opened over a file that cannot be read or parsed is *)
(* the initial (empty) store, not an error                                                *)
UnreadableFileStartsEmpty(P, opened) == P.kind = "file" => opened.kv = Init(P).kv
=============================================================================
