------------------------------- MODULE JudgeC14 -------------------------------
(***************************************************************************)
(* Judge for C14: every observation of a single-Choice machine run by the  *)
(* real engine is recomputed with Choice.tla and compared.                 *)
(* Observation:                                                            *)
(*   id                                                                    *)
(*   raw     : the execution input (tagged; strings carry cp and ts)       *)
(*   st      : [inpath |-> steps, rules |-> <<rule trees>>,                *)
(*              default |-> [set, next]]         (see Choice.tla)          *)
(*   out     : [kind |-> "next", name |-> marker state reached]            *)
(*           | [kind |-> "fail", name |-> error name of the FAILED record] *)
(*           | [kind |-> "crash", name |-> what escaped / "no record"]     *)
(***************************************************************************)
EXTENDS Choice, Json, IOUtils

Obs == ndJsonDeserialize(IOEnv.OBS_FILE)
N == Len(Obs)

VARIABLES i, viol
vars == <<i, viol>>

Accepts(o, dev) == Admits(ChoiceOutcomes(o.st, o.raw, dev), o.out)

(* the clause that fails, named after what the specification wanted *)
Judge(o) ==
    LET adm == ChoiceOutcomes(o.st, o.raw, {})
        end == IF o.st.default.set THEN GoTo(o.st.default.next) ELSE NoChoiceMatched
        nexts == {o.st.rules[j].next : j \in DOMAIN o.st.rules}
    IN IF Admits(adm, o.out) THEN "ok"
       ELSE IF o.out.kind = "crash" THEN "Choice:engine-crashed"
       ELSE IF o.out.kind = "fail" /\ o.out # NoChoiceMatched THEN "Choice:unexpected-failure"
       ELSE IF adm = {end}
            THEN (IF o.out.kind = "next" /\ o.out.name \in nexts THEN "NoRuleMatches:rule-taken"
                  ELSE IF o.st.default.set THEN "NoRuleMatches:Default-not-taken"
                  ELSE "NoRuleMatches:not-NoChoiceMatched")
       ELSE IF o.out = end THEN "RuleMatches:not-taken"
       ELSE IF o.out.kind = "next" /\ o.out.name \in nexts THEN "FirstMatch:wrong-rule-taken"
       ELSE "Choice:wrong-outcome"

(* ---- known findings: named deviations of Choice.tla ------------------------------------ *)
(* A failed observation is a known finding iff the outcome the code produced is exactly what   *)
(* the specification predicts under the finding's deviation(s) -- the smallest set of active   *)
(* findings that explains it.  Any other behaviour on the same input stays a violation.        *)
Known == JsonDeserialize(IOEnv.KNOWN_FINDINGS)
ActiveK == {Known.findings[j].id : j \in {j \in 1..Len(Known.findings) : Known.findings[j].status = "known"}}

KOrder == <<"KC14-1", "KC14-2", "KC14-3", "KC14-4", "KC14-5">>
DevOf == [k \in {KOrder[j] : j \in DOMAIN KOrder} |->
            CASE k = "KC14-1" -> "MissingVariableIsFalse"
              [] k = "KC14-2" -> "QuestionMarkIsWildcard"
              [] k = "KC14-3" -> "BackslashEscapesOnlyStar"
              [] k = "KC14-4" -> "PathReadsRawInput"
              [] k = "KC14-5" -> "SubMicrosecondIgnored"]
Candidates == {ks \in SUBSET ({KOrder[j] : j \in DOMAIN KOrder} \cap ActiveK) : ks # {}}
RECURSIVE JoinIds(_, _)
JoinIds(ks, j) ==
    IF j > Len(KOrder) THEN ""
    ELSE LET rest == JoinIds(ks, j + 1)
         IN IF KOrder[j] \in ks THEN (IF rest = "" THEN KOrder[j] ELSE KOrder[j] \o "+" \o rest) ELSE rest
KF(o, verdict) ==
    LET expl == {ks \in Candidates : Accepts(o, {DevOf[k] : k \in ks})}
    IN IF expl = {} THEN ""
       ELSE JoinIds(CHOOSE ks \in expl : \A other \in expl : Cardinality(ks) <= Cardinality(other), 1)

Init == i = 1 /\ viol = <<>>
Next == /\ i <= N /\ i' = i + 1
        /\ LET o == Obs[i]  v == Judge(o)
           IN viol' = IF v = "ok" THEN viol ELSE Append(viol, [id |-> o.id, clause |-> v, kf |-> KF(o, v)])
Spec == Init /\ [][Next]_vars
Report == (i = N + 1) => PrintT("VERDICT " \o ToJson([lines |-> N, failures |-> viol]))
=============================================================================
