--------------------------------- MODULE Arn ---------------------------------
(***************************************************************************)
(* Names and Amazon Resource Names (C17).  Text is a sequence of           *)
(* one-character strings (lib/vsim/tagged.py `chars`: printable ASCII as   *)
(* itself, anything else as "u<code point>", e.g. newline = "u10").        *)
(*                                                                         *)
(*   arn:partition:service:region:account:resource                         *)
(*   resource = type:id | type/id | id                                     *)
(*                                                                         *)
(* A state machine is  arn:aws:states:<region>:<account>:stateMachine:<m>  *)
(* and an execution of it named n is                                       *)
(*                     arn:aws:states:<region>:<account>:execution:<m>:<n> *)
(***************************************************************************)
EXTENDS Naturals, Sequences, FiniteSets, TLC

Colon == ":"
Slash == "/"
Newline == "u10"

(* the characters a name must not contain *)
Forbidden == {" ", "<", ">", "{", "}", "[", "]", "?", "*", "\"", "#", "%", "\\", "^",
              "|", "~", "`", "$", "&", ",", ";", ":", "/"}
MaxNameLen == 80

ValidName(n) == /\ Len(n) >= 1
                /\ Len(n) <= MaxNameLen
                /\ \A i \in 1..Len(n) : n[i] \notin Forbidden

(* ---- sequences of characters ------------------------------------------- *)
Has(s, c) == \E i \in 1..Len(s) : s[i] = c
(* index of the first / last occurrence of c in s, 0 if there is none *)
RECURSIVE FirstFrom(_, _, _)
FirstFrom(s, c, i) == IF i > Len(s) THEN 0 ELSE IF s[i] = c THEN i ELSE FirstFrom(s, c, i + 1)
First(s, c) == FirstFrom(s, c, 1)
RECURSIVE LastFrom(_, _, _)
LastFrom(s, c, i) == IF i < 1 THEN 0 ELSE IF s[i] = c THEN i ELSE LastFrom(s, c, i - 1)
Last(s, c) == LastFrom(s, c, Len(s))
Before(s, i) == SubSeq(s, 1, i - 1)
After(s, i) == SubSeq(s, i + 1, Len(s))

(* split at the first k separators at most: k + 1 pieces at most *)
RECURSIVE SplitN(_, _, _)
SplitN(s, c, k) ==
    IF k = 0 \/ ~Has(s, c) THEN <<s>>
    ELSE LET i == First(s, c) IN <<Before(s, i)>> \o SplitN(After(s, i), c, k - 1)

RECURSIVE Join(_, _)
Join(parts, c) ==
    IF Len(parts) = 0 THEN <<>>
    ELSE IF Len(parts) = 1 THEN parts[1]
    ELSE parts[1] \o <<c>> \o Join(Tail(parts), c)

(* ---- ARNs ---------------------------------------------------------------- *)
Malformed == [ok |-> FALSE]

Parts(arn, partition, service, region, account, hasType, rtype, resource) ==
    [ok |-> TRUE, arn |-> arn, partition |-> partition, service |-> service, region |-> region,
     account |-> account, hasType |-> hasType, rtype |-> rtype, resource |-> resource]

(* six fields separated by the first five colons; the resource carries an optional type,
   separated by the first '/' if there is one, else by the first ':' *)
ParseArn(x) ==
    LET e == SplitN(x, Colon, 5) IN
    IF Len(e) < 6 THEN Malformed
    ELSE LET r == e[6] IN
         IF Has(r, Slash)
         THEN Parts(e[1], e[2], e[3], e[4], e[5], TRUE, Before(r, First(r, Slash)), After(r, First(r, Slash)))
         ELSE IF Has(r, Colon)
              THEN Parts(e[1], e[2], e[3], e[4], e[5], TRUE, Before(r, First(r, Colon)), After(r, First(r, Colon)))
              ELSE Parts(e[1], e[2], e[3], e[4], e[5], FALSE, <<>>, r)

(* a type that is absent or empty is left out; a present one is joined with ':' *)
CreateArn(p) ==
    Join(<<p.arn, p.partition, p.service, p.region, p.account,
           IF p.hasType /\ p.rtype # <<>> THEN p.rtype \o <<Colon>> \o p.resource ELSE p.resource>>, Colon)

A_arn == <<"a", "r", "n">>
A_aws == <<"a", "w", "s">>
A_states == <<"s", "t", "a", "t", "e", "s">>
T_stateMachine == <<"s", "t", "a", "t", "e", "M", "a", "c", "h", "i", "n", "e">>
T_execution == <<"e", "x", "e", "c", "u", "t", "i", "o", "n">>

SmArnOf(region, account, name) == CreateArn(Parts(A_arn, A_aws, A_states, region, account, TRUE, T_stateMachine, name))

(* the ARN of the execution `name` of the state machine `sm` *)
ExecArnOf(sm, name) ==
    LET p == ParseArn(sm)
    IN CreateArn(Parts(A_arn, A_aws, A_states, p.region, p.account, TRUE, T_execution,
                       p.resource \o <<Colon>> \o name))

(* what an execution ARN identifies: the resource after "execution:" is <machine>:<name>,
   read at its LAST colon (names contain none, so for accepted names every colon would do).
   The ...P forms take the parsed parts, so that a caller parses once. *)
IsExecP(p) == p.ok /\ p.hasType /\ p.rtype = T_execution /\ Has(p.resource, Colon)
NameOfExecP(p) == After(p.resource, Last(p.resource, Colon))
SmArnOfExecP(p) == CreateArn(Parts(p.arn, p.partition, p.service, p.region, p.account, TRUE, T_stateMachine,
                                   Before(p.resource, Last(p.resource, Colon))))
IsExecArn(e) == IsExecP(ParseArn(e))
NameOfExec(e) == NameOfExecP(ParseArn(e))
SmArnOfExec(e) == SmArnOfExecP(ParseArn(e))

(* ---- the round-trip laws (model-checked by MC_Arn over all short strings) -------------- *)
(* parts -> text -> parts, for a resource id `s` under the type `t` (or no type) *)
PartsRoundTrip(region, account, hasType, t, s) ==
    LET p == Parts(A_arn, A_aws, A_states, region, account, hasType, t, s)
    IN ParseArn(CreateArn(p)) = p
(* text -> parts -> text *)
TextRoundTrip(x) == CreateArn(ParseArn(x)) = x
(* machine + name -> execution ARN -> machine + name *)
LinkRoundTrip(sm, name) ==
    LET e == ExecArnOf(sm, name)
        p == ParseArn(e)
    IN IsExecP(p) /\ SmArnOfExecP(p) = sm /\ NameOfExecP(p) = name /\ CreateArn(p) = e
=============================================================================
