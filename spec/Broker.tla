------------------------------- MODULE Broker -------------------------------
(***************************************************************************)
(* The subset of AMQP 0-9-1 / RabbitMQ behaviour that local-step-functions *)
(* relies on, as pure operators over a broker-state record `b`.            *)
(*                                                                         *)
(*   b.queues    : queue name -> sequence of message serial numbers (FIFO) *)
(*   b.consumers : queue name -> set of [ch, excl, prio]                   *)
(*   b.unacked   : set of [ch, tag, q, sn]  -- a delivery is (ch, tag)     *)
(*   b.chconn    : channel id -> connection name                           *)
(*   b.red       : set of serial numbers flagged redelivered               *)
(*   b.nexttag   : channel id -> last delivery tag handed out              *)
(*                                                                         *)
(* Two users: MC_Broker (model checking of the broker rules themselves) and *)
(* Trace (every broker step of a recorded run of the real engine on the    *)
(* simulated broker must be one of these transitions -- which validates    *)
(* the simulator against this specification on every trace).              *)
(***************************************************************************)
EXTENDS Naturals, Sequences, FiniteSets, TLC

EmptyBroker ==
    [queues |-> <<>>, consumers |-> <<>>, unacked |-> {}, chconn |-> <<>>,
     red |-> {}, nexttag |-> <<>>]

Fn(f, x, default) == IF x \in DOMAIN f THEN f[x] ELSE default
Upd(f, x, v) == [y \in (DOMAIN f) \cup {x} |-> IF y = x THEN v ELSE f[y]]

HasQueue(b, q) == q \in DOMAIN b.queues

DeclareQueue(b, q) ==
    IF HasQueue(b, q) THEN b ELSE [b EXCEPT !.queues = Upd(@, q, <<>>)]

DeleteQueue(b, q) ==
    [b EXCEPT !.queues = [x \in (DOMAIN @) \ {q} |-> @[x]],
              !.consumers = [x \in (DOMAIN @) \ {q} |-> @[x]]]

OpenChannel(b, ch, conn) ==
    [b EXCEPT !.chconn = Upd(@, ch, conn), !.nexttag = Upd(@, ch, 0)]

Consumers(b, q) == Fn(b.consumers, q, {})

(* basic.consume is refused when the queue is in exclusive use, or when an  *)
(* exclusive consumer is requested on a queue that already has consumers.   *)
CanConsume(b, q, excl) ==
    /\ HasQueue(b, q)
    /\ ~\E c \in Consumers(b, q) : c.excl
    /\ (excl => Consumers(b, q) = {})

Consume(b, q, ch, excl, prio) ==
    [b EXCEPT !.consumers = Upd(@, q, Consumers(b, q) \cup {[ch |-> ch, excl |-> excl, prio |-> prio]})]

(* Publishing appends the message to every queue it is routed to.           *)
Publish(b, sn, routed) ==
    [b EXCEPT !.queues = [q \in DOMAIN @ |-> IF q \in routed THEN Append(@[q], sn) ELSE @[q]]]

(* A delivery takes the HEAD of the queue and goes to a consumer of that    *)
(* queue of the highest priority among those consuming; it gets the next    *)
(* delivery tag of that consumer's channel.                                  *)
CanDeliver(b, q, ch, tag, sn) ==
    /\ HasQueue(b, q)
    /\ b.queues[q] # <<>>
    /\ Head(b.queues[q]) = sn
    /\ \E c \in Consumers(b, q) :
          /\ c.ch = ch
          /\ \A d \in Consumers(b, q) : d.prio <= c.prio
    /\ ch \in DOMAIN b.nexttag
    /\ tag = b.nexttag[ch] + 1

Deliver(b, q, ch, tag, sn) ==
    [b EXCEPT !.queues[q] = Tail(@),
              !.unacked = @ \cup {[ch |-> ch, tag |-> tag, q |-> q, sn |-> sn]},
              !.nexttag[ch] = tag]

(* An expired or worker-consumed message leaves from the head.              *)
CanDropHead(b, q, sn) == HasQueue(b, q) /\ b.queues[q] # <<>> /\ Head(b.queues[q]) = sn
DropHead(b, q) == [b EXCEPT !.queues[q] = Tail(@)]

(* basic.ack(tag, multiple = FALSE) settles exactly that delivery of that   *)
(* channel; anything else is a protocol error (unknown delivery tag).       *)
AckKnown(b, ch, tag) == \E u \in b.unacked : u.ch = ch /\ u.tag = tag
Ack(b, ch, tag) == [b EXCEPT !.unacked = {u \in @ : ~(u.ch = ch /\ u.tag = tag)}]
AckMultiple(b, ch, tag) ==
    [b EXCEPT !.unacked = {u \in @ : ~(u.ch = ch /\ (tag = 0 \/ u.tag <= tag))}]

(* Connection loss: every unacknowledged delivery of the connection's       *)
(* channels goes back to the HEAD of its queue, in the original order,      *)
(* flagged redelivered; its consumers are cancelled.                         *)
ChansOf(b, conn) == {ch \in DOMAIN b.chconn : b.chconn[ch] = conn}

RECURSIVE SeqOfSet(_, _)
(* the elements of a finite set of unacked records, ordered by (ch, tag)     *)
Less(u, v) == u.ch < v.ch \/ (u.ch = v.ch /\ u.tag < v.tag)
SeqOfSet(S, acc) ==
    IF S = {} THEN acc
    ELSE LET m == CHOOSE u \in S : \A v \in S : v = u \/ Less(u, v)
         IN SeqOfSet(S \ {m}, Append(acc, m))

Requeued(b, conn, q) ==
    LET mine == {u \in b.unacked : u.ch \in ChansOf(b, conn) /\ u.q = q}
        ordered == SeqOfSet(mine, <<>>)
    IN [i \in 1..Len(ordered) |-> ordered[i].sn]

ConnectionLost(b, conn) ==
    LET chans == ChansOf(b, conn)
        lost  == {u \in b.unacked : u.ch \in chans}
    IN [b EXCEPT
          !.queues = [q \in DOMAIN @ |-> Requeued(b, conn, q) \o @[q]],
          !.unacked = @ \ lost,
          !.red = @ \cup {u.sn : u \in lost},
          !.consumers = [q \in DOMAIN @ |-> {c \in @[q] : c.ch \notin chans}],
          !.chconn = [ch \in (DOMAIN @) \ chans |-> @[ch]]]

(* ---- invariants of the broker state ------------------------------------ *)
ExclusiveRespected(b) ==
    \A q \in DOMAIN b.consumers :
        (\E c \in b.consumers[q] : c.excl) => Cardinality(b.consumers[q]) = 1

TagsUnique(b) ==
    \A u, v \in b.unacked : (u.ch = v.ch /\ u.tag = v.tag) => u = v

NoDuplicateInQueues(b) ==
    \A q \in DOMAIN b.queues :
        \A i, j \in 1..Len(b.queues[q]) : b.queues[q][i] = b.queues[q][j] => i = j
=============================================================================
