------------------------------ MODULE MC_Choice ------------------------------
(***************************************************************************)
(* The laws of Choice.tla, checked exhaustively by TLC over a small        *)
(* alphabet.  One "state" per case; `mode` says which family of laws the   *)
(* state belongs to:                                                       *)
(*   tree  : (document, atom x, atom y)      Boolean algebra of rule trees *)
(*   rules : (document, atoms x, y, z)       first match / Default         *)
(*   str   : (strings x, y, z)               code-point order, wildcards   *)
(*   sets  : (result sets x, y, z)           algebra of the result sets    *)
(***************************************************************************)
EXTENDS Choice

SE == Str("", <<>>)
SA == Str("a", <<97>>)
SB == Str("b", <<98>>)
SStar == Str("*", <<42>>)
CpT1 == <<50, 48, 50, 48, 45, 48, 49, 45, 48, 49, 84, 49, 50, 58, 48, 48, 58, 48, 48, 90>>
CpT2 == <<50, 48, 50, 48, 45, 48, 49, 45, 48, 49, 84, 49, 55, 58, 51, 48, 58, 48, 48, 43, 48, 53, 58, 51, 48>>
CpT3 == <<50, 48, 50, 48, 45, 48, 49, 45, 48, 49, 84, 49, 49, 58, 51, 48, 58, 48, 48, 45, 48, 49, 58, 48, 48>>
CpOdd == <<50, 48, 50, 48, 45, 48, 49, 45, 48, 49, 116, 49, 50, 58, 48, 48, 58, 48, 48, 122>>
CpDate == <<50, 48, 50, 48, 45, 48, 49, 45, 48, 49>>
T1 == TsStr("2020-01-01T12:00:00Z", CpT1, 631195200, 0)
T2 == TsStr("2020-01-01T17:30:00+05:30", CpT2, 631195200, 0)          (* the same instant *)
T3 == TsStr("2020-01-01T11:30:00-01:00", CpT3, 631197000, 0)          (* later, but smaller as text *)
TOdd == Str("2020-01-01t12:00:00z", CpOdd)
TDate == Str("2020-01-01", CpDate)

Vals == {Missing, JNull, JBool(TRUE), JBool(FALSE), JNum(0), JNum(1), SA, SB, T1, T2}
Doc(a, b) == JObj((IF IsMissing(a) THEN <<>> ELSE <<"a">>) \o (IF IsMissing(b) THEN <<>> ELSE <<"b">>),
                  (IF IsMissing(a) THEN <<>> ELSE <<a>>) \o (IF IsMissing(b) THEN <<>> ELSE <<b>>))
Docs == {Doc(a, b) : a \in Vals, b \in Vals}

OpConsts == {<<"BooleanEquals", JBool(FALSE)>>, <<"BooleanEquals", JBool(TRUE)>>,
             <<"NumericEquals", JNum(1)>>, <<"NumericLessThan", JNum(1)>>, <<"NumericGreaterThanEquals", JRat(1, 2)>>,
             <<"StringEquals", SA>>, <<"StringLessThan", SB>>, <<"StringMatches", SStar>>,
             <<"StringMatches", Str("a*", <<97, 42>>)>>, <<"StringMatches", Str("a\\", <<97, 92>>)>>,
             <<"TimestampEquals", T1>>, <<"TimestampGreaterThan", T2>>, <<"TimestampLessThan", TOdd>>,
             <<"IsPresent", JBool(TRUE)>>, <<"IsNull", JBool(FALSE)>>, <<"IsString", JBool(TRUE)>>,
             <<"IsTimestamp", JBool(TRUE)>>, <<"IsNumeric", JNum(1)>>}
Atoms == {Atom(oc[1], v, oc[2]) : oc \in OpConsts, v \in {"a"}}
         \cup {Atom(oc[1], "b", oc[2]) : oc \in {<<"BooleanEquals", JBool(FALSE)>>, <<"NumericLessThan", JNum(1)>>,
                                                 <<"StringEquals", SA>>, <<"IsNull", JBool(FALSE)>>}}
         \cup {PathAtom(op, "a", "b") : op \in {"NumericEquals", "StringLessThanEquals", "TimestampEquals", "BooleanEquals"}}
Small == {Atom("BooleanEquals", "a", JBool(TRUE)), Atom("NumericLessThan", "a", JNum(1)),
          Atom("StringEquals", "b", SA), Atom("IsPresent", "b", JBool(TRUE)),
          Atom("IsNull", "b", JBool(FALSE)), PathAtom("NumericEquals", "a", "b")}

Codes == {97, 42, 92, 63}
Strs == {<<>>} \cup {<<c>> : c \in Codes} \cup {<<c, e>> : c \in Codes, e \in Codes}
ResultSets == (SUBSET Open) \ {{}}

VARIABLES mode, d, x, y, z
vars == <<mode, d, x, y, z>>
Init == \/ mode = "tree" /\ d \in Docs /\ x \in Atoms /\ y \in Atoms /\ z = 0
        \/ mode = "rules" /\ d \in Docs /\ x \in Small /\ y \in Small /\ z \in Small
        \/ mode = "str" /\ d = 0 /\ x \in Strs /\ y \in Strs /\ z \in Strs
        \/ mode = "sets" /\ d = 0 /\ x \in ResultSets /\ y \in ResultSets /\ z \in ResultSets
Next == UNCHANGED vars

E(r) == Eval(r, d, d, {})
T == Node("And", <<>>)               (* the rule that always matches *)
F == Node("Or", <<>>)                (* the rule that never matches *)
Not(r) == Node("Not", <<r>>)
And2(r, s) == Node("And", <<r, s>>)
Or2(r, s) == Node("Or", <<r, s>>)

(* ---- Boolean algebra of rule trees --------------------------------------------------- *)
LawDeMorgan == mode = "tree" =>
    /\ E(Not(And2(x, y))) = E(Or2(Not(x), Not(y)))
    /\ E(Not(Or2(x, y))) = E(And2(Not(x), Not(y)))
LawDoubleNegation == mode = "tree" => E(Not(Not(x))) = E(x)
LawIdentityElements == mode = "tree" =>
    /\ E(T) = Match /\ E(F) = NoMatch
    /\ E(And2(x, T)) = E(x) /\ E(And2(T, x)) = E(x)
    /\ E(Or2(x, F)) = E(x) /\ E(Or2(F, x)) = E(x)
    /\ E(Node("And", <<x>>)) = E(x) /\ E(Node("Or", <<x>>)) = E(x)
    /\ "match" \notin E(And2(x, F)) /\ "nomatch" \notin E(Or2(x, T))
LawCommutativeAssociative == mode = "tree" =>
    /\ E(And2(x, y)) = E(And2(y, x)) /\ E(Or2(x, y)) = E(Or2(y, x))
    /\ E(And2(x, And2(y, x))) = E(Node("And", <<x, y, x>>))
    /\ E(Or2(Or2(x, y), x)) = E(Node("Or", <<x, y, x>>))
LawExcludedMiddle == mode = "tree" =>
    (E(x) \in {Match, NoMatch} => E(Or2(x, Not(x))) = Match /\ E(And2(x, Not(x))) = NoMatch)
(* decided atoms give decided trees; a tree is two-valued logic on decided atoms *)
LawTwoValued == mode = "tree" =>
    (E(x) \in {Match, NoMatch} /\ E(y) \in {Match, NoMatch} =>
        /\ E(And2(x, y)) = B(E(x) = Match /\ E(y) = Match)
        /\ E(Or2(x, y)) = B(E(x) = Match \/ E(y) = Match)
        /\ E(Not(x)) = B(E(x) # Match))
(* the literal and the Path form of an operator agree when the reference holds the constant *)
LawPathAgreesWithLiteral == mode = "tree" =>
    \A op \in PathOps :
        LET b == Select(d, <<KeyStep("b")>>)
        IN IsMissing(b) \/ E(PathAtom(op, "a", "b")) = E(Atom(op, "a", b))
(* a missing Variable never matches a value comparison; wrong types never match *)
LawMissingNeverMatches == mode = "tree" =>
    \A op \in ValueOps : IsMissing(Select(d, <<KeyStep("a")>>)) => E(Atom(op, "a", x.lit)) = NoMatch
LawTypeDiscipline == mode = "tree" =>
    LET a == Select(d, <<KeyStep("a")>>) IN
    /\ \A op \in NumericOps : ~IsMissing(a) /\ ~IsNum(a) => E(Atom(op, "a", JNum(0))) = NoMatch
    /\ \A op \in StringRelOps \cup {"StringMatches"} : ~IsMissing(a) /\ ~IsStr(a) => E(Atom(op, "a", SStar)) = NoMatch
    /\ ~IsMissing(a) /\ ~IsBool(a) => E(Atom("BooleanEquals", "a", JBool(FALSE))) = NoMatch
    /\ \A op \in TimestampOps : ~IsMissing(a) /\ TsClass(a) = "no" => E(Atom(op, "a", T1)) = NoMatch
(* the five relations of a family are those of one total order *)
Fam(prefix, c) == [eq |-> E(Atom(prefix \o "Equals", "a", c)), lt |-> E(Atom(prefix \o "LessThan", "a", c)),
                   gt |-> E(Atom(prefix \o "GreaterThan", "a", c)), le |-> E(Atom(prefix \o "LessThanEquals", "a", c)),
                   ge |-> E(Atom(prefix \o "GreaterThanEquals", "a", c))]
OrderLaw(f, typed) ==
    IF typed THEN /\ Cardinality({r \in {"eq", "lt", "gt"} : f[r] = Match}) = 1
                  /\ \A r \in {"eq", "lt", "gt"} : f[r] \in {Match, NoMatch}
                  /\ f.le = B(f.lt = Match \/ f.eq = Match) /\ f.ge = B(f.gt = Match \/ f.eq = Match)
    ELSE \A r \in DOMAIN f : f[r] = NoMatch
LawTotalOrders == mode = "tree" =>
    LET a == Select(d, <<KeyStep("a")>>) IN
    /\ \A c \in {JNum(0), JNum(1), JRat(1, 2)} : OrderLaw(Fam("Numeric", c), ~IsMissing(a) /\ IsNum(a))
    /\ \A c \in {SE, SA, SB, T1} : OrderLaw(Fam("String", c), ~IsMissing(a) /\ IsStr(a))
    /\ \A c \in {T1, T2, T3} : OrderLaw(Fam("Timestamp", c), ~IsMissing(a) /\ TsClass(a) = "yes")
(* timestamps compare by instant, not as text; known answers of the classification *)
LawTimestampInstant == mode = "tree" =>
    /\ ValueCompare("TimestampEquals", T1, T2, {}) = Match
    /\ ValueCompare("StringEquals", T1, T2, {}) = NoMatch
    /\ ValueCompare("TimestampGreaterThan", T3, T1, {}) = Match
    /\ ValueCompare("StringLessThan", T3, T1, {}) = Match
    /\ TsClass(T1) = "yes" /\ TsClass(T2) = "yes" /\ TsClass(T3) = "yes"
    /\ TsClass(SA) = "no" /\ TsClass(SE) = "no" /\ TsClass(JNum(1)) = "no"
    /\ TsClass(TOdd) = "odd" /\ TsClass(TDate) = "odd"
    /\ TypeTest("IsTimestamp", TOdd, JBool(TRUE)) = Open
    /\ TypeTest("IsTimestamp", T2, JBool(TRUE)) = Match /\ TypeTest("IsTimestamp", SA, JBool(FALSE)) = Match
(* the type tests partition the present values; IsPresent is decided everywhere *)
LawTypeFacts == mode = "tree" =>
    LET a == Select(d, <<KeyStep("a")>>)
        yes(op) == E(Atom(op, "a", JBool(TRUE)))  no(op) == E(Atom(op, "a", JBool(FALSE)))
    IN /\ yes("IsPresent") = B(~IsMissing(a)) /\ no("IsPresent") = B(IsMissing(a))
       /\ \A op \in TypeTests : yes(op) = NotR(no(op))
       /\ IsMissing(a) => \A op \in TypeTests \ {"IsPresent"} : yes(op) = Open
       /\ ~IsMissing(a) /\ ~IsArr(a) /\ ~IsObj(a) =>
              Cardinality({op \in {"IsNull", "IsNumeric", "IsString", "IsBoolean"} : yes(op) = Match}) = 1
       /\ yes("IsTimestamp") = Match => yes("IsString") = Match

(* ---- first match, Default, States.NoChoiceMatched ------------------------------------- *)
Rs == <<WithNext(x, "M1"), WithNext(y, "M2"), WithNext(z, "M3")>>
Ev(rs, i) == Eval(rs[i], d, d, {})
Defaults == {[set |-> FALSE, next |-> ""], [set |-> TRUE, next |-> "D"]}
Out(rs, df) == OutcomesFrom(rs, 1, df, d, d, {})
End(df) == IF df.set THEN GoTo(df.next) ELSE NoChoiceMatched
Reach(rs, i) == \A j \in 1..(i - 1) : "nomatch" \in Ev(rs, j)
Lists == {Rs, SubSeq(Rs, 1, 2), SubSeq(Rs, 1, 1), <<>>}
         \cup {<<Rs[p[1]], Rs[p[2]], Rs[p[3]]>> : p \in {q \in [1..3 -> 1..3] : \A i, j \in 1..3 : i # j => q[i] # q[j]}}
(* an independent characterisation of the recursion: a rule's Next is admissible iff the rule
   can match and every earlier rule can fail to match; the end iff every rule can fail *)
LawFirstMatch == mode = "rules" =>
    \A rs \in Lists, df \in Defaults :
        Out(rs, df) = {GoTo(rs[i].next) : i \in {i \in DOMAIN rs : "match" \in Ev(rs, i) /\ Reach(rs, i)}}
                      \cup (IF \E i \in DOMAIN rs : "error" \in Ev(rs, i) /\ Reach(rs, i) THEN {AnyFailure} ELSE {})
                      \cup (IF Reach(rs, Len(rs) + 1) THEN {End(df)} ELSE {})
Decided(rs) == \A i \in DOMAIN rs : Ev(rs, i) \in {Match, NoMatch}
First(rs) == IF \E i \in DOMAIN rs : Ev(rs, i) = Match
             THEN rs[CHOOSE i \in DOMAIN rs : Ev(rs, i) = Match /\ \A j \in 1..(i - 1) : Ev(rs, j) = NoMatch].next
             ELSE ""
LawDecidedIsSingleton == mode = "rules" =>
    \A rs \in Lists, df \in Defaults :
        Decided(rs) => Out(rs, df) = {IF First(rs) = "" THEN End(df) ELSE GoTo(First(rs))}
(* order matters only through the first match: two orders of the same rules with the same
   first matching rule have the same outcome; what follows the first match is irrelevant;
   rules that do not match can be removed *)
LawOrderOnlyThroughFirstMatch == mode = "rules" =>
    \A rs \in Lists, qs \in Lists, df \in Defaults :
        (Len(rs) = 3 /\ Len(qs) = 3 /\ Decided(rs) /\ First(rs) = First(qs)) => Out(rs, df) = Out(qs, df)
LawAfterFirstMatchIrrelevant == mode = "rules" =>
    \A df \in Defaults, k \in 1..3 : Ev(Rs, k) = Match => Out(Rs, df) = Out(SubSeq(Rs, 1, k), df)
LawNonMatchingRemovable == mode = "rules" =>
    \A df \in Defaults :
        /\ Ev(Rs, 1) = NoMatch => Out(Rs, df) = Out(Tail(Rs), df)
        /\ Ev(Rs, 2) = NoMatch => Out(Rs, df) = Out(<<Rs[1], Rs[3]>>, df)
        /\ Ev(Rs, 3) = NoMatch => Out(Rs, df) = Out(SubSeq(Rs, 1, 2), df)
LawDefault == mode = "rules" =>
    /\ Out(<<>>, [set |-> TRUE, next |-> "D"]) = {GoTo("D")}
    /\ Out(<<>>, [set |-> FALSE, next |-> ""]) = {NoChoiceMatched}
    /\ \A df \in Defaults : (\E i \in 1..3 : Ev(Rs, i) = Match /\ Reach(Rs, i) /\ Decided(SubSeq(Rs, 1, i)))
                             => End(df) \notin Out(Rs, df)
    /\ (\A i \in 1..3 : Ev(Rs, i) = NoMatch) => Out(Rs, [set |-> FALSE, next |-> ""]) = {NoChoiceMatched}

(* ---- strings ----------------------------------------------------------------------------- *)
LawCodePointOrder == mode = "str" =>
    /\ ~CpLess(x, x)
    /\ (x # y => (CpLess(x, y) /\ ~CpLess(y, x)) \/ (CpLess(y, x) /\ ~CpLess(x, y)))
    /\ (CpLess(x, y) /\ CpLess(y, z) => CpLess(x, z))
    /\ (y # <<>> => CpLess(x, x \o y))                         (* a proper prefix is smaller *)
    /\ (CpLess(x, y) /\ Len(x) = Len(y) => CpLess(x \o z, y \o z))
NoSpecial(p) == \A i \in DOMAIN p : p[i] \notin {STAR, BACKSLASH}
G(p, s) == Glob(p, s, {})
LawWildcard == mode = "str" =>
    /\ G(<<STAR>>, x)
    /\ (NoSpecial(x) => (G(x, y) <=> x = y))                   (* also '?' stands for itself *)
    /\ (G(<<BACKSLASH, STAR>>, x) <=> x = <<STAR>>)
    /\ (G(<<BACKSLASH, BACKSLASH>>, x) <=> x = <<BACKSLASH>>)
    /\ (~PatternUnspecified(x) => G(x \o <<STAR>>, y) = (\E k \in 0..Len(y) : G(x, SubSeq(y, 1, k))))
    /\ (~PatternUnspecified(x) => G(<<STAR>> \o x, y) = (\E k \in 1..(Len(y) + 1) : G(x, SubSeq(y, k, Len(y)))))
    /\ (~PatternUnspecified(x) /\ ~PatternUnspecified(y) =>
            G(x \o y, z) = (\E k \in 0..Len(z) : G(x, SubSeq(z, 1, k)) /\ G(y, SubSeq(z, k + 1, Len(z)))))
    /\ PatternUnspecified(<<BACKSLASH>>) /\ PatternUnspecified(<<BACKSLASH, 97>>) /\ PatternUnspecified(<<97, BACKSLASH>>)
    /\ ~PatternUnspecified(<<BACKSLASH, BACKSLASH>>) /\ ~PatternUnspecified(<<BACKSLASH, STAR>>)
(* the deviations really are deviations, and only where they are meant to be *)
LawDeviations == mode = "str" =>
    /\ Glob(<<QUESTION>>, <<97>>, {"QuestionMarkIsWildcard"}) /\ ~G(<<QUESTION>>, <<97>>)
    /\ (QUESTION \notin {x[i] : i \in DOMAIN x} => Glob(x, y, {"QuestionMarkIsWildcard"}) = G(x, y))
    /\ ((\A i \in DOMAIN x : x[i] = BACKSLASH => i < Len(x) /\ x[i + 1] = STAR) => Glob(x, y, {"BackslashEscapesOnlyStar"}) = G(x, y))

(* ---- the result sets ----------------------------------------------------------------------- *)
LawResultSets == mode = "sets" =>
    /\ NotR(AndR(<<x, y>>)) = OrR(<<NotR(x), NotR(y)>>)
    /\ NotR(OrR(<<x, y>>)) = AndR(<<NotR(x), NotR(y)>>)
    /\ NotR(NotR(x)) = x
    /\ AndR(<<x, Match>>) = x /\ OrR(<<x, NoMatch>>) = x /\ AndR(<<>>) = Match /\ OrR(<<>>) = NoMatch
    /\ AndR(<<x, AndR(<<y, z>>)>>) = AndR(<<x, y, z>>) /\ OrR(<<OrR(<<x, y>>), z>>) = OrR(<<x, y, z>>)
    /\ AndR(<<x, y>>) = AndR(<<y, x>>) /\ OrR(<<x, y>>) = OrR(<<y, x>>)
    (* leaving more open never forbids an outcome (monotone in each argument) *)
    /\ (x \subseteq y => AndR(<<x, z>>) \subseteq AndR(<<y, z>>) /\ OrR(<<x, z>>) \subseteq OrR(<<y, z>>)
                         /\ NotR(x) \subseteq NotR(y))
    /\ Verdict3(Match) = "match" /\ Verdict3(NoMatch) = "nomatch" /\ Verdict3(Open) = "open"
=============================================================================
