------------------------------ MODULE MC_Choice ------------------------------
(***************************************************************************)
(* The laws of Choice.tla, checked exhaustively by TLC over a small        *)
(* alphabet.  One "state" per case; `mode` says which family of laws the   *)
(* state belongs to:                                                       *)
(*   doc   : (document)                      typing, total orders, type facts *)
(*   atom  : (document, atom x)              a missing Variable never matches *)
(*   tree  : (document, atom x, atom y)      Boolean algebra of rule trees *)
(*   rules : (document, atoms x, y, z)       first match / Default         *)
(*   str3  : (strings x, y, z)               code-point order              *)
(*   str   : (strings x, y, short z)         wildcards                     *)
(*   sets  : (result sets x, y, z)           algebra of the result sets    *)
(* The cases are generated in two steps (first the document or the first   *)
(* string, then the rest) so that TLC's workers share them; the laws are   *)
(* invariants of the complete cases (stage 2).  All modes are checked      *)
(* unless the environment variable MC_CHOICE_MODE names one.               *)
(***************************************************************************)
EXTENDS Choice, IOUtils

AllModes == {"doc", "atom", "tree", "rules", "str3", "str", "sets"}
Modes == IF "MC_CHOICE_MODE" \in DOMAIN IOEnv /\ IOEnv.MC_CHOICE_MODE \in AllModes
         THEN {IOEnv.MC_CHOICE_MODE} ELSE AllModes

SE == Str("", <<>>)
SA == Str("a", <<97>>)
SB == Str("b", <<98>>)
SStar == Str("*", <<42>>)
CpT1 == <<50, 48, 50, 48, 45, 48, 49, 45, 48, 49, 84, 49, 50, 58, 48, 48, 58, 48, 48, 90>>
CpT2 == <<50, 48, 50, 48, 45, 48, 49, 45, 48, 49, 84, 49, 55, 58, 51, 48, 58, 48, 48, 43, 48, 53, 58, 51, 48>>
CpT3 == <<50, 48, 50, 48, 45, 48, 49, 45, 48, 49, 84, 49, 49, 58, 51, 48, 58, 48, 48, 45, 48, 49, 58, 48, 48>>
CpOdd == <<50, 48, 50, 48, 45, 48, 49, 45, 48, 49, 116, 49, 50, 58, 48, 48, 58, 48, 48, 122>>
CpDate == <<50, 48, 50, 48, 45, 48, 49, 45, 48, 49>>
T1 == TsStr("2020-01-01T12:00:00Z", CpT1, 631195200, 0)
T2 == TsStr("2020-01-01T17:30:00+05:30", CpT2, 631195200, 0)          (* the same instant *)
T3 == TsStr("2020-01-01T11:30:00-01:00", CpT3, 631197000, 0)          (* later, but smaller as text *)
TOdd == Str("2020-01-01t12:00:00z", CpOdd)
TDate == Str("2020-01-01", CpDate)

Vals == {Missing, JNull, JBool(TRUE), JBool(FALSE), JNum(0), JNum(1), SA, SB, T1, T2}
Doc(a, b) == JObj((IF IsMissing(a) THEN <<>> ELSE <<"a">>) \o (IF IsMissing(b) THEN <<>> ELSE <<"b">>),
                  (IF IsMissing(a) THEN <<>> ELSE <<a>>) \o (IF IsMissing(b) THEN <<>> ELSE <<b>>))
Docs == {Doc(a, b) : a \in Vals, b \in Vals}
ValsS == {Missing, JBool(FALSE), JNum(1), SA, T1}
DocsS == {Doc(a, b) : a \in ValsS, b \in ValsS}
ValsR == {Missing, JBool(TRUE), JNum(1), SA}
DocsR == {Doc(a, b) : a \in ValsR, b \in ValsR}

OpConsts == {<<"BooleanEquals", JBool(FALSE)>>, <<"BooleanEquals", JBool(TRUE)>>,
             <<"NumericEquals", JNum(1)>>, <<"NumericLessThan", JNum(1)>>, <<"NumericGreaterThanEquals", JRat(1, 2)>>,
             <<"StringEquals", SA>>, <<"StringLessThan", SB>>, <<"StringMatches", SStar>>,
             <<"StringMatches", Str("a*", <<97, 42>>)>>, <<"StringMatches", Str("a\\", <<97, 92>>)>>,
             <<"TimestampEquals", T1>>, <<"TimestampGreaterThan", T2>>, <<"TimestampLessThan", TOdd>>,
             <<"IsPresent", JBool(TRUE)>>, <<"IsNull", JBool(FALSE)>>, <<"IsString", JBool(TRUE)>>,
             <<"IsTimestamp", JBool(TRUE)>>, <<"IsNumeric", JNum(1)>>}
Atoms == {Atom(oc[1], v, oc[2]) : oc \in OpConsts, v \in {"a"}}
         \cup {Atom(oc[1], "b", oc[2]) : oc \in {<<"BooleanEquals", JBool(FALSE)>>, <<"NumericLessThan", JNum(1)>>,
                                                 <<"StringEquals", SA>>, <<"IsNull", JBool(FALSE)>>}}
         \cup {PathAtom(op, "a", "b") : op \in {"NumericEquals", "StringLessThanEquals", "TimestampEquals", "BooleanEquals"}}
AtomsY == {Atom("BooleanEquals", "a", JBool(FALSE)), Atom("BooleanEquals", "b", JBool(FALSE)),
           Atom("NumericLessThan", "b", JNum(1)), Atom("StringMatches", "a", Str("a*", <<97, 42>>)),
           Atom("StringMatches", "a", Str("a\\", <<97, 92>>)), Atom("TimestampEquals", "a", T1),
           Atom("IsPresent", "a", JBool(TRUE)), Atom("IsNull", "b", JBool(FALSE)),
           Atom("IsNumeric", "a", JNum(1)), PathAtom("NumericEquals", "a", "b")}
Small == {Atom("BooleanEquals", "a", JBool(TRUE)), Atom("StringEquals", "b", SA), Atom("IsPresent", "b", JBool(TRUE)),
          Atom("IsNull", "b", JBool(FALSE)), PathAtom("NumericEquals", "a", "b")}

Codes == {97, 42, 92, 63}
Strs == {<<>>} \cup {<<c>> : c \in Codes} \cup {<<c, e>> : c \in Codes, e \in Codes}
StrsShort == {<<>>} \cup {<<c>> : c \in Codes} \cup {<<97, 42>>, <<92, 42>>, <<42, 97>>, <<97, 97>>}
Strs3 == {<<>>} \cup {<<c>> : c \in Codes} \cup {<<c, c>> : c \in Codes} \cup {<<97, 42>>, <<42, 97>>, <<92, 63>>}
ResultSets == (SUBSET Open) \ {{}}

VARIABLES stage, mode, d, x, y, z, ev, out
vars == <<stage, mode, d, x, y, z, ev, out>>
Case(m) == stage = 2 /\ mode = m

E(r) == Eval(r, d, d, {})
T == Node("And", <<>>)               (* the rule that always matches *)
F == Node("Or", <<>>)                (* the rule that never matches *)
Not(r) == Node("Not", <<r>>)
And2(r, s) == Node("And", <<r, s>>)
Or2(r, s) == Node("Or", <<r, s>>)

(* ---- Boolean algebra of rule trees --------------------------------------------------- *)
LawDeMorgan == Case("tree") =>
    /\ E(Not(And2(x, y))) = E(Or2(Not(x), Not(y)))
    /\ E(Not(Or2(x, y))) = E(And2(Not(x), Not(y)))
LawDoubleNegation == Case("tree") => E(Not(Not(x))) = E(x)
LawIdentityElements == Case("tree") =>
    /\ E(T) = Match /\ E(F) = NoMatch
    /\ E(And2(x, T)) = E(x) /\ E(And2(T, x)) = E(x)
    /\ E(Or2(x, F)) = E(x) /\ E(Or2(F, x)) = E(x)
    /\ E(Node("And", <<x>>)) = E(x) /\ E(Node("Or", <<x>>)) = E(x)
    /\ "match" \notin E(And2(x, F)) /\ "nomatch" \notin E(Or2(x, T))
LawCommutativeAssociative == Case("tree") =>
    /\ E(And2(x, y)) = E(And2(y, x)) /\ E(Or2(x, y)) = E(Or2(y, x))
    /\ E(And2(x, And2(y, x))) = E(Node("And", <<x, y, x>>))
    /\ E(Or2(Or2(x, y), x)) = E(Node("Or", <<x, y, x>>))
LawExcludedMiddle == Case("tree") =>
    (E(x) \in {Match, NoMatch} => E(Or2(x, Not(x))) = Match /\ E(And2(x, Not(x))) = NoMatch)
(* decided atoms give decided trees; a tree is two-valued logic on decided atoms *)
LawTwoValued == Case("tree") =>
    (E(x) \in {Match, NoMatch} /\ E(y) \in {Match, NoMatch} =>
        /\ E(And2(x, y)) = B(E(x) = Match /\ E(y) = Match)
        /\ E(Or2(x, y)) = B(E(x) = Match \/ E(y) = Match)
        /\ E(Not(x)) = B(E(x) # Match))
(* the literal and the Path form of an operator agree when the reference holds the constant *)
LawPathAgreesWithLiteral == Case("doc") =>
    \A op \in PathOps :
        LET b == Select(d, <<KeyStep("b")>>)
        IN IsMissing(b) \/ E(PathAtom(op, "a", "b")) = E(Atom(op, "a", b))
(* a missing Variable never matches a value comparison; wrong types never match *)
LawMissingNeverMatches == Case("atom") =>
    \A op \in ValueOps : IsMissing(Select(d, <<KeyStep("a")>>)) => E(Atom(op, "a", x.lit)) = NoMatch
LawTypeDiscipline == Case("doc") =>
    LET a == Select(d, <<KeyStep("a")>>) IN
    /\ \A op \in NumericOps : ~IsMissing(a) /\ ~IsNum(a) => E(Atom(op, "a", JNum(0))) = NoMatch
    /\ \A op \in StringRelOps \cup {"StringMatches"} : ~IsMissing(a) /\ ~IsStr(a) => E(Atom(op, "a", SStar)) = NoMatch
    /\ ~IsMissing(a) /\ ~IsBool(a) => E(Atom("BooleanEquals", "a", JBool(FALSE))) = NoMatch
    /\ \A op \in TimestampOps : ~IsMissing(a) /\ TsClass(a) = "no" => E(Atom(op, "a", T1)) = NoMatch
(* the five relations of a family are those of one total order *)
Fam(prefix, c) == [eq |-> E(Atom(prefix \o "Equals", "a", c)), lt |-> E(Atom(prefix \o "LessThan", "a", c)),
                   gt |-> E(Atom(prefix \o "GreaterThan", "a", c)), le |-> E(Atom(prefix \o "LessThanEquals", "a", c)),
                   ge |-> E(Atom(prefix \o "GreaterThanEquals", "a", c))]
OrderLaw(f, typed) ==
    IF typed THEN /\ Cardinality({r \in {"eq", "lt", "gt"} : f[r] = Match}) = 1
                  /\ \A r \in {"eq", "lt", "gt"} : f[r] \in {Match, NoMatch}
                  /\ f.le = B(f.lt = Match \/ f.eq = Match) /\ f.ge = B(f.gt = Match \/ f.eq = Match)
    ELSE \A r \in DOMAIN f : f[r] = NoMatch
LawTotalOrders == Case("doc") =>
    LET a == Select(d, <<KeyStep("a")>>) IN
    /\ \A c \in {JNum(0), JNum(1), JRat(1, 2)} : OrderLaw(Fam("Numeric", c), ~IsMissing(a) /\ IsNum(a))
    /\ \A c \in {SE, SA, SB, T1} : OrderLaw(Fam("String", c), ~IsMissing(a) /\ IsStr(a))
    /\ \A c \in {T1, T2, T3} : OrderLaw(Fam("Timestamp", c), ~IsMissing(a) /\ TsClass(a) = "yes")
(* timestamps compare by instant, not as text; known answers of the classification *)
LawTimestampInstant == Case("doc") =>
    /\ ValueCompare("TimestampEquals", T1, T2, {}) = Match
    /\ ValueCompare("StringEquals", T1, T2, {}) = NoMatch
    /\ ValueCompare("TimestampGreaterThan", T3, T1, {}) = Match
    /\ ValueCompare("StringLessThan", T3, T1, {}) = Match
    /\ TsClass(T1) = "yes" /\ TsClass(T2) = "yes" /\ TsClass(T3) = "yes"
    /\ TsClass(SA) = "no" /\ TsClass(SE) = "no" /\ TsClass(JNum(1)) = "no"
    /\ TsClass(TOdd) = "odd" /\ TsClass(TDate) = "odd"
    /\ TypeTest("IsTimestamp", TOdd, JBool(TRUE)) = Open
    /\ TypeTest("IsTimestamp", T2, JBool(TRUE)) = Match /\ TypeTest("IsTimestamp", SA, JBool(FALSE)) = Match
(* the type tests partition the present values; IsPresent is decided everywhere *)
LawTypeFacts == Case("doc") =>
    LET a == Select(d, <<KeyStep("a")>>)
        yes(op) == E(Atom(op, "a", JBool(TRUE)))  no(op) == E(Atom(op, "a", JBool(FALSE)))
    IN /\ yes("IsPresent") = B(~IsMissing(a)) /\ no("IsPresent") = B(IsMissing(a))
       /\ \A op \in TypeTests : yes(op) = NotR(no(op))
       /\ IsMissing(a) => \A op \in TypeTests \ {"IsPresent"} : yes(op) = Open
       /\ ~IsMissing(a) /\ ~IsArr(a) /\ ~IsObj(a) =>
              Cardinality({op \in {"IsNull", "IsNumeric", "IsString", "IsBoolean"} : yes(op) = Match}) = 1
       /\ yes("IsTimestamp") = Match => yes("IsString") = Match

(* ---- first match, Default, States.NoChoiceMatched ------------------------------------- *)
(* the three rules of the state; a rule list is a sequence of distinct indices into Rs *)
Rs == <<WithNext(x, "M1"), WithNext(y, "M2"), WithNext(z, "M3")>>
IndexLists == {<<>>} \cup {<<i>> : i \in 1..3}
              \cup {<<i, j>> : i, j \in 1..3} \cup {<<i, j, k>> : i, j, k \in 1..3}
Lists == {L \in IndexLists : \A i, j \in DOMAIN L : i # j => L[i] # L[j]}
RulesOf(L) == [i \in DOMAIN L |-> Rs[L[i]]]
Defaults == {[set |-> FALSE, next |-> ""], [set |-> TRUE, next |-> "D"]}
OutSpec(L, df) == OutcomesFrom(RulesOf(L), 1, df, d, d, {})
OutTable == [L \in Lists |-> [df \in Defaults |-> OutSpec(L, df)]]
End(df) == IF df.set THEN GoTo(df.next) ELSE NoChoiceMatched
Reach(L, i) == \A j \in 1..(i - 1) : "nomatch" \in ev[L[j]]
Decided(L) == \A i \in DOMAIN L : ev[L[i]] \in {Match, NoMatch}
First(L) == IF \E i \in DOMAIN L : ev[L[i]] = Match
                THEN L[CHOOSE i \in DOMAIN L : ev[L[i]] = Match /\ \A j \in 1..(i - 1) : ev[L[j]] = NoMatch]
                ELSE 0
Evs == [i \in 1..3 |-> Eval(Rs[i], d, d, {})]
Init == stage = 0 /\ mode \in Modes /\ d = 0 /\ x = 0 /\ y = 0 /\ z = 0 /\ ev = 0 /\ out = 0
PickFirst ==
    /\ stage = 0 /\ stage' = 1 /\ UNCHANGED <<mode, y, z, ev, out>>
    /\ \/ mode \in {"doc", "atom"} /\ d' \in Docs /\ x' = 0
       \/ mode = "tree" /\ d' \in DocsS /\ x' = 0
       \/ mode = "rules" /\ d' \in DocsR /\ x' = 0
       \/ mode \in {"str3", "str"} /\ d' = 0 /\ x' \in Strs
       \/ mode = "sets" /\ d' = 0 /\ x' \in ResultSets
PickRest ==
    /\ stage = 1 /\ stage' = 2 /\ UNCHANGED <<mode, d>>
    /\ \/ mode = "doc" /\ x' = 0 /\ y' = 0 /\ z' = 0
       \/ mode = "atom" /\ x' \in Atoms /\ y' = 0 /\ z' = 0
       \/ mode = "tree" /\ x' \in Atoms /\ y' \in AtomsY /\ z' = 0
       \/ mode = "rules" /\ x' \in Small /\ y' \in Small /\ z' \in Small
       \/ mode = "str3" /\ x' = x /\ y' \in Strs /\ z' \in Strs3
       \/ mode = "str" /\ x' = x /\ y' \in Strs /\ z' \in StrsShort
       \/ mode = "sets" /\ x' = x /\ y' \in ResultSets /\ z' \in ResultSets
    (* the result set of each rule and the outcome of every rule list, computed once per case *)
    /\ IF mode = "rules" THEN ev' = Evs' /\ out' = OutTable' ELSE ev' = 0 /\ out' = 0
Next == PickFirst \/ PickRest


(* an independent characterisation of the recursion: a rule's Next is admissible iff the rule
   can match and every earlier rule can fail to match; the end iff every rule can fail *)
LawFirstMatch == Case("rules") =>
    \A L \in Lists, df \in Defaults :
        out[L][df] = {GoTo(Rs[L[i]].next) : i \in {i \in DOMAIN L : "match" \in ev[L[i]] /\ Reach(L, i)}}
                     \cup (IF \E i \in DOMAIN L : "error" \in ev[L[i]] /\ Reach(L, i) THEN {AnyFailure} ELSE {})
                     \cup (IF Reach(L, Len(L) + 1) THEN {End(df)} ELSE {})
LawDecidedIsSingleton == Case("rules") =>
    \A L \in Lists, df \in Defaults :
        Decided(L) => out[L][df] = {IF First(L) = 0 THEN End(df) ELSE GoTo(Rs[First(L)].next)}
(* order matters only through the first match: two orders of the same rules with the same
   first matching rule have the same outcome; what follows the first match is irrelevant;
   rules that do not match can be removed *)
LawOrderOnlyThroughFirstMatch == Case("rules") =>
    \A L \in Lists, K \in Lists, df \in Defaults :
        ({L[i] : i \in DOMAIN L} = {K[i] : i \in DOMAIN K} /\ Decided(L) /\ First(L) = First(K))
            => out[L][df] = out[K][df]
LawAfterFirstMatchIrrelevant == Case("rules") =>
    \A L \in Lists, df \in Defaults, k \in 1..3 :
        (k <= Len(L) /\ ev[L[k]] = Match) => out[L][df] = out[SubSeq(L, 1, k)][df]
LawNonMatchingRemovable == Case("rules") =>
    \A L \in Lists, df \in Defaults, k \in 1..3 :
        (k <= Len(L) /\ ev[L[k]] = NoMatch) => out[L][df] = out[SubSeq(L, 1, k - 1) \o SubSeq(L, k + 1, Len(L))][df]
LawDefault == Case("rules") =>
    /\ out[<<>>][[set |-> TRUE, next |-> "D"]] = {GoTo("D")}
    /\ out[<<>>][[set |-> FALSE, next |-> ""]] = {NoChoiceMatched}
    /\ \A L \in Lists, df \in Defaults :
          /\ (\E i \in DOMAIN L : ev[L[i]] = Match /\ Decided(SubSeq(L, 1, i)) /\ Reach(L, i)) => End(df) \notin out[L][df]
          /\ (\A i \in DOMAIN L : ev[L[i]] = NoMatch) => out[L][df] = {End(df)}

(* ---- strings ----------------------------------------------------------------------------- *)
LawCodePointOrder == Case("str3") =>
    /\ ~CpLess(x, x)
    /\ (x # y => (CpLess(x, y) /\ ~CpLess(y, x)) \/ (CpLess(y, x) /\ ~CpLess(x, y)))
    /\ (CpLess(x, y) /\ CpLess(y, z) => CpLess(x, z))
    /\ (y # <<>> => CpLess(x, x \o y))                         (* a proper prefix is smaller *)
    /\ (CpLess(x, y) /\ Len(x) = Len(y) => CpLess(x \o z, y \o z))
NoSpecial(p) == \A i \in DOMAIN p : p[i] \notin {STAR, BACKSLASH}
G(p, s) == Glob(p, s, {})
LawWildcard == Case("str") =>
    /\ G(<<STAR>>, x)
    /\ (NoSpecial(x) => (G(x, y) <=> x = y))                   (* also '?' stands for itself *)
    /\ (G(<<BACKSLASH, STAR>>, x) <=> x = <<STAR>>)
    /\ (G(<<BACKSLASH, BACKSLASH>>, x) <=> x = <<BACKSLASH>>)
    /\ (~PatternUnspecified(x) => G(x \o <<STAR>>, y) = (\E k \in 0..Len(y) : G(x, SubSeq(y, 1, k))))
    /\ (~PatternUnspecified(x) => G(<<STAR>> \o x, y) = (\E k \in 1..(Len(y) + 1) : G(x, SubSeq(y, k, Len(y)))))
    /\ (~PatternUnspecified(x) /\ ~PatternUnspecified(y) =>
            G(x \o y, z) = (\E k \in 0..Len(z) : G(x, SubSeq(z, 1, k)) /\ G(y, SubSeq(z, k + 1, Len(z)))))
    /\ PatternUnspecified(<<BACKSLASH>>) /\ PatternUnspecified(<<BACKSLASH, 97>>) /\ PatternUnspecified(<<97, BACKSLASH>>)
    /\ ~PatternUnspecified(<<BACKSLASH, BACKSLASH>>) /\ ~PatternUnspecified(<<BACKSLASH, STAR>>)
(* the deviations really are deviations, and only where they are meant to be *)
LawDeviations == Case("str") =>
    /\ Glob(<<QUESTION>>, <<97>>, {"QuestionMarkIsWildcard"}) /\ ~G(<<QUESTION>>, <<97>>)
    /\ (QUESTION \notin {x[i] : i \in DOMAIN x} => Glob(x, y, {"QuestionMarkIsWildcard"}) = G(x, y))
    /\ ((\A i \in DOMAIN x : x[i] = BACKSLASH => i < Len(x) /\ x[i + 1] = STAR) => Glob(x, y, {"BackslashEscapesOnlyStar"}) = G(x, y))

(* ---- the result sets ----------------------------------------------------------------------- *)
LawResultSets == Case("sets") =>
    /\ NotR(AndR(<<x, y>>)) = OrR(<<NotR(x), NotR(y)>>)
    /\ NotR(OrR(<<x, y>>)) = AndR(<<NotR(x), NotR(y)>>)
    /\ NotR(NotR(x)) = x
    /\ AndR(<<x, Match>>) = x /\ OrR(<<x, NoMatch>>) = x /\ AndR(<<>>) = Match /\ OrR(<<>>) = NoMatch
    /\ AndR(<<x, AndR(<<y, z>>)>>) = AndR(<<x, y, z>>) /\ OrR(<<OrR(<<x, y>>), z>>) = OrR(<<x, y, z>>)
    /\ AndR(<<x, y>>) = AndR(<<y, x>>) /\ OrR(<<x, y>>) = OrR(<<y, x>>)
    (* leaving more open never forbids an outcome (monotone in each argument) *)
    /\ (x \subseteq y => AndR(<<x, z>>) \subseteq AndR(<<y, z>>) /\ OrR(<<x, z>>) \subseteq OrR(<<y, z>>)
                         /\ NotR(x) \subseteq NotR(y))
    /\ Verdict3(Match) = "match" /\ Verdict3(NoMatch) = "nomatch" /\ Verdict3(Open) = "open"
=============================================================================
