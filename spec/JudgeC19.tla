------------------------------- MODULE JudgeC19 -------------------------------
(***************************************************************************)
(* Judge for the address-string and message-mapping clauses of C19.        *)
(*  addr  role ("consumer" | "producer"), a (abstract address), known       *)
(*        (sequence of exchange names), transport, seen = what the broker   *)
(*        saw: [refused, exchanges, queues, binds, consumes, target]        *)
(*  msg   sent, got (see AddressString!RoundTrip), transport                *)
(*  pair  the same case on both transports: the broker logs must be equal   *)
(***************************************************************************)
EXTENDS AddressString, Json, IOUtils

Obs == ndJsonDeserialize(IOEnv.OBS_FILE)
N == Len(Obs)
VARIABLES i, viol
vars == <<i, viol>>

SetOf(s) == {s[j] : j \in 1..Len(s)}

JudgeAddr(o) ==
    LET known == SetOf(o.known) \cup {"amq.topic", "amq.direct", "amq.fanout", "amq.match"}
    IN IF o.role = "consumer"
       THEN IF ConsumerRefused(o.a, known) THEN (IF o.seen.refused THEN "ok" ELSE "Address:subject-without-exchange-accepted")
            ELSE IF o.seen.refused THEN "Address:refused"
            ELSE LET want == ConsumerDeclares(o.a, known) IN
                 IF SetOf(o.seen.exchanges) # want.exchanges THEN "Address:exchange-declarations"
                 ELSE IF Len(o.seen.queues) # 1 THEN "Address:queue-declarations"
                 ELSE IF (want.queue.q # "" /\ o.seen.queues[1].q # want.queue.q) THEN "Address:queue-name"
                 ELSE IF [o.seen.queues[1] EXCEPT !.q = ""] # [want.queue EXCEPT !.q = ""] THEN "Address:queue-flags"
                 ELSE IF {[b EXCEPT !.q = IF want.queue.q = "" THEN "" ELSE @] : b \in SetOf(o.seen.binds)}
                         # {[b EXCEPT !.q = IF want.queue.q = "" THEN "" ELSE @] : b \in want.binds} THEN "Address:bindings"
                 ELSE IF Len(o.seen.consumes) # 1 \/ o.seen.consumes[1] # want.consume THEN "Address:consume-flags"
                 ELSE "ok"
       ELSE LET want == ProducerDeclares(o.a, known) IN
            IF o.seen.refused THEN "Address:refused"
            ELSE IF SetOf(o.seen.exchanges) # want.exchanges THEN "Address:exchange-declarations"
            ELSE IF o.seen.queues # <<>> THEN "Address:producer-declared-a-queue"
            ELSE IF o.seen.target # want.target THEN "Address:publish-target"
            ELSE "ok"

JudgeMsg(o) == IF RoundTrip(o.sent, o.got) THEN "ok"
               ELSE IF o.got.exp # Clamp(o.sent.exp) THEN "Message:expiration"
               ELSE "Message:field-not-intact"

Judge(o) == CASE o.kind = "addr" -> JudgeAddr(o)
              [] o.kind = "msg" -> JudgeMsg(o)
              [] o.kind = "pair" -> (IF o.same THEN "ok" ELSE "TransportsAlike")
              [] OTHER -> "ok"

Known == JsonDeserialize(IOEnv.KNOWN_FINDINGS)
KF(o, v) == ""

Init == i = 1 /\ viol = <<>>
Next == /\ i <= N /\ i' = i + 1
        /\ LET o == Obs[i]  v == Judge(o)
           IN viol' = IF v = "ok" THEN viol ELSE Append(viol, [id |-> o.id, clause |-> v, kf |-> KF(o, v)])
Spec == Init /\ [][Next]_vars
Report == (i = N + 1) => PrintT("VERDICT " \o ToJson([lines |-> N, failures |-> viol]))
=============================================================================
