INIT Init
NEXT Next
INVARIANT LawAtoms
INVARIANT LawNot
INVARIANT LawAndOr
INVARIANT LawBothAnswers
CHECK_DEADLOCK FALSE
