------------------------------- MODULE JudgeC17 -------------------------------
(***************************************************************************)
(* Judge for C17: every observation of the real name validator, ARN        *)
(* functions and of the identifiers met at the sites of real runs is       *)
(* decided with Arn.tla.  Text travels as character lists.                  *)
(* Observation kinds:                                                       *)
(*   valid:  s, real            (what valid_name answered)                  *)
(*   create: p (parts), out     (what create_arn built)                     *)
(*   parse:  x, out (parts, ok = FALSE for an exception)                    *)
(*   link:   site, via, sm (ARN the API minted for the machine), name (the  *)
(*           execution name asked for), hasName, exec (execution ARN seen   *)
(*           at the site), hasSm/smSeen, hasNameSeen/nameSeen, found (the   *)
(*           site visibly acted on that machine)                            *)
(*   child:  name, accepted     (a child execution was started under it)    *)
(***************************************************************************)
EXTENDS Arn, Json, IOUtils

Obs == ndJsonDeserialize(IOEnv.OBS_FILE)
N == Len(Obs)

VARIABLES i, viol
vars == <<i, viol>>

JudgeValid(o) ==
    IF ValidName(o.s) = o.real THEN "ok"
    ELSE IF o.real THEN "ValidName:accepted-a-name-that-must-be-refused"
    ELSE "ValidName:refused-a-valid-name"

JudgeCreate(o) == IF CreateArn(o.p) = o.out THEN "ok" ELSE "CreateArn:wrong-text"

(* a text with fewer than six fields is no ARN: the statement does not say what happens *)
JudgeParse(o) ==
    LET want == ParseArn(o.x) IN
    IF ~want.ok THEN "ok"
    ELSE IF ~o.out.ok THEN "ParseArn:failed-on-a-well-formed-arn"
    ELSE IF o.out = want THEN "ok"
    ELSE "ParseArn:wrong-parts"

(* an execution started under `name` on the machine `sm`: the ARN seen at the site must be the
   one minted from (sm, name), must lead back to sm, and what the site itself reports as
   machine / name must agree.  Without a given name (the engine chose one) the name is read
   off the ARN. *)
JudgeLink(o) ==
    LET p == ParseArn(o.exec)
        isx == IsExecP(p)
        name == IF o.hasName THEN o.name ELSE (IF isx THEN NameOfExecP(p) ELSE <<>>)
    IN IF ~isx THEN "Link:not-an-execution-arn"
       ELSE IF o.exec # ExecArnOf(o.sm, name) THEN "Link:execution-arn-not-minted-from-machine-and-name"
       ELSE IF SmArnOfExecP(p) # o.sm THEN "Link:execution-arn-does-not-identify-its-machine"
       ELSE IF o.hasSm /\ o.smSeen # o.sm THEN "Link:site-reports-another-machine"
       ELSE IF o.hasNameSeen /\ o.nameSeen # name THEN "Link:site-reports-another-name"
       ELSE IF ~o.found THEN "Link:site-did-not-find-the-machine"
       ELSE "ok"

JudgeChild(o) ==
    IF ValidName(o.name) = o.accepted THEN "ok"
    ELSE IF o.accepted THEN "ChildName:ran-under-a-name-that-must-be-refused"
    ELSE "ChildName:refused-a-valid-name"

Judge(o) ==
    CASE o.kind = "valid" -> JudgeValid(o)
      [] o.kind = "create" -> JudgeCreate(o)
      [] o.kind = "parse" -> JudgeParse(o)
      [] o.kind = "link" -> JudgeLink(o)
      [] o.kind = "child" -> JudgeChild(o)
      [] OTHER -> "unknown-observation-kind"

(* ---- known findings (signatures over the case at its root cause) ---------- *)
Known == JsonDeserialize(IOEnv.KNOWN_FINDINGS)
ActiveK == {Known.findings[j].id : j \in {j \in 1..Len(Known.findings) : Known.findings[j].status = "known"}}

(* KC17-1: the validator's pattern is matched without "dot matches newline": a forbidden
   character is only seen if no newline precedes it and none follows it (other than a final
   one).  Territory: names with a newline and a forbidden character that the pattern, read
   that way, does not reach -- there the name is accepted. *)
NoNewline(s, a, b) == \A j \in a..b : s[j] # Newline
PatternReaches(s) ==
    \E p \in 1..Len(s) :
        /\ s[p] \in Forbidden
        /\ NoNewline(s, 1, p - 1)
        /\ (NoNewline(s, p + 1, Len(s)) \/ (s[Len(s)] = Newline /\ NoNewline(s, p + 1, Len(s) - 1)))
KC17x1(o, verdict) ==
    /\ o.kind = "valid" /\ o.real /\ verdict = "ValidName:accepted-a-name-that-must-be-refused"
    /\ Len(o.s) >= 1 /\ Len(o.s) <= MaxNameLen
    /\ Has(o.s, Newline) /\ ~PatternReaches(o.s)

(* KC17-2: the Name of a child execution (Task Parameters.Name) is never validated *)
KC17x2(o, verdict) ==
    o.kind = "child" /\ o.accepted /\ verdict = "ChildName:ran-under-a-name-that-must-be-refused"

KF(o, verdict) ==
    IF "KC17-1" \in ActiveK /\ KC17x1(o, verdict) THEN "KC17-1"
    ELSE IF "KC17-2" \in ActiveK /\ KC17x2(o, verdict) THEN "KC17-2"
    ELSE ""

Init == i = 1 /\ viol = <<>>
Next == /\ i <= N /\ i' = i + 1
        /\ LET o == Obs[i]  v == Judge(o)
           IN viol' = IF v = "ok" THEN viol ELSE Append(viol, [id |-> o.id, clause |-> v, kf |-> KF(o, v)])
Spec == Init /\ [][Next]_vars
Report == (i = N + 1) => PrintT("VERDICT " \o ToJson([lines |-> N, failures |-> viol]))
=============================================================================
