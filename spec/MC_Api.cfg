SPECIFICATION MCSpec
CONSTANTS
    MaxDevs = 2
    MaxStored = 2
VIEW View
CONSTRAINT Constraint
INVARIANT TypeOK
INVARIANT NoInternalError
INVARIANT ListsEnumerateLiveSet
PROPERTY ErrorLeavesStore
PROPERTY CreateThenDescribe
PROPERTY UpdateChangesOnlySupplied
PROPERTY DeleteVisibleAtOnce
PROPERTY StartedIsRunning
PROPERTY ReadsAreReads
CHECK_DEADLOCK FALSE
