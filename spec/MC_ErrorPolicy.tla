---------------------------- MODULE MC_ErrorPolicy ----------------------------
EXTENDS ErrorPolicy
Names == {"E1", "E2", "States.Timeout", "States.Runtime", "Task.Terminated"}
ErrSets == {{"E1"}, {"E2"}, {"E1", "E2"}, {"States.ALL"}, {"States.TaskFailed"}, {"States.Timeout"}}
Retriers == {[errs |-> s, interval |-> i, max |-> m, rate |-> r] :
                s \in ErrSets, i \in {1, 2}, m \in {0, 1, 2}, r \in {<<1, 1>>, <<3, 2>>, <<2, 1>>}}
Lists == {<<>>} \cup {<<a>> : a \in Retriers}
Hists == {<<a>> : a \in Names} \cup {<<a, b>> : a \in Names, b \in Names}
VARIABLES rs, h
Init == rs \in Lists /\ h \in Hists
Next == UNCHANGED <<rs, h>>
L1 == LawMaxZeroNeverRetries(rs, h)
L2 == LawAllSkipsUnrecoverable(rs, h[Len(h)])
L3 == \A i \in 1..Len(rs) : LawFirstDelayIsInterval(rs[i])
L4 == RetryDecision(rs, h).act \in {"retry", "handover", "open"}
L5 == (RetryDecision(rs, h).act = "retry") => \A d \in RetryDecision(rs, h).delays : d >= 1000
=============================================================================
