------------------------------- MODULE JudgeC07 -------------------------------
(***************************************************************************)
(* Judge for C07: a run of one retried/caught state on the real engine     *)
(* (virtual clock) against ErrorPolicy.                                    *)
(* Observation: retriers, catchers (with the ResultPath as RefPath steps), *)
(*  outcomes  the names of the successive attempt outcomes ("ok" or error; *)
(*            the last one repeats),                                       *)
(*  attempts  instants (ms) at which the attempts' requests were issued,   *)
(*  fails     instants (ms) at which the engine handled each failure,      *)
(*  final     [kind |-> succeeded|caught|failed, idx, error, output],      *)
(*  input     the state's original input (tagged JSON).                    *)
(***************************************************************************)
EXTENDS ErrorPolicy, RefPath, Json, IOUtils

Obs == ndJsonDeserialize(IOEnv.OBS_FILE)
N == Len(Obs)
VARIABLES i, viol
vars == <<i, viol>>

Outcome(o, k) == o.outcomes[IF k <= Len(o.outcomes) THEN k ELSE Len(o.outcomes)]
RetrierRec(r) == [errs |-> {r.errs[j] : j \in 1..Len(r.errs)}, interval |-> r.interval, max |-> r.max, rate |-> <<r.rate[1], r.rate[2]>>]
CatcherRec(c) == [errs |-> {c.errs[j] : j \in 1..Len(c.errs)}, next |-> c.next]
Retriers(o) == [j \in 1..Len(o.retriers) |-> RetrierRec(o.retriers[j])]
Catchers(o) == [j \in 1..Len(o.catchers) |-> CatcherRec(o.catchers[j])]

ErrorOutput(e) == JObj(<<"Error", "Cause">>, <<JStr(e), JStr("<cause>")>>)

CaughtOK(o, idx, e) ==
    LET c == o.catchers[idx]
        want == ResultValue(o.input, c.rp, ErrorOutput(e))
    IN /\ o.final.kind = "caught" /\ o.final.idx = idx
       /\ ~IsFail(want) /\ JEq(o.final.output, want)

RECURSIVE Walk(_, _)
Walk(o, k) ==
    IF k > Len(o.attempts) THEN "Attempts:missing"
    ELSE LET out == Outcome(o, k) IN
    IF out = "ok"
    THEN (IF k = Len(o.attempts) /\ o.final.kind = "succeeded" THEN "ok" ELSE "Final:expected-success")
    ELSE LET hist == [j \in 1..k |-> Outcome(o, j)]
             d == RetryDecision(Retriers(o), hist)
         IN IF d.act = "open" THEN "ok"
            ELSE IF d.act = "retry"
            THEN (IF k + 1 > Len(o.attempts) THEN "Retry:missing-attempt"
                  ELSE IF k > Len(o.fails) THEN "Retry:failure-not-observed"
                  ELSE IF (o.attempts[k + 1] - o.fails[k]) \notin d.delays THEN "Retry:wrong-delay"
                  ELSE Walk(o, k + 1))
            ELSE IF k # Len(o.attempts) THEN "Retry:extra-attempt"
            ELSE LET c == CatchDecision(Catchers(o), out) IN
                 IF c.act = "open" THEN "ok"
                 ELSE IF c.act = "fail"
                 THEN (IF o.final.kind = "failed" /\ o.final.error = out THEN "ok"
                       ELSE IF o.final.kind = "caught" THEN "Catch:caught-what-no-catcher-matches"
                       ELSE "Final:expected-failure-with-the-error")
                 ELSE IF CaughtOK(o, c.idx, out) THEN "ok"
                 ELSE IF o.final.kind = "caught" /\ o.final.idx # c.idx THEN "Catch:wrong-catcher"
                 ELSE IF o.final.kind = "caught" THEN "Catch:error-output-misplaced"
                 ELSE "Catch:not-taken"

(* counters do not leak: the second retrying state's first retry uses its own interval *)
JudgeLeak(o) ==
    IF Len(o.attempts2) < 2 \/ Len(o.fails2) < 1 THEN "Leak:second-state-not-retried"
    ELSE IF o.attempts2[2] - o.fails2[1] = o.interval2 * 1000 THEN "ok" ELSE "CountersDoNotLeak"

(* Two levels: a retried Parallel/Map (retriers) whose branch starts with a retried Task  *)
(* (inner).  Every entry of the branch gives the inner state fresh counters; the outer    *)
(* state's counters count its own re-runs only.  k0 = first attempt of the current entry, *)
(* oh = errors with which the outer state has failed so far.                              *)
Inner(o) == [j \in 1..Len(o.inner) |-> RetrierRec(o.inner[j])]
RECURSIVE Walk2(_, _, _, _)
Walk2(o, k, k0, oh) ==
    IF k > Len(o.attempts) THEN "Attempts:missing"
    ELSE LET out == Outcome(o, k) IN
    IF out = "ok"
    THEN (IF k = Len(o.attempts) /\ o.final.kind = "succeeded" THEN "ok" ELSE "Final:expected-success")
    ELSE LET ih == [j \in 1..(k - k0 + 1) |-> Outcome(o, k0 + j - 1)]
             d == RetryDecision(Inner(o), ih)
         IN IF d.act = "open" THEN "ok"
            ELSE IF d.act = "retry"
            THEN (IF k + 1 > Len(o.attempts) THEN "Retry:missing-attempt(inner)"
                  ELSE IF k > Len(o.fails) THEN "Retry:failure-not-observed"
                  ELSE IF (o.attempts[k + 1] - o.fails[k]) \notin d.delays THEN "CountersDoNotLeak:inner-delay"
                  ELSE Walk2(o, k + 1, k0, oh))
            ELSE LET oh2 == Append(oh, out)
                     od == RetryDecision(Retriers(o), oh2)
                 IN IF od.act = "open" THEN "ok"
                    ELSE IF od.act = "retry"
                    THEN (IF k + 1 > Len(o.attempts) THEN "CountersDoNotLeak:outer-retry-missing"
                          ELSE IF k > Len(o.fails) THEN "Retry:failure-not-observed"
                          ELSE IF (o.attempts[k + 1] - o.fails[k]) \notin od.delays THEN "CountersDoNotLeak:outer-delay"
                          ELSE Walk2(o, k + 1, k + 1, oh2))
                    ELSE IF k # Len(o.attempts) THEN "Retry:extra-attempt"
                    ELSE IF o.final.kind = "failed" /\ o.final.error = out THEN "ok"
                    ELSE "Final:expected-failure-with-the-error"

(* The execution's own timeout (reported as States.Timeout, internally States.ExecutionTimeout) is unrecoverable: no   *)
(* Retrier and no Catcher applies, whatever it names.  td / ed: the Task's and the execution's deadlines; c: the       *)
(* instant at which the engine learns of the timeout (not before it handles the Task's event).                         *)
JudgeExecTimeout(o) ==
    LET td == o.entered + o.timeout * 1000
        ed == o.exect * 1000
        first == IF td < ed THEN td ELSE ed
        c == IF o.handled > first THEN o.handled ELSE first
        r == RetryDecision(Retriers(o), <<"States.ExecutionTimeout">>)
        k == CatchDecision(Catchers(o), "States.ExecutionTimeout")
    IN IF c < ed \/ o.entered < 0 THEN "ok"          \* the Task's own timeout comes first: Walk judges those runs
       ELSE IF r.act # "handover" \/ k.act # "fail" THEN "SPEC:execution-timeout-recoverable"
       ELSE IF o.final.kind = "caught" \/ o.final.kind = "succeeded" THEN "Catch:execution-timeout-caught"
       ELSE IF Len(o.attempts) > 1 THEN "Retry:execution-timeout-retried"
       ELSE IF o.final.kind = "failed" /\ o.final.error = "States.Timeout" THEN "ok"
       ELSE "Final:expected-failure-with-the-error"

Judge(o) == IF o.kind = "exect" THEN JudgeExecTimeout(o) ELSE IF o.kind = "policy" THEN Walk(o, 1) ELSE IF o.kind = "nested" THEN Walk2(o, 1, 1, <<>>) ELSE JudgeLeak(o)

Known == JsonDeserialize(IOEnv.KNOWN_FINDINGS)
ActiveK == {Known.findings[j].id : j \in {j \in 1..Len(Known.findings) : Known.findings[j].status = "known"}}
KF(o, v) == ""

Init == i = 1 /\ viol = <<>>
Next == /\ i <= N /\ i' = i + 1
        /\ LET o == Obs[i]  v == Judge(o)
           IN viol' = IF v = "ok" THEN viol ELSE Append(viol, [id |-> o.id, clause |-> v, kf |-> KF(o, v)])
Spec == Init /\ [][Next]_vars
Report == (i = N + 1) => PrintT("VERDICT " \o ToJson([lines |-> N, failures |-> viol]))
=============================================================================
