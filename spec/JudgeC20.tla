------------------------------- MODULE JudgeC20 -------------------------------
(***************************************************************************)
(* Judge for C20.  One observation = one case:                             *)
(*  type "path":  a path of TLC's state graph of MC_Store replayed into    *)
(*     the real store classes.  The judge replays the model (Store.tla)    *)
(*     along the same operations and compares operation by operation:      *)
(*     for this property equality with the reference mapping IS the        *)
(*     property.  Fields: P (the parameter record of Store), ops = list of *)
(*       [op, c, k, f, v,                       the operation              *)
(*        out  = [kind: none|value|exc|bool|keys|len, val (tagged), cls],  *)
(*        ttl  = seconds recorded by the server per key of KeySeq (0 none),*)
(*        csize = cache entries held per client (-1: not observable),      *)
(*        pend = per client, the keys of the invalidations in flight       *)
(*               (read from the simulated server AFTER the operation),     *)
(*        snap = [set, v]: file contents / keyspace after a Reopen]        *)
(*  type "badfile": a JSONStore opened over an unreadable / non-JSON /     *)
(*     truncated file (cls = class of the variant):                        *)
(*     out = [kind: opened|exc, cls, n (keys seen, -1: len failed),        *)
(*            usable (a write is read back)]                               *)
(*  type "engine-ttl": execution records written through the engine:       *)
(*     want, got (ttl of every record key), n                              *)
(*                                                                         *)
(* What is NOT demanded (the statement is silent): the eviction order of   *)
(* the cache (only its bound), whether deleting an absent key raises,      *)
(* which invalidations the client asks for (compared with the model only   *)
(* as clause "drift", which the harness counts and never reports).  A cached read is right if it returns the *)
(* current value, or the value this client's previous cached read of the   *)
(* key returned while an invalidation of the key is still in flight to it. *)
(***************************************************************************)
EXTENDS Store, JsonValue, Json, IOUtils

Obs == ndJsonDeserialize(IOEnv.OBS_FILE)
N == Len(Obs)

VARIABLES i, oi, s, last, pend, dr, viol
vars == <<i, oi, s, last, pend, dr, viol>>

(* model values as tagged JSON *)
ToJ(P, v) == IF P.shape = "dict"
             THEN LET In(f) == f \in DOMAIN v
                      fs == SelectSeq(FieldSeq, In)
                  IN JObj(fs, [jj \in 1..Len(fs) |-> JNum(v[fs[jj]])])
             ELSE JArr([jj \in 1..Len(v) |-> JNum(v[jj])])
KvToJ(P, kv) == LET In(k) == k \in DOMAIN kv
                    ks == SelectSeq(KeySeq, In)
                IN JObj(ks, [jj \in 1..Len(ks) |-> ToJ(P, kv[ks[jj]])])

SeqToSet(q) == {q[jj] : jj \in 1..Len(q)}
NoLast == [set |-> FALSE, v |-> JNull]
InitLast(P) == [c \in ClientsOf(P) |-> [k \in Keys |-> NoLast]]
InitPend(P) == [c \in ClientsOf(P) |-> <<>>]

(* the verdict on one operation: "ok" or the name of the failed clause *)
JudgeOp(P, s0, t0, o, lst, pnd) ==
    LET exp == Expected(P, s0, o)
        out == o.out
        isKeyErr == out.kind = "exc" /\ out.cls = "KeyError"
        mapping ==
            IF out.kind = "exc" /\ ~isKeyErr THEN "StoreRefinesMapping:unexpected-exception"
            ELSE IF exp.kind = "keyerror"
                 THEN (IF isKeyErr THEN "ok"
                       ELSE IF o.op = "Del" /\ out.kind = "none" THEN "ok"       (* open *)
                       ELSE "StoreRefinesMapping:absent-key-not-refused")
            ELSE IF isKeyErr
                 THEN (IF o.op = "Del" /\ ~Present(s0, o.k) THEN "ok"              (* open *)
                       ELSE "StoreRefinesMapping:present-key-refused")
            ELSE IF exp.kind = "none" THEN (IF out.kind = "none" THEN "ok" ELSE "StoreRefinesMapping:wrong-result")
            ELSE IF exp.kind = "null"
                 THEN (IF out.kind = "value" /\ IsNull(out.val) THEN "ok" ELSE "StoreRefinesMapping:absent-key-read")
            ELSE IF exp.kind = "bool"
                 THEN (IF out.kind = "bool" /\ out.val = JBool(exp.b) THEN "ok" ELSE "StoreRefinesMapping:contains")
            ELSE IF exp.kind = "len"
                 THEN (IF out.kind = "len" /\ out.val = JNum(exp.n) THEN "ok" ELSE "StoreRefinesMapping:len")
            ELSE IF exp.kind = "keys"
                 THEN (IF /\ out.kind = "keys"
                          /\ Len(out.val.a) = Cardinality(exp.ks)
                          /\ {out.val.a[jj] : jj \in 1..Len(out.val.a)} = {JStr(k) : k \in exp.ks}
                       THEN "ok" ELSE "StoreRefinesMapping:iteration")
            ELSE IF o.op = "CachedGet" /\ HasCache(P)
                 THEN (LET cur == ToJ(P, Value(s0, o.k))
                           l == lst[o.c][o.k]
                       IN IF out.kind # "value" \/ out.val.t \notin {"obj", "arr"} THEN "CacheCoherent:wrong-value"
                          ELSE IF JEq(out.val, cur) THEN "ok"
                          ELSE IF l.set /\ JEq(out.val, l.v)
                               THEN (IF o.k \in SeqToSet(pnd[o.c]) THEN "ok"
                                     ELSE "CacheCoherent:stale-with-no-invalidation-in-flight")
                          ELSE "CacheCoherent:wrong-value")
            ELSE (IF out.kind = "value" /\ out.val.t \in {"obj", "arr"} /\ JEq(out.val, ToJ(P, exp.v)) THEN "ok"
                  ELSE IF o.op = "Get" THEN "StoreRefinesMapping:read-back" ELSE "StoreRefinesMapping:cached-read")
        ttlv == IF HasCache(P) /\ \E jj \in 1..Len(KeySeq) : o.ttl[jj] # t0.ttl[KeySeq[jj]]
                THEN "TtlApplied" ELSE "ok"
        bound == IF \E c \in ClientsOf(P) : o.csize[c] > P.cap THEN "CacheBounded" ELSE "ok"
        reop == IF o.snap.set /\ ~JEq(o.snap.v, KvToJ(P, t0.kv)) THEN "SurvivesReopen" ELSE "ok"
    IN <<mapping, ttlv, bound, reop>>

Drifts(P, t, o) == IF HasCache(P) /\ \E c \in ClientsOf(P) : o.pend[c] # t.inflight[c] THEN 1 ELSE 0

JudgeBadFile(o) ==
    (* UnreadableFileStartsEmpty: opened, as empty as Init, and a working mapping *)
    IF o.out.kind = "opened" /\ o.out.n = Cardinality(DOMAIN Init(o.P).kv) /\ o.out.usable THEN <<>>
    ELSE <<[id |-> o.id, step |-> 0, clause |-> "UnreadableFileStartsEmpty", op |-> o.variant]>>

JudgeEngineTtl(o) ==
    IF o.n >= 1 /\ Len(o.got) = o.n /\ \A jj \in 1..Len(o.got) : o.got[jj] = o.want THEN <<>>
    ELSE <<[id |-> o.id, step |-> 0, clause |-> "TtlApplied:engine", op |-> "engine"]>>

(* ---- known findings (signatures over the case at its root cause) ---------------------- *)
Known == JsonDeserialize(IOEnv.KNOWN_FINDINGS)
ActiveK == {Known.findings[jj].id : jj \in {jj \in 1..Len(Known.findings) : Known.findings[jj].status = "known"}}
(* KC20-1: a store file holding valid JSON that is not an object is kept as the table: the *)
(* store opens without error and is then not a usable mapping                             *)
KC20_1(o, f) == /\ o.type = "badfile" /\ o.cls = "json-nonobject"
                /\ f.clause = "UnreadableFileStartsEmpty"
                /\ o.out.kind = "opened" /\ ~o.out.usable
(* KC20-2: stop() of one store publishes "exit" on the invalidation channel, which every   *)
(* other client's tracker subscription receives; its handler takes the text for a list of *)
(* keys and raises.  Root cause case: the message handed to client c is that "exit" (the  *)
(* head of what was in flight to c before the operation); recorded behaviour: the         *)
(* delivery raises AttributeError                                                          *)
ExitMessage == "exit"
KC20_2(o, f) == /\ o.type = "path" /\ f.op = "DeliverInvalidation" /\ f.step >= 2
                /\ f.clause = "StoreRefinesMapping:unexpected-exception"
                /\ LET op == o.ops[f.step]
                       before == o.ops[f.step - 1].pend[op.c]
                   IN /\ op.out.cls = "AttributeError"
                      /\ before # <<>> /\ before[1] = ExitMessage
KF(o, f) == IF "KC20-1" \in ActiveK /\ KC20_1(o, f) THEN "KC20-1"
            ELSE IF "KC20-2" \in ActiveK /\ KC20_2(o, f) THEN "KC20-2"
            ELSE ""
(* once such a foreign message is in a client's queue the queues are not comparable with the model's *)
Polluted(P, op) == \E c \in ClientsOf(P) : ExitMessage \in SeqToSet(op.pend[c])

(* One TLC step per operation of a path (and one per case of the other types): the model     *)
(* state s, the client's previous cached reads `last` and the invalidations in flight `pend`   *)
(* (as observed after the previous operation) are carried from step to step.                   *)
DefaultP == [kind |-> "mem", shape |-> "dict", nclients |-> 1, cap |-> 1, maxlen |-> 1, maxinfl |-> 1,
             ttl |-> 0, writer2 |-> FALSE, lite |-> FALSE, ttl1 |-> FALSE, nkeys |-> 2]
PathP(n) == IF n <= N /\ Obs[n].type = "path" THEN Obs[n].P ELSE DefaultP
Mk(o, f) == [id |-> f.id, clause |-> f.clause, kf |-> KF(o, f), step |-> f.step, op |-> f.op]

Init0 == /\ i = 1 /\ oi = 1 /\ viol = <<>> /\ dr = FALSE
         /\ s = Init(PathP(1)) /\ last = InitLast(PathP(1)) /\ pend = InitPend(PathP(1))
NextCase == /\ i' = i + 1 /\ oi' = 1 /\ dr' = FALSE
            /\ s' = Init(PathP(i + 1)) /\ last' = InitLast(PathP(i + 1)) /\ pend' = InitPend(PathP(i + 1))
Next ==
    /\ i <= N
    /\ LET o == Obs[i] IN
       IF o.type # "path"
       THEN /\ NextCase
            /\ LET r == IF o.type = "badfile" THEN JudgeBadFile(o) ELSE JudgeEngineTtl(o)
               IN viol' = viol \o [n \in 1..Len(r) |-> Mk(o, r[n])]
       ELSE IF oi > Len(o.ops) THEN NextCase /\ viol' = viol
       ELSE LET P == o.P
                op == o.ops[oi]
                t == Step(P, s, op)
                vs == JudgeOp(P, s, t, op, last, pend)
                bad == SelectSeq(vs, LAMBDA x : x # "ok")
                d == Drifts(P, t, op) = 1 /\ ~dr /\ ~Polluted(P, op)
                new == [n \in 1..Len(bad) |-> Mk(o, [id |-> o.id, step |-> oi, clause |-> bad[n], op |-> op.op])]
                       \o (IF d THEN <<Mk(o, [id |-> o.id, step |-> oi, clause |-> "drift", op |-> op.op])>> ELSE <<>>)
            IN /\ i' = i /\ oi' = oi + 1 /\ s' = t /\ pend' = op.pend /\ dr' = (dr \/ d \/ Polluted(P, op))
               /\ viol' = viol \o new
               /\ last' = IF op.op = "CachedGet" /\ HasCache(P) /\ op.out.kind = "value"
                          THEN [last EXCEPT ![op.c][op.k] = [set |-> TRUE, v |-> op.out.val]]
                          ELSE IF op.op = "Reopen" THEN [last EXCEPT ![op.c] = [k \in Keys |-> NoLast]]
                          ELSE last
Spec == Init0 /\ [][Next]_vars
Report == (i = N + 1) => PrintT("VERDICT " \o ToJson([lines |-> N, failures |-> viol]))
=============================================================================
