------------------------------- MODULE JudgeC20 -------------------------------
(***************************************************************************)
(* Judge for C20.  One observation = one case:                             *)
(*  type "path":  a path of TLC's state graph of MC_Store replayed into    *)
(*     the real store classes.  The judge replays the model (Store.tla)    *)
(*     along the same operations and compares operation by operation:      *)
(*     for this property equality with the reference mapping IS the        *)
(*     property.  Fields: P (the parameter record of Store), ops = list of *)
(*       [op, c, k, f, v,                       the operation              *)
(*        out  = [kind: none|value|exc|bool|keys|len, val (tagged), cls],  *)
(*        ttl  = seconds recorded by the server per key of KeySeq (0 none),*)
(*        csize = cache entries held per client (-1: not observable),      *)
(*        pend = per client, the keys of the invalidations in flight       *)
(*               (read from the simulated server AFTER the operation),     *)
(*        snap = [set, v]: file contents / keyspace after a Reopen]        *)
(*  type "badfile": a JSONStore opened over an unreadable / non-JSON /     *)
(*     truncated file: out = [kind: opened|exc, cls, n]                    *)
(*  type "engine-ttl": execution records written through the engine:       *)
(*     want, got (ttl of every record key), n                              *)
(*                                                                         *)
(* What is NOT demanded (the statement is silent): the eviction order of   *)
(* the cache (only its bound), whether deleting an absent key raises,      *)
(* which invalidations the client asks for (compared with the model only   *)
(* as clause "drift", which the harness counts and never reports).  A cached read is right if it returns the *)
(* current value, or the value this client's previous cached read of the   *)
(* key returned while an invalidation of the key is still in flight to it. *)
(***************************************************************************)
EXTENDS Store, JsonValue, Json, IOUtils

Obs == ndJsonDeserialize(IOEnv.OBS_FILE)
N == Len(Obs)

VARIABLES i, viol
vars == <<i, viol>>

(* model values as tagged JSON *)
ToJ(P, v) == IF P.shape = "dict"
             THEN LET In(f) == f \in DOMAIN v
                      fs == SelectSeq(FieldSeq, In)
                  IN JObj(fs, [j \in 1..Len(fs) |-> JNum(v[fs[j]])])
             ELSE JArr([j \in 1..Len(v) |-> JNum(v[j])])
KvToJ(P, kv) == LET In(k) == k \in DOMAIN kv
                    ks == SelectSeq(KeySeq, In)
                IN JObj(ks, [j \in 1..Len(ks) |-> ToJ(P, kv[ks[j]])])

SeqToSet(q) == {q[j] : j \in 1..Len(q)}
NoLast == [set |-> FALSE, v |-> JNull]
InitLast(P) == [c \in ClientsOf(P) |-> [k \in Keys |-> NoLast]]
InitPend(P) == [c \in ClientsOf(P) |-> <<>>]

(* the verdict on one operation: "ok" or the name of the failed clause *)
JudgeOp(P, s, t, o, last, pend) ==
    LET exp == Expected(P, s, o)
        out == o.out
        isKeyErr == out.kind = "exc" /\ out.cls = "KeyError"
        mapping ==
            IF out.kind = "exc" /\ ~isKeyErr THEN "StoreRefinesMapping:unexpected-exception"
            ELSE IF exp.kind = "keyerror"
                 THEN (IF isKeyErr THEN "ok"
                       ELSE IF o.op = "Del" /\ out.kind = "none" THEN "ok"       (* open *)
                       ELSE "StoreRefinesMapping:absent-key-not-refused")
            ELSE IF isKeyErr
                 THEN (IF o.op = "Del" /\ ~Present(s, o.k) THEN "ok"              (* open *)
                       ELSE "StoreRefinesMapping:present-key-refused")
            ELSE IF exp.kind = "none" THEN (IF out.kind = "none" THEN "ok" ELSE "StoreRefinesMapping:wrong-result")
            ELSE IF exp.kind = "null"
                 THEN (IF out.kind = "value" /\ IsNull(out.val) THEN "ok" ELSE "StoreRefinesMapping:absent-key-read")
            ELSE IF exp.kind = "bool"
                 THEN (IF out.kind = "bool" /\ out.val = JBool(exp.b) THEN "ok" ELSE "StoreRefinesMapping:contains")
            ELSE IF exp.kind = "len"
                 THEN (IF out.kind = "len" /\ out.val = JNum(exp.n) THEN "ok" ELSE "StoreRefinesMapping:len")
            ELSE IF exp.kind = "keys"
                 THEN (IF /\ out.kind = "keys"
                          /\ Len(out.val.a) = Cardinality(exp.ks)
                          /\ {out.val.a[j] : j \in 1..Len(out.val.a)} = {JStr(k) : k \in exp.ks}
                       THEN "ok" ELSE "StoreRefinesMapping:iteration")
            ELSE IF o.op = "CachedGet" /\ HasCache(P)
                 THEN (LET cur == ToJ(P, Value(s, o.k))
                           l == last[o.c][o.k]
                       IN IF out.kind # "value" \/ out.val.t \notin {"obj", "arr"} THEN "CacheCoherent:wrong-value"
                          ELSE IF JEq(out.val, cur) THEN "ok"
                          ELSE IF l.set /\ JEq(out.val, l.v)
                               THEN (IF o.k \in SeqToSet(pend[o.c]) THEN "ok"
                                     ELSE "CacheCoherent:stale-with-no-invalidation-in-flight")
                          ELSE "CacheCoherent:wrong-value")
            ELSE (IF out.kind = "value" /\ out.val.t \in {"obj", "arr"} /\ JEq(out.val, ToJ(P, exp.v)) THEN "ok"
                  ELSE IF o.op = "Get" THEN "StoreRefinesMapping:read-back" ELSE "StoreRefinesMapping:cached-read")
        ttlv == IF HasCache(P) /\ \E j \in 1..Len(KeySeq) : o.ttl[j] # t.ttl[KeySeq[j]]
                THEN "TtlApplied" ELSE "ok"
        bound == IF \E c \in ClientsOf(P) : o.csize[c] > P.cap THEN "CacheBounded" ELSE "ok"
        reop == IF o.snap.set /\ ~JEq(o.snap.v, KvToJ(P, t.kv)) THEN "SurvivesReopen" ELSE "ok"
    IN <<mapping, ttlv, bound, reop>>

Drifts(P, t, o) == IF HasCache(P) /\ \E c \in ClientsOf(P) : o.pend[c] # t.inflight[c] THEN 1 ELSE 0

RECURSIVE Walk(_, _, _, _, _, _, _, _)
Walk(o, P, j, s, last, pend, fails, dr) ==
    IF j > Len(o.ops) THEN fails
    ELSE LET op == o.ops[j]
             t == Step(P, s, op)
             vs == JudgeOp(P, s, t, op, last, pend)
             bad == SelectSeq(vs, LAMBDA x : x # "ok")
             d == Drifts(P, t, op)
             new == [n \in 1..Len(bad) |-> [id |-> o.id, step |-> j, clause |-> bad[n], op |-> op.op]]
                    \o (IF d = 1 /\ dr = 0 THEN <<[id |-> o.id, step |-> j, clause |-> "drift", op |-> op.op]>> ELSE <<>>)
             last1 == IF op.op = "CachedGet" /\ HasCache(P) /\ op.out.kind = "value"
                      THEN [last EXCEPT ![op.c][op.k] = [set |-> TRUE, v |-> op.out.val]]
                      ELSE IF op.op = "Reopen" THEN [last EXCEPT ![op.c] = [k \in Keys |-> NoLast]]
                      ELSE last
         IN Walk(o, P, j + 1, t, last1, op.pend, fails \o new, dr + d)

JudgePath(o) == Walk(o, o.P, 1, Init(o.P), InitLast(o.P), InitPend(o.P), <<>>, 0)

JudgeBadFile(o) ==
    (* UnreadableFileStartsEmpty: opened, and as empty as Init *)
    IF o.out.kind = "opened" /\ o.out.n = Cardinality(DOMAIN Init(o.P).kv) THEN <<>>
    ELSE <<[id |-> o.id, step |-> 0, clause |-> "UnreadableFileStartsEmpty", op |-> o.variant]>>

JudgeEngineTtl(o) ==
    IF o.n >= 1 /\ Len(o.got) = o.n /\ \A j \in 1..Len(o.got) : o.got[j] = o.want THEN <<>>
    ELSE <<[id |-> o.id, step |-> 0, clause |-> "TtlApplied:engine", op |-> "engine"]>>

Judge(o) == IF o.type = "path" THEN JudgePath(o)
            ELSE IF o.type = "badfile" THEN JudgeBadFile(o)
            ELSE JudgeEngineTtl(o)

(* ---- known findings (signatures over the case at its root cause) ---------------------- *)
Known == JsonDeserialize(IOEnv.KNOWN_FINDINGS)
ActiveK == {Known.findings[j].id : j \in {j \in 1..Len(Known.findings) : Known.findings[j].status = "known"}}
(* none for C20: no genuine defect of store.py was met on the explored space *)
KF(f) == ""

Init0 == i = 1 /\ viol = <<>>
Next == /\ i <= N /\ i' = i + 1
        /\ LET r == Judge(Obs[i])
           IN viol' = viol \o [n \in 1..Len(r) |->
                                 [id |-> r[n].id, clause |-> r[n].clause, kf |-> KF(r[n]), step |-> r[n].step, op |-> r[n].op]]
Spec == Init0 /\ [][Next]_vars
Report == (i = N + 1) => PrintT("VERDICT " \o ToJson([lines |-> N, failures |-> viol]))
=============================================================================
