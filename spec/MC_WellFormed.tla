----------------------------- MODULE MC_WellFormed -----------------------------
(***************************************************************************)
(* Enumerates the definitions reachable from the seed machines by at most  *)
(* Depth mutations and prints each one (with its WellFormed verdict) as a   *)
(* JSON line for the harness, which runs the real validator and the real    *)
(* engine on it.  Laws: the seeds are well formed; dropping the StartAt      *)
(* state or retargeting a Next to "Nowhere" always destroys well-formedness. *)
(***************************************************************************)
EXTENDS WellFormed, Json, TLCExt

CONSTANT Depth

P(extra) == [Type |-> Str("Pass")] @@ extra
Seed1 == [StartAt |-> Str("A"), States |-> [A |-> P([Next |-> Str("B")]), B |-> [Type |-> Str("Task"), Resource |-> Str("arn:aws:rpcmessage:local::function:f"), Next |-> Str("C")], C |-> [Type |-> Str("Succeed")]]]
Seed2 == [StartAt |-> Str("A"), States |-> [A |-> [Type |-> Str("Choice"), Choices |-> Choices(<<[Next |-> Str("B"), Variable |-> Str("$.x"), NumericEquals |-> Num(1)]>>), Default |-> Str("C")],
                                               B |-> P([End |-> Bool(TRUE)]), C |-> [Type |-> Str("Fail"), Error |-> Str("E")]]]
Seed3 == [StartAt |-> Str("P"), States |-> [P |-> [Type |-> Str("Parallel"), End |-> Bool(TRUE),
             Branches |-> Machines(<<[StartAt |-> Str("X"), States |-> [X |-> P([Next |-> Str("Y")]), Y |-> P([End |-> Bool(TRUE)])]],
                                      [StartAt |-> Str("Z"), States |-> [Z |-> P([End |-> Bool(TRUE)])]]>>)]]]
Seed4 == [StartAt |-> Str("M"), States |-> [M |-> [Type |-> Str("Map"), Next |-> Str("D"),
             ItemProcessor |-> Machine1([StartAt |-> Str("I"), States |-> [I |-> P([End |-> Bool(TRUE)])]])], D |-> P([End |-> Bool(TRUE)])]]
Seed5 == [StartAt |-> Str("W"), States |-> [W |-> [Type |-> Str("Wait"), Seconds |-> Num(1), Next |-> Str("F")], F |-> P([End |-> Bool(TRUE)])]]
(* two levels of nesting: siblings, cousins, parent/child name collisions *)
Seed6 == [StartAt |-> Str("P"), States |-> [P |-> [Type |-> Str("Parallel"), End |-> Bool(TRUE),
             Branches |-> Machines(<<[StartAt |-> Str("Q"), States |-> [Q |-> [Type |-> Str("Map"), End |-> Bool(TRUE),
                                          ItemProcessor |-> Machine1([StartAt |-> Str("I"), States |-> [I |-> P([Next |-> Str("J")]), J |-> P([End |-> Bool(TRUE)])]])]]],
                                      [StartAt |-> Str("Z"), States |-> [Z |-> P([Next |-> Str("Y")]), Y |-> P([End |-> Bool(TRUE)])]]>>)]]]
Seeds == {Seed1, Seed2, Seed3, Seed4, Seed5, Seed6}

RECURSIVE Reach(_, _)
Reach(S, d) == IF d = 0 THEN S ELSE Reach(S \cup UNION {Mutants(m) : m \in S}, d - 1)
All == Reach(Seeds, Depth)

VARIABLE m
Init == m \in All
Next == UNCHANGED m
Emit == PrintT("DEF " \o ToJson([wf |-> WellFormed(m), def |-> m]))

SeedsWellFormed == \A s \in Seeds : WellFormed(s)
LawDropStart == m \in Seeds => ~WellFormed(DropState(m, m.StartAt.s))
LawCollision == m \in Seeds => \A x \in NameCollisions(m) : MachineOK(x) /\ ~NamesUnique(x)
LawDangling == m \in Seeds => \A n \in DOMAIN m.States : ~WellFormed(WithState(m, n, SetField(m.States[n], "Next", Str("Nowhere"))))
=============================================================================
