------------------------------ MODULE JsonValue ------------------------------
(***************************************************************************)
(* JSON values as tagged records (see lib/vsim/tagged.py):                 *)
(*   [t |-> "null"]  [t |-> "bool", b |-> TRUE]  [t |-> "num", n |-> 3, d |-> 2]  *)
(*   [t |-> "big", r |-> "..."]  [t |-> "str", s |-> "x"]  [t |-> "ustr", c |-> <<..>>] *)
(*   [t |-> "arr", a |-> <<...>>]  [t |-> "obj", k |-> <<keys>>, v |-> <<values>>]   *)
(* Records of different JSON types have different domains, so TLC never    *)
(* compares payloads of different kinds.                                   *)
(***************************************************************************)
EXTENDS Naturals, Integers, Sequences, FiniteSets, TLC

JNull == [t |-> "null"]
JBool(b) == [t |-> "bool", b |-> b]
JNum(n) == [t |-> "num", n |-> n, d |-> 1]
JRat(n, d) == [t |-> "num", n |-> n, d |-> d]
JStr(s) == [t |-> "str", s |-> s]
JArr(a) == [t |-> "arr", a |-> a]
JObj(k, v) == [t |-> "obj", k |-> k, v |-> v]
EmptyObj == JObj(<<>>, <<>>)
EmptyArr == JArr(<<>>)

IsObj(x) == x.t = "obj"
IsArr(x) == x.t = "arr"
IsStr(x) == x.t \in {"str", "ustr"}
IsNum(x) == x.t \in {"num", "big"}
IsBool(x) == x.t = "bool"
IsNull(x) == x.t = "null"
IsScalar(x) == ~IsObj(x) /\ ~IsArr(x)

KeyIndex(o, key) == IF \E i \in 1..Len(o.k) : o.k[i] = key
                    THEN CHOOSE i \in 1..Len(o.k) : o.k[i] = key ELSE 0
HasKey(o, key) == KeyIndex(o, key) # 0
Member(o, key) == o.v[KeyIndex(o, key)]

(* equality of JSON values modulo the order of object members *)
RECURSIVE JEq(_, _)
JEq(x, y) ==
    IF x.t # y.t THEN FALSE
    ELSE IF x.t = "obj"
         THEN /\ Len(x.k) = Len(y.k)
              /\ \A i \in 1..Len(x.k) : HasKey(y, x.k[i]) /\ JEq(x.v[i], Member(y, x.k[i]))
    ELSE IF x.t = "arr"
         THEN /\ Len(x.a) = Len(y.a)
              /\ \A i \in 1..Len(x.a) : JEq(x.a[i], y.a[i])
    ELSE x = y

(* set a member (appending the key if it is new) *)
SetMember(o, key, val) ==
    LET i == KeyIndex(o, key)
    IN IF i = 0 THEN JObj(Append(o.k, key), Append(o.v, val))
       ELSE JObj(o.k, [o.v EXCEPT ![i] = val])

RECURSIVE JDepth(_)
Max(S) == CHOOSE m \in S : \A z \in S : z <= m
JDepth(x) ==
    IF x.t = "obj" THEN (IF Len(x.v) = 0 THEN 1 ELSE 1 + Max({JDepth(x.v[i]) : i \in 1..Len(x.v)}))
    ELSE IF x.t = "arr" THEN (IF Len(x.a) = 0 THEN 1 ELSE 1 + Max({JDepth(x.a[i]) : i \in 1..Len(x.a)}))
    ELSE 0
=============================================================================
