------------------------------ MODULE JudgeC10 ------------------------------
(***************************************************************************)
(* Judge for C10.  One observation = one PATH of the model's state graph   *)
(* replayed call by call into a fresh real world (checks/c10.py):          *)
(*   [id, pid, front, steps]     front = "asyncio" | "blocking"            *)
(*   step = [c     index of the call in the call table (IOEnv.C10_CALLS)   *)
(*           st    HTTP status          ty   the `__type` of the answer    *)
(*           same  the stores (state machines, executions) are exactly as  *)
(*                 before the call and nothing was queued for the engine   *)
(*           chg   which stored records changed (symbols)                  *)
(*           b     normalised projection of the body: fields present,      *)
(*                 arn/name/def/role/typ/log/status/input/smarn mapped     *)
(*                 back to pool symbols ("?" = none of them), updated =    *)
(*                 updateDate > creationDate, upinc = updateDate advanced, *)
(*                 items = what a list call enumerates                     *)
(*           echo  after a successful Create/Update/Delete the harness     *)
(*                 describes the machine once: [st, ty, b]]                *)
(* The judge owns the model state: it replays Api along the path from      *)
(* InitState, recomputes the admissible response of every call in that     *)
(* state (Response) and compares only what the statement fixes: status     *)
(* class, error type (a member of the admissible set), the fields          *)
(* described back, list membership, store-unchanged-on-error, updateDate   *)
(* advancing.  Message texts and absolute dates are never compared.        *)
(* Clauses: ApiRefines:*, ErrorLeavesStore, NoInternalError,                *)
(* ListsEnumerateLiveSet:*, UpdateOnlySupplied:*.                           *)
(* After a step whose real outcome leaves the model state unknown (a valid *)
(* call refused, an invalid one accepted, a store changed by a refused     *)
(* call) the rest of the path is not judged (counted as skipped).          *)
(***************************************************************************)
EXTENDS Api, Json, IOUtils

Obs == ndJsonDeserialize(IOEnv.OBS_FILE)
N == Len(Obs)
CallTable == JsonDeserialize(IOEnv.C10_CALLS).calls

VARIABLES i, viol, kcount, stats
jvars == <<i, viol, kcount, stats, sm, ex, clock, resp>>

SetOf(s) == {s[k] : k \in 1..Len(s)}
Has(b, req) == req \subseteq SetOf(b.fields)
Cond(p, f) == IF p THEN <<f>> ELSE <<>>
Fail(clause, taint) == [clause |-> clause, taint |-> taint]

RealOk(o)  == o.st >= 200 /\ o.st < 300 /\ o.ty = ""
RealErr(o) == o.st >= 400 /\ o.st < 500
Real5xx(o) == ~(o.st >= 200 /\ o.st < 500)

(* the fields of a machine record described back; the blocking front end does  *)
(* not implement loggingConfiguration at all, so it is not compared there      *)
MachineMatches(b, a, rec, front) ==
    /\ b.arn = a /\ b.name = rec.name /\ b.def = rec.def /\ b.role = rec.role /\ b.typ = rec.typ
    /\ (front = "blocking" \/ b.log = rec.log)
DescribeFields(front) ==
    {"stateMachineArn", "name", "definition", "roleArn", "type", "creationDate", "updateDate"}
    \cup (IF front = "blocking" THEN {} ELSE {"loggingConfiguration"})

(* S pre-state, T post-state of the model, R = Response(S, c), real answer is 2xx *)
BodyFails(S, T, c, o, R, front) ==
    CASE c.a = "Create" ->
            Cond(~(o.b.arn = R.body.arn /\ Has(o.b, {"stateMachineArn", "creationDate"})),
                 Fail("ApiRefines:Create-response", FALSE))
            \o Cond(~(o.echo.st = 200 /\ MachineMatches(o.echo.b, ArnOf(c.n), T.sm[ArnOf(c.n)], front)
                      /\ ~o.echo.b.updated),
                    Fail("ApiRefines:CreateThenDescribe", FALSE))
      [] c.a = "Update" ->
            Cond(~(Has(o.b, {"updateDate"}) /\ o.b.upinc),
                 Fail("UpdateOnlySupplied:updateDate-not-advanced", FALSE))
            \o Cond(~(o.echo.st = 200 /\ MachineMatches(o.echo.b, c.m, T.sm[c.m], front) /\ o.echo.b.updated),
                    Fail("UpdateOnlySupplied:record", FALSE))
      [] c.a = "Delete" ->
            Cond(~(o.echo.st >= 400 /\ o.echo.st < 500 /\ o.echo.ty = "StateMachineDoesNotExist"),
                 Fail("ApiRefines:DeleteVisibleAtOnce", FALSE))
      [] c.a = "Describe" ->
            Cond(~(MachineMatches(o.b, R.body.arn, R.body, front) /\ o.b.updated = R.body.updated
                   /\ Has(o.b, DescribeFields(front))),
                 Fail("ApiRefines:Describe-body", FALSE))
      [] c.a = "DescribeForExec" ->
            Cond(~(o.b.arn = R.body.arn /\ o.b.name = R.body.name /\ o.b.def = R.body.def /\ o.b.role = R.body.role
                   /\ Has(o.b, {"stateMachineArn", "name", "definition", "roleArn", "updateDate"})),
                 Fail("ApiRefines:DescribeForExecution-body", FALSE))
      [] c.a = "ListMachines" ->
            Cond(~(SetOf(o.b.items) = R.body.items /\ Len(o.b.items) = Cardinality(R.body.items)),
                 Fail("ListsEnumerateLiveSet:machines", FALSE))
      [] c.a = "Start" ->
            Cond(~(o.b.arn = R.body.arn /\ Has(o.b, {"executionArn", "startDate"})),
                 Fail("ApiRefines:Start-response", FALSE))
      [] c.a = "DescribeExec" ->
            Cond(~(o.b.arn = R.body.arn /\ o.b.name = R.body.name /\ o.b.status = R.body.status
                   /\ o.b.input = R.body.input /\ o.b.smarn = R.body.smarn
                   /\ Has(o.b, {"executionArn", "stateMachineArn", "name", "status", "startDate", "input"})),
                 Fail("ApiRefines:DescribeExecution-body", FALSE))
      [] c.a = "ListExecs" ->
            Cond(~(SetOf(o.b.items) = R.body.items /\ Len(o.b.items) = Cardinality(R.body.items)),
                 Fail("ListsEnumerateLiveSet:executions", FALSE))
      [] OTHER -> <<>>

(* R = Response(S, c), computed once per step *)
JudgeStep(S, T, c, o, front, R) ==
    IF c.a = "EngineRuns" THEN <<>>
    ELSE Cond(Real5xx(o), Fail("NoInternalError", R.status = 200))
      \o Cond(~RealOk(o) /\ ~o.same, Fail("ErrorLeavesStore", TRUE))
      \o Cond(R.status = 0 /\ RealOk(o) /\ ~o.same, Fail("ApiRefines:undetermined-request-changed-the-store", TRUE))
      \o (IF Real5xx(o) \/ R.status = 0 THEN <<>>
          ELSE IF R.status = 200
               THEN (IF RealOk(o) THEN BodyFails(S, T, c, o, R, front)
                     ELSE <<Fail("ApiRefines:valid-call-refused", TRUE)>>)
               ELSE (IF RealOk(o) THEN <<Fail("ApiRefines:invalid-call-accepted", TRUE)>>
                     ELSE Cond(o.ty \notin R.types, Fail("ApiRefines:wrong-error-type", FALSE))))

(* ---- known findings: signatures over the CALL at its root cause ------------------ *)
Known == JsonDeserialize(IOEnv.KNOWN_FINDINGS)
ActiveK == {Known.findings[j].id : j \in {j \in 1..Len(Known.findings) : Known.findings[j].status = "known"}}
KIds == <<"KC10-1", "KC10-2", "KC10-3", "KC10-4", "KC10-5", "KC10-6">>

Is500(o, clause) == clause = "NoInternalError" /\ o.st = 500 /\ o.ty = ""
(* KC10-1: the request body is not JSON, or is JSON but not an object *)
K1(S, c, o, clause) == c.b \in {"b_text", "b_array"} /\ Is500(o, clause) /\ o.same
(* KC10-2: `definition` is not a string (Create and Update) *)
K2(S, c, o, clause) == c.a \in {"Create", "Update"} /\ c.b = "b_ok" /\ c.d = "d_obj" /\ Is500(o, clause)
(* KC10-3: `input` is not a string (a number) *)
K3(S, c, o, clause) == c.a = "Start" /\ c.b = "b_ok" /\ c.i = "i_num" /\ Is500(o, clause) /\ o.same
(* KC10-4: `loggingConfiguration` is not an object (Create and Update, asyncio front end) *)
K4(S, c, o, clause) == c.a \in {"Create", "Update"} /\ c.b = "b_ok" /\ c.l = "l_str" /\ Is500(o, clause)
(* KC10-5: the error paths of UpdateStateMachine that log the undefined variable `name`:  *)
(* oversized definition, bad logging level, destinations missing (NameError)             *)
K5(S, c, o, clause) == c.a = "Update" /\ c.b = "b_ok" /\ Is500(o, clause)
                       /\ (c.d = "d_big" \/ c.l \in {"l_level", "l_nodest"})
(* KC10-6: UpdateStateMachine writes the supplied fields into the stored record one by one, *)
(* before the later arguments are validated: a valid roleArn followed by a faulty definition *)
(* or loggingConfiguration, or a valid definition followed by a faulty loggingConfiguration, *)
(* is refused -- and leaves exactly that machine's record changed                            *)
K6(S, c, o, clause) ==
    /\ c.a = "Update" /\ c.b = "b_ok" /\ clause = "ErrorLeavesStore" /\ o.st >= 400
    /\ c.m \in LiveArns /\ S.sm[c.m].live /\ RoleFaults(c.r) = {}
    /\ \/ c.r \in ValidRoles /\ (DefFaults(c.d) # {} \/ LogFaults(c.l) # {})
       \/ c.d \in ValidDefs /\ LogFaults(c.l) # {}
    /\ o.chg = <<c.m>>

KF(S, c, o, clause) ==
    IF "KC10-1" \in ActiveK /\ K1(S, c, o, clause) THEN "KC10-1"
    ELSE IF "KC10-5" \in ActiveK /\ K5(S, c, o, clause) THEN "KC10-5"
    ELSE IF "KC10-2" \in ActiveK /\ K2(S, c, o, clause) THEN "KC10-2"
    ELSE IF "KC10-4" \in ActiveK /\ K4(S, c, o, clause) THEN "KC10-4"
    ELSE IF "KC10-3" \in ActiveK /\ K3(S, c, o, clause) THEN "KC10-3"
    ELSE IF "KC10-6" \in ActiveK /\ K6(S, c, o, clause) THEN "KC10-6"
    ELSE ""

(* ---- replaying the model along one path ------------------------------------------- *)
(* acc = [v: new violations, k: known-finding counts, judged, skipped] *)
RECURSIVE Walk(_, _, _, _)
Walk(p, k, S, acc) ==
    IF k > Len(p.steps) THEN acc
    ELSE LET o == p.steps[k]
             c == CallTable[o.c]
             eng == c.a = "EngineRuns"
             R == IF eng THEN Ok(NoBody) ELSE Response(S, c)
             inModel == IF eng THEN EngineEnabled(S) ELSE EnabledR(S, c, R)
         IN IF ~inModel
            THEN [acc EXCEPT !.v = Append(@, [id |-> p.id, step |-> k, clause |-> "Machinery:step-not-in-model", kf |-> "", n |-> 1]),
                             !.skipped = @ + (Len(p.steps) - k + 1)]
            ELSE LET T == IF eng THEN EngineApply(S) ELSE ApplyR(S, c, R)
                     fs == JudgeStep(S, T, c, o, p.front, R)
                 IN IF fs = <<>> THEN Walk(p, k + 1, T, [acc EXCEPT !.judged = @ + 1])
                    ELSE LET kfs == [j \in 1..Len(fs) |-> KF(S, c, o, fs[j].clause)]
                             newv == SelectSeq([j \in 1..Len(fs) |-> [id |-> p.id, step |-> k, clause |-> fs[j].clause, kf |-> kfs[j], n |-> 1]],
                                               LAMBDA r : r.kf = "")
                             newk == [q \in DOMAIN acc.k |-> acc.k[q] + Cardinality({j \in 1..Len(fs) : kfs[j] = KIds[q]})]
                             tainted == \E j \in 1..Len(fs) : fs[j].taint
                             acc2 == [acc EXCEPT !.v = @ \o newv, !.k = newk, !.judged = @ + 1]
                         IN IF tainted THEN [acc2 EXCEPT !.skipped = @ + (Len(p.steps) - k)]
                            ELSE Walk(p, k + 1, T, acc2)

Init == /\ i = 1 /\ viol = <<>> /\ kcount = [q \in DOMAIN KIds |-> 0] /\ stats = [judged |-> 0, skipped |-> 0]
        /\ ApiInit
Next == /\ i <= N /\ i' = i + 1
        /\ LET r == Walk(Obs[i], 1, InitState, [v |-> <<>>, k |-> kcount, judged |-> stats.judged, skipped |-> stats.skipped])
           IN /\ viol' = viol \o r.v
              /\ kcount' = r.k
              /\ stats' = [judged |-> r.judged, skipped |-> r.skipped]
        /\ UNCHANGED <<sm, ex, clock, resp>>
Spec == Init /\ [][Next]_jvars

(* one summary entry per known finding met (n = occurrences), plus the bookkeeping entry *)
Summary == SelectSeq([q \in DOMAIN KIds |-> [id |-> 0, step |-> 0, clause |-> "known", kf |-> KIds[q], n |-> kcount[q]]],
                     LAMBDA r : r.n > 0)
           \o <<[id |-> 0, step |-> stats.skipped, clause |-> "stats", kf |-> "", n |-> stats.judged]>>
Report == (i = N + 1) => PrintT("VERDICT " \o ToJson([lines |-> N, failures |-> viol \o Summary]))
=============================================================================
