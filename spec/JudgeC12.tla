------------------------------- MODULE JudgeC12 -------------------------------
(***************************************************************************)
(* Judge for C12: every observation of the real path functions (and of     *)
(* single-Pass executions) is recomputed with RefPath and compared.        *)
(* Observation kinds:                                                       *)
(*   select: doc, ctx, path, out, same (document deep-equal before/after)  *)
(*   put:    doc, path, res, out                                           *)
(* out = [kind |-> "value", v |-> tagged] | [kind |-> "exc", cls |-> name]  *)
(*     | [kind |-> "cyclic"]                                               *)
(***************************************************************************)
EXTENDS RefPath, Json, IOUtils

Obs == ndJsonDeserialize(IOEnv.OBS_FILE)
N == Len(Obs)

VARIABLES i, viol
vars == <<i, viol>>

PathFailure == {"PathMatchFailure"}
ResultPathFailure == {"ResultPathMatchFailure"}

JudgeSelect(o) ==
    LET want == PathValue(o.doc, o.ctx, o.path)
    IN IF ~o.same THEN "SelectModifiedDocument"
       ELSE IF IsMissing(want)
            THEN (IF o.out.kind = "exc" /\ o.out.cls \in PathFailure THEN "ok"
                  ELSE IF o.out.kind = "exc" THEN "MissingTarget:wrong-exception"
                  ELSE "MissingTarget:value-invented")
       ELSE IF o.out.kind # "value" THEN "Select:unexpected-failure"
       ELSE IF JEq(o.out.v, want) THEN "ok" ELSE "Select:wrong-value"

JudgePut(o) ==
    LET want == ResultValue(o.doc, o.path, o.res)
        pl == IF o.path.kind = "steps" THEN Placeability(o.doc, o.path.steps)
              ELSE IF o.path.kind \in {"null", "root"} THEN "yes" ELSE "no"
        failedRight == o.out.kind = "exc" /\ o.out.cls \in ResultPathFailure
        valueRight == o.out.kind = "value" /\ ~IsFail(want) /\ JEq(o.out.v, want)
    IN IF o.out.kind = "cyclic" THEN "Put:cyclic-result"
       ELSE IF o.out.kind = "exc" /\ ~failedRight THEN "Put:wrong-exception"
       ELSE IF pl = "yes" THEN (IF valueRight THEN "ok" ELSE IF failedRight THEN "Put:refused-placeable-path" ELSE "Put:wrong-tree")
       ELSE IF pl = "no" THEN (IF failedRight THEN "ok" ELSE "Put:accepted-unplaceable-path")
       ELSE (IF failedRight \/ valueRight THEN "ok" ELSE "Put:wrong-tree")

Judge(o) == IF o.kind = "select" THEN JudgeSelect(o) ELSE JudgePut(o)

(* ---- known findings (signatures over the case at its root cause) ---------- *)
Known == JsonDeserialize(IOEnv.KNOWN_FINDINGS)
ActiveK == {Known.findings[j].id : j \in {j \in 1..Len(Known.findings) : Known.findings[j].status = "known"}}

(* F5: null data selected with `$` (or any path) comes back as {} *)
F5(o, verdict) == o.kind = "select" /\ IsNull(o.doc) /\ o.path.kind \in {"root", "steps"}
                  /\ verdict \in {"Select:wrong-value", "MissingTarget:value-invented"}
                  /\ o.out.kind = "value" /\ o.out.v = EmptyObj
(* through the engine: a state whose effective input/result is null hands on {} *)
F5engine(o, verdict) == o.engine /\ o.out.kind = "value" /\ o.out.v = EmptyObj
                        /\ (IF o.kind = "select" THEN IsNull(PathValue(o.doc, o.ctx, o.path))
                            ELSE IsNull(o.doc) \/ IsNull(o.res))
(* F5 also: ResultPath applied to a null document treats it as {} *)
F5put(o, verdict) == o.kind = "put" /\ IsNull(o.doc) /\ o.path.kind \in {"steps", "null"}
(* F23: keys that the jsonpath library cannot address: those containing a dot or a star *)
F23(o, verdict) == o.kind = "select" /\ o.path.kind \in {"steps", "ctx"} /\ o.hard

KF(o, verdict) ==
    IF "F5" \in ActiveK /\ (F5(o, verdict) \/ F5put(o, verdict) \/ F5engine(o, verdict)) THEN "F5"
    ELSE IF "F23" \in ActiveK /\ F23(o, verdict) THEN "F23"
    ELSE ""

Init == i = 1 /\ viol = <<>>
Next == /\ i <= N /\ i' = i + 1
        /\ LET o == Obs[i]  v == Judge(o)
           IN viol' = IF v = "ok" THEN viol ELSE Append(viol, [id |-> o.id, clause |-> v, kf |-> KF(o, v)])
Spec == Init /\ [][Next]_vars
Report == (i = N + 1) => PrintT("VERDICT " \o ToJson([lines |-> N, failures |-> viol]))
=============================================================================
