------------------------------ MODULE MC_Template ------------------------------
(***************************************************************************)
(* The laws of Template, checked exhaustively by TLC over a small alphabet. *)
(* One "state" per case; the field `law` says which law the case belongs to. *)
(***************************************************************************)
EXTENDS Template

SeqsUpTo(S, n) == UNION {[1..k -> S] : k \in 0..n}
K(s) == s                                  \* a key is a character sequence
A == <<"a">>   B == <<"b">>   Cc == <<"c">>

(* flatten(ArrayPartition(a, n)) = a; every chunk but the last has n items, the last 1..n *)
PartCases == {[law |-> "partition", a |-> a, n |-> n] :
                 a \in SeqsUpTo({JNum(0), JNum(1), CStr(A)}, 4), n \in 1..5}
(* ArrayRange: length formula, first element, step, inclusive end *)
RangeCases == {[law |-> "range", s |-> s, e |-> e, inc |-> inc] : s \in -4..4, e \in -4..4, inc \in {-3, -2, -1, 1, 2, 3}}
(* JsonMerge: right wins, keys of both, nothing else; shallow *)
MVals == {JNum(0), JNum(1), JObj(<<A>>, <<JNum(0)>>)}
MObjs == {EmptyObj} \cup {JObj(<<k>>, <<v>>) : k \in {A, B, Cc}, v \in MVals}
         \cup {JObj(kl, <<v, w>>) : kl \in {<<A, B>>, <<B, A>>, <<A, Cc>>, <<B, Cc>>}, v \in MVals, w \in MVals}
MergeCases == {[law |-> "merge", a |-> a, b |-> b] : a \in MObjs, b \in MObjs}
(* ArrayUnique: idempotent, order preserving, first occurrences, nothing lost *)
UniqCases == {[law |-> "unique", a |-> a] : a \in SeqsUpTo({JNum(0), JNum(1), JBool(TRUE), CStr(A)}, 4)}
(* StringSplit / join *)
SplitCases == {[law |-> "split", c |-> c, sep |-> sep] : c \in SeqsUpTo({"a", ",", "^"}, 4), sep \in {",", "^"}}
(* States.Format *)
FmtCases == {[law |-> "format", c |-> c, rest |-> r] : c \in SeqsUpTo({"a", "{", "}", "\\"}, 4),
                r \in {<<>>, <<CStr(<<"x">>)>>, <<JNum(-12), JNull>>}}
(* codecs: round trips over the uninterpreted pair, known answers win *)
NoFacts == [json |-> <<>>, b64 |-> <<>>, hash |-> <<>>]
SomeFacts == [json |-> <<[s |-> <<"1">>, ok |-> TRUE, v |-> JNum(1)], [s |-> A, ok |-> FALSE, v |-> JNull]>>,
              b64 |-> <<[p |-> A, e |-> <<"Y", "Q", "=", "=">>]>>,
              hash |-> <<[d |-> A, a |-> <<"M", "D", "5">>, h |-> <<"0", "c", "c">>]>>]
CodecCases == {[law |-> "codec", x |-> x, F |-> F] :
                  x \in {CStr(A), CStr(<<"1">>), CStr(<<>>), JNum(1), JNull, JArr(<<JNum(1)>>), JObj(<<A>>, <<CStr(B)>>)},
                  F \in {NoFacts, SomeFacts}}
(* the template walk *)
XD == <<"x", ".", "$">>
Dyn(e) == [t |-> "dyn", e |-> e]
PathA == [k |-> "path", p |-> [kind |-> "steps", steps |-> <<KeyStep(A)>>]]
PathRoot == [k |-> "path", p |-> [kind |-> "root", steps |-> <<>>]]
CallLen == [k |-> "call", f |-> "States.ArrayLength", args |-> <<PathA>>, mal |-> ""]
CallArr == [k |-> "call", f |-> "States.Array", args |-> <<[k |-> "lit", v |-> JNum(1)], PathA>>, mal |-> ""]
Exprs == {PathA, PathRoot, CallLen, CallArr}
Lits == {JNum(1), JNull, CStr(<<"$", ".", "a">>), CStr(XD), CStr(<<"S", "t", "a", "t", "e", "s", ".", "U", "U", "I", "D", "(", ")">>)}
Inner == {JObj(<<K(<<"p">>)>>, <<l>>) : l \in Lits}
         \cup {JArr(<<l, JObj(<<K(<<"q">>)>>, <<m>>)>>) : l \in Lits, m \in Lits}
         \cup {JObj(<<K(<<"p">>), K(<<"d", ".", "$">>)>>, <<l, Dyn(e)>>) : l \in Lits, e \in Exprs}
Templates == {JObj(<<K(<<"k">>), K(XD)>>, <<x, Dyn(e)>>) : x \in Lits \cup Inner, e \in Exprs}
             \cup {JObj(<<K(<<"k">>), K(<<"j">>)>>, <<x, y>>) : x \in Lits \cup Inner, y \in Lits}
Inputs == {JObj(<<A>>, <<JNum(7)>>), JObj(<<A, XD>>, <<JArr(<<JNum(1), JNum(2)>>), CStr(<<"$", ".", "a">>)>>), EmptyObj, JNum(3)}
WalkCases == {[law |-> "walk", t |-> t, input |-> i] : t \in Templates, i \in Inputs}

Cases == PartCases \cup RangeCases \cup MergeCases \cup UniqCases \cup SplitCases \cup FmtCases
         \cup CodecCases \cup WalkCases

VARIABLE c
Init == c \in Cases
Next == UNCHANGED c

LawPartition ==
    c.law = "partition" =>
       LET r == FnArrayPartition(<<JArr(c.a), JNum(c.n)>>) IN
       /\ IsArr(r)
       /\ Flatten(r.a) = c.a
       /\ \A i \in 1..Len(r.a) : Len(r.a[i].a) >= 1 /\ Len(r.a[i].a) <= c.n /\ (i < Len(r.a) => Len(r.a[i].a) = c.n)

Abs(x) == IF x < 0 THEN -x ELSE x
LawRange ==
    c.law = "range" =>
       LET r == FnArrayRange(<<JNum(c.s), JNum(c.e), JNum(c.inc)>>)
           lst == IF c.inc > 0 THEN r ELSE r.b
           up == c.inc > 0
           span == IF up THEN c.e - c.s ELSE c.s - c.e
           n == IF span >= 0 THEN (span \div Abs(c.inc)) + 1 ELSE 0
       IN /\ (up \/ (r.t = "alt" /\ IsTFail(r.a)))
          /\ IsArr(lst) /\ Len(lst.a) = n
          /\ (n > 0 => lst.a[1] = JNum(c.s))
          /\ \A i \in 1..n : lst.a[i].n = c.s + (i - 1) * c.inc
          /\ (n > 0 => (IF up THEN lst.a[n].n <= c.e /\ lst.a[n].n + c.inc > c.e
                              ELSE lst.a[n].n >= c.e /\ lst.a[n].n + c.inc < c.e))

LawMerge ==
    c.law = "merge" =>
       LET r == FnJsonMerge(<<c.a, c.b, JBool(FALSE)>>) IN
       /\ IsObj(r)
       /\ {r.k[i] : i \in 1..Len(r.k)} = {c.a.k[i] : i \in 1..Len(c.a.k)} \cup {c.b.k[i] : i \in 1..Len(c.b.k)}
       /\ Len(r.k) = Cardinality({r.k[i] : i \in 1..Len(r.k)})                      \* no duplicate member
       /\ \A i \in 1..Len(r.k) :
             r.v[i] = IF HasKey(c.b, r.k[i]) THEN Member(c.b, r.k[i]) ELSE Member(c.a, r.k[i])   \* right wins, shallow
       /\ JEq(FnJsonMerge(<<c.a, EmptyObj, JBool(FALSE)>>), c.a)
       /\ JEq(FnJsonMerge(<<EmptyObj, c.b, JBool(FALSE)>>), c.b)
       /\ IsOpen(FnJsonMerge(<<c.a, c.b, JBool(TRUE)>>))
       /\ IsTFail(FnJsonMerge(<<c.a, c.b, JNum(0)>>))

IsSubseqOf(s, t) ==     \* s is obtained from t by deleting items
    \E f \in [1..Len(s) -> 1..Len(t)] : /\ \A i \in 1..Len(s) : s[i] = t[f[i]]
                                       /\ \A i, j \in 1..Len(s) : i < j => f[i] < f[j]
LawUnique ==
    c.law = "unique" =>
       LET r == FnArrayUnique(<<JArr(c.a)>>) IN
       /\ IsArr(r)
       /\ FnArrayUnique(<<r>>) = r                                                   \* idempotent
       /\ PairwiseDistinct(r.a)
       /\ {r.a[i] : i \in 1..Len(r.a)} = {c.a[i] : i \in 1..Len(c.a)}                \* nothing lost, nothing invented
       /\ (Len(r.a) = 0 \/ IsSubseqOf(r.a, c.a))                                     \* order preserved
       /\ \A i \in 1..Len(r.a) :                                                     \* first occurrences: the items before
             \A j \in 1..Len(r.a) : i < j =>                                         \* the first r[j] in a include r[i]
                LET fj == CHOOSE p \in 1..Len(c.a) : c.a[p] = r.a[j] /\ \A q \in 1..(p - 1) : c.a[q] # r.a[j]
                IN \E q \in 1..(fj - 1) : c.a[q] = r.a[i]

LawSplit ==
    c.law = "split" =>
       LET ps == SplitKeep(c.c, {c.sep})
           r == FnStringSplit(<<CStr(c.c), CStr(<<c.sep>>)>>)
           both == SplitKeep(c.c, {",", "^"})
       IN /\ Join(ps, c.sep) = c.c                                                    \* split then join = identity
          /\ \A i \in 1..Len(ps) : c.sep \notin CharSet(ps[i])
          /\ Len(ps) = 1 + Cardinality({i \in 1..Len(c.c) : c.c[i] = c.sep})
          /\ (r.t = "alt" => r.a = StrArr(ps) /\ r.b = StrArr(DropEmpty(ps)))
          /\ (r.t # "alt" => r = StrArr(ps) /\ DropEmpty(ps) = ps)
          /\ \A i \in 1..Len(both) : CharSet(both[i]) \subseteq {"a"}                  \* ANY of the separators splits
          /\ Flatten([i \in 1..Len(both) |-> JArr(both[i])]) = SelectSeq(c.c, LAMBDA ch : ch = "a")

Plain(ch) == ch \notin {"{", "}", "\\"}
LawFormat ==
    c.law = "format" =>
       LET r == FnFormat(<<CStr(c.c)>> \o c.rest) IN
       /\ r.t \in {"str", "FAIL", "alt"}
       /\ ((\A i \in 1..Len(c.c) : Plain(c.c[i])) /\ c.rest = <<>> => r = CStr(c.c))       \* plain text is itself
       /\ (c.c = <<"{", "}">> /\ Len(c.rest) = 1 => r = CStr(c.rest[1].c))
       /\ (c.c = <<"{", "}", "a", "{", "}">> /\ Len(c.rest) = 2 => r = CStr(<<"-", "1", "2", "a", "n", "u", "l", "l">>))
       /\ (c.c = <<"\\", "{", "\\", "}">> /\ c.rest = <<>> => r = CStr(<<"{", "}">>))      \* escaped braces
       /\ (c.c = <<"\\", "\\", "{", "}">> /\ Len(c.rest) = 1 => r = CStr(<<"\\">> \o c.rest[1].c))
       /\ (c.c = <<"{", "}", "{", "}">> /\ Len(c.rest) = 1 => IsTFail(r))                    \* too few arguments
       /\ (c.c = <<"{", "a", "}">> => r.t = "alt" /\ IsTFail(r.a) /\ r.b = CStr(c.c))      \* never an index/attribute access
       /\ (r.t = "alt" => IsTFail(r.a) /\ r.b.t = "str")

LawCodec ==
    c.law = "codec" =>
       LET x == c.x  F == c.F
           enc == FnBase64Encode(<<x>>, F)
           js == FnJsonToString(<<x>>)
       IN /\ (IsStr(x) => FnBase64Decode(<<enc>>, F) = x)                               \* Base64 round trip
          /\ (~IsStr(x) => IsTFail(enc) /\ IsTFail(FnBase64Decode(<<x>>, F)))
          /\ FnStringToJson(<<js>>, F) = x                                               \* JSON round trip
          /\ (F = SomeFacts /\ x = CStr(A) =>                                           \* known answers
                /\ enc = CStr(<<"Y", "Q", "=", "=">>)
                /\ FnBase64Decode(<<CStr(<<"Y", "Q", "=", "=">>)>>, F) = x
                /\ FnHash(<<x, CStr(<<"M", "D", "5">>)>>, F) = CStr(<<"0", "c", "c">>)
                /\ IsTFail(FnStringToJson(<<x>>, F))
                /\ IsOpen(FnHash(<<x, CStr(<<"S", "H", "A", "-", "1">>)>>, F)))
          /\ (F = SomeFacts /\ x = CStr(<<"1">>) => FnStringToJson(<<x>>, F) = JNum(1))
          /\ (IsStr(x) => IsTFail(FnHash(<<x, CStr(<<"m", "d", "5">>)>>, F)))
          /\ (~IsStr(x) => IsTFail(FnHash(<<x, CStr(<<"M", "D", "5">>)>>, F)) /\ IsTFail(FnStringToJson(<<x>>, F)))
          /\ Match(CStr(<<"1">>), js, SomeFacts) = (x = JNum(1) \/ ~Concrete(x))

RECURSIVE HasDyn(_)
HasDyn(t) == CASE t.t = "dyn" -> TRUE
               [] t.t = "obj" -> \E i \in 1..Len(t.v) : HasDyn(t.v[i])
               [] t.t = "arr" -> \E i \in 1..Len(t.a) : HasDyn(t.a[i])
               [] OTHER -> FALSE
LawWalk ==
    c.law = "walk" =>
       LET env == [input |-> c.input, ctx |-> EmptyObj, facts |-> NoFacts]
           r == Walk(c.t, env, <<>>)
           kv == Member(c.t, <<"k">>)
       IN /\ (~HasDyn(c.t) => r = c.t)                                  \* without ".$" members: the identity, whatever the input
          /\ (IsObj(r) =>
                /\ HasKey(r, <<"k">>)
                /\ (~HasDyn(kv) => Member(r, <<"k">>) = kv)            \* members without the suffix: verbatim
                /\ (HasKey(c.t, XD) => HasKey(r, <<"x">>) /\ ~HasKey(r, XD))     \* renamed without the suffix
                /\ (HasKey(c.t, <<"j">>) => Member(r, <<"j">>) = Member(c.t, <<"j">>)))
          /\ (IsTFail(r) => HasDyn(c.t) /\ r.cls \subseteq BothC /\ r.cls # {})
          /\ r.t \in {"obj", "FAIL"}
          /\ (HasKey(c.t, XD) /\ Member(c.t, XD) = Dyn(PathRoot) /\ IsObj(r) => Member(r, <<"x">>) = c.input)   \* "$" is the input itself, not re-walked
=============================================================================
