------------------------------- MODULE JudgeC16 -------------------------------
(***************************************************************************)
(* Judge for C16: what the real API / engine did with a value of a         *)
(* measured size at an enforcement point is decided with Quota.tla at the  *)
(* real limits.  Observation kinds:                                         *)
(*   quota: point, size (characters; for a value the engine serialises     *)
(*          itself: of its default JSON text), alt (the same value in the  *)
(*          most compact JSON text; = size where the text is given),       *)
(*          terminal (the state whose output it is ends the execution),    *)
(*          accepted, err (API error type / execution error name / for an  *)
(*          HTTP 5xx the status text), status (HTTP status, 0 inside an    *)
(*          execution), front                                               *)
(*   hist:  natural, lastEntry, gap (from the machine's shape), stored     *)
(*          (events in the stored history), failed, err                    *)
(***************************************************************************)
EXTENDS Naturals, Integers, Sequences, TLC, Json, IOUtils

Q == INSTANCE Quota WITH L_DATA <- 262144, L_DEF <- 1048576, L_NAME <- 80, L_HIST <- 25000

Obs == ndJsonDeserialize(IOEnv.OBS_FILE)
N == Len(Obs)

VARIABLES i, viol
vars == <<i, viol>>

JudgeQuota(o) ==
    IF o.point \notin Q!Points THEN "Quota:unknown-enforcement-point"
    ELSE LET d == Q!Decision(o.point, o.size, o.alt)
             rightError == o.err = Q!ErrorOf(o.point)
         IN IF d = "accept" THEN (IF o.accepted THEN "ok" ELSE "Quota:refused-within-the-limit")
            ELSE IF d = "refuse" THEN (IF o.accepted THEN "Quota:accepted-over-the-limit"
                                       ELSE IF rightError THEN "ok" ELSE "Quota:refused-with-another-error")
            ELSE (IF o.accepted \/ rightError THEN "ok" ELSE "Quota:refused-with-another-error")

JudgeHist(o) ==
    LET d == Q!HistoryDecision(o.natural, o.lastEntry)
    IN IF d = "accept" /\ o.failed THEN "History:failed-within-the-limit"
       ELSE IF d = "refuse" /\ ~o.failed THEN "History:not-failed-over-the-limit"
       ELSE IF o.failed /\ ~Q!HistoryBounded(o.stored, o.gap) THEN "History:kept-growing-after-the-limit"
       ELSE "ok"

Judge(o) == IF o.kind = "quota" THEN JudgeQuota(o)
            ELSE IF o.kind = "hist" THEN JudgeHist(o)
            ELSE "unknown-observation-kind"

(* ---- known findings (signatures over the case at its root cause) ---------- *)
Known == JsonDeserialize(IOEnv.KNOWN_FINDINGS)
ActiveK == {Known.findings[j].id : j \in {j \in 1..Len(Known.findings) : Known.findings[j].status = "known"}}

(* KC16-1: the output of a state that ends the execution (End: true at the top level) is
   never measured: an over-long output of a terminal Pass / Map / Parallel state (or of a Task
   whose result alone fits) becomes the execution's output *)
KC16x1(o, verdict) ==
    /\ o.kind = "quota" /\ o.point \in Q!StateOutputPoints /\ o.terminal
    /\ o.accepted /\ verdict = "Quota:accepted-over-the-limit"

(* KC16-2: UpdateStateMachine with an over-long definition answers 500 InternalError (its
   error path refers to an undefined variable) instead of 400 InvalidDefinition; nothing is stored *)
KC16x2(o, verdict) ==
    /\ o.kind = "quota" /\ o.point = "UpdateStateMachine.definition" /\ o.size > Q!Limit(o.point)
    /\ ~o.accepted /\ o.status = 500 /\ o.err = "InternalError" /\ verdict = "Quota:refused-with-another-error"

KF(o, verdict) ==
    IF "KC16-1" \in ActiveK /\ KC16x1(o, verdict) THEN "KC16-1"
    ELSE IF "KC16-2" \in ActiveK /\ KC16x2(o, verdict) THEN "KC16-2"
    ELSE ""

Init == i = 1 /\ viol = <<>>
Next == /\ i <= N /\ i' = i + 1
        /\ LET o == Obs[i]  v == Judge(o)
           IN viol' = IF v = "ok" THEN viol ELSE Append(viol, [id |-> o.id, clause |-> v, kf |-> KF(o, v)])
Spec == Init /\ [][Next]_vars
Report == (i = N + 1) => PrintT("VERDICT " \o ToJson([lines |-> N, failures |-> viol]))
=============================================================================
