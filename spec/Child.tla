-------------------------------- MODULE Child --------------------------------
(***************************************************************************)
(* Child executions and task-token callbacks (C15), as pure operators over *)
(* tagged JSON values.                                                     *)
(*                                                                         *)
(* Integration forms: "async" (startExecution), "sync" (.sync), "sync2"    *)
(* (.sync:2), "sdk" (aws-sdk:sfn:startSyncExecution), "token"              *)
(* (.waitForTaskToken).                                                    *)
(***************************************************************************)
EXTENDS JsonValue

SyncForms == {"sync", "sync2", "sdk"}

(* invalid combinations fail the launching task *)
ValidCombination(form, parentType, childType) ==
    /\ childType \in {"STANDARD", "EXPRESS"}                      \* the machine exists
    /\ (form \in {"sync", "sync2"} => parentType = "STANDARD")     \* no job-run pattern from EXPRESS
    /\ (form = "sdk" => childType = "EXPRESS")                     \* StartSyncExecution is for EXPRESS children

(* the documented names of the DescribeExecution fields in a task result *)
DocumentedFields == {"ExecutionArn", "Input", "Name", "Output", "StartDate", "StateMachineArn", "Status", "StopDate"}
RequiredOnSuccess == {"ExecutionArn", "Name", "StartDate", "StateMachineArn", "Status", "StopDate", "Output"}

KeySet(o) == {o.k[i] : i \in 1..Len(o.k)}

(* the result of a synchronous child that SUCCEEDED: an object with the documented field names,
   the child's ARN/name/status, and Output = the child's output as JSON for :2, as a string otherwise *)
SyncSuccessOK(form, res, child) ==
    /\ IsObj(res)
    /\ RequiredOnSuccess \subseteq KeySet(res)
    /\ \A k \in KeySet(res) : k \in DocumentedFields \cup {"Error", "Cause", "InputDetails", "OutputDetails", "TraceHeader", "BillingDetails"}
    /\ Member(res, "ExecutionArn") = JStr(child.arn)
    /\ Member(res, "Status") = JStr("SUCCEEDED")
    /\ (IF form = "sync2" THEN JEq(Member(res, "Output"), child.outputJson)
        ELSE Member(res, "Output") = JStr(child.outputText))

(* the asynchronous form returns at once with the child's ARN and a start date *)
AsyncOK(res, child) ==
    /\ IsObj(res)
    /\ {"executionArn", "startDate"} \subseteq KeySet(res) \/ {"ExecutionArn", "StartDate"} \subseteq KeySet(res)
    /\ (IF HasKey(res, "executionArn") THEN Member(res, "executionArn") ELSE Member(res, "ExecutionArn")) = JStr(child.arn)

(* ---- task tokens ----------------------------------------------------------- *)
(* a callback stream is a sequence of calls [api, token, payload]; token \in {"exact", "forged",
   "truncated", "garbage"}.  The task is completed by the FIRST call that presents the exact token,
   with exactly that call's payload; every call with another token is refused with InvalidToken and
   changes nothing; calls after the completing one have no effect on the execution. *)
FirstExact(calls) ==
    IF \E i \in 1..Len(calls) : calls[i].token = "exact"
    THEN CHOOSE i \in 1..Len(calls) : calls[i].token = "exact" /\ \A j \in 1..(i - 1) : calls[j].token # "exact"
    ELSE 0
=============================================================================
