CONSTANTS
  L_DATA = 4
  L_DEF = 6
  L_NAME = 3
  L_HIST = 5
INIT Init
NEXT Next
INVARIANT LawPointsAgree
INVARIANT LawIsSizeLeL
INVARIANT LawBoundary
INVARIANT LawMonotone
INVARIANT LawEmpty
INVARIANT LawDecision
INVARIANT LawErrors
INVARIANT LawShift
INVARIANT LawHistory
CHECK_DEADLOCK FALSE
