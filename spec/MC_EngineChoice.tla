--------------------------- MODULE MC_EngineChoice ---------------------------
(***************************************************************************)
(* Cross-layer law: the Choice rule language of the protocol model          *)
(* (EngineChoice!RuleHolds, over plain TLA+ records) agrees with the        *)
(* Layer-A semantics (Choice!Eval over tagged JSON) on every document and   *)
(* every rule of its typed domain: Layer A decides (a singleton result set) *)
(* and decides the same.  Documents: members x, y absent or in 0..2; rules: *)
(* every atom (member x operator x literal, IsPresent), Not of an atom, And *)
(* and Or of two atoms.                                                     *)
(***************************************************************************)
EXTENDS Choice, EngineChoice, TLC

Vals == {0, 1, 2}
Slots == Vals \cup {9}                      \* 9 = the member is absent
Docs == [x : Slots, y : Slots]

(* the document in the two representations *)
Plain(d) == CASE d.x = 9 /\ d.y = 9 -> [empty |-> TRUE]
              [] d.x = 9 -> [y |-> d.y]
              [] d.y = 9 -> [x |-> d.x]
              [] OTHER -> [x |-> d.x, y |-> d.y]
Tagged(d) == CASE d.x = 9 /\ d.y = 9 -> JObj(<<>>, <<>>)
               [] d.x = 9 -> JObj(<<"y">>, <<JNum(d.y)>>)
               [] d.y = 9 -> JObj(<<"x">>, <<JNum(d.x)>>)
               [] OTHER -> JObj(<<"x", "y">>, <<JNum(d.x), JNum(d.y)>>)

OpName == [eq |-> "NumericEquals", gt |-> "NumericGreaterThan", lt |-> "NumericLessThan",
           ge |-> "NumericGreaterThanEquals", le |-> "NumericLessThanEquals"]
Atoms == [f : {"x", "y"}, op : {"eq", "gt", "lt", "ge", "le"}, val : Vals]
           \cup [f : {"x", "y"}, op : {"present"}, val : BOOLEAN]

EA(a) == [kind |-> "cmp", path |-> <<a.f>>, op |-> a.op, val |-> a.val]
CA(a) == IF a.op = "present" THEN Atom("IsPresent", a.f, JBool(a.val)) ELSE Atom(OpName[a.op], a.f, JNum(a.val))

Agree(er, cr, d) ==
    LET e == RuleHolds(er, Plain(d))
        c == Eval(cr, Tagged(d), Tagged(d), {})
    IN c = (IF e THEN {"match"} ELSE {"nomatch"})

LawAtoms == \A d \in Docs : \A a \in Atoms : Agree(EA(a), CA(a), d)
LawNot == \A d \in Docs : \A a \in Atoms :
              Agree([kind |-> "not", subs |-> <<EA(a)>>], Node("Not", <<CA(a)>>), d)
LawAndOr == \A d \in Docs : \A a \in Atoms : \A b \in Atoms :
              /\ Agree([kind |-> "and", subs |-> <<EA(a), EA(b)>>], Node("And", <<CA(a), CA(b)>>), d)
              /\ Agree([kind |-> "or", subs |-> <<EA(a), EA(b)>>], Node("Or", <<CA(a), CA(b)>>), d)
(* not vacuous: both answers occur *)
LawBothAnswers == /\ \E d \in Docs : \E a \in Atoms : RuleHolds(EA(a), Plain(d))
                  /\ \E d \in Docs : \E a \in Atoms : ~RuleHolds(EA(a), Plain(d))

VARIABLE z
Init == z = 0
Next == UNCHANGED z
=============================================================================
