---------------------------- MODULE KnownFindings ----------------------------
(***************************************************************************)
(* Genuine defects of the engine that are recorded rather than repaired    *)
(* (see /verif/known_findings.json and DESIGN.md section 6).  A finding is *)
(* a predicate over the ROOT-CAUSE pattern in the trace plus the clauses   *)
(* its deviant behaviour is known to break.  A failed clause inside an     *)
(* active finding's territory is reported as KNOWN-FINDING; the same       *)
(* clause anywhere else, and any other clause inside the territory, is a   *)
(* VIOLATION.  Entries whose status is "fixed" suppress nothing.           *)
(***************************************************************************)
EXTENDS Naturals, Sequences, FiniteSets, TLC, Json, Broker

ActiveFindings(path) ==
    LET doc == JsonDeserialize(path)
    IN {doc.findings[i].id : i \in {j \in 1..Len(doc.findings) : doc.findings[j].status = "known"}}

KEv(s, m) == IF m \in DOMAIN s.ev THEN s.ev[m] ELSE [exec |-> "", stack |-> <<>>, state |-> "", sn |-> 0]
KStackIDs(stack) == {stack[i][1] : i \in 1..Len(stack)}
KTrigIDs(s) == UNION {KStackIDs(KEv(s, m).stack) : m \in s.fr.trig}
KTrigOwners(s) == {KEv(s, m).exec : m \in s.fr.trig} \ {""}
KMaxTrigDepth(s) == IF s.fr.trig = {} THEN 0
                    ELSE CHOOSE d \in {Len(KEv(s, m).stack) : m \in s.fr.trig} :
                            \A m \in s.fr.trig : Len(KEv(s, m).stack) <= d
KTerminal(s, x) == x \in DOMAIN s.ex /\ Len(s.ex[x].notes) >= 2

(* ---- F18: a Task/Parallel/Map handler deferred by set_timeout(delegate) runs after its
        fan-out has failed (or its execution has ended) without re-checking termination:
        it still sends its request / logs history / may fail the execution a second time. *)
F18Frame(s) ==
    /\ s.fr.cause = "timer" /\ s.fr.kind = "delegate"
    /\ (KTrigIDs(s) \cap s.failedIDs # {} \/ s.fr.late # {})
F18Clauses == {"NothingAfterTerminal", "NotifSeqOK", "TerminalFrozen", "HistAgreesWithRecord",
               "SiblingsFrozen:rpc", "SiblingsFrozen:event", "NoLateEffects:pub", "FanOutFailsOnce",
               "TriggerAckLast:pub", "HistoryWellFormed"}

(* ---- F19: the error of a fan-out is caught (Catch on the Parallel/Map state) while sibling
        branches are still outstanding: they are not cancelled, their late results are
        processed after the execution has moved on or ended. *)
F19Clauses == {"NotifSeqOK", "TerminalFrozen", "EventuallyTerminal", "NoLateEffects:pub",
               "NothingAfterTerminal", "HistAgreesWithRecord", "DrainedD0", "DrainedD0:broker-unacked",
               "DrainedD1", "DrainedD1:broker-unacked", "DrainedD1:queued", "CarrierExists",
               "SiblingsFrozen:rpc", "SiblingsFrozen:event", "SiblingsCancelled", "FanOutFailsOnce",
               "JoinAfterAll", "ViewsAgree:note-vs-record", "NotifiedOncePerChange", "RecordShape",
               "TriggerAckLast:pub", "TriggerAckLast:terminal-note", "TriggerAckLast:terminal-record"}
F19Starts(s0, e) ==
    IF e.k = "end" /\ s0.fr.failedNow # {} /\ ~s0.fr.retrypub
    THEN {x \in KTrigOwners(s0) : ~KTerminal(s0, x) /\
              \E i \in 1..Len(e.sizes) : e.sizes[i].pending + e.sizes[i].cancellers + e.sizes[i].unacked > 0}
    ELSE {}

(* ---- F22: retrying a fan-out whose failing branch state is not a Task/Wait: the held events
        (the trigger included) are acknowledged by check_pending_results before the retry
        event is republished. *)
F22Here(s0, e, f) ==
    /\ f.clause = "TriggerAckLast:pub" /\ e.k = "pub" /\ e.retry > 0 /\ Len(e.stack) < KMaxTrigDepth(s0)

(* ---- taints (execution-scoped territories) -------------------------------------------------- *)
NewTaints(s0, s1, e, active) ==
    (IF "F19" \in active THEN {<<x, "F19">> : x \in F19Starts(s0, e)} ELSE {})
    \cup (IF "F18" \in active /\ e.k = "frame" /\ F18Frame(s1) THEN {<<x, "F18">> : x \in KTrigOwners(s1)} ELSE {})

TaintsOf(s, x) == IF x \in DOMAIN s.taintX THEN s.taintX[x] ELSE {}
AnyTaint(s, fid) == \E x \in DOMAIN s.taintX : fid \in s.taintX[x]

(* which active finding, if any, explains failure f raised at line e (pre-state s0, post-state s1) *)
Territory(s0, s1, e, f, active) ==
    IF "F22" \in active /\ F22Here(s0, e, f) THEN "F22"
    ELSE IF "F18" \in active /\ f.clause \in F18Clauses /\ F18Frame(s0) THEN "F18"
    ELSE IF "F18" \in active /\ f.clause = "SiblingsCancelled" /\ f.w = ToString({"delegate"}) THEN "F18"
    ELSE IF "F18" \in active /\ f.clause = "SiblingsCancelled" /\ AnyTaint(s1, "F18") THEN "F18"
    ELSE IF "F19" \in active /\ f.clause \in F19Clauses /\
            (IF f.x # "" THEN "F19" \in TaintsOf(s1, f.x) ELSE AnyTaint(s1, "F19")) THEN "F19"
    ELSE ""
=============================================================================
