---------------------------- MODULE KnownFindings ----------------------------
(***************************************************************************)
(* Genuine defects of the engine that are recorded rather than repaired    *)
(* (see /verif/known_findings.json and DESIGN.md section 6).  A finding is *)
(* a predicate over the ROOT-CAUSE pattern in the trace plus the clauses   *)
(* its deviant behaviour is known to break.  A failed clause inside an     *)
(* active finding's territory is reported as KNOWN-FINDING; the same       *)
(* clause anywhere else, and any other clause inside the territory, is a   *)
(* VIOLATION.  Entries whose status is "fixed" suppress nothing.           *)
(***************************************************************************)
EXTENDS Naturals, Sequences, FiniteSets, TLC, Json, Broker

ActiveFindings(path) ==
    LET doc == JsonDeserialize(path)
    IN {doc.findings[i].id : i \in {j \in 1..Len(doc.findings) : doc.findings[j].status = "known"}}

KEv(s, m) == IF m \in DOMAIN s.ev THEN s.ev[m] ELSE [exec |-> "", stack |-> <<>>, state |-> "", sn |-> 0]
KStackIDs(stack) == {stack[i][1] : i \in 1..Len(stack)}
KTrigIDs(s) == UNION {KStackIDs(KEv(s, m).stack) : m \in s.fr.trig}
KTrigOwners(s) == {KEv(s, m).exec : m \in s.fr.trig} \ {""}
KMaxTrigDepth(s) == IF s.fr.trig = {} THEN 0
                    ELSE CHOOSE d \in {Len(KEv(s, m).stack) : m \in s.fr.trig} :
                            \A m \in s.fr.trig : Len(KEv(s, m).stack) <= d
KTerminal(s, x) == x \in DOMAIN s.ex /\ Len(s.ex[x].notes) >= 2

(* ---- F18: a Task/Parallel/Map handler deferred by set_timeout(delegate) runs after its
        fan-out has failed (or its execution has ended) without re-checking termination:
        it still sends its request / logs history / may fail the execution a second time. *)
F18Frame(s) ==
    /\ s.fr.cause = "timer" /\ s.fr.kind = "delegate"
    /\ (KTrigIDs(s) \cap s.failedIDs # {} \/ s.fr.late # {})
F18Clauses == {"NothingAfterTerminal", "NotifSeqOK", "TerminalFrozen", "HistAgreesWithRecord",
               "SiblingsFrozen:rpc", "SiblingsFrozen:event", "NoLateEffects:pub", "FanOutFailsOnce",
               "TriggerAckLast:pub", "HistoryWellFormed", "RecordShape", "ExitFollowsEnter"}

(* ---- F19: the error of a fan-out is caught (Catch on the Parallel/Map state) while sibling
        branches are still outstanding: they are not cancelled, their late results are
        processed after the execution has moved on or ended. *)
F19Clauses == {"NotifSeqOK", "TerminalFrozen", "EventuallyTerminal", "NoLateEffects:pub",
               "NothingAfterTerminal", "HistAgreesWithRecord", "DrainedD0", "DrainedD0:broker-unacked",
               "DrainedD1", "DrainedD1:broker-unacked", "DrainedD1:queued", "CarrierExists",
               "SiblingsFrozen:rpc", "SiblingsFrozen:event", "SiblingsCancelled",
               "JoinAfterAll", "ViewsAgree:note-vs-record", "NotifiedOncePerChange", "RecordShape",
               "TriggerAckLast:pub", "TriggerAckLast:terminal-note", "TriggerAckLast:terminal-record", "ExitFollowsEnter"}
F19Starts(s0, e) ==
    IF e.k = "end" /\ s0.fr.failedNow # {} /\ ~s0.fr.retrypub
    THEN {x \in KTrigOwners(s0) : ~KTerminal(s0, x) /\
              \E i \in 1..Len(e.sizes) : e.sizes[i].pending + e.sizes[i].cancellers + e.sizes[i].unacked > 0}
    ELSE {}

(* ---- F22: a retry decided while the execution has branch metadata (the retry of a fan-out, or of a
        Task inside a branch): check_pending_results acknowledges the held events (the trigger
        included, unless it is a Task/Wait event) before the retry event is republished. *)
F22Here(s0, e, f) ==
    /\ f.clause = "TriggerAckLast:pub" /\ e.k = "pub" /\ e.retry > 0 /\ KMaxTrigDepth(s0) >= 1

(* ---- F24: a fan-out is retried while siblings of the failed attempt are still outstanding; when
        a stale sibling is finally wound up, check_pending_results cancels the pending tasks of
        EVERY result set of the execution, the retried attempt's included: the new attempt is
        cancelled, its events acknowledged, branch metadata deleted -- the execution is wedged
        with nothing left to carry it (found by TLC on Engine.tla, replayed on the real code). *)
F24Clauses == {"CarrierExists", "EventuallyTerminal", "DrainedD0", "DrainedD1", "DrainedD0:broker-unacked",
               "DrainedD1:broker-unacked", "DrainedD1:queued", "SiblingsCancelled", "SiblingsFrozen:rpc",
               "SiblingsFrozen:event", "JoinAfterAll", "NothingAfterTerminal", "NotifSeqOK", "TerminalFrozen",
               "FanOutFailsOnce", "HistAgreesWithRecord", "NoLateEffects:pub"}

(* ---- F16: crash windows in which redelivery does not restore the execution (C04).
   a  the crash falls between a Task event's notify frame and its deferred (delegate) frame: the
      request was never sent, and the redelivered event is not sent either (redelivered => no send);
   b  (fixed in the repository: a reply parked as an orphan now schedules the scan itself)
   c  the crash falls after a branch's reply was consumed and acknowledged while its result lived
      only in the volatile join state: the redelivered (held) branch event waits for a reply that
      was already consumed;
   d  a redelivered start event announces RUNNING a second time (and restarts the history).    *)
KChansOf(b, conn) == {ch \in DOMAIN b.chconn : b.chconn[ch] = conn}
F16a(s0, e) ==
    IF e.k # "connlost" THEN {}
    ELSE {x \in DOMAIN s0.ex : \E t \in s0.timers : t.conn = e.conn /\ t.kind = "delegate" /\
              \E m \in t.trig : KEv(s0, m).exec = x /\ KEv(s0, m).stype = "Task"}
F16c(s0, e) ==
    IF e.k # "connlost" THEN {}
    ELSE {x \in DOMAIN s0.ex : \E u \in s0.b.unacked :
              /\ u.ch \in KChansOf(s0.b, e.conn) /\ u.sn \in DOMAIN s0.msg
              /\ s0.msg[u.sn].kind = "event" /\ s0.msg[u.sn].exec = x
              /\ \E r \in s0.rpcs : r.base = s0.msg[u.sn].mid /\ r.stage = "done"}
F16d(s0, e) ==
    IF e.k = "frame" /\ e.cause = "deliver" /\ e.red /\ e.sn \in DOMAIN s0.msg /\ s0.msg[e.sn].kind = "event"
       /\ s0.msg[e.sn].state = "" /\ s0.msg[e.sn].exec # ""
    THEN {s0.msg[e.sn].exec} ELSE {}
F16Clauses == {"OutcomePreserved", "DrainedD0", "DrainedD1", "DrainedD0:broker-unacked",
               "DrainedD1:broker-unacked", "CarrierExists"}
F16dClauses == {"NotifSeqOK", "HistoryNeverShrinks", "HistoryWellFormed", "HistAgreesWithRecord", "NotifiedOncePerChange"}

(* ---- taints (execution-scoped territories) -------------------------------------------------- *)
NewTaints(s0, s1, e, active) ==
    (IF "F19" \in active THEN {<<x, "F19">> : x \in F19Starts(s0, e)} ELSE {})
    \cup (IF "F18" \in active /\ e.k = "frame" /\ F18Frame(s1) THEN {<<x, "F18">> : x \in KTrigOwners(s1)} ELSE {})
    \cup (IF "F16" \in active THEN {<<x, "F16">> : x \in F16a(s0, e) \cup F16c(s0, e)} ELSE {})
    \cup (IF "F16" \in active THEN {<<x, "F16d">> : x \in F16d(s0, e)} ELSE {})
    \cup (IF "F24" \in active /\ e.k = "pub" /\ s1.fr.retrysib /\ ~s0.fr.retrysib THEN {<<e.exec, "F24">>} ELSE {})

TaintsOf(s, x) == IF x \in DOMAIN s.taintX THEN s.taintX[x] ELSE {}
AnyTaint(s, fid) == \E x \in DOMAIN s.taintX : fid \in s.taintX[x]

(* which active finding, if any, explains failure f raised at line e (pre-state s0, post-state s1) *)
Territory(s0, s1, e, f, active) ==
    IF "F22" \in active /\ F22Here(s0, e, f) THEN "F22"
    ELSE IF "F18" \in active /\ f.clause \in F18Clauses /\ F18Frame(s0) THEN "F18"
    ELSE IF "F18" \in active /\ f.clause = "SiblingsCancelled" /\ f.w = ToString({"delegate"}) THEN "F18"
    ELSE IF "F18" \in active /\ f.clause = "SiblingsCancelled" /\ AnyTaint(s1, "F18") THEN "F18"
    (* the request a late deferred handler sent is answered later: its consequences belong to F18 too *)
    ELSE IF "F18" \in active /\ f.clause \in F18Clauses /\ f.x # "" /\ "F18" \in TaintsOf(s1, f.x) THEN "F18"
    ELSE IF "F16" \in active /\ f.clause \in F16Clauses /\
            (IF f.x # "" THEN "F16" \in TaintsOf(s1, f.x) ELSE AnyTaint(s1, "F16")) THEN "F16"
    ELSE IF "F16" \in active /\ f.clause \in F16dClauses /\ f.x # "" /\ "F16d" \in TaintsOf(s1, f.x) THEN "F16"
    ELSE IF "F24" \in active /\ f.clause \in F24Clauses /\
            (IF f.x # "" THEN "F24" \in TaintsOf(s1, f.x) ELSE AnyTaint(s1, "F24")) THEN "F24"
    ELSE IF "F19" \in active /\ f.clause \in F19Clauses /\
            (IF f.x # "" THEN "F19" \in TaintsOf(s1, f.x) ELSE AnyTaint(s1, "F19")) THEN "F19"
    (* a sibling that FAILS late fails the fan-out a second time only once the execution has ended (the branch
       metadata, and with it the mark that turns its reply into Task.Terminated, is deleted at the end) *)
    ELSE IF "F19" \in active /\ f.clause = "FanOutFailsOnce" /\ f.x # "" /\ "F19" \in TaintsOf(s1, f.x) /\ KTerminal(s0, f.x) THEN "F19"
    ELSE ""
=============================================================================
