INIT Init
NEXT Next
INVARIANT L1
INVARIANT L2
INVARIANT L3
INVARIANT L4
INVARIANT L5
CHECK_DEADLOCK FALSE
