------------------------------ MODULE Template ------------------------------
(***************************************************************************)
(* Payload templates and intrinsic functions over tagged JSON values (C13). *)
(*                                                                         *)
(* Representation (see checks/c13.py, function E): as in JsonValue, except  *)
(* that text is inspected character by character here, so                   *)
(*   strings      [t |-> "str", c |-> <<"a", "b">>]   (one-character strings) *)
(*   object keys  are character sequences too: k |-> << <<"x", ".", "$">> >> *)
(* The operators of JsonValue and RefPath only compare keys for equality,   *)
(* so they work unchanged on this representation.                           *)
(*                                                                         *)
(* A payload template is a JSON value in which the value of a member whose  *)
(* name ends in ".$" is a node [t |-> "dyn", e |-> expression]; an          *)
(* expression is abstract syntax                                            *)
(*   [k |-> "lit",  v |-> string | number | null | boolean]                 *)
(*   [k |-> "path", p |-> [kind |-> "root"|"steps"|"ctxroot"|"ctx", steps]] *)
(*   [k |-> "call", f |-> "States.Format", args |-> <<expression ...>>,     *)
(*                  mal |-> "" | the way in which the call text is ill-formed] *)
(* The harness RENDERS the abstract syntax to States-Language text for the  *)
(* real code, so the implementation's tokeniser is tested against the AST   *)
(* and no parser is needed here.  A literal string denotes its characters   *)
(* (the renderer escapes ' and \ with a backslash); the first argument of   *)
(* States.Format is rendered raw, because Format itself interprets          *)
(* \{ \} \' \\ (see FmtRun).                                                 *)
(*                                                                         *)
(* Evaluation yields a JSON value, or                                       *)
(*   [t |-> "FAIL", cls |-> set of admissible failure classes]              *)
(*   [t |-> "OPEN"]            the property statement is silent: any value   *)
(*                             or specified failure, no arbitrary exception *)
(*   [t |-> "alt", a, b]       either of two outcomes is admissible          *)
(*   symbolic values of the uninterpreted codecs and of the random sources: *)
(*   symb64(x), symjson(x), symuuid(pos), symrand(lo, hi)                   *)
(***************************************************************************)
EXTENDS RefPath

CStr(c) == [t |-> "str", c |-> c]

IFc == {"IntrinsicFailure"}
PFc == {"PathFailure"}
BothC == IFc \cup PFc
TFail(cls) == [t |-> "FAIL", cls |-> cls]
Open == [t |-> "OPEN"]
Alt(a, b) == [t |-> "alt", a |-> a, b |-> b]
IsTFail(v) == v.t = "FAIL"
IsOpen(v) == v.t = "OPEN"

SymB64(x) == [t |-> "symb64", x |-> x]
SymJson(x) == [t |-> "symjson", x |-> x]
SymUuid(pos) == [t |-> "symuuid", pos |-> pos]
SymRand(lo, hi) == [t |-> "symrand", lo |-> lo, hi |-> hi]

StrLike(v) == v.t \in {"str", "symb64", "symjson", "symuuid"}
Vague(v) == v.t \in {"OPEN", "alt"}

RECURSIVE Concrete(_)
Concrete(v) ==
    CASE v.t \in {"null", "bool", "str", "num"} -> TRUE
      [] v.t = "arr" -> \A i \in 1..Len(v.a) : Concrete(v.a[i])
      [] v.t = "obj" -> \A i \in 1..Len(v.v) : Concrete(v.v[i])
      [] OTHER -> FALSE

(* can the outcome be a failure of class c? *)
RECURSIVE MayFailWith(_, _)
MayFailWith(v, c) ==
    CASE v.t = "FAIL" -> c \in v.cls
      [] v.t = "OPEN" -> TRUE
      [] v.t = "alt" -> MayFailWith(v.a, c) \/ MayFailWith(v.b, c)
      [] v.t = "arr" -> \E i \in 1..Len(v.a) : MayFailWith(v.a[i], c)
      [] v.t = "obj" -> \E i \in 1..Len(v.v) : MayFailWith(v.v[i], c)
      [] OTHER -> FALSE
(* the failure of a composite one of whose parts fails: any class a part may fail with *)
FailOf(vals) == TFail({c \in BothC : \E i \in 1..Len(vals) : MayFailWith(vals[i], c)})
AnyFails(vals) == \E i \in 1..Len(vals) : IsTFail(vals[i])

(* ---- integer arguments ----------------------------------------------------- *)
BIG == 1000000000
(* "int": usable;  "open": a number on which the statement is silent (fraction, beyond 32 bit,
   random, undecided);  "bad": not a number at all -- an ill-formed argument *)
IntKind(v) ==
    IF v.t = "num" THEN (IF v.d = 1 /\ v.n <= BIG /\ v.n >= -BIG THEN "int" ELSE "open")
    ELSE IF v.t \in {"big", "symrand", "OPEN", "alt"} THEN "open"
    ELSE "bad"

(* ---- States.Format ----------------------------------------------------------- *)
Digit == <<"0", "1", "2", "3", "4", "5", "6", "7", "8", "9">>
RECURSIVE NatChars(_)
NatChars(n) == IF n < 10 THEN <<Digit[n + 1]>> ELSE Append(NatChars(n \div 10), Digit[(n % 10) + 1])
IntChars(n) == IF n < 0 THEN <<"-">> \o NatChars(-n) ELSE NatChars(n)

(* strings as they are, integers in decimal, null/true/false as in JSON; the statement is
   silent on fractions, arrays and objects *)
Renderable(v) == v.t \in {"str", "null", "bool"} \/ (v.t = "num" /\ v.d = 1)
Render(v) ==
    CASE v.t = "str" -> v.c
      [] v.t = "null" -> <<"n", "u", "l", "l">>
      [] v.t = "bool" -> (IF v.b THEN <<"t", "r", "u", "e">> ELSE <<"f", "a", "l", "s", "e">>)
      [] v.t = "num" -> IntChars(v.n)
      [] OTHER -> <<>>

Escapable == {"{", "}", "'", "\\"}
(* c: the template text, i: position, rest: the arguments, j: the next argument, acc: output;
   dub: something was met on which the statement is silent (a brace that is neither escaped nor
   part of "{}", a backslash before another character, arguments left over) *)
RECURSIVE FmtRun(_, _, _, _, _, _)
FmtRun(c, i, rest, j, acc, dub) ==
    IF i > Len(c) THEN [ok |-> TRUE, acc |-> acc, dub |-> dub \/ j <= Len(rest)]
    ELSE IF c[i] = "\\"
         THEN IF i < Len(c) /\ c[i + 1] \in Escapable
              THEN FmtRun(c, i + 2, rest, j, Append(acc, c[i + 1]), dub)
              ELSE FmtRun(c, i + 1, rest, j, Append(acc, c[i]), TRUE)
    ELSE IF c[i] = "{" /\ i < Len(c) /\ c[i + 1] = "}"
         THEN IF j > Len(rest) THEN [ok |-> FALSE, acc |-> acc, dub |-> dub]
              ELSE FmtRun(c, i + 2, rest, j + 1, acc \o Render(rest[j]), dub)
    ELSE IF c[i] \in {"{", "}"} THEN FmtRun(c, i + 1, rest, j, Append(acc, c[i]), TRUE)
    ELSE FmtRun(c, i + 1, rest, j, Append(acc, c[i]), dub)

(* Where the text is dubious the call may fail, or yield the text with the dubious
   characters taken literally and the surplus arguments ignored -- nothing else (in
   particular no attribute or index access into the arguments). *)
FnFormat(vals) ==
    IF Len(vals) = 0 THEN TFail(IFc)
    ELSE LET t == vals[1]  rest == Tail(vals) IN
         IF Vague(t) \/ (StrLike(t) /\ t.t # "str") THEN Open
         ELSE IF t.t # "str" THEN TFail(IFc)
         ELSE IF \E k \in 1..Len(rest) : ~Renderable(rest[k]) THEN Open
         ELSE LET r == FmtRun(t.c, 1, rest, 1, <<>>, FALSE) IN
              IF ~r.ok THEN TFail(IFc)
              ELSE IF r.dub THEN Alt(TFail(IFc), CStr(r.acc))
              ELSE CStr(r.acc)

(* ---- facts supplied by the harness (known answers of the uninterpreted functions) ---- *)
(* F = [json |-> <<[s, ok, v]>>, b64 |-> <<[p, e]>>, hash |-> <<[d, a, h]>>] *)
JsonIdx(F, c) == IF \E i \in 1..Len(F.json) : F.json[i].s = c
                 THEN CHOOSE i \in 1..Len(F.json) : F.json[i].s = c ELSE 0
EncIdx(F, p) == IF \E i \in 1..Len(F.b64) : F.b64[i].p = p
                THEN CHOOSE i \in 1..Len(F.b64) : F.b64[i].p = p ELSE 0
DecIdx(F, e) == IF \E i \in 1..Len(F.b64) : F.b64[i].e = e
                THEN CHOOSE i \in 1..Len(F.b64) : F.b64[i].e = e ELSE 0
HashIdx(F, d, a) == IF \E i \in 1..Len(F.hash) : F.hash[i].d = d /\ F.hash[i].a = a
                    THEN CHOOSE i \in 1..Len(F.hash) : F.hash[i].d = d /\ F.hash[i].a = a ELSE 0

(* StringToJson / JsonToString: an uninterpreted inverse pair plus known answers *)
FnStringToJson(vals, F) ==
    IF Len(vals) # 1 THEN TFail(IFc)
    ELSE LET x == vals[1] IN
         IF Vague(x) THEN Open
         ELSE IF x.t = "symjson" THEN x.x
         ELSE IF x.t = "str"
              THEN LET i == JsonIdx(F, x.c) IN
                   IF i = 0 THEN Open ELSE IF F.json[i].ok THEN F.json[i].v ELSE TFail(IFc)
         ELSE IF StrLike(x) THEN Open
         ELSE TFail(IFc)
FnJsonToString(vals) ==
    IF Len(vals) # 1 THEN TFail(IFc)
    ELSE IF Vague(vals[1]) THEN Open ELSE SymJson(vals[1])

(* Base64: round trip over an uninterpreted codec plus known answers *)
FnBase64Encode(vals, F) ==
    IF Len(vals) # 1 THEN TFail(IFc)
    ELSE LET x == vals[1] IN
         IF Vague(x) THEN Open
         ELSE IF ~StrLike(x) THEN TFail(IFc)
         ELSE IF x.t = "str" /\ EncIdx(F, x.c) # 0 THEN CStr(F.b64[EncIdx(F, x.c)].e)
         ELSE SymB64(x)
FnBase64Decode(vals, F) ==
    IF Len(vals) # 1 THEN TFail(IFc)
    ELSE LET x == vals[1] IN
         IF Vague(x) THEN Open
         ELSE IF ~StrLike(x) THEN TFail(IFc)
         ELSE IF x.t = "symb64" THEN x.x
         ELSE IF x.t = "str" /\ DecIdx(F, x.c) # 0 THEN CStr(F.b64[DecIdx(F, x.c)].p)
         ELSE Open

Algorithms == { <<"M", "D", "5">>, <<"S", "H", "A", "-", "1">>, <<"S", "H", "A", "-", "2", "5", "6">>,
                <<"S", "H", "A", "-", "3", "8", "4">>, <<"S", "H", "A", "-", "5", "1", "2">> }
FnHash(vals, F) ==
    IF Len(vals) # 2 THEN TFail(IFc)
    ELSE LET d == vals[1]  a == vals[2] IN
         IF (~StrLike(d) /\ ~Vague(d)) \/ (~StrLike(a) /\ ~Vague(a)) THEN TFail(IFc)
         ELSE IF a.t = "str" /\ a.c \notin Algorithms THEN TFail(IFc)
         ELSE IF d.t = "str" /\ a.t = "str" /\ HashIdx(F, d.c, a.c) # 0
              THEN CStr(F.hash[HashIdx(F, d.c, a.c)].h)
         ELSE Open

(* ---- arrays ---------------------------------------------------------------------- *)
NormArg(v) == IF v.t = "alt" THEN Open ELSE v

RECURSIVE PartRun(_, _)
PartRun(a, n) ==
    IF Len(a) = 0 THEN <<>>
    ELSE IF Len(a) <= n THEN <<JArr(a)>>
    ELSE <<JArr(SubSeq(a, 1, n))>> \o PartRun(SubSeq(a, n + 1, Len(a)), n)
FnArrayPartition(vals) ==
    IF Len(vals) # 2 THEN TFail(IFc)
    ELSE LET a == vals[1]  n == vals[2]  nk == IntKind(n) IN
         IF (~IsArr(a) /\ ~Vague(a)) \/ nk = "bad" THEN TFail(IFc)
         ELSE IF Vague(a) \/ nk = "open" THEN Open
         ELSE IF n.n <= 0 THEN TFail(IFc)
         ELSE JArr(PartRun(a.a, n.n))

FnArrayContains(vals) ==
    IF Len(vals) # 2 THEN TFail(IFc)
    ELSE LET a == vals[1]  x == vals[2] IN
         IF ~IsArr(a) /\ ~Vague(a) THEN TFail(IFc)
         ELSE IF Vague(a) \/ ~Concrete(a) \/ ~Concrete(x) \/ IsObj(x) \/ IsArr(x) THEN Open
         ELSE JBool(\E i \in 1..Len(a.a) : JEq(a.a[i], x))

(* first, first + inc, ... up to and including last *)
RangeUp(s, e, inc) == LET n == IF e >= s THEN ((e - s) \div inc) + 1 ELSE 0
                      IN [i \in 1..n |-> JNum(s + (i - 1) * inc)]
RangeDown(s, e, dec) == LET n == IF s >= e THEN ((s - e) \div dec) + 1 ELSE 0
                        IN [i \in 1..n |-> JNum(s - (i - 1) * dec)]
FnArrayRange(vals) ==
    IF Len(vals) # 3 THEN TFail(IFc)
    ELSE LET ks == {IntKind(vals[i]) : i \in 1..3} IN
         IF "bad" \in ks THEN TFail(IFc)
         ELSE IF "open" \in ks THEN Open
         ELSE LET s == vals[1].n  e == vals[2].n  inc == vals[3].n IN
              IF inc = 0 THEN TFail(IFc)
              ELSE IF (IF e >= s THEN e - s ELSE s - e) > 999 THEN Open      \* more than 1000 items: silent
              ELSE IF inc > 0 THEN JArr(RangeUp(s, e, inc))
              ELSE Alt(TFail(IFc), JArr(RangeDown(s, e, -inc)))              \* descending: refused or inclusive

FnArrayGetItem(vals) ==
    IF Len(vals) # 2 THEN TFail(IFc)
    ELSE LET a == vals[1]  n == vals[2]  nk == IntKind(n) IN
         IF (~IsArr(a) /\ ~Vague(a)) \/ nk = "bad" THEN TFail(IFc)
         ELSE IF Vague(a) \/ nk = "open" THEN Open
         ELSE IF n.n < 0 \/ n.n >= Len(a.a) THEN TFail(IFc)
         ELSE a.a[n.n + 1]

FnArrayLength(vals) ==
    IF Len(vals) # 1 THEN TFail(IFc)
    ELSE IF Vague(vals[1]) THEN Open
    ELSE IF ~IsArr(vals[1]) THEN TFail(IFc)
    ELSE JNum(Len(vals[1].a))

(* first occurrences, order preserved *)
RECURSIVE UniqRun(_, _, _)
UniqRun(a, i, acc) ==
    IF i > Len(a) THEN acc
    ELSE IF \E k \in 1..Len(acc) : JEq(acc[k], a[i]) THEN UniqRun(a, i + 1, acc)
    ELSE UniqRun(a, i + 1, Append(acc, a[i]))
Unique(a) == UniqRun(a, 1, <<>>)
FnArrayUnique(vals) ==
    IF Len(vals) # 1 THEN TFail(IFc)
    ELSE LET a == vals[1] IN
         IF Vague(a) THEN Open
         ELSE IF ~IsArr(a) THEN TFail(IFc)
         ELSE IF ~Concrete(a) \/ \E i \in 1..Len(a.a) : IsObj(a.a[i]) \/ IsArr(a.a[i]) THEN Open
         ELSE JArr(Unique(a.a))

(* ---- JsonMerge (shallow): members of the right object win, keys of both ---------- *)
MergeObj(a, b) ==
    LET new == SelectSeq([i \in 1..Len(b.k) |-> i], LAMBDA i : ~HasKey(a, b.k[i]))
    IN JObj(a.k \o [j \in 1..Len(new) |-> b.k[new[j]]],
            [i \in 1..Len(a.k) |-> IF HasKey(b, a.k[i]) THEN Member(b, a.k[i]) ELSE a.v[i]]
              \o [j \in 1..Len(new) |-> b.v[new[j]]])
FnJsonMerge(vals) ==
    IF Len(vals) # 3 THEN TFail(IFc)
    ELSE LET a == vals[1]  b == vals[2]  deep == vals[3] IN
         IF (~IsObj(a) /\ ~Vague(a)) \/ (~IsObj(b) /\ ~Vague(b)) \/ (~IsBool(deep) /\ ~Vague(deep)) THEN TFail(IFc)
         ELSE IF Vague(a) \/ Vague(b) \/ Vague(deep) THEN Open
         ELSE IF deep.b THEN Open                                           \* deep merge: silent
         ELSE MergeObj(a, b)

(* ---- numbers ------------------------------------------------------------------------ *)
FnMathRandom(vals) ==
    IF Len(vals) < 2 \/ Len(vals) > 3 THEN TFail(IFc)
    ELSE LET ka == IntKind(vals[1])  kb == IntKind(vals[2]) IN
         IF ka = "bad" \/ kb = "bad" THEN TFail(IFc)
         ELSE IF ka = "open" \/ kb = "open" THEN Open
         ELSE IF vals[2].n <= vals[1].n THEN Open                           \* empty range: silent
         ELSE IF Len(vals) = 3 /\ IntKind(vals[3]) # "int" THEN Open          \* seed of another type: silent
         ELSE SymRand(vals[1].n, vals[2].n)

FnMathAdd(vals) ==
    IF Len(vals) # 2 THEN TFail(IFc)
    ELSE LET ka == IntKind(vals[1])  kb == IntKind(vals[2]) IN
         IF ka = "bad" \/ kb = "bad" THEN TFail(IFc)
         ELSE IF ka = "open" \/ kb = "open" THEN Open                        \* fractions, overflow: silent
         ELSE JNum(vals[1].n + vals[2].n)

(* ---- StringSplit: split on ANY of the separator characters, each taken literally -------- *)
RECURSIVE SplitRun(_, _, _, _, _)
SplitRun(c, i, seps, cur, acc) ==
    IF i > Len(c) THEN Append(acc, cur)
    ELSE IF c[i] \in seps THEN SplitRun(c, i + 1, seps, <<>>, Append(acc, cur))
    ELSE SplitRun(c, i + 1, seps, Append(cur, c[i]), acc)
SplitKeep(c, seps) == SplitRun(c, 1, seps, <<>>, <<>>)
DropEmpty(ps) == SelectSeq(ps, LAMBDA p : p # <<>>)
StrArr(ps) == JArr([i \in 1..Len(ps) |-> CStr(ps[i])])
CharSet(c) == {c[i] : i \in 1..Len(c)}
(* the statement is silent on whether empty pieces (adjacent, leading or trailing
   separators) are kept: both readings are admissible *)
FnStringSplit(vals) ==
    IF Len(vals) # 2 THEN TFail(IFc)
    ELSE LET d == vals[1]  s == vals[2] IN
         IF (~StrLike(d) /\ ~Vague(d)) \/ (~StrLike(s) /\ ~Vague(s)) THEN TFail(IFc)
         ELSE IF d.t # "str" \/ s.t # "str" THEN Open
         ELSE IF Len(s.c) = 0 THEN Open
         ELSE LET keep == SplitKeep(d.c, CharSet(s.c))  drop == DropEmpty(keep) IN
              IF keep = drop THEN StrArr(keep) ELSE Alt(StrArr(keep), StrArr(drop))

FnUUID(vals, pos) == IF Len(vals) # 0 THEN TFail(IFc) ELSE SymUuid(pos)

KnownFns == {"States.Format", "States.StringToJson", "States.JsonToString", "States.Array",
             "States.ArrayPartition", "States.ArrayContains", "States.ArrayRange", "States.ArrayGetItem",
             "States.ArrayLength", "States.ArrayUnique", "States.Base64Encode", "States.Base64Decode",
             "States.Hash", "States.JsonMerge", "States.MathRandom", "States.MathAdd",
             "States.StringSplit", "States.UUID"}

Apply(f, vals, F, pos) ==
    CASE f = "States.Format" -> FnFormat(vals)
      [] f = "States.StringToJson" -> FnStringToJson(vals, F)
      [] f = "States.JsonToString" -> FnJsonToString(vals)
      [] f = "States.Array" -> JArr(vals)
      [] f = "States.ArrayPartition" -> FnArrayPartition(vals)
      [] f = "States.ArrayContains" -> FnArrayContains(vals)
      [] f = "States.ArrayRange" -> FnArrayRange(vals)
      [] f = "States.ArrayGetItem" -> FnArrayGetItem(vals)
      [] f = "States.ArrayLength" -> FnArrayLength(vals)
      [] f = "States.ArrayUnique" -> FnArrayUnique(vals)
      [] f = "States.Base64Encode" -> FnBase64Encode(vals, F)
      [] f = "States.Base64Decode" -> FnBase64Decode(vals, F)
      [] f = "States.Hash" -> FnHash(vals, F)
      [] f = "States.JsonMerge" -> FnJsonMerge(vals)
      [] f = "States.MathRandom" -> FnMathRandom(vals)
      [] f = "States.MathAdd" -> FnMathAdd(vals)
      [] f = "States.StringSplit" -> FnStringSplit(vals)
      [] f = "States.UUID" -> FnUUID(vals, pos)
      [] OTHER -> TFail(IFc)

(* ---- expressions ------------------------------------------------------------------------ *)
(* env = [input, ctx, facts]; pos identifies the node (so that every UUID call is its own symbol) *)
RECURSIVE Eval(_, _, _)
Eval(e, env, pos) ==
    CASE e.k = "lit" -> e.v
      [] e.k = "path" -> (LET r == PathValue(env.input, env.ctx, e.p) IN IF IsMissing(r) THEN TFail(PFc) ELSE r)
      [] e.k = "call" ->
           IF e.mal # "" THEN TFail(IFc)                     \* ill-formed call text
           ELSE LET vals == [i \in 1..Len(e.args) |-> NormArg(Eval(e.args[i], env, Append(pos, i)))] IN
                IF e.f \notin KnownFns THEN TFail(IFc \cup FailOf(vals).cls)
                ELSE IF AnyFails(vals) THEN FailOf(vals)
                ELSE Apply(e.f, vals, env.facts, pos)

(* ---- the template walk ------------------------------------------------------------------ *)
EndsDS(key) == Len(key) >= 2 /\ key[Len(key) - 1] = "." /\ key[Len(key)] = "$"
Strip(key) == SubSeq(key, 1, Len(key) - 2)

(* Only members whose name ends in ".$" are evaluated and renamed; every other member is copied
   verbatim at any depth (its own sub-objects are walked).  An object with a ".$" member whose
   value is not a string, or with two members that collide after renaming, is left open. *)
RECURSIVE Walk(_, _, _)
Walk(t, env, pos) ==
    IF t.t = "obj"
    THEN LET n == Len(t.k)
             vals == [i \in 1..n |->
                        IF EndsDS(t.k[i])
                        THEN (IF t.v[i].t = "dyn" THEN Eval(t.v[i].e, env, Append(pos, i)) ELSE Open)
                        ELSE (IF t.v[i].t = "dyn" THEN Open ELSE Walk(t.v[i], env, Append(pos, i)))]
             keys == [i \in 1..n |-> IF EndsDS(t.k[i]) THEN Strip(t.k[i]) ELSE t.k[i]]
         IN IF \E i \in 1..n : EndsDS(t.k[i]) # (t.v[i].t = "dyn") THEN Open       \* not a well-formed template object
            ELSE IF AnyFails(vals) THEN FailOf(vals)
            ELSE IF \E i, j \in 1..n : i # j /\ keys[i] = keys[j] THEN Open
            ELSE JObj(keys, vals)
    ELSE IF t.t = "arr"
    THEN LET vals == [i \in 1..Len(t.a) |-> IF t.a[i].t = "dyn" THEN Open ELSE Walk(t.a[i], env, Append(pos, i))]
         IN IF AnyFails(vals) THEN FailOf(vals) ELSE JArr(vals)
    ELSE t

(* ---- comparing an observed value with the outcome the specification gives -------------- *)
Hex == {"0", "1", "2", "3", "4", "5", "6", "7", "8", "9", "a", "b", "c", "d", "e", "f",
        "A", "B", "C", "D", "E", "F"}
UuidShape(c) == /\ Len(c) = 36
                /\ \A i \in 1..36 : IF i \in {9, 14, 19, 24} THEN c[i] = "-" ELSE c[i] \in Hex

RECURSIVE Match(_, _, _)
Match(obs, want, F) ==
    CASE want.t = "OPEN" -> TRUE
      [] want.t = "FAIL" -> FALSE
      [] want.t = "alt" -> Match(obs, want.a, F) \/ Match(obs, want.b, F)
      [] want.t = "symuuid" -> obs.t = "str" /\ UuidShape(obs.c)
      [] want.t = "symrand" -> obs.t = "num" /\ obs.d = 1 /\ obs.n >= want.lo /\ obs.n < want.hi
      [] want.t = "symjson" ->                 \* the text denotes the value (known answer for the observed text)
           /\ obs.t = "str"
           /\ (~Concrete(want.x) \/ LET i == JsonIdx(F, obs.c) IN i = 0 \/ (F.json[i].ok /\ JEq(F.json[i].v, want.x)))
      [] want.t = "symb64" ->
           /\ obs.t = "str"
           /\ (want.x.t # "str" \/ LET i == DecIdx(F, obs.c) IN i = 0 \/ F.b64[i].p = want.x.c)
      [] want.t = "arr" -> /\ obs.t = "arr" /\ Len(obs.a) = Len(want.a)
                           /\ \A i \in 1..Len(want.a) : Match(obs.a[i], want.a[i], F)
      [] want.t = "obj" -> /\ obs.t = "obj" /\ Len(obs.k) = Len(want.k)
                           /\ \A i \in 1..Len(want.k) : HasKey(obs, want.k[i]) /\ Match(Member(obs, want.k[i]), want.v[i], F)
      [] OTHER -> obs = want

(* the observed strings at the positions of UUID calls (only meaningful when Match holds and
   no alternative is involved) *)
RECURSIVE UuidStrings(_, _)
UuidStrings(obs, want) ==
    CASE want.t = "symuuid" -> <<obs>>
      [] want.t = "arr" /\ obs.t = "arr" /\ Len(obs.a) = Len(want.a) ->
           LET RECURSIVE cat(_)
               cat(i) == IF i > Len(want.a) THEN <<>> ELSE UuidStrings(obs.a[i], want.a[i]) \o cat(i + 1)
           IN cat(1)
      [] want.t = "obj" /\ obs.t = "obj" /\ \A i \in 1..Len(want.k) : HasKey(obs, want.k[i]) ->
           LET RECURSIVE cat(_)
               cat(i) == IF i > Len(want.k) THEN <<>> ELSE UuidStrings(Member(obs, want.k[i]), want.v[i]) \o cat(i + 1)
           IN cat(1)
      [] OTHER -> <<>>
PairwiseDistinct(s) == \A i, j \in 1..Len(s) : i # j => s[i] # s[j]

(* ---- helpers for laws and for signatures over a case ------------------------------------ *)
RECURSIVE Flatten(_)
Flatten(chunks) == IF Len(chunks) = 0 THEN <<>> ELSE Head(chunks).a \o Flatten(Tail(chunks))
RECURSIVE Join(_, _)
Join(ps, sep) == IF Len(ps) = 0 THEN <<>> ELSE IF Len(ps) = 1 THEN ps[1] ELSE ps[1] \o <<sep>> \o Join(Tail(ps), sep)

(* nesting depth of calls: a call without call arguments has depth 0 *)
RECURSIVE CallDepth(_)
CallDepth(e) ==
    IF e.k # "call" THEN 0
    ELSE LET ds == {IF e.args[i].k = "call" THEN 1 + CallDepth(e.args[i]) ELSE 0 : i \in 1..Len(e.args)}
         IN IF ds = {} THEN 0 ELSE Max(ds)
RECURSIVE ExprNodes(_)
(* all sub-expressions, the expression itself included *)
ExprNodes(e) == IF e.k # "call" THEN {e} ELSE {e} \cup UNION {ExprNodes(e.args[i]) : i \in 1..Len(e.args)}
RECURSIVE DynExprs(_)
(* the expressions of all ".$" members of a template *)
DynExprs(t) ==
    CASE t.t = "dyn" -> {t.e}
      [] t.t = "obj" -> UNION {DynExprs(t.v[i]) : i \in 1..Len(t.v)}
      [] t.t = "arr" -> UNION {DynExprs(t.a[i]) : i \in 1..Len(t.a)}
      [] OTHER -> {}
=============================================================================
