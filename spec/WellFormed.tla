------------------------------ MODULE WellFormed ------------------------------
(***************************************************************************)
(* Structural legality of a state-machine definition, and the mutation      *)
(* operators that span the definitions C18 is checked on.                  *)
(*                                                                         *)
(* A machine is [StartAt |-> value, States |-> [name |-> state]]; a state   *)
(* is a function from the names of the fields it HAS to field values;       *)
(* a field value is one of                                                  *)
(*   [k |-> "str", s |-> "A"]   [k |-> "bool", b |-> TRUE]  [k |-> "num", n |-> 5] *)
(*   [k |-> "machines", ms |-> <<machine, ...>>]   [k |-> "machine", m |-> machine] *)
(*   [k |-> "choices", cs |-> <<[Next |-> value], ...>>]                    *)
(***************************************************************************)
EXTENDS Naturals, Sequences, FiniteSets, TLC

Str(s) == [k |-> "str", s |-> s]
Bool(b) == [k |-> "bool", b |-> b]
Num(n) == [k |-> "num", n |-> n]
Machines(ms) == [k |-> "machines", ms |-> ms]
Machine1(m) == [k |-> "machine", m |-> m]
Choices(cs) == [k |-> "choices", cs |-> cs]

IsStr(v) == v.k = "str"
Has(st, f) == f \in DOMAIN st
StrOf(st, f) == IF Has(st, f) /\ IsStr(st[f]) THEN st[f].s ELSE ""
IsTrue(st, f) == Has(st, f) /\ st[f].k = "bool" /\ st[f].b

KnownTypes == {"Pass", "Task", "Choice", "Wait", "Succeed", "Fail", "Parallel", "Map"}
NeedsNextOrEnd == {"Pass", "Task", "Wait", "Parallel", "Map"}

(* the sub-machines of a state *)
SubMachines(st) ==
    (IF Has(st, "Branches") /\ st["Branches"].k = "machines" THEN {st["Branches"].ms[i] : i \in 1..Len(st["Branches"].ms)} ELSE {})
    \cup (IF Has(st, "ItemProcessor") /\ st["ItemProcessor"].k = "machine" THEN {st["ItemProcessor"].m} ELSE {})

RECURSIVE AllNames(_)
(* the bag of state names over all nesting levels, as a sequence *)
SeqOfSet(S) == CHOOSE q \in [1..Cardinality(S) -> S] : \A a \in S : \E i \in 1..Cardinality(S) : q[i] = a
RECURSIVE Concat(_)
Concat(ss) == IF ss = <<>> THEN <<>> ELSE Head(ss) \o Concat(Tail(ss))
AllNames(m) ==
    IF m.States = <<>> THEN <<>>
    ELSE LET names == SeqOfSet(DOMAIN m.States)
         IN names \o Concat([i \in 1..Len(names) |->
                                Concat([j \in 1..Cardinality(SubMachines(m.States[names[i]])) |->
                                          AllNames(SeqOfSet(SubMachines(m.States[names[i]]))[j])])])

NamesUnique(m) == LET a == AllNames(m) IN \A i, j \in 1..Len(a) : a[i] = a[j] => i = j

StateOK(m, st) ==
    /\ Has(st, "Type") /\ IsStr(st["Type"]) /\ st["Type"].s \in KnownTypes
    /\ LET t == st["Type"].s IN
       /\ (t \in NeedsNextOrEnd => (IsTrue(st, "End") \/ (Has(st, "Next") /\ IsStr(st["Next"]))))
       /\ (Has(st, "Next") => IsStr(st["Next"]) /\ st["Next"].s \in DOMAIN m.States)
       /\ (Has(st, "Default") => IsStr(st["Default"]) /\ st["Default"].s \in DOMAIN m.States)
       /\ (t = "Task" => Has(st, "Resource") /\ IsStr(st["Resource"]))
       /\ (t = "Choice" => /\ Has(st, "Choices") /\ st["Choices"].k = "choices" /\ Len(st["Choices"].cs) > 0
                           /\ \A i \in 1..Len(st["Choices"].cs) :
                                 LET c == st["Choices"].cs[i] IN "Next" \in DOMAIN c /\ IsStr(c["Next"]) /\ c["Next"].s \in DOMAIN m.States)
       /\ (t = "Wait" => Has(st, "Seconds") /\ st["Seconds"].k = "num")
       /\ (t = "Parallel" => Has(st, "Branches") /\ st["Branches"].k = "machines" /\ Len(st["Branches"].ms) > 0)
       /\ (t = "Map" => Has(st, "ItemProcessor") /\ st["ItemProcessor"].k = "machine")

RECURSIVE MachineOK(_)
MachineOK(m) ==
    /\ m.StartAt.k = "str" /\ m.StartAt.s \in DOMAIN m.States
    /\ \A n \in DOMAIN m.States : StateOK(m, m.States[n]) /\ \A sub \in SubMachines(m.States[n]) : MachineOK(sub)

WellFormed(m) == MachineOK(m) /\ NamesUnique(m)

(* ---- mutation operators ------------------------------------------------------ *)
DropField(st, f) == [g \in (DOMAIN st) \ {f} |-> st[g]]
SetField(st, f, v) == [g \in (DOMAIN st) \cup {f} |-> IF g = f THEN v ELSE st[g]]
WithState(m, n, st) == [m EXCEPT !.States = [x \in (DOMAIN @) \cup {n} |-> IF x = n THEN st ELSE @[x]]]
DropState(m, n) == [m EXCEPT !.States = [x \in (DOMAIN @) \ {n} |-> @[x]]]
RenameState(m, n, new) == WithState(DropState(m, n), new, m.States[n])

Fields == {"Type", "Next", "End", "Default", "Choices", "Branches", "ItemProcessor", "Resource", "Seconds", "Error"}
Replacements == {Str("Nowhere"), Str("Bogus"), Num(5), Bool(TRUE)}

(* rename state y of machine b to `new`, retargeting StartAt / Next / Default so that the   *)
(* duplicate name is the only defect that can result                                       *)
RenameRefs(b, y, new) ==
    LET fix(st) == [g \in DOMAIN st |-> IF g \in {"Next", "Default"} /\ IsStr(st[g]) /\ st[g].s = y THEN Str(new) ELSE st[g]]
        states == [x \in ((DOMAIN b.States) \ {y}) \cup {new} |-> IF x = new THEN fix(b.States[y]) ELSE fix(b.States[x])]
    IN [StartAt |-> IF IsStr(b.StartAt) /\ b.StartAt.s = y THEN Str(new) ELSE b.StartAt, States |-> states]

RECURSIVE NameSet(_)
NameSet(m) == (DOMAIN m.States) \cup UNION {UNION {NameSet(sub) : sub \in SubMachines(m.States[n])} : n \in DOMAIN m.States}

(* every variant of m in which ONE state, at any depth, takes a name from T that its own    *)
(* States object does not hold: the same name then occurs in two different States objects   *)
(* (parent and child, two sibling branches, cousins)                                        *)
RECURSIVE RenameIn(_, _)
RenameIn(m, T) ==
    {RenameRefs(m, y, t) : y \in DOMAIN m.States, t \in T \ (DOMAIN m.States)}
    \cup UNION {LET st == m.States[n] IN
                  (IF Has(st, "Branches") /\ st["Branches"].k = "machines"
                   THEN UNION {{WithState(m, n, SetField(st, "Branches", Machines([st["Branches"].ms EXCEPT ![i] = x]))) :
                                    x \in RenameIn(st["Branches"].ms[i], T)} : i \in 1..Len(st["Branches"].ms)}
                   ELSE {})
                  \cup
                  (IF Has(st, "ItemProcessor") /\ st["ItemProcessor"].k = "machine"
                   THEN {WithState(m, n, SetField(st, "ItemProcessor", Machine1(x))) : x \in RenameIn(st["ItemProcessor"].m, T)}
                   ELSE {})
                : n \in DOMAIN m.States}
NameCollisions(m) == RenameIn(m, NameSet(m))

(* every definition one top-level mutation away from m *)
Mutants(m) ==
    NameCollisions(m) \cup
    {DropState(m, n) : n \in DOMAIN m.States}
    \cup {RenameState(m, n, "Renamed") : n \in DOMAIN m.States}
    \cup {[m EXCEPT !.StartAt = v] : v \in {Str("Nowhere"), Num(1)}}
    \cup {WithState(m, n, DropField(m.States[n], f)) : n \in DOMAIN m.States, f \in Fields}
    \cup {WithState(m, n, SetField(m.States[n], f, v)) : n \in DOMAIN m.States, f \in {"Type", "Next", "End", "Default", "Resource"}, v \in Replacements}
    \cup {WithState(m, n, SetField(m.States[n], "Type", Str(t))) : n \in DOMAIN m.States, t \in KnownTypes}
    \cup {WithState(m, n, SetField(m.States[n], "Next", Str(o))) : n \in DOMAIN m.States, o \in DOMAIN m.States}
    (* one level down: mutate the first branch / the item processor, or make a nested name collide *)
    \cup UNION {LET st == m.States[n] IN
                  (IF Has(st, "Branches") /\ st["Branches"].k = "machines" /\ Len(st["Branches"].ms) > 0
                   THEN LET b == st["Branches"].ms[1]
                        IN {WithState(m, n, SetField(st, "Branches", Machines([st["Branches"].ms EXCEPT ![1] = x]))) :
                               x \in {DropState(b, y) : y \in DOMAIN b.States}
                                     \cup {RenameState(b, y, n) : y \in DOMAIN b.States}
                                     \cup {WithState(b, y, DropField(b.States[y], f)) : y \in DOMAIN b.States, f \in {"Type", "Next", "End"}}
                                     \cup {WithState(b, y, SetField(b.States[y], "Next", Str(n))) : y \in DOMAIN b.States}}
                   ELSE {})
                  \cup
                  (IF Has(st, "ItemProcessor") /\ st["ItemProcessor"].k = "machine"
                   THEN LET b == st["ItemProcessor"].m
                        IN {WithState(m, n, SetField(st, "ItemProcessor", Machine1(x))) :
                               x \in {DropState(b, y) : y \in DOMAIN b.States}
                                     \cup {RenameState(b, y, n) : y \in DOMAIN b.States}
                                     \cup {WithState(b, y, DropField(b.States[y], f)) : y \in DOMAIN b.States, f \in {"Type", "Next", "End"}}}
                   ELSE {})
                : n \in DOMAIN m.States}
=============================================================================
