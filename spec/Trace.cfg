SPECIFICATION Spec
INVARIANT BrokerSane
INVARIANT Report
CHECK_DEADLOCK FALSE
