INIT Init
NEXT Next
CONSTANT Depth = 1
INVARIANT Emit
INVARIANT SeedsWellFormed
INVARIANT LawDropStart
INVARIANT LawDangling
CHECK_DEADLOCK FALSE
INVARIANT LawCollision
