------------------------------ MODULE ErrorPolicy ------------------------------
(***************************************************************************)
(* Retry / Catch of the States Language (C07), as pure operators.           *)
(*                                                                         *)
(* A retrier: [errs |-> set of names, interval |-> seconds, max |-> n,      *)
(*             rate |-> <<num, den>>]  (defaults 1, 3, 2/1 filled by the    *)
(*            harness);  a catcher: [errs |-> set, next |-> state].         *)
(* An attempt history is the sequence of error names of the failed          *)
(* attempts so far (the current failure last).                              *)
(* Where the property statement is silent the verdict is "open":            *)
(*  - States.TaskFailed in ErrorEquals when the error is another name       *)
(*    (AWS documents it as a wildcard for task failures);                   *)
(*  - which counter a retrier consults once two different retriers have     *)
(*    fired for the same state (per state or per retrier).                  *)
(***************************************************************************)
EXTENDS Integers, Sequences, FiniteSets, TLC

Unrecoverable == {"States.Runtime", "States.ExecutionTimeout", "Task.Terminated"}

(* does this ErrorEquals list apply to the error?  "yes" | "no" | "open" *)
Applies(errs, e) ==
    IF e \in Unrecoverable THEN "no"
    ELSE IF e \in errs THEN "yes"
    ELSE IF "States.ALL" \in errs THEN "yes"
    ELSE IF "States.TaskFailed" \in errs THEN "open"
    ELSE "no"

(* index of the first entry that applies (0 = none); "open" entries make the scan ambiguous *)
RECURSIVE FirstApplying(_, _, _)
FirstApplying(list, e, i) ==
    IF i > Len(list) THEN [idx |-> 0, open |-> FALSE]
    ELSE LET a == Applies(list[i].errs, e) IN
         IF a = "yes" THEN [idx |-> i, open |-> FALSE]
         ELSE IF a = "open" THEN [idx |-> i, open |-> TRUE]
         ELSE FirstApplying(list, e, i + 1)

RECURSIVE Pow(_, _)
Pow(b, k) == IF k = 0 THEN 1 ELSE b * Pow(b, k - 1)

(* delay in milliseconds before the k-th retry (k = 0 for the first): interval * rate^k *)
DelayMs(r, k) == (r.interval * 1000 * Pow(r.rate[1], k)) \div Pow(r.rate[2], k)
DelayExact(r, k) == (r.interval * 1000 * Pow(r.rate[1], k)) % Pow(r.rate[2], k) = 0

(* number of earlier retries, counted per state and per retrier *)
CountAll(hist) == Len(hist) - 1
CountFor(retriers, hist, idx) ==
    Cardinality({j \in 1..(Len(hist) - 1) : FirstApplying(retriers, hist[j], 1).idx = idx})

(* the decision after the failure hist[Len(hist)]:
   [act |-> "retry", delays |-> set of admissible delays] | [act |-> "handover"] (go to the catchers / fail)
   | [act |-> "open"] *)
RetryDecision(retriers, hist) ==
    LET e == hist[Len(hist)]
        f == FirstApplying(retriers, e, 1)
    IN IF f.open THEN [act |-> "open", delays |-> {}]
       ELSE IF f.idx = 0 THEN [act |-> "handover", delays |-> {}]
       ELSE LET r == retriers[f.idx]
                kAll == CountAll(hist)
                kOwn == CountFor(retriers, hist, f.idx)
                retryAll == kAll < r.max
                retryOwn == kOwn < r.max
            IN IF retryAll /\ retryOwn THEN [act |-> "retry", delays |-> {DelayMs(r, kAll), DelayMs(r, kOwn)}]
               ELSE IF ~retryAll /\ ~retryOwn THEN [act |-> "handover", delays |-> {}]
               ELSE [act |-> "open", delays |-> {}]

(* after retries are exhausted (or none applies): the first applying catcher, else failure *)
CatchDecision(catchers, e) ==
    LET f == FirstApplying(catchers, e, 1)
    IN IF f.open THEN [act |-> "open", idx |-> 0]
       ELSE IF f.idx = 0 THEN [act |-> "fail", idx |-> 0]
       ELSE [act |-> "catch", idx |-> f.idx]

(* ---- laws (MC_ErrorPolicy) ---------------------------------------------- *)
LawMaxZeroNeverRetries(retriers, hist) ==
    LET f == FirstApplying(retriers, hist[Len(hist)], 1)
    IN (f.idx # 0 /\ ~f.open /\ retriers[f.idx].max = 0) => RetryDecision(retriers, hist).act = "handover"
LawAllSkipsUnrecoverable(list, e) == e \in Unrecoverable => FirstApplying(list, e, 1).idx = 0
LawFirstDelayIsInterval(r) == DelayMs(r, 0) = r.interval * 1000
=============================================================================
