SPECIFICATION Spec
CONSTANTS
 MaxMsg = 2
 MaxLoss = 1
INVARIANT Structural
INVARIANT Conservation
INVARIANT StaysInItsQueue
INVARIANT RedOnlyAfterLoss
PROPERTY FifoSteps
PROPERTY TagsGrow
CHECK_DEADLOCK FALSE
