class BasicProperties:
    FIELDS = ("content_type", "content_encoding", "headers", "delivery_mode", "priority",
              "correlation_id", "reply_to", "expiration", "message_id", "timestamp", "type",
              "user_id", "app_id", "cluster_id")

    def __init__(self, content_type=None, content_encoding=None, headers=None,
                 delivery_mode=None, priority=None, correlation_id=None, reply_to=None,
                 expiration=None, message_id=None, timestamp=None, type=None, user_id=None,
                 app_id=None, cluster_id=None):
        self.content_type = content_type
        self.content_encoding = content_encoding
        self.headers = headers
        self.delivery_mode = delivery_mode
        self.priority = priority
        self.correlation_id = correlation_id
        self.reply_to = reply_to
        self.expiration = expiration
        self.message_id = message_id
        self.timestamp = timestamp
        self.type = type
        self.user_id = user_id
        self.app_id = app_id
        self.cluster_id = cluster_id

    def as_dict(self):
        return {k: getattr(self, k) for k in self.FIELDS}


class Basic:
    class Ack:
        def __init__(self, delivery_tag=0, multiple=False):
            self.delivery_tag = delivery_tag
            self.multiple = multiple

    class Nack:
        def __init__(self, delivery_tag=0, multiple=False, requeue=True):
            self.delivery_tag = delivery_tag
            self.multiple = multiple
            self.requeue = requeue

    class Deliver:
        def __init__(self, consumer_tag, delivery_tag, redelivered, exchange, routing_key):
            self.consumer_tag = consumer_tag
            self.delivery_tag = delivery_tag
            self.redelivered = redelivered
            self.exchange = exchange
            self.routing_key = routing_key

    class Return:
        def __init__(self, reply_code, reply_text, exchange, routing_key):
            self.reply_code = reply_code
            self.reply_text = reply_text
            self.exchange = exchange
            self.routing_key = routing_key


class Queue:
    class DeclareOk:
        def __init__(self, queue, message_count=0, consumer_count=0):
            self.queue = queue
            self.message_count = message_count
            self.consumer_count = consumer_count


class Frame:
    def __init__(self, method):
        self.method = method
