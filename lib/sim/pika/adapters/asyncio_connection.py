import pika
from pika.channel import Channel


class AsyncioConnection:
    def __init__(self, parameters=None, on_open_callback=None, on_open_error_callback=None,
                 on_close_callback=None, custom_ioloop=None):
        broker = pika.BROKER
        self.name = broker.next_connection_name()
        self.parameters = parameters
        self.is_open = True
        self.is_closed = False
        self.transport = "asyncio"
        self._chan_n = 0
        self.channels = []
        self.close_cbs = []
        self.timers = broker.timers_for(self.name)
        broker.open_connection(self)
        if on_open_callback:
            on_open_callback(self)

    def add_on_open_error_callback(self, cb):
        pass

    def add_on_close_callback(self, cb):
        self.close_cbs.append(cb)

    def channel(self, channel_number=None, on_open_callback=None):
        self._chan_n += 1
        ch = Channel(self, self._chan_n)
        self.channels.append(ch)
        if on_open_callback:
            on_open_callback(ch)
        return ch

    def close(self, reply_code=200, reply_text="Normal shutdown"):
        if self.is_open:
            self.is_open = False
            self.is_closed = True
            pika.BROKER.connection_closed(self)

    # timers: owned by the scheduler
    def _adapter_call_later(self, delay, cb):
        return self.timers.set(cb, delay)

    def _adapter_remove_timeout(self, handle):
        self.timers.clear(handle)

    def _adapter_add_callback_threadsafe(self, cb):
        pika.BROKER.threadsafe_call(self, cb)
