"""Fake pika.BlockingConnection / BlockingChannel.

`start_consuming` returns at once: the scheduler of the simulated world invokes the
consumer callbacks itself, exactly as for the asyncio transport, so no thread is needed.
"""
import pika
from pika.channel import Channel
from pika import exceptions


class BlockingChannel:
    def __init__(self, impl, connection):
        self._impl = impl
        self.connection = connection
        self._consuming = False

    @property
    def is_open(self):
        return self._impl.is_open

    @property
    def is_closed(self):
        return self._impl.is_closed

    @property
    def channel_number(self):
        return self._impl.channel_number

    def _check(self):
        err = getattr(self._impl, "_close_error", None)
        if err is not None and not getattr(self._impl, "_raised", False):
            self._impl._raised = True
            raise err

    def close(self, reply_code=0, reply_text="Normal shutdown"):
        self._impl.close(reply_code, reply_text)

    def basic_qos(self, prefetch_size=0, prefetch_count=0, global_qos=False):
        self._impl.basic_qos(prefetch_size, prefetch_count, global_qos)

    def confirm_delivery(self):
        self._impl.confirm_cb = None
        self._impl.confirms = True

    def exchange_declare(self, exchange, exchange_type="direct", passive=False, durable=False,
                         auto_delete=False, internal=False, arguments=None):
        out = []
        self._impl.exchange_declare(exchange, exchange_type, passive, durable, auto_delete,
                                    internal, arguments, callback=out.append)
        self._check()
        return out[0] if out else None

    def queue_declare(self, queue, passive=False, durable=False, exclusive=False,
                      auto_delete=False, arguments=None):
        out = []
        self._impl.queue_declare(queue, passive, durable, exclusive, auto_delete, arguments,
                                 callback=out.append)
        self._check()
        return out[0] if out else None

    def queue_bind(self, queue, exchange, routing_key=None, arguments=None):
        out = []
        self._impl.queue_bind(queue, exchange, routing_key, arguments, callback=out.append)
        self._check()
        return out[0] if out else None

    def basic_consume(self, queue, on_message_callback, auto_ack=False, exclusive=False,
                      consumer_tag=None, arguments=None):
        me = self

        def cb(_ch, method, properties, body):
            on_message_callback(me, method, properties, body)
        tag = self._impl.basic_consume(queue, cb, auto_ack, exclusive, consumer_tag, arguments)
        self._check()
        return tag

    def basic_publish(self, exchange, routing_key, body, properties=None, mandatory=False):
        self._impl.basic_publish(exchange, routing_key, body, properties, mandatory)

    def basic_ack(self, delivery_tag=0, multiple=False):
        self._impl.basic_ack(delivery_tag, multiple)

    def basic_nack(self, delivery_tag=0, multiple=False, requeue=True):
        self._impl.basic_nack(delivery_tag, multiple, requeue)

    def basic_recover(self, requeue=False):
        self._impl.basic_recover(requeue)

    def start_consuming(self):
        self._consuming = True      # returns at once; see module docstring

    def stop_consuming(self, consumer_tag=None):
        self._consuming = False


class BlockingConnection:
    def __init__(self, parameters=None):
        broker = pika.BROKER
        self.name = broker.next_connection_name()
        self.parameters = parameters
        self.is_open = True
        self.is_closed = False
        self.transport = "blocking"
        self._chan_n = 0
        self.channels = []
        self.close_cbs = []
        self.close_requested = False
        self.timers = broker.timers_for(self.name)
        broker.open_connection(self)

    def channel(self, channel_number=None):
        self._chan_n += 1
        impl = Channel(self, self._chan_n)
        self.channels.append(impl)
        return BlockingChannel(impl, self)

    def close(self, reply_code=200, reply_text="Normal shutdown"):
        # EventDispatcher.start() calls close() right after start() returns; in the
        # simulated world start() returns at once, so the request is recorded and ignored.
        self.close_requested = True

    def really_close(self):
        if self.is_open:
            self.is_open = False
            self.is_closed = True
            pika.BROKER.connection_closed(self)

    def call_later(self, delay, cb):
        return self.timers.set(cb, delay)

    def remove_timeout(self, handle):
        self.timers.clear(handle)

    def add_callback_threadsafe(self, cb):
        pika.BROKER.threadsafe_call(self, cb)

    def process_data_events(self, time_limit=0):
        pass

    def sleep(self, duration):
        pass
