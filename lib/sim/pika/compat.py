import urllib.parse
urlparse = urllib.parse.urlparse
