class AMQPError(Exception):
    pass


class AMQPConnectionError(AMQPError):
    pass


class IncompatibleProtocolError(AMQPConnectionError):
    pass


class ConnectionClosedByBroker(AMQPConnectionError):
    def __init__(self, reply_code=320, reply_text="CONNECTION_FORCED"):
        super().__init__(reply_code, reply_text)
        self.reply_code = reply_code
        self.reply_text = reply_text


class ConnectionClosed(AMQPConnectionError):
    pass


class StreamLostError(AMQPConnectionError):
    pass


class ConnectionWrongStateError(AMQPConnectionError):
    pass


class AMQPChannelError(AMQPError):
    pass


class ChannelClosed(AMQPChannelError):
    pass


class ChannelWrongStateError(AMQPChannelError):
    pass


class ChannelClosedByBroker(AMQPChannelError):
    def __init__(self, reply_code, reply_text):
        super().__init__(reply_code, reply_text)
        self.reply_code = reply_code
        self.reply_text = reply_text


class NackError(AMQPError):
    def __init__(self, messages=()):
        super().__init__(messages)
        self.messages = messages


class UnroutableError(AMQPError):
    def __init__(self, messages=()):
        super().__init__(messages)
        self.messages = messages
