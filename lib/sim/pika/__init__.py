"""Fake `pika` for the /verif simulated world.

Just the surface that asl_workflow_engine.amqp_0_9_1_messaging[_asyncio] uses, backed by
an in-process broker object (vsim.broker.Broker) that implements spec/Broker.tla.  Nothing
happens spontaneously: deliveries, returns, timers and connection loss are steps taken by
the scheduler.  The harness sets `pika.BROKER` and `pika.NEXT_CONN_NAME` before the engine
opens a connection.
"""
import urllib.parse
from . import exceptions, spec, channel, compat
from .spec import BasicProperties
from .adapters.blocking_connection import BlockingConnection


class URLParameters:
    def __init__(self, url):
        p = urllib.parse.urlparse(url)
        q = dict(urllib.parse.parse_qsl(p.query))
        self.host = p.hostname
        self.port = p.port or 5672
        self.connection_attempts = int(q.get("connection_attempts", 1))
        self.retry_delay = float(q.get("retry_delay", 2.0))
        self.heartbeat = q.get("heartbeat")


BROKER = None          # set by the harness
NEXT_CONN_NAME = None  # name given to the next connection that is opened
