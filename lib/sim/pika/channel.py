"""Fake pika Channel (callback style, as pika's asynchronous adapters present it).

Every AMQP method is forwarded to the in-process broker, which executes it
synchronously and records it.  Completion callbacks are invoked synchronously.
"""
import pika
from . import spec, exceptions


class _Callbacks:
    def __init__(self):
        self.d = {}

    def add(self, number, key, cb):
        self.d.setdefault((number, key), []).append(cb)

    def remove(self, number, key, cb):
        lst = self.d.get((number, key), [])
        if cb in lst:
            lst.remove(cb)

    def get(self, number, key):
        return list(self.d.get((number, key), []))


class Channel:
    def __init__(self, connection, number):
        self.connection = connection
        self.channel_number = number
        self.callbacks = _Callbacks()
        self.is_open = True
        self.is_closed = False
        self.return_cbs = []
        self.confirm_cb = None
        self.prefetch = 0
        self.gid = None          # broker-wide channel id, assigned by the broker
        self.broker.open_channel(self)

    @property
    def broker(self):
        return pika.BROKER

    # -- life cycle -----------------------------------------------------------------
    def add_on_close_callback(self, cb):
        self.callbacks.add(self.channel_number, "_on_channel_close", cb)

    def add_on_return_callback(self, cb):
        self.return_cbs.append(cb)

    def _close_by_broker(self, code, text):
        self.is_open = False
        self.is_closed = True
        self.broker.channel_closed(self)
        err = exceptions.ChannelClosedByBroker(code, text)
        self._close_error = err
        for cb in self.callbacks.get(self.channel_number, "_on_channel_close"):
            cb(self, err)

    def close(self, reply_code=0, reply_text="Normal shutdown"):
        if self.is_open:
            self.is_open = False
            self.is_closed = True
            self.broker.channel_closed(self)

    # -- configuration ----------------------------------------------------------------
    def basic_qos(self, prefetch_size=0, prefetch_count=0, global_qos=False, callback=None):
        self.prefetch = prefetch_count
        self.broker.qos(self, prefetch_count)
        if callback:
            callback(spec.Frame(None))

    def confirm_delivery(self, ack_nack_callback=None, callback=None):
        self.confirm_cb = ack_nack_callback
        if callback:
            callback(spec.Frame(None))

    # -- declarations -----------------------------------------------------------------
    def exchange_declare(self, exchange, exchange_type="direct", passive=False, durable=False,
                         auto_delete=False, internal=False, arguments=None, callback=None):
        ok, code, text = self.broker.exchange_declare(
            self, exchange, exchange_type, passive, durable, auto_delete, internal, arguments)
        if not ok:
            self._close_by_broker(code, text)
            return
        if callback:
            callback(spec.Frame(None))

    def queue_declare(self, queue, passive=False, durable=False, exclusive=False,
                      auto_delete=False, arguments=None, callback=None):
        ok, res, text = self.broker.queue_declare(
            self, queue, passive, durable, exclusive, auto_delete, arguments)
        if not ok:
            self._close_by_broker(res, text)
            return
        if callback:
            callback(spec.Frame(spec.Queue.DeclareOk(res)))

    def queue_bind(self, queue, exchange, routing_key=None, arguments=None, callback=None):
        ok, code, text = self.broker.queue_bind(self, queue, exchange, routing_key, arguments)
        if not ok:
            self._close_by_broker(code, text)
            return
        if callback:
            callback(spec.Frame(None))

    def basic_consume(self, queue, on_message_callback, auto_ack=False, exclusive=False,
                      consumer_tag=None, arguments=None, callback=None):
        ok, res, text = self.broker.basic_consume(
            self, queue, on_message_callback, auto_ack, exclusive, consumer_tag, arguments)
        if not ok:
            self._close_by_broker(res, text)
            return None
        if callback:
            callback(spec.Frame(None))
        return res

    # -- data ---------------------------------------------------------------------------
    def basic_publish(self, exchange, routing_key, body, properties=None, mandatory=False):
        if not self.is_open:
            raise exceptions.ChannelWrongStateError("Channel is closed.")
        self.broker.basic_publish(self, exchange, routing_key, body,
                                  properties or spec.BasicProperties(), mandatory)

    def basic_ack(self, delivery_tag=0, multiple=False):
        if not self.is_open:
            raise exceptions.ChannelWrongStateError("Channel is closed.")
        self.broker.basic_ack(self, delivery_tag, multiple)

    def basic_nack(self, delivery_tag=0, multiple=False, requeue=True):
        self.broker.basic_nack(self, delivery_tag, multiple, requeue)

    def basic_recover(self, requeue=False, callback=None):
        self.broker.basic_recover(self, requeue)
        if callback:
            callback(spec.Frame(None))
