"""Tagged JSON encoding for the TLC boundary.

TLC's Json module rejects null, truncates floats, wraps integers >= 2^31, garbles non-ASCII
text and cannot tell [] from {}.  Every JSON value that crosses into TLA+ therefore travels
as a tagged record with a type-specific payload field (so that records of different JSON
types have different domains and compare unequal without TLC ever comparing payloads of
different kinds):

  null   {"t":"null"}
  bool   {"t":"bool","b":true}
  number {"t":"num","n":<int>,"d":<int>}        (a reduced fraction, |n|,d < 2^31)
         {"t":"big","r":"<repr>"}                (anything else: compared as text)
  string {"t":"str","s":"..."}                   (printable ASCII)
         {"t":"ustr","c":[code points]}          (anything else)
  array  {"t":"arr","a":[...]}
  object {"t":"obj","k":[keys],"v":[values]}     (keys as strings, in document order)
"""
from fractions import Fraction

LIM = 2 ** 31 - 1


def _ascii(s):
    return all(32 <= ord(c) < 127 for c in s)


def enc_str(s):
    if _ascii(s):
        return {"t": "str", "s": s}
    return {"t": "ustr", "c": [ord(c) for c in s]}


def enc(v):
    if v is None:
        return {"t": "null"}
    if v is True or v is False:
        return {"t": "bool", "b": v}
    if isinstance(v, int):
        if abs(v) <= LIM:
            return {"t": "num", "n": v, "d": 1}
        return {"t": "big", "r": repr(v)}
    if isinstance(v, float):
        if v != v or v in (float("inf"), float("-inf")):
            return {"t": "big", "r": repr(v)}
        f = Fraction(v).limit_denominator(10 ** 6)
        if float(f) == v and abs(f.numerator) <= LIM and f.denominator <= LIM:
            return {"t": "num", "n": f.numerator, "d": f.denominator}
        return {"t": "big", "r": repr(v)}
    if isinstance(v, str):
        return enc_str(v)
    if isinstance(v, (list, tuple)):
        return {"t": "arr", "a": [enc(x) for x in v]}
    if isinstance(v, dict):
        ks = list(v.keys())
        return {"t": "obj", "k": [k if _ascii(str(k)) else "\\u" + "-".join(str(ord(c)) for c in str(k)) for k in map(str, ks)],
                "v": [enc(v[k]) for k in ks]}
    return {"t": "big", "r": "PY:" + type(v).__name__}


def dec(t):
    k = t["t"]
    if k == "null":
        return None
    if k == "bool":
        return t["b"]
    if k == "num":
        return t["n"] if t["d"] == 1 else t["n"] / t["d"]
    if k == "big":
        return t["r"]
    if k == "str":
        return t["s"]
    if k == "ustr":
        return "".join(chr(c) for c in t["c"])
    if k == "arr":
        return [dec(x) for x in t["a"]]
    if k == "obj":
        return {kk: dec(vv) for kk, vv in zip(t["k"], t["v"])}
    raise ValueError(k)


def chars(s):
    """Text that TLA+ inspects character by character: a list of one-character strings."""
    return [c if 32 <= ord(c) < 127 else "u%d" % ord(c) for c in s]
