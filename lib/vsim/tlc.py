"""Running TLC from the checks: trace batches (in parallel, one worker each), judges, models."""
import json
import os
import re
import subprocess
import time
import uuid
from concurrent.futures import ThreadPoolExecutor

HERE = os.path.dirname(os.path.abspath(__file__))
VERIF = os.path.dirname(os.path.dirname(HERE))
SPEC = os.path.join(VERIF, "spec")
RUN = os.environ.get("VERIF_RUN_DIR") or os.path.join(VERIF, "run")      # (a private scratch directory for runs started side by side, e.g. against mutants)
JAR = "/opt/veriftools/tla/tla2tools.jar:/opt/veriftools/tla/CommunityModules-deps.jar"


class TLCError(Exception):
    pass


def run_tlc(module, cfg, env=None, workers=1, timeout=900, extra=(), heap="2g", cwd=SPEC, jopts=()):
    """Run TLC on spec/<module>.tla with spec/<cfg>.  Returns dict(out, states, distinct, wall, rc)."""
    meta = os.path.join("/dev/shm" if os.path.isdir("/dev/shm") else RUN, "lsf-tlc-" + uuid.uuid4().hex[:10])
    os.makedirs(meta, exist_ok=True)
    gc = ["-XX:+UseParallelGC"] if workers > 1 else ["-XX:+UseSerialGC", "-XX:ActiveProcessorCount=2"]
    # (TLC leaves tlc-* scratch directories under java.io.tmpdir: keep them inside the metadir, which is removed below)
    cmd = ["java"] + gc + list(jopts) + ["-Djava.io.tmpdir=" + meta, "-DTLA-Library=" + SPEC, "-Xmx" + heap, "-Xss16m", "-cp", JAR, "tlc2.TLC",
           "-workers", str(workers), "-metadir", meta, "-noGenerateSpecTE", "-config", cfg] + list(extra) + [module]
    e = dict(os.environ)
    e.update(env or {})
    t0 = time.time()
    try:
        p = subprocess.run(cmd, cwd=cwd, env=e, stdout=subprocess.PIPE, stderr=subprocess.STDOUT,
                           timeout=timeout, text=True)
        out, rc = p.stdout, p.returncode
    except subprocess.TimeoutExpired as ex:
        out = (ex.stdout or b"").decode("utf-8", "replace") if isinstance(ex.stdout, bytes) else (ex.stdout or "")
        rc = -9
    finally:
        subprocess.run(["rm", "-rf", meta])
    wall = time.time() - t0
    m = re.search(r"(\d+) states generated, (\d+) distinct states found", out)
    states, distinct = (int(m.group(1)), int(m.group(2))) if m else (0, 0)
    return {"out": out, "states": states, "distinct": distinct, "wall": wall, "rc": rc}


def parse_verdict(out):
    m = re.search(r'^"VERDICT (.*)"$', out, re.M)
    if not m:
        return None
    raw, out, i = m.group(1), [], 0
    while i < len(raw):            # undo TLC's string escaping (\" \\ \n \t ...)
        c = raw[i]
        if c == "\\" and i + 1 < len(raw):
            n = raw[i + 1]
            out.append({"n": "\n", "t": "\t", "r": "\r", "f": "\f"}.get(n, n))
            i += 2
        else:
            out.append(c)
            i += 1
    return json.loads("".join(out))


KNOWN = os.path.join(VERIF, "known_findings.json")


def merged_known():
    """known_findings.json plus known_findings.d/*.json merged into one file for TLC
    (committed files only are read; the merged copy under run/ is scratch)."""
    import glob
    with open(KNOWN) as f:
        doc = json.load(f)
    for p in sorted(glob.glob(os.path.join(VERIF, "known_findings.d", "*.json"))):
        with open(p) as f:
            doc["findings"].extend(json.load(f).get("findings", []))
    out = os.path.join(RUN, "known_merged_%d.json" % os.getpid())
    os.makedirs(RUN, exist_ok=True)
    with open(out, "w") as f:
        json.dump(doc, f)
    return out


def check_traces(batch_files, timeout=1200, parallel=16, known=None):
    known = known or merged_known()
    """Validate trace batches against Trace.tla + Props.tla.  Returns (failures, stats);
    failures: list of dict(batch, tid, n, prop, clause)."""
    def one(path):
        r = run_tlc("Trace.tla", "Trace.cfg", env={"TRACE_FILE": path, "KNOWN_FINDINGS": known}, workers=1, timeout=timeout)
        v = parse_verdict(r["out"])
        if v is None:
            raise TLCError("TLC gave no verdict for %s (rc=%s):\n%s" % (path, r["rc"], r["out"][-3000:]))
        if "Model checking completed. No error has been found." not in r["out"]:
            raise TLCError("TLC reported an error for %s:\n%s" % (path, r["out"][-3000:]))
        return path, v, r
    fails, states, lines, wall = [], 0, 0, 0.0
    with ThreadPoolExecutor(max_workers=parallel) as ex:
        for path, v, r in ex.map(one, batch_files):
            for f in v["failures"]:
                f = dict(f)
                f["batch"] = path
                fails.append(f)
            states += r["distinct"]
            lines += v["lines"]
            wall += r["wall"]
    return fails, {"states": states, "transitions": max(states - len(batch_files), 0), "lines": lines, "tlc_cpu_s": round(wall, 2)}


def sany(module):
    cmd = ["java", "-cp", JAR, "tla2sany.SANY", module]
    p = subprocess.run(cmd, cwd=SPEC, stdout=subprocess.PIPE, stderr=subprocess.STDOUT, text=True, timeout=120)
    ok = p.returncode == 0 and "Semantic errors" not in p.stdout and "Fatal errors" not in p.stdout and "*** Errors" not in p.stdout
    return ok, p.stdout
