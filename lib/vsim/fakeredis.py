"""A simulated Redis server plus fake `redis` and `pottery` modules, for running the REAL
asl_workflow_engine/store.py (RedisStore, RedisDictStore, RedisListStore) in-process.

Nothing here happens spontaneously: invalidation messages of server-assisted client-side
caching are QUEUED per redirect target and handed to the subscriber's handler only when the
harness calls `SERVER.deliver_invalidation(client_id)` -- in the calling thread.  The listener
thread that store.py starts (`pubsub.listen()` in a thread) blocks on an event and never
delivers anything; `stop()`'s "subscribe without handler + publish 'exit'" wakes it up.

Assumptions (this file is part of the trusted base; spec/Store.tla states the same rules):

 A1  Keyspace: keys are text (utf-8), values are hashes (field -> bytes, insertion ordered) or
     lists of bytes.  A hash/list that becomes empty ceases to exist (as in Redis).  Commands
     return bytes for keys/fields/values (decode_responses=False, the redis-py default).
 A2  Connections and the pool: every command of a `Redis` object takes a connection from its
     pool (LIFO: the most recently released one; a new connection with a fresh client id if
     none is free) and releases it afterwards.  `Redis(connection_pool=p)` shares p.  A PubSub
     takes a connection at its first `subscribe` and keeps it.  Hence, exactly as the comment
     in store.py explains, `tracker.client_id()` names the connection that the subsequent
     `pubsub.subscribe` keeps, and the main client continues on another connection.
 A3  RESP2 tracking (CLIENT TRACKING ON REDIRECT id; default mode: no BCAST, no NOLOOP, no
     OPTIN): tracking state belongs to the CONNECTION that issued the command.  After a
     tracking connection executed a read-only command naming a key (whether or not the key
     exists: EXISTS, TTL, H*/L* reads), the server remembers (key, connection).  The next
     modification of that key by ANY connection (the tracking one included) queues ONE
     invalidation message [key] for each remembering connection's redirect target and forgets
     the key for everybody, until it is read again.  "Modification" = a write command that
     changes something: DEL of an existing key, HSET, HDEL of an existing field, RPUSH/LPUSH,
     LSET, LTRIM/LREM/LINSERT that change the list, EXPIRE/PERSIST on an existing key.  DEL of a
     missing key modifies nothing and signals nothing.  SCAN names no key and is not tracked.
     An invalidation reaches the redirect target as a pub/sub message on the channel
     `__redis__:invalidate` with `data` = [b"<key>"]; if the target is not subscribed (or has
     gone) the message is dropped.  CLIENT TRACKING OFF and closing a connection erase what
     the server remembered for it; closing the redirect target drops its queue.
 A4  TTL: EXPIRE records the number of seconds; nothing expires by itself (the harness has
     no need for expiry; `SERVER.expire_now(key)` is there for completeness).  TTL returns the
     recorded number, -1 without TTL, -2 for a missing key.  Deleting a key (also via
     delete-then-recreate) drops its TTL.
 A5  SCAN/HSCAN: a full iteration = calls from cursor 0 until the returned cursor is 0; pages
     of `SERVER.scan_page` (2) slots, MATCH filtered after the page is cut (so pages can be
     empty, as in Redis); no duplicates; key order is sorted order (Redis promises none).
     The pattern language is fnmatch's (`*`, `?`, `[...]`); no backslash escape.
 A6  `Redis.close()` of a client made by `from_url` disconnects every connection of its pool
     (redis-py >= 4: auto_close_connection_pool); connections are re-made lazily.
 A7  pottery: `RedisDict` / `RedisList` are views: no local copy, every access is a command.
     Keys and values of a RedisDict and items of a RedisList are JSON text (`json.dumps`).
     Constructing a view WITH initial content first asks EXISTS (a read: a tracking client's
     whole-key write thereby makes the server remember the key, and the HSET/RPUSH that follows
     invalidates it for the writer too) and raises `KeyExistsError` over an existing key;
     without content it issues no command.  `RedisList.append` asks LLEN, then RPUSHes.  `RedisDict.__getitem__`/`__delitem__` raise
     KeyError for a missing member; `RedisList` index errors are IndexError.  Iterating a
     RedisDict is HSCAN (keys) and HGET per member; a RedisList is LLEN/LINDEX/LRANGE.
 A8  `info("server")["redis_version"]` is "6.2.0" unless `reset_server(version=...)` says
     otherwise.
 A9  PUBLISH reaches every connection subscribed to the channel -- also `__redis__:invalidate`, which
     is an ordinary channel name for PUBLISH: a message published there by one client arrives at the
     tracker connection of EVERY client (redis-py then calls that subscription's handler with `data`
     = the published bytes).  For a subscription without handler the message is what `listen()`
     yields; for one with a handler it is queued like an invalidation and handed over by
     `deliver_invalidation`.  If a handler raises, the exception reaches the harness and the
     subscription is dead from then on (in redis-py the exception ends `listen()` and with it the
     listener thread): later messages stay queued for ever.
"""
import collections
import collections.abc
import fnmatch
import itertools
import json
import sys
import threading
import types

INVALIDATE = "__redis__:invalidate"


def _s(x):
    if isinstance(x, bytes):
        return x.decode("utf-8")
    return str(x)


def _b(x):
    if isinstance(x, bytes):
        return x
    if isinstance(x, (int, float)) and not isinstance(x, bool):
        return repr(x).encode("utf-8")
    return str(x).encode("utf-8")


class ResponseError(Exception):
    pass


class ConnectionError(Exception):       # noqa: A001 (the name redis-py uses)
    pass


class _Conn:
    def __init__(self, cid):
        self.id = cid
        self.tracking = False
        self.redirect = 0
        self.open = True


class Server:
    def __init__(self, version="6.2.0"):
        self.version = version
        self.data = {}                      # key -> ("hash", dict) | ("list", list)
        self.ttls = {}                      # key -> seconds
        self.ids = itertools.count(1)
        self.conns = {}                     # id -> _Conn
        self.remembered = {}                # key -> set(conn id)       (the tracking table)
        self.queues = {}                    # redirect target id -> deque([b"key", ...] | raw)
        self.pubsubs = {}                   # conn id -> PubSub
        self.clients = []                   # Redis objects made by from_url, in order
        self.scan_page = 2
        self.sent = 0                       # invalidations queued so far
        self.dropped = 0
        self.commands = collections.Counter()
        self._listeners = []                # every PubSub ever made on this server (kept alive: store.py
                                            # holds only a weak reference and its stop() needs the object)

    # -- connections ------------------------------------------------------------------------
    def new_conn(self):
        c = _Conn(next(self.ids))
        self.conns[c.id] = c
        return c

    def close_conn(self, c):
        c.open = False
        c.tracking = False
        self.conns.pop(c.id, None)
        self._forget_conn(c.id)
        self.queues.pop(c.id, None)
        ps = self.pubsubs.pop(c.id, None)
        if ps is not None:
            ps._release()

    def _forget_conn(self, cid):
        for k in [k for k, s in self.remembered.items() if cid in s]:
            self.remembered[k].discard(cid)
            if not self.remembered[k]:
                del self.remembered[k]

    # -- tracking ---------------------------------------------------------------------------
    def read(self, conn, key):
        if conn.tracking:
            self.remembered.setdefault(key, set()).add(conn.id)

    def modified(self, key):
        for cid in sorted(self.remembered.pop(key, ())):
            c = self.conns.get(cid)
            if c is None or not c.tracking:
                continue
            target = c.redirect or cid
            ps = self.pubsubs.get(target)
            if target not in self.conns or ps is None or not ps.subscribed(INVALIDATE):
                self.dropped += 1
                continue
            self.queues.setdefault(target, collections.deque()).append([key.encode("utf-8")])
            self.sent += 1

    def tracking(self, conn, on, redirect=0):
        if on:
            if redirect and redirect not in self.conns:
                raise ResponseError("The client ID you want redirect to does not exist")
            if redirect == conn.id:
                raise ResponseError("A client can not redirect to itself")
            conn.tracking = True
            conn.redirect = redirect
        else:
            conn.tracking = False
            conn.redirect = 0
            self._forget_conn(conn.id)
        return True

    # -- harness interface --------------------------------------------------------------------
    def pending_invalidations(self, client_id):
        """Keys (text, with prefix) of the invalidations queued for this redirect target."""
        out = []
        for m in self.queues.get(client_id, ()):
            out.append([_s(k) for k in m] if isinstance(m, list) else _s(m))
        return out

    def deliver_invalidation(self, client_id):
        """Hand the oldest queued message to the handler subscribed on that connection, in the
        calling thread.  Returns True if a handler ran."""
        q = self.queues.get(client_id)
        if not q:
            return False
        data = q.popleft()
        ps = self.pubsubs.get(client_id)
        if ps is not None and ps.dead:
            q.appendleft(data)              # nobody is listening any more
            return False
        h = ps.handlers.get(INVALIDATE) if ps is not None else None
        if h is None:
            self.dropped += 1
            return False
        try:
            h({"type": "message", "pattern": None, "channel": INVALIDATE.encode(), "data": data})
        except Exception:
            ps.dead = True                  # the listener thread would have died with this exception
            raise
        return True

    def redirect_of(self, client):
        """The redirect target of the (first) tracking connection in this client's pool, or 0."""
        for c in client.connection_pool.all:
            if c.open and c.tracking:
                return c.redirect or c.id
        return 0

    def ttl(self, key):
        """Seconds recorded for the key, or None."""
        return self.ttls.get(_s(key))

    def keyspace(self):
        """{key: dict | list} with the JSON members decoded."""
        out = {}
        for k, (t, v) in self.data.items():
            if t == "hash":
                out[k] = {json.loads(f): json.loads(x.decode("utf-8")) for f, x in v.items()}
            else:
                out[k] = [json.loads(x.decode("utf-8")) for x in v]
        return out

    def expire_now(self, key):
        key = _s(key)
        if key in self.data:
            self._delete(key)

    def release_listeners(self):
        for ps in list(self._listeners):
            ps._release()

    # -- keyspace -----------------------------------------------------------------------------
    def _delete(self, key):
        if key in self.data:
            del self.data[key]
            self.ttls.pop(key, None)
            self.modified(key)
            return 1
        return 0

    def _get(self, key, typ, create=False):
        e = self.data.get(key)
        if e is None:
            if not create:
                return None
            e = (typ, {} if typ == "hash" else [])
            self.data[key] = e
        if e[0] != typ:
            raise ResponseError("WRONGTYPE Operation against a key holding the wrong kind of value")
        return e[1]

    def _gc(self, key):
        e = self.data.get(key)
        if e is not None and not e[1]:
            del self.data[key]
            self.ttls.pop(key, None)


SERVER = Server()


class ConnectionPool:
    def __init__(self, server):
        self.server = server
        self.available = []
        self.all = []

    def get(self):
        while self.available:
            c = self.available.pop()
            if c.open:
                return c
        c = self.server.new_conn()
        self.all.append(c)
        return c

    def release(self, c):
        if c.open:
            self.available.append(c)

    def disconnect(self, inuse_connections=True):
        for c in self.all:
            if c.open:
                self.server.close_conn(c)
        self.available = []
        self.all = []


class PubSub:
    def __init__(self, client, ignore_subscribe_messages=False):
        self.client = client
        self.conn = None
        self.handlers = {}
        self.inbox = collections.deque()
        self.event = threading.Event()
        self.closed = False
        self.dead = False
        client.server._listeners.append(self)

    def subscribed(self, name):
        return name in self.handlers

    def subscribe(self, *names, **handlers):
        if self.conn is None or not self.conn.open:
            self.conn = self.client.connection_pool.get()      # kept
            self.client.server.pubsubs[self.conn.id] = self
        for n in names:
            self.handlers[_s(n)] = None
        for n, h in handlers.items():
            self.handlers[_s(n)] = h

    def unsubscribe(self, *names):
        for n in (names or list(self.handlers)):
            self.handlers.pop(_s(n), None)

    def listen(self):
        """Blocks until a message arrives on a channel WITHOUT handler (or the pubsub is
        closed).  Messages for channels with a handler are never delivered from here."""
        while not self.closed:
            self.event.wait()
            self.event.clear()
            while self.inbox:
                yield self.inbox.popleft()

    def get_message(self, ignore_subscribe_messages=False, timeout=0):
        return self.inbox.popleft() if self.inbox else None

    def _release(self):
        self.closed = True
        self.event.set()

    def close(self):
        self._release()
        self.handlers = {}

    reset = close


class Redis:
    def __init__(self, host="localhost", port=6379, db=0, connection_pool=None, **kw):
        self.server = SERVER
        self.connection_pool = connection_pool if connection_pool is not None else ConnectionPool(SERVER)
        self.owns_pool = connection_pool is None

    @classmethod
    def from_url(cls, url, **kw):
        r = cls()
        SERVER.clients.append(r)
        return r

    def _run(self, name, fn):
        s = self.server          # a client of a server that has been reset keeps talking to the old one
        c = self.connection_pool.get()
        s.commands[name] += 1
        try:
            return fn(s, c)
        finally:
            self.connection_pool.release(c)

    # -- connection / server ------------------------------------------------------------------
    def ping(self):
        return self._run("PING", lambda s, c: True)

    def info(self, section=None):
        return self._run("INFO", lambda s, c: {"redis_version": s.version, "redis_mode": "standalone"})

    def client_id(self):
        return self._run("CLIENT ID", lambda s, c: c.id)

    def execute_command(self, *args):
        a = [_s(x).upper() if isinstance(x, (str, bytes)) else x for x in args]
        if a[:2] == ["CLIENT", "TRACKING"]:
            if a[2] == "OFF":
                return self._run("CLIENT TRACKING", lambda s, c: s.tracking(c, False))
            red = 0
            if "REDIRECT" in a:
                red = int(args[a.index("REDIRECT") + 1])
            for opt in a[3:]:
                if opt in ("BCAST", "OPTIN", "OPTOUT", "NOLOOP", "PREFIX"):
                    raise NotImplementedError("fake redis: tracking option %s" % opt)
            return self._run("CLIENT TRACKING", lambda s, c: s.tracking(c, True, red))
        if a[:2] == ["CLIENT", "ID"]:
            return self.client_id()
        if a[0] == "PING":
            return self.ping()
        raise NotImplementedError("fake redis: execute_command%r" % (args,))

    def close(self):
        if self.owns_pool:
            self.connection_pool.disconnect()

    def pubsub(self, **kw):
        return PubSub(self, **kw)

    def publish(self, channel, message):
        def f(s, c):
            n = 0
            for cid, ps in list(s.pubsubs.items()):
                ch = _s(channel)
                if not ps.subscribed(ch):
                    continue
                n += 1
                if ps.handlers[ch] is None:
                    ps.inbox.append({"type": "message", "pattern": None, "channel": ch.encode(), "data": _b(message)})
                    ps.event.set()
                else:       # would be handled in the listener thread: queued for the harness
                    s.queues.setdefault(cid, collections.deque()).append(_b(message))
            return n
        return self._run("PUBLISH", f)

    # -- generic keys ---------------------------------------------------------------------------
    def delete(self, *keys):
        return self._run("DEL", lambda s, c: sum(s._delete(_s(k)) for k in keys))

    def exists(self, *keys):
        def f(s, c):
            n = 0
            for k in keys:
                s.read(c, _s(k))
                n += 1 if _s(k) in s.data else 0
            return n
        return self._run("EXISTS", f)

    def expire(self, key, seconds):
        def f(s, c):
            k = _s(key)
            if k not in s.data:
                return False
            if hasattr(seconds, "total_seconds"):
                sec = int(seconds.total_seconds())
            else:
                sec = int(seconds)
            s.ttls[k] = sec
            s.modified(k)
            return True
        return self._run("EXPIRE", f)

    def persist(self, key):
        def f(s, c):
            if s.ttls.pop(_s(key), None) is None:
                return False
            s.modified(_s(key))
            return True
        return self._run("PERSIST", f)

    def ttl(self, key):
        def f(s, c):
            k = _s(key)
            s.read(c, k)
            if k not in s.data:
                return -2
            return s.ttls.get(k, -1)
        return self._run("TTL", f)

    def type(self, key):
        def f(s, c):
            s.read(c, _s(key))
            e = s.data.get(_s(key))
            return (e[0] if e else "none").encode()
        return self._run("TYPE", f)

    def scan(self, cursor=0, match=None, count=None, _type=None):
        def f(s, c):
            keys = sorted(s.data)
            cur = int(cursor)
            page = keys[cur:cur + s.scan_page]
            nxt = cur + s.scan_page
            if nxt >= len(keys):
                nxt = 0
            pat = _s(match) if match is not None else None
            return nxt, [k.encode("utf-8") for k in page if pat is None or fnmatch.fnmatchcase(k, pat)]
        return self._run("SCAN", f)

    def scan_iter(self, match=None, count=None):
        cur = "0"
        while cur != 0:
            cur, page = self.scan(cursor=cur, match=match)
            yield from page

    def keys(self, pattern="*"):
        return self._run("KEYS", lambda s, c: [k.encode("utf-8") for k in sorted(s.data) if fnmatch.fnmatchcase(k, _s(pattern))])

    def flushall(self):
        raise NotImplementedError("fake redis: FLUSHALL (invalidation with null data) is not modelled")

    # -- hashes ---------------------------------------------------------------------------------
    def hset(self, name, key=None, value=None, mapping=None):
        def f(s, c):
            items = []
            if key is not None:
                items.append((key, value))
            if mapping:
                items.extend(mapping.items())
            if not items:
                raise ResponseError("wrong number of arguments for 'hset' command")
            h = s._get(_s(name), "hash", create=True)
            added = 0
            for fk, fv in items:
                added += 0 if _s(fk) in h else 1
                h[_s(fk)] = _b(fv)
            s.modified(_s(name))
            return added
        return self._run("HSET", f)

    def _hread(self, cmd, name, fn):
        def f(s, c):
            s.read(c, _s(name))
            return fn(s._get(_s(name), "hash") or {})
        return self._run(cmd, f)

    def hget(self, name, key):
        return self._hread("HGET", name, lambda h: h.get(_s(key)))

    def hexists(self, name, key):
        return self._hread("HEXISTS", name, lambda h: _s(key) in h)

    def hlen(self, name):
        return self._hread("HLEN", name, len)

    def hkeys(self, name):
        return self._hread("HKEYS", name, lambda h: [k.encode("utf-8") for k in h])

    def hvals(self, name):
        return self._hread("HVALS", name, lambda h: list(h.values()))

    def hgetall(self, name):
        return self._hread("HGETALL", name, lambda h: {k.encode("utf-8"): v for k, v in h.items()})

    def hscan(self, name, cursor=0, match=None, count=None):
        def fn(h):
            ks = list(h)
            cur = int(cursor)
            page = ks[cur:cur + self.server.scan_page]
            nxt = cur + self.server.scan_page
            if nxt >= len(ks):
                nxt = 0
            pat = _s(match) if match is not None else None
            return nxt, {k.encode("utf-8"): h[k] for k in page if pat is None or fnmatch.fnmatchcase(k, pat)}
        return self._hread("HSCAN", name, fn)

    def hscan_iter(self, name, match=None, count=None):
        cur = "0"
        while cur != 0:
            cur, page = self.hscan(name, cursor=cur, match=match)
            yield from page.items()

    def hdel(self, name, *keys):
        def f(s, c):
            h = s._get(_s(name), "hash")
            if not h:
                return 0
            n = 0
            for k in keys:
                if _s(k) in h:
                    del h[_s(k)]
                    n += 1
            if n:
                s._gc(_s(name))
                s.modified(_s(name))
            return n
        return self._run("HDEL", f)

    # -- lists ----------------------------------------------------------------------------------
    def _lread(self, cmd, name, fn):
        def f(s, c):
            s.read(c, _s(name))
            return fn(s._get(_s(name), "list") or [])
        return self._run(cmd, f)

    def rpush(self, name, *values):
        def f(s, c):
            if not values:
                raise ResponseError("wrong number of arguments for 'rpush' command")
            lst = s._get(_s(name), "list", create=True)
            lst.extend(_b(v) for v in values)
            s.modified(_s(name))
            return len(lst)
        return self._run("RPUSH", f)

    def lpush(self, name, *values):
        def f(s, c):
            if not values:
                raise ResponseError("wrong number of arguments for 'lpush' command")
            lst = s._get(_s(name), "list", create=True)
            for v in values:
                lst.insert(0, _b(v))
            s.modified(_s(name))
            return len(lst)
        return self._run("LPUSH", f)

    def llen(self, name):
        return self._lread("LLEN", name, len)

    def lindex(self, name, index):
        def fn(lst):
            i = int(index)
            return lst[i] if -len(lst) <= i < len(lst) else None
        return self._lread("LINDEX", name, fn)

    def lrange(self, name, start, end):
        def fn(lst):
            n = len(lst)
            a, b = int(start), int(end)
            if a < 0:
                a = max(n + a, 0)
            if b < 0:
                b = n + b
            return list(lst[a:b + 1]) if a <= b else []
        return self._lread("LRANGE", name, fn)

    def lset(self, name, index, value):
        def f(s, c):
            lst = s._get(_s(name), "list")
            if lst is None:
                raise ResponseError("no such key")
            i = int(index)
            if not -len(lst) <= i < len(lst):
                raise ResponseError("index out of range")
            lst[i] = _b(value)
            s.modified(_s(name))
            return True
        return self._run("LSET", f)

    def ltrim(self, name, start, end):
        def f(s, c):
            lst = s._get(_s(name), "list")
            if lst is None:
                return True
            n = len(lst)
            a, b = int(start), int(end)
            if a < 0:
                a = max(n + a, 0)
            if b < 0:
                b = n + b
            new = lst[a:b + 1] if a <= b else []
            if new != lst:
                lst[:] = new
                s._gc(_s(name))
                s.modified(_s(name))
            return True
        return self._run("LTRIM", f)

    def lrem(self, name, count, value):
        def f(s, c):
            lst = s._get(_s(name), "list")
            if not lst:
                return 0
            v, n, cnt = _b(value), 0, int(count)
            idx = range(len(lst)) if cnt >= 0 else range(len(lst) - 1, -1, -1)
            hit = []
            for i in idx:
                if lst[i] == v and (cnt == 0 or n < abs(cnt)):
                    hit.append(i)
                    n += 1
            for i in sorted(hit, reverse=True):
                del lst[i]
            if n:
                s._gc(_s(name))
                s.modified(_s(name))
            return n
        return self._run("LREM", f)

    def linsert(self, name, where, refvalue, value):
        def f(s, c):
            lst = s._get(_s(name), "list")
            if not lst:
                return 0
            try:
                i = lst.index(_b(refvalue))
            except ValueError:
                return -1
            lst.insert(i if _s(where).upper() == "BEFORE" else i + 1, _b(value))
            s.modified(_s(name))
            return len(lst)
        return self._run("LINSERT", f)


# ---------------------------------------------------------------------------------------------
# pottery
class KeyExistsError(Exception):
    def __init__(self, redis=None, key=None):
        super().__init__("redis=%r key=%r" % (redis, key))
        self.redis, self.key = redis, key


_ANON = itertools.count(1)


class _Base:
    def __init__(self, *, redis=None, key=None):
        self.redis = redis if redis is not None else Redis()
        self.key = key if key is not None else "pottery:%d" % next(_ANON)

    @staticmethod
    def _encode(v):
        return json.dumps(v, sort_keys=True)

    @staticmethod
    def _decode(b):
        return json.loads(b.decode("utf-8"))

    def _same(self, other):
        return isinstance(other, _Base) and other.redis is self.redis and other.key == self.key


class RedisDict(_Base, collections.abc.MutableMapping):
    def __init__(self, arg=tuple(), *, redis=None, key=None, **kwargs):
        super().__init__(redis=redis, key=key)
        if arg or kwargs:
            if self.redis.exists(self.key):
                raise KeyExistsError(self.redis, self.key)
            d = dict(arg, **kwargs)
            self.redis.hset(self.key, mapping={self._encode(k): self._encode(v) for k, v in d.items()})

    def __getitem__(self, k):
        v = self.redis.hget(self.key, self._encode(k))
        if v is None:
            raise KeyError(k)
        return self._decode(v)

    def __setitem__(self, k, v):
        self.redis.hset(self.key, self._encode(k), self._encode(v))

    def __delitem__(self, k):
        if not self.redis.hdel(self.key, self._encode(k)):
            raise KeyError(k)

    def __iter__(self):
        for f, _ in self.redis.hscan_iter(self.key):
            yield self._decode(f)

    def __len__(self):
        return self.redis.hlen(self.key)

    def __contains__(self, k):
        try:
            return bool(self.redis.hexists(self.key, self._encode(k)))
        except TypeError:
            return False

    def __eq__(self, other):
        if self._same(other):
            return True
        if isinstance(other, collections.abc.Mapping):
            return dict(self.items()) == dict(other.items())
        return False

    def __ne__(self, other):
        return not self.__eq__(other)

    __hash__ = None

    def to_dict(self):
        return {self._decode(k): self._decode(v) for k, v in self.redis.hgetall(self.key).items()}

    def __repr__(self):
        return "RedisDict" + repr(self.to_dict())


class RedisList(_Base, collections.abc.MutableSequence):
    def __init__(self, iterable=tuple(), *, redis=None, key=None):
        super().__init__(redis=redis, key=key)
        if iterable:
            if self.redis.exists(self.key):
                raise KeyExistsError(self.redis, self.key)
            self.redis.rpush(self.key, *[self._encode(v) for v in iterable])

    def __getitem__(self, index):
        if isinstance(index, slice):
            n = len(self)
            idx = range(*index.indices(n))
            if not len(idx):
                return []
            lo, hi = min(idx[0], idx[-1]), max(idx[0], idx[-1])
            got = self.redis.lrange(self.key, lo, hi)
            return [self._decode(got[i - lo]) for i in idx]
        n = len(self)
        i = index + n if index < 0 else index
        v = self.redis.lindex(self.key, i) if 0 <= i < n else None
        if v is None:
            raise IndexError("list index out of range")
        return self._decode(v)

    def __setitem__(self, index, value):
        if isinstance(index, slice):
            cur = self.to_list()
            cur[index] = list(value)
            self.redis.delete(self.key)
            if cur:
                self.redis.rpush(self.key, *[self._encode(v) for v in cur])
            return
        n = len(self)
        i = index + n if index < 0 else index
        if not 0 <= i < n:
            raise IndexError("list assignment index out of range")
        self.redis.lset(self.key, i, self._encode(value))

    def __delitem__(self, index):
        cur = self.to_list()
        del cur[index]
        self.redis.delete(self.key)
        if cur:
            self.redis.rpush(self.key, *[self._encode(v) for v in cur])

    def __len__(self):
        return self.redis.llen(self.key)

    def insert(self, index, value):
        n = len(self)
        if index >= n:
            self.redis.rpush(self.key, self._encode(value))
        elif index <= -n or index == 0:
            self.redis.lpush(self.key, self._encode(value))
        else:
            cur = self.to_list()
            cur.insert(index, value)
            self.redis.delete(self.key)
            self.redis.rpush(self.key, *[self._encode(v) for v in cur])

    def append(self, value):
        self.insert(len(self), value)

    def extend(self, values):
        enc = [self._encode(v) for v in values]
        if enc:
            self.redis.rpush(self.key, *enc)

    def __eq__(self, other):
        if self._same(other):
            return True
        if isinstance(other, collections.abc.Sequence) and not isinstance(other, (str, bytes)):
            return self.to_list() == list(other)
        return False

    def __ne__(self, other):
        return not self.__eq__(other)

    __hash__ = None

    def to_list(self):
        return [self._decode(v) for v in self.redis.lrange(self.key, 0, -1)]

    def __repr__(self):
        return "RedisList" + repr(self.to_list())


# ---------------------------------------------------------------------------------------------
def install():
    """Put the fake `redis` and `pottery` modules into sys.modules (idempotent)."""
    me = sys.modules[__name__]
    if getattr(sys.modules.get("redis"), "__fake__", None) is me:
        return
    r = types.ModuleType("redis")
    r.__fake__ = me
    r.Redis = Redis
    r.StrictRedis = Redis
    r.ConnectionPool = ConnectionPool
    r.ResponseError = ResponseError
    r.ConnectionError = ConnectionError
    r.exceptions = types.ModuleType("redis.exceptions")
    r.exceptions.ResponseError = ResponseError
    r.exceptions.ConnectionError = ConnectionError
    r.from_url = Redis.from_url
    p = types.ModuleType("pottery")
    p.__fake__ = me
    p.RedisDict = RedisDict
    p.RedisList = RedisList
    p.KeyExistsError = KeyExistsError
    sys.modules["redis"] = r
    sys.modules["redis.exceptions"] = r.exceptions
    sys.modules["pottery"] = p
    try:        # wake the (possibly non-daemon) listener threads before the interpreter joins them
        threading._register_atexit(lambda: SERVER.release_listeners())
    except Exception:
        pass


def forget_connection():
    """Drop the connection that store.py caches on the class: the next RedisStore opens its
    own connection -- what a second engine PROCESS has."""
    st = sys.modules.get("asl_workflow_engine.store")
    if st is not None and hasattr(st.RedisStore, "connection"):
        try:
            del st.RedisStore.connection
        except AttributeError:
            pass


def reset_server(version="6.2.0"):
    """A fresh empty server; listener threads of the old one are released; the connection that
    store.py caches on the class is forgotten."""
    global SERVER
    old = SERVER
    SERVER = Server(version)
    old.release_listeners()
    forget_connection()
    return SERVER
