"""Writes recorded runs as ndjson for spec/Trace.tla (one JSON object per line; no null, no
float, no bare JSON value; every record of a kind has the same fields)."""
import json

from vsim import tagged
from vsim.world import T0

TERMINAL = ("SUCCEEDED", "FAILED", "TIMED_OUT", "ABORTED")


def _date(x):
    """An epoch-seconds (or, wrongly, milliseconds) number -> [set, unit, ms, us] relative to T0."""
    if x is None:
        return {"set": False, "unit": "", "ms": 0, "us": 0}
    if isinstance(x, bool) or not isinstance(x, (int, float)):
        return {"set": True, "unit": "bad", "ms": 0, "us": 0}
    unit = "s" if abs(x) < 1e11 else "ms"
    sec = x if unit == "s" else x / 1000.0
    rel = sec - T0
    ms = int(rel * 1000 // 1)
    us = int(round((rel * 1000 - ms) * 1000))
    if us >= 1000:
        ms, us = ms + 1, us - 1000
    if abs(ms) >= tagged.LIM:
        return {"set": True, "unit": "far", "ms": 0, "us": 0}
    return {"set": True, "unit": unit, "ms": ms, "us": us}


def _date_ms(x):
    """A milliseconds value as published in a notification."""
    if x is None:
        return {"set": False, "unit": "", "ms": 0, "isint": False}
    if isinstance(x, bool) or not isinstance(x, (int, float)):
        return {"set": True, "unit": "bad", "ms": 0, "isint": False}
    unit = "ms" if abs(x) >= 1e11 else "s"
    rel = int(x - T0 * 1000) if unit == "ms" else int((x - T0) * 1000)
    if abs(rel) >= tagged.LIM:
        return {"set": True, "unit": "far", "ms": 0, "isint": isinstance(x, int)}
    return {"set": True, "unit": unit, "ms": rel, "isint": isinstance(x, int)}


def _opt(x):
    """optional string slot: [set, s]"""
    if x is None:
        return {"set": False, "s": ""}
    if isinstance(x, str):
        return {"set": True, "s": _s(x)}
    return {"set": True, "s": "NONSTRING:" + _s(json.dumps(x, default=repr))}


def _s(x, lim=4000):
    """ASCII-safe string for TLC (non-ASCII is escaped; long strings are cut with a hash)."""
    if not isinstance(x, str):
        x = str(x)
    x = x.encode("ascii", "backslashreplace").decode("ascii")
    if len(x) > lim:
        import hashlib
        x = x[:64] + "...#" + hashlib.sha1(x.encode()).hexdigest() + "#%d" % len(x)
    return x


def _strip(c):
    for sfx in (".waitForTaskToken", ".invoke"):
        if c.endswith(sfx):
            return c[:-len(sfx)]
    return c


def _record(r):
    return {"status": _s(r.get("status", "")), "start": _date(r.get("startDate")), "stop": _date(r.get("stopDate")),
            "output": _opt(r.get("output")), "error": _opt(r.get("error")), "cause": _opt(r.get("cause")),
            "input": _opt(r.get("input")), "name": _s(r.get("name", "")), "sm": _s(r.get("stateMachineArn", "")),
            "arn": _s(r.get("executionArn", "")), "haserrkey": "error" in r, "hascausekey": "cause" in r}


def _hist(e):
    det = {}
    for k, v in e.items():
        if k.endswith("EventDetails") and isinstance(v, dict):
            det = v
    ts = e.get("timestamp")
    return {"id": e.get("id", -1) if isinstance(e.get("id"), int) else -1,
            "prev": e.get("previousEventId", -1) if isinstance(e.get("previousEventId"), int) else -1,
            "type": _s(e.get("type", "")), "ts": _date(ts),
            "name": _s(det.get("name", "")) if isinstance(det.get("name", ""), str) else "",
            "input": _opt(det.get("input")), "output": _opt(det.get("output")),
            "error": _opt(det.get("error")), "cause": _opt(det.get("cause")),
            "index": det.get("index", -1) if isinstance(det.get("index", -1), int) else -1}


def encode(e, tid, n):
    k = e["k"]
    o = {"tid": tid, "n": n, "k": k, "fr": e["fr"], "t": e["t"]}
    if k == "world":
        o.update(instances=e["instances"], store=e["store"], tz=e["tz"], qtype=e["qtype"], transport=e["transport"],
                 ttl=e["ttl"], retention=e["retention"])
    elif k == "frame":
        o.update(cause=e["cause"], i=e.get("i", ""), trig=[_s(x) for x in e.get("trig", []) if x],
                 q=e.get("q", ""), ch=e.get("ch", 0), tag=e.get("tag", 0), sn=e.get("sn", 0), mid=e.get("mid", ""),
                 corr=_s(e.get("corr", "")), red=bool(e.get("red", False)), timer=e.get("timer", 0),
                 kind=e.get("kind", ""), action=e.get("action", ""), fn=e.get("fn", ""))
    elif k == "pub":
        br = e.get("branch", [])
        top = br[-1] if br else ["", -1, -1, ""]
        o.update(kind=e["kind"], conn=e["conn"], ch=e["ch"], x=e["x"], key=_s(e["key"]), sn=e["sn"], mid=e["mid"],
                 corr=_s(e["corr"]), corrbase=_s(_strip(e["corr"])), replyto=e["replyto"], exp=_s(e["exp"]),
                 mand=e["mand"], routed=e["routed"],
                 exec=_s(e.get("exec", "")), state=_s(e.get("state", "")), stype=_s(e.get("stype", "")), depth=len(br),
                 stack=[[_s(b[0]), b[1] if isinstance(b[1], int) else -1] for b in br], bparent=_s(e.get("bparent", "")),
                 bid=_s(top[0]), bidx=top[1] if isinstance(top[1], int) else -1,
                 blen=top[2] if isinstance(top[2], int) else -1, brange=_s(top[3]),
                 retry=e.get("retry", 0) if isinstance(e.get("retry", 0), int) else 0,
                 shared=bool(e.get("shared", False)), fn=e.get("fn", ""), callback=bool(e.get("callback", False)),
                 smid=_s(e.get("smid", "")), childkind=e.get("childkind", ""),
                 datatext=_s(json.dumps(e.get("data"))) if e.get("kind") == "event" else "")
    elif k == "ack":
        o.update(conn=e["conn"], ch=e["ch"], tag=e["tag"], multiple=e["multiple"], known=e["known"])
    elif k == "note":
        d = e.get("detail", {})
        ev = e.get("event", {})
        o.update(conn=e["conn"], ch=e["ch"], sn=e["sn"], x=e["x"], subject=_s(e["subject"]), exec=_s(e["exec"]),
                 sm=_s(e["sm"]), status=_s(e["status"]), exp=_s(e["exp"]),
                 start=_date_ms(d.get("startDate")), stop=_date_ms(d.get("stopDate")),
                 output=_opt(d.get("output")), error=_opt(d.get("error")), cause=_opt(d.get("cause")),
                 input=_opt(d.get("input")), name=_s(d.get("name", "")),
                 evkeys=sorted(_s(x) for x in ev.keys()) if isinstance(ev, dict) else [],
                 source=_s(ev.get("source", "")), dtype=_s(ev.get("detail-type", "")),
                 resources=[_s(x) for x in ev.get("resources", [])] if isinstance(ev.get("resources", []), list) else [],
                 account=_s(ev.get("account", "")), region=_s(ev.get("region", "")), version=_s(ev.get("version", "")))
    elif k == "rec":
        o.update(i=e["i"], exec=_s(e["exec"]), rec=_record(e["record"]), transient=bool(e.get("transient", False)))
    elif k == "hist":
        o.update(i=e["i"], exec=_s(e["exec"]), pos=e["pos"], ev=_hist(e["event"]))
    elif k == "histcut":
        o.update(i=e["i"], exec=_s(e["exec"]), old=e["old"], new=e["new"])
    elif k in ("tset", "tclr"):
        o.update(conn=e["conn"], timer=e["timer"], kind=e["kind"], due=e.get("due", 0), delay=e.get("delay", 0))
    elif k == "end":
        o.update(sizes=[{"i": s["i"], "unacked": s["unacked"], "bm": s["bm"], "pending": s["pending"],
                         "cancellers": s["cancellers"], "orphaned": s["orphaned"], "timers": s["timers"]}
                        for s in e.get("sizes", [])])
    elif k == "quiesce":
        o.update(level=e["level"], nunacked=len(e["broker_unacked"]), queued=[[q, c] for q, c in e["queued"]],
                 sizes=[{"i": s["i"], "unacked": s["unacked"], "bm": s["bm"], "pending": s["pending"],
                         "cancellers": s["cancellers"], "orphaned": s["orphaned"], "timers": s["timers"]}
                        for s in e.get("sizes", [])])
    elif k in ("qdeclare",):
        o.update(conn=e["conn"], ch=e["ch"], q=e["q"], durable=e["durable"], exclusive=e["exclusive"],
                 autodelete=e["autodelete"], qtype=e["qtype"])
    elif k == "xdeclare":
        o.update(conn=e["conn"], ch=e["ch"], x=e["x"], xtype=e["xtype"], durable=e["durable"], autodelete=e["autodelete"])
    elif k == "bind":
        o.update(conn=e["conn"], ch=e["ch"], q=e["q"], x=e["x"], key=_s(e["key"]))
    elif k == "consume":
        o.update(conn=e["conn"], ch=e["ch"], q=e["q"], exclusive=e["exclusive"], prio=e["prio"])
    elif k in ("connopen",):
        o.update(conn=e["conn"], transport=e["transport"])
    elif k in ("chopen", "chclose"):
        o.update(conn=e["conn"], ch=e["ch"])
    elif k == "connlost":
        o.update(conn=e["conn"], clean=e["clean"])
    elif k == "requeue":
        o.update(q=e["q"], sn=e["sn"], ch=e["ch"], tag=e["tag"])
    elif k in ("expire",):
        o.update(q=e["q"], sn=e["sn"])
    elif k == "qdelete":
        o.update(q=e["q"])
    elif k == "ret":
        o.update(conn=e["conn"], ch=e["ch"], sn=e["sn"], key=_s(e["key"]), corr=_s(e["corr"]))
    elif k == "wtake":
        o.update(fn=e["fn"], sn=e["sn"], corr=_s(e["corr"]), inv=e["n"], outcome=_s(e["outcome"]))
    elif k == "sm":
        o.update(arn=_s(e["arn"]), smtype=e["smtype"], mc=[{"state": _s(a), "n": b} for a, b in e.get("mc", [])],
                 succ=[{"state": _s(a), "to": [_s(x) for x in b]} for a, b in e.get("succ", [])])
    elif k == "escaped":
        o.update(err=_s(e["err"]))
    elif k == "histapi":
        o.update(exec=_s(e["exec"]), status=e["status"], fwd=e["fwd"], rev=e["rev"], fwdtypes=[_s(x) for x in e["fwdtypes"]], revtypes=[_s(x) for x in e["revtypes"]])
    elif k == "expect":
        o.update(exec=_s(e["exec"]), status=_s(e["status"]), output=_opt(e.get("output")), error=_opt(e.get("error")), strict=bool(e["strict"]))
    elif k == "api":
        b = e.get("body")
        o.update(action=e["action"], status=e["status"], i=e.get("i", ""), front=e.get("front", ""),
                 etype=_s(b.get("__type", "")) if isinstance(b, dict) else "")
    elif k == "storeerr":
        o.update(i=e["i"], err=_s(e["err"]))
    elif k in ("qos", "nack", "recover"):
        o["k"] = "misc"
        o.update(what=k)
    else:
        o["k"] = "misc"
        o.update(what=k)
    return o


class BatchWriter:
    """Concatenates runs into one ndjson batch; `tid` numbers the runs from 1."""

    def __init__(self, path):
        self.path = path
        self.f = open(path, "w")
        self.tid = 0
        self.lines = 0
        self.index = []     # per tid: (first line, last line, label)

    def add_run(self, events, label=""):
        self.tid += 1
        first = self.lines + 1
        n = 0
        for e in events:
            n += 1
            self.f.write(json.dumps(encode(e, self.tid, n), separators=(",", ":")))
            self.f.write("\n")
            self.lines += 1
        self.index.append((first, self.lines, label))
        return self.tid

    def close(self):
        self.f.close()
