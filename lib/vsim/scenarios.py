"""Scenario corpus shared by the trace-based checks: small state machines built from
combinators, plus every ASL definition embedded in the repository's test/demo scripts."""
import glob
import json
import os
import re

from vsim.world import PY, sm_arn

FN = "arn:aws:rpcmessage:local::function:"


def T(fn, **k):
    return dict({"Type": "Task", "Resource": FN + fn}, **k)


def P(**k):
    return dict({"Type": "Pass"}, **k)


def Wt(sec, **k):
    return dict({"Type": "Wait", "Seconds": sec}, **k)


def Fl(err="E", cause="c"):
    return {"Type": "Fail", "Error": err, "Cause": cause}


def Sc():
    return {"Type": "Succeed"}


def Ch(rules, default=None, **k):
    d = dict({"Type": "Choice", "Choices": rules}, **k)
    if default:
        d["Default"] = default
    return d


def SM(start, **states):
    return {"StartAt": start, "States": states}


def Par(branches, **k):
    return dict({"Type": "Parallel", "Branches": branches}, **k)


def Mp(proc, **k):
    return dict({"Type": "Map", "ItemProcessor": proc}, **k)


def chain(*states):
    """states: list of (name, state-without-Next/End); links them in order."""
    out = {}
    for i, (n, s) in enumerate(states):
        s = dict(s)
        if s["Type"] not in ("Fail", "Succeed", "Choice"):
            if i + 1 < len(states) and "Next" not in s and "End" not in s:
                s["Next"] = states[i + 1][0]
            elif "Next" not in s and "End" not in s:
                s["End"] = True
        out[n] = s
    return {"StartAt": states[0][0], "States": out}


def functions_of(asl):
    fns = set()

    def walk(states):
        for s in states.values():
            if not isinstance(s, dict):
                continue
            r = s.get("Resource")
            if isinstance(r, str) and r.startswith(FN):
                fns.add(r[len(FN):])
            p = s.get("Parameters")
            if isinstance(p, dict) and isinstance(p.get("FunctionName"), str) and p["FunctionName"].startswith(FN):
                fns.add(p["FunctionName"][len(FN):])
            for b in s.get("Branches", []) or []:
                if isinstance(b, dict) and isinstance(b.get("States"), dict):
                    walk(b["States"])
            for key in ("Iterator", "ItemProcessor"):
                if isinstance(s.get(key), dict) and isinstance(s[key].get("States"), dict):
                    walk(s[key]["States"])
    if isinstance(asl, dict) and isinstance(asl.get("States"), dict):
        walk(asl["States"])
    return sorted(fns)


def scn(sid, asl, inputs=({},), oracle=None, typ="STANDARD", extra_machines=(), n_exec=1, workers=None, **world):
    """A scenario: one main machine `sm`, started n_exec times with each of `inputs` in turn."""
    machines = [{"name": "sm", "type": typ, "asl": asl}] + list(extra_machines)
    starts = []
    k = 0
    for i in range(n_exec):
        for inp in inputs:
            k += 1
            starts.append({"machine": "sm", "name": "e%d" % k, "input": inp, "via": "raw"})
    fns = set(workers or [])
    for m in machines:
        fns.update(functions_of(m["asl"]))
    return {"id": sid, "machines": machines, "starts": starts, "workers": sorted(fns),
            "oracle": oracle or {}, "world": world}


def make_oracle(spec):
    """spec: {fn: [outcome, ...]} -- the i-th invocation of fn gets the i-th outcome (the last one
    repeats).  An outcome is {"ok": value} | {"error": name, "cause": text} | {"silent": true},
    optionally with "delay" (ms).  Functions not listed echo their input."""
    def oracle(fn, payload, n):
        outs = spec.get(fn)
        if not outs:
            return {"ok": {"fn": fn, "in": payload}}
        o = outs[min(n, len(outs)) - 1]
        if "echo" in o:
            return {"ok": {"fn": fn, "in": payload}, "delay": o.get("delay", 0)}
        return o
    return oracle


class NotPlain(Exception):
    pass


def expected_output(asl, value, oracle=None):
    """What the States Language prescribes for a PLAIN machine (Pass with/without Result, Task on an echoing function,
    Wait, Succeed, Parallel, Map over the input list; no paths, templates, Retry/Catch, scripted outcomes): positional
    join of the branch / item outputs, whatever the schedule.  Raises NotPlain otherwise."""
    oracle = oracle or {}
    names = []

    def collect(m):
        for n, st in m["States"].items():
            names.append(n)
            for b in st.get("Branches", []):
                collect(b)
            for k in ("ItemProcessor", "Iterator"):
                if isinstance(st.get(k), dict):
                    collect(st[k])
    collect(asl)
    if len(names) != len(set(names)):
        raise NotPlain("a state name used twice")

    def run(m, v):
        if set(m) - {"StartAt", "States", "Comment"}:
            raise NotPlain("machine-level " + ",".join(sorted(set(m) - {"StartAt", "States", "Comment"})))
        name = m["StartAt"]
        for _ in range(200):
            st = m["States"][name]
            t = st["Type"]
            if set(st) - {"Type", "Next", "End", "Result", "Resource", "Seconds", "Branches", "ItemProcessor", "Iterator", "MaxConcurrency", "Comment"}:
                raise NotPlain(name)
            if t == "Pass":
                v = st["Result"] if "Result" in st else v
            elif t == "Task":
                fn = st["Resource"][len(FN):] if st["Resource"].startswith(FN) else None
                if fn is None or oracle.get(fn):
                    raise NotPlain(name)
                v = {"fn": fn, "in": v}
            elif t == "Parallel":
                v = [run(b, v) for b in st["Branches"]]
            elif t == "Map":
                if not isinstance(v, list):
                    raise NotPlain(name)
                proc = st.get("ItemProcessor") or st.get("Iterator")
                v = [run(proc, x) for x in v]
            elif t in ("Wait", "Succeed"):
                pass
            else:
                raise NotPlain(name)
            if len(json.dumps(v)) > 200000:
                raise NotPlain("near the data quota")
            if st.get("End") or t == "Succeed":
                return v
            name = st["Next"]
        raise NotPlain("loop")
    return run(asl, value)


# ---- the protocol corpus (C02, C03, C05, C06, C09, C11, C04) -------------------------------
def protocol_scenarios():
    S = []
    S.append(scn("pass-chain", chain(("A", P()), ("B", P(Result=1, ResultPath="$.b")), ("C", P())), inputs=({"x": 1},)))
    S.append(scn("task-chain", chain(("A", T("f")), ("B", P()))))
    S.append(scn("task-task", chain(("A", T("f")), ("B", T("g", ResultPath="$.g")))))
    S.append(scn("wait-chain", chain(("A", Wt(5)), ("B", P()))))
    S.append(scn("choice", SM("C", C=Ch([{"Variable": "$.x", "NumericEquals": 1, "Next": "F"}], "S"), F=Fl(), S=Sc()),
                 inputs=({"x": 1}, {"x": 2})))
    S.append(scn("task-fails", chain(("A", T("f")), ("B", P())), oracle={"f": [{"error": "Boom", "cause": "b"}]}))
    S.append(scn("task-catch", SM("A", A=T("f", Catch=[{"ErrorEquals": ["States.ALL"], "Next": "R", "ResultPath": "$.err"}], Next="B"),
                                 B=P(End=True), R=P(End=True, Result="recovered")),
                 oracle={"f": [{"error": "Boom", "cause": "b"}]}))
    S.append(scn("task-retry", SM("A", A=T("f", Retry=[{"ErrorEquals": ["Boom"], "IntervalSeconds": 1, "MaxAttempts": 2, "BackoffRate": 2.0}], End=True)),
                 oracle={"f": [{"error": "Boom"}, {"error": "Boom"}, {"ok": 7}]}))
    S.append(scn("task-timeout", SM("A", A=T("f", TimeoutSeconds=3, End=True)), oracle={"f": [{"silent": True}]}))
    S.append(scn("two-execs", chain(("A", T("f")), ("B", P())), n_exec=2))
    S.append(scn("par-pass", SM("P", P=Par([SM("A", A=P(End=True, Result=1)), SM("B", B=P(End=True, Result=2))], Next="Z"), Z=P(End=True))))
    S.append(scn("par-task-end", SM("P", P=Par([SM("A", A=T("f", End=True)), SM("B", B=T("g", End=True))], End=True))))
    S.append(scn("par-task-next", SM("P", P=Par([SM("A", A=T("f", End=True)), SM("B", B=T("g", End=True))], Next="Z"), Z=P(End=True))))
    S.append(scn("par-wait-task", SM("P", P=Par([SM("A", A=Wt(2, End=True)), SM("B", B=T("g", End=True))], End=True))))
    S.append(scn("map-pass", SM("M", M=Mp(SM("A", A=P(End=True)), Next="Z"), Z=P(End=True)), inputs=([1, 2, 3],)))
    S.append(scn("map-task", SM("M", M=Mp(SM("A", A=T("f", End=True)), End=True)), inputs=([1, 2],)))
    S.append(scn("map-task-mc1", SM("M", M=Mp(SM("A", A=T("f", End=True)), MaxConcurrency=1, End=True)), inputs=([1, 2, 3],)))
    S.append(scn("map-empty", SM("M", M=Mp(SM("A", A=T("f", End=True)), End=True)), inputs=([],), workers=["f"]))
    S.append(scn("nested", SM("P", P=Par([SM("M", M=Mp(SM("A", A=T("f", End=True)), End=True)), SM("B", B=P(End=True))], End=True)),
                 inputs=([1, 2],)))
    # an empty Map as the last state of a branch / of an iteration (its own event is the only one there is to hold)
    S.append(scn("nested-empty-map", SM("P", P=Par([SM("M", M=Mp(SM("A", A=T("f", End=True)), End=True)), SM("B", B=T("g", End=True))], End=True)),
                 inputs=([],)))
    S.append(scn("map-of-empty-maps", SM("M", M=Mp(SM("N", N=Mp(SM("A", A=P(End=True)), End=True)), End=True)), inputs=([[], [1], []],)))
    S.append(scn("par-2step", SM("P", P=Par([chain(("A1", P()), ("A2", T("f"))), chain(("B1", T("g")), ("B2", P()))], Next="Z"), Z=P(End=True))))
    # data-dependent transitions (Choice): modelled in Engine.tla (RuleHolds / ChoiceNext); every route of each machine is taken
    xeq = lambda v, nxt: {"Variable": "$.x", "NumericEquals": v, "Next": nxt}
    S.append(scn("choice-routes", SM("C", C=Ch([xeq(1, "A"), {"Variable": "$.x", "NumericGreaterThan": 5, "Next": "B"}], "D"),
                                     A=T("f", End=True), B=P(Result="b", End=True), D=Sc()), inputs=({"x": 1}, {"x": 7}, {"x": 3}, {})))
    S.append(scn("choice-logic", SM("C", C=Ch([{"And": [{"Variable": "$.x", "IsPresent": True}, {"Not": {"Variable": "$.x", "NumericLessThan": 2}}], "Next": "A"},
                                               {"Or": [{"Variable": "$.y", "StringEquals": "go"}, {"Variable": "$.x", "NumericEquals": 1}], "Next": "B"}], "D"),
                                    A=T("f", End=True), B=P(End=True), D=Fl("Nope")), inputs=({"x": 2}, {"x": 1}, {"y": "go"}, {"y": "stop"})))
    S.append(scn("choice-after-task", SM("A", A=T("f", Next="C"), C=Ch([{"Variable": "$.in.x", "NumericEquals": 1, "Next": "G"}, {"Variable": "$.fn", "StringEquals": "f", "Next": "Z"}]),
                                         G=T("g", End=True), Z=P(End=True)), inputs=({"x": 1}, {"x": 2})))
    S.append(scn("par-choice", SM("P", P=Par([SM("C", C=Ch([xeq(1, "A")], "A2"), A=T("f", End=True), A2=P(End=True)), SM("B", B=T("g", End=True))], Next="Z"), Z=P(End=True)),
                 inputs=({"x": 1}, {"x": 2})))
    S.append(scn("map-choice", SM("M", M=Mp(SM("C", C=Ch([xeq(1, "A")], "A2"), A=T("f", End=True), A2=P(End=True)), End=True)),
                 inputs=([{"x": 1}, {"x": 2}, {"x": 1}],)))
    S.append(scn("express-chain", chain(("A", T("f")), ("B", P())), typ="EXPRESS"))
    S.append(scn("express-par", SM("P", P=Par([SM("A", A=T("f", End=True)), SM("B", B=P(End=True))], End=True)), typ="EXPRESS"))
    return S


def failure_scenarios():
    """fan-outs with failing branches (C06 family; also used by C02/C03/C09 for the single
    unhandled failure)."""
    S = []
    boom = {"f": [{"error": "Boom", "cause": "b"}]}
    S.append(scn("par-fail-unhandled", SM("P", P=Par([SM("A", A=T("f", End=True)), SM("B", B=T("g", End=True))], End=True)), oracle=boom))
    S.append(scn("par-fail-pass-sib", SM("P", P=Par([SM("A", A=T("f", End=True)), SM("B", B=P(End=True))], End=True)), oracle=boom))
    S.append(scn("par-fail-wait-sib", SM("P", P=Par([SM("A", A=T("f", End=True)), SM("B", B=Wt(5, End=True))], End=True)), oracle=boom))
    S.append(scn("par-failstate", SM("P", P=Par([SM("A", A=Fl("E1")), SM("B", B=T("g", End=True))], End=True))))
    S.append(scn("par-fail-catch", SM("P", P=Par([SM("A", A=T("f", End=True)), SM("B", B=T("g", End=True))],
                                                 Catch=[{"ErrorEquals": ["States.ALL"], "Next": "R"}], End=True), R=P(End=True, Result="r")), oracle=boom))
    S.append(scn("par-fail-retry", SM("P", P=Par([SM("A", A=T("f", End=True)), SM("B", B=T("g", End=True))],
                                                 Retry=[{"ErrorEquals": ["Boom"], "IntervalSeconds": 1, "MaxAttempts": 1}], End=True)),
                 oracle={"f": [{"error": "Boom"}, {"ok": 1}]}))
    S.append(scn("map-fail-one", SM("M", M=Mp(SM("A", A=T("f", End=True)), End=True)), inputs=([1, 2, 3],),
                 oracle={"f": [{"ok": 1}, {"error": "Boom"}, {"ok": 3}]}))
    S.append(scn("map-fail-all", SM("M", M=Mp(SM("A", A=T("f", End=True)), End=True)), inputs=([1, 2],),
                 oracle={"f": [{"error": "Boom"}]}))
    S.append(scn("par-both-fail", SM("P", P=Par([SM("A", A=T("f", End=True)), SM("B", B=T("g", End=True))], End=True)),
                 oracle={"f": [{"error": "E1"}], "g": [{"error": "E2"}]}))
    S.append(scn("nested-fail", SM("P", P=Par([SM("M", M=Mp(SM("A", A=T("f", End=True)), End=True)), SM("B", B=T("g", End=True))], End=True)),
                 inputs=([1, 2],), oracle={"f": [{"ok": 1}, {"error": "Boom"}]}))
    S.append(scn("par-inner-catch", SM("P", P=Par([SM("A", A=T("f", Catch=[{"ErrorEquals": ["States.ALL"], "Next": "A2"}], End=True), A2=P(End=True, Result="a2")),
                                                    SM("B", B=T("g", End=True))], End=True)), oracle=boom))
    # the sibling of the failing branch is itself a fan-out whose inner branches wait on a reply / a timer
    S.append(scn("nested-sib-fail", SM("P", P=Par([SM("A", A=T("f", End=True)),
                                                   SM("Q", Q=Par([SM("X", X=T("g", End=True)), SM("Y", Y=Wt(5, End=True))], End=True))], End=True)), oracle=boom))
    S.append(scn("nested-sib-fail-map", SM("P", P=Par([SM("A", A=T("f", End=True)),
                                                       SM("M", M=Mp(SM("X", X=T("g", End=True)), End=True))], End=True)), inputs=([1, 2],), oracle=boom))
    # an error caught INSIDE a branch (recovery still queued / in flight) while a peer branch fails fatally
    S.append(scn("par-caught-peer-fails", SM("P", P=Par([SM("A", A=T("f", Catch=[{"ErrorEquals": ["States.ALL"], "Next": "A2"}], End=True), A2=T("r", End=True)),
                                                         SM("B", B=T("g", End=True))], End=True)),
                 oracle={"f": [{"error": "Boom"}], "g": [{"error": "Fatal"}]}))
    S.append(scn("par-caught-pass-peer-fails", SM("P", P=Par([SM("A", A=T("f", Catch=[{"ErrorEquals": ["States.ALL"], "Next": "A2"}], End=True), A2=P(End=True, Result="a2")),
                                                              SM("B", B=T("g", End=True))], End=True)),
                 oracle={"f": [{"error": "Boom"}], "g": [{"error": "Fatal"}]}))
    # a nested fan-out event arriving after its enclosing branch was terminated
    S.append(scn("nested-late", SM("P", P=Par([SM("A", A=T("f", End=True)),
                                               chain(("B1", P()), ("B2", Par([SM("C", C=P(End=True)), SM("D", D=P(End=True))])))], End=True)), oracle=boom))
    # a Choice that matches nothing (States.NoChoiceMatched): alone, inside a branch while a sibling Task is outstanding,
    # and under a fan-out with a Catch
    nomatch = Ch([{"Variable": "$.x", "NumericEquals": 1, "Next": "A"}])
    S.append(scn("choice-nomatch", SM("C", C=nomatch, A=P(End=True)), inputs=({"x": 2}, {})))
    S.append(scn("par-choice-nomatch", SM("P", P=Par([SM("C", C=nomatch, A=T("f", End=True)), SM("B", B=T("g", End=True))], End=True)), inputs=({"x": 2},)))
    S.append(scn("par-choice-nomatch-catch", SM("P", P=Par([SM("C", C=nomatch, A=T("f", End=True)), SM("B", B=T("g", End=True))],
                                                           Catch=[{"ErrorEquals": ["States.NoChoiceMatched"], "Next": "R"}], End=True), R=P(End=True, Result="r")), inputs=({"x": 2},)))
    S.append(scn("map-choice-nomatch", SM("M", M=Mp(SM("C", C=nomatch, A=T("f", End=True)), End=True)), inputs=([{"x": 1}, {"x": 2}, {"x": 1}],)))
    # EXPRESS executions that FAIL (Fail state, task error, failing branch, a Choice that matches nothing): no record and no
    # history may appear on the failure path either
    S.append(scn("express-failstate", chain(("A", P()), ("F", Fl("E1"))), typ="EXPRESS"))
    S.append(scn("express-task-fails", chain(("A", T("f")), ("B", P())), oracle=boom, typ="EXPRESS"))
    S.append(scn("express-par-fail", SM("P", P=Par([SM("A", A=T("f", End=True)), SM("B", B=T("g", End=True))], End=True)), oracle=boom, typ="EXPRESS"))
    S.append(scn("express-choice-nomatch", SM("C", C=nomatch, A=P(End=True)), inputs=({"x": 2},), typ="EXPRESS"))
    # a Task-level Retry inside a branch
    S.append(scn("par-branch-retry", SM("P", P=Par([SM("A", A=T("f", Retry=[{"ErrorEquals": ["Boom"], "IntervalSeconds": 1, "MaxAttempts": 1}], End=True)),
                                                    SM("B", B=T("g", End=True))], End=True)),
                 oracle={"f": [{"error": "Boom"}, {"ok": 1}]}))
    S.append(scn("par-timeout", SM("P", P=Par([SM("A", A=T("f", TimeoutSeconds=2, End=True)), SM("B", B=T("g", End=True))], End=True)),
                 oracle={"f": [{"silent": True}]}))
    # an execution that runs into the history quota (scaled down to 40 events for this world): it is failed, and the
    # record, the notification and the LAST history event say so
    S.append(scn("hist-quota-loop", SM("A", A=P(Next="B"), B=P(Next="A")), hist_quota=40))
    # a Map-level Retry that fires: the iterations are re-run from their first state (entered AND exited again)
    S.append(scn("map1-2step-retry", SM("M", M=Mp(chain(("F1", P()), ("W1", T("f"))), Retry=[{"ErrorEquals": ["States.ALL"], "IntervalSeconds": 1, "MaxAttempts": 2}], End=True)),
                 inputs=([1],), oracle={"f": [{"error": "Boom"}, {"ok": 1}]}))
    S.append(scn("map-2step-retry", SM("M", M=Mp(chain(("F1", P()), ("W1", T("f"))), Retry=[{"ErrorEquals": ["States.ALL"], "IntervalSeconds": 1, "MaxAttempts": 2}], Next="Z"), Z=P(End=True)),
                 inputs=([1, 2],), oracle={"f": [{"error": "Boom"}, {"ok": 1}, {"ok": 2}, {"ok": 3}]}))
    # a fan-out with a Catch in which BOTH branches fail: the second failure arrives after the first was caught
    S.append(scn("par-catch-both-fail", SM("P", P=Par([SM("A", A=T("f", End=True)), SM("B", B=T("g", End=True))],
                                                       Catch=[{"ErrorEquals": ["States.ALL"], "Next": "R", "ResultPath": "$.err"}], Next="Z"),
                                            Z=P(End=True), R=P(End=True)),
                 oracle={"f": [{"error": "Boom1"}], "g": [{"error": "Boom2"}]}))
    S.append(scn("map-catch-two-fail", SM("M", M=Mp(SM("A", A=T("f", End=True)), Catch=[{"ErrorEquals": ["States.ALL"], "Next": "R", "ResultPath": "$.err"}], ItemsPath="$.items", Next="Z"),
                                           Z=P(End=True), R=P(End=True)), inputs=({"items": [1, 2, 3]},),
                 oracle={"f": [{"error": "Boom1"}, {"ok": 2}, {"error": "Boom3"}]}))
    # synchronous child executions cut short by the parent's Task timeout: blocked in a Task after a Wait that was over at
    # once (its cancellation handle must not outlive it), blocked in a Wait
    def parent(child, timeout):
        return SM("K", K={"Type": "Task", "Resource": "arn:aws:states:::states:startExecution.sync", "TimeoutSeconds": timeout,
                          "Parameters": {"StateMachineArn": "arn:aws:states:local:0123456789:stateMachine:" + child, "Input": {"n": 1}, "Name": "kid"},
                          "ResultPath": "$.r", "Next": "P2"}, P2=P(End=True))
    S.append(scn("child-sync-ok", parent("kido", 30), extra_machines=[{"name": "kido", "type": "STANDARD", "asl": chain(("C0", P()), ("C1", T("h")), ("C2", P()))}]))
    S.append(scn("child-elapsed-wait-task-parent-timeout", parent("kidm", 2), oracle={"h": [{"silent": True}]}, workers=["h"],
                 extra_machines=[{"name": "kidm", "type": "STANDARD", "asl": chain(("CW", Wt(0)), ("C1", T("h")), ("C2", P()))}]))
    S.append(scn("child-wait-parent-timeout", parent("kidw", 2),
                 extra_machines=[{"name": "kidw", "type": "STANDARD", "asl": chain(("CW", Wt(10)), ("C2", P()))}]))
    # a deferred empty Map completing after its fan-out has failed (F18 territory: FAILED, then SUCCEEDED)
    S.append(scn("par-emptymap-peer-fails", SM("P", P=Par([SM("M", M=Mp(SM("I", I=P(End=True)), ItemsPath="$.items", End=True)),
                                                             SM("F", F=P(OutputPath="$.nope", End=True))], End=True)), inputs=({"items": []},)))
    # the machine-level TimeoutSeconds expiring inside a Wait, a Task, and a branch of a Parallel
    S.append(scn("exec-timeout-wait", dict(SM("A", A=P(Next="W"), W=Wt(5, Next="Z"), Z=P(End=True)), TimeoutSeconds=2)))
    S.append(scn("exec-timeout-wait-fits", dict(SM("A", A=P(Next="W"), W=Wt(5, Next="Z"), Z=P(End=True)), TimeoutSeconds=8)))
    S.append(scn("exec-timeout-task", dict(SM("A", A=T("f", Catch=[{"ErrorEquals": ["States.ALL"], "Next": "Z"}], Next="Z"), Z=P(End=True)), TimeoutSeconds=2),
                 oracle={"f": [{"silent": True}]}))
    S.append(scn("exec-timeout-par", dict(SM("P", P=Par([SM("A", A=Wt(5, End=True)), SM("B", B=T("g", End=True))], End=True)), TimeoutSeconds=2)))
    return S


# ---- the repository's own definitions ---------------------------------------------------------
def repo_corpus():
    out = {}
    for f in sorted(glob.glob(os.path.join(PY, "test", "*.py"))):
        src = open(f, encoding="utf-8").read()
        for m in re.finditer(r'^(\w*ASL\w*)\s*=\s*"""(.*?)"""', src, re.S | re.M):
            try:
                d = json.loads(m.group(2))
            except Exception:
                continue
            if isinstance(d, dict) and "States" in d:
                out[os.path.basename(f)[:-3] + ":" + m.group(1)] = d
    return out


CHILD_STANDINS = {
    "child_state_machine": ("STANDARD", chain(("C1", P()), ("C2", P(Result={"child": "done"})))),
    "simple_state_machine": ("STANDARD", chain(("S1", P()), ("S2", P()))),
    "simple_express_state_machine": ("EXPRESS", chain(("S1", P()), ("S2", P()))),
    "wait30_state_machine": ("STANDARD", chain(("W", Wt(30)), ("S2", P()))),
    "wait60_state_machine": ("STANDARD", chain(("W", Wt(60)), ("S2", P()))),
    "callback_task_token_child": ("STANDARD", chain(("S1", P()),)),
}

CORPUS_ORACLE = {
    "NonExistentLambda": [{"silent": True}],
    "TimeoutLambda": [{"silent": True}],
    "InternalErrorNotHandledLambda": [{"error": "InternalErrorNotHandled", "cause": "not handled"}],
    "InternalErrorHandledLambda": [{"error": "InternalErrorHandled", "cause": "handled"}],
    "SimpleErroringProcessor": [{"error": "Failure", "cause": "erroring"}],
}


def corpus_scenarios(inputs=({}, {"lambda": "Success"}, [1, 2])):
    S = []
    for key, asl in repo_corpus().items():
        extra = [{"name": n, "type": t, "asl": a} for n, (t, a) in CHILD_STANDINS.items()]
        s = scn("corpus:" + key, asl, inputs=inputs, oracle=CORPUS_ORACLE, extra_machines=extra)
        S.append(s)
    return S
