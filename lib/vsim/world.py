"""The simulated world: the real EventDispatcher / TaskDispatcher / StateEngine / REST API of
fadams/local-step-functions running in-process on the fake `pika`, a virtual clock and
deterministic ids, driven step by step by a scheduler that owns every source of
nondeterminism, with a recorder that writes the trace checked by spec/Trace.tla.

Source root: $LSF_REPO (default /repo).  No instrumentation of the repository is needed:
everything is observed at the fake broker, the stores, the clock and the API.
"""
import asyncio
import collections
import itertools
import json
import os
import sys
import time as _time
import datetime as _dt

HERE = os.path.dirname(os.path.abspath(__file__))
LIB = os.path.dirname(HERE)
VERIF = os.path.dirname(LIB)
REPO = os.environ.get("LSF_REPO", "/repo")
PY = os.path.join(REPO, "asl-workflow-engine", "py")
RUN = os.environ.get("VERIF_RUN_DIR") or os.path.join(VERIF, "run")      # (a private scratch directory for runs started side by side, e.g. against mutants)
os.makedirs(RUN, exist_ok=True)

os.environ.setdefault("LOG_LEVEL", "CRITICAL")
for p in (os.path.join(LIB, "sim"), PY, LIB):
    if p not in sys.path:
        sys.path.insert(0, p)

import pika                                     # the fake one (lib/sim)
from vsim.broker import Broker, SimCrash        # noqa: E402
from vsim import tagged                         # noqa: E402

import asl_workflow_engine.state_engine as se_mod            # noqa: E402
import asl_workflow_engine.task_dispatcher as td_mod         # noqa: E402
import asl_workflow_engine.event_dispatcher as ed_mod        # noqa: E402
import asl_workflow_engine.state_engine_paths as sp_mod      # noqa: E402

T0 = 1_600_000_000.0        # scenario start (epoch seconds); traces carry ms relative to it
ACCOUNT = "0123456789"
ROLE = "arn:aws:iam::0123456789:role/r"


class Clock:
    def __init__(self):
        self.now = T0


CLOCK = Clock()


class _FakeTime:
    def time(self):
        return CLOCK.now

    def __getattr__(self, k):
        return getattr(_time, k)


class _FakeDateTime(_dt.datetime):
    @classmethod
    def now(cls, tz=None):
        return _dt.datetime.fromtimestamp(CLOCK.now, tz)


class _Ids:
    def __init__(self):
        self.n = itertools.count(1)

    def uuid4(self):
        return "m%d" % next(self.n)


IDS = _Ids()


class _FakeUUID:
    @staticmethod
    def uuid4():
        return IDS.uuid4()


def patch_modules(extra=()):
    for m in (se_mod, td_mod) + tuple(extra):
        m.time = _FakeTime()
        m.datetime = _FakeDateTime
    for m in (se_mod, ed_mod, sp_mod) + tuple(extra):
        m.uuid = _FakeUUID


patch_modules()


def set_tz(tz):
    """tz: POSIX TZ string, e.g. 'UTC', 'XXX-05:30' (= UTC+05:30), 'XXX+03:30' (= UTC-03:30)."""
    os.environ["TZ"] = tz
    _time.tzset()


def sm_arn(name):
    return "arn:aws:states:local:%s:stateMachine:%s" % (ACCOUNT, name)


def exec_arn(sm_name, name):
    return "arn:aws:states:local:%s:execution:%s:%s" % (ACCOUNT, sm_name, name)


# ---------------------------------------------------------------------------------------
class Recorder:
    """Collects the trace of one run.  Events are plain dicts; JSON payloads are kept raw
    here and encoded (tagged) when the trace is written."""

    def __init__(self, world):
        self.world = world
        self.events = []
        self.frame_no = 0
        self.in_frame = False
        self.trig = ()
        self.cur_inst = ""
        self._rec_seen = {}     # (inst, exec) -> snapshot
        self._hist_seen = {}
        self._hist_last = {}
        self._evstate = {}    # (inst, exec) -> length
        self.enabled = True
        self.frame_ops = 0

    def ms(self, t):
        return int(round((t - T0) * 1000))

    def current_trigger(self):
        return self.trig

    def emit(self, k, **f):
        if not self.enabled:
            return
        e = {"k": k, "fr": self.frame_no, "t": self.ms(CLOCK.now)}
        e.update(f)
        self.events.append(e)

    def op(self, k, **f):
        self.sync_stores()
        if k in ("ack", "tset", "tclr"):
            self.frame_ops += 1
        self.emit(k, **f)

    # -- frames -----------------------------------------------------------------------------
    def begin_frame(self, cause, inst="", trig=(), **f):
        self.sync_stores()
        self.frame_no += 1
        self.in_frame = True
        self.trig = tuple(trig)
        self.cur_inst = inst
        self.frame_ops = 0
        self.emit("frame", cause=cause, i=inst, trig=list(trig), **f)

    def end_frame(self):
        self.sync_stores()
        w = self.world
        sizes = []
        for name, I in w.inst.items():
            if I is None:
                continue
            sizes.append(dict(I.sizes(), i=name))
        self.emit("end", sizes=sizes)
        self.in_frame = False
        self.trig = ()
        self.cur_inst = ""

    # -- publishes --------------------------------------------------------------------------
    def publish(self, ch, m, routed):
        # a record change first seen while a notification is being published may carry the
        # millisecond dates the engine puts into the detail for the duration of the call
        self.sync_stores(transient=(m["exchange"] != ""))
        self.frame_ops += 1
        p = m["props"]
        w = self.world
        conn = ch.connection.name
        base = dict(conn=conn, ch=ch.gid, x=m["exchange"], key=m["key"], sn=m["sn"],
                    mid=p.message_id or "", corr=p.correlation_id or "", replyto=p.reply_to or "",
                    exp=p.expiration if p.expiration is not None else "", mand=bool(m["mandatory"]),
                    routed=routed)
        if m["exchange"] != "":
            d = {}
            try:
                d = json.loads(m["body"].decode("utf-8"))
            except Exception:
                pass
            det = d.get("detail", {}) if isinstance(d, dict) else {}
            if isinstance(det, dict) and "executionArn" in det:
                self.emit("note", subject=m["key"], exec=det.get("executionArn") or "",
                          sm=det.get("stateMachineArn") or "", status=det.get("status") or "",
                          detail=det, event=d, **base)
            else:
                self.emit("pub", kind="topic", **base)
            return
        key = m["key"]
        if w.is_event_queue(key):
            ev = {}
            try:
                ev = json.loads(m["body"].decode("utf-8"))
            except Exception:
                pass
            def _d(x):
                return x if isinstance(x, dict) else {}
            ctx = _d(_d(ev).get("context"))
            st = _d(ctx.get("State"))
            ex = _d(ctx.get("Execution"))
            br = st.get("Branch") if isinstance(st.get("Branch"), list) else []
            smid = _d(ctx.get("StateMachine")).get("Id", "")
            smid = smid if isinstance(smid, str) else ""
            sname = st.get("Name") if isinstance(st.get("Name"), str) else ""
            exid = ex.get("Id") if isinstance(ex.get("Id"), str) else ""
            retry = st.get("RetryCount", 0)
            # a start event published by the engine launches a child execution: which kind of launch (the Resource
            # of the Task state whose event triggered this frame)
            childkind = ""
            if not sname and self.trig and self.in_frame:
                for tm in self.trig:
                    tsm, tname = self._evstate.get(tm, ("", ""))
                    res = getattr(w, "_types", {}).get(tsm, {}).get("#resource:" + (tname or getattr(w, "_types", {}).get(tsm, {}).get("", "")), "")
                    if "startExecution" in res or "startSyncExecution" in res:
                        childkind = "sync" if (res.endswith((".sync", ".sync:2", ".waitForTaskToken")) or "startSyncExecution" in res) else "async"
            if base.get("mid"):
                self._evstate[base["mid"]] = (smid, sname or "")
            self.emit("pub", kind="event", exec=exid or "", state=sname or "", childkind=childkind,
                      branch=[[str(b.get("ID", "")), b.get("Index", -1), b.get("Length", -1), b.get("Range", "")]
                              for b in br if isinstance(b, dict)],
                      bparent=(br[-1].get("Parent", "") if br and isinstance(br[-1], dict) else "") or "",
                      stype=w.state_type(smid, sname or ""),
                      retry=retry if isinstance(retry, int) and not isinstance(retry, bool) else 0, shared=(key in w.shared_queues),
                      smid=smid, data=ev.get("data") if isinstance(ev, dict) else None, **base)
        elif w.is_reply_queue(key):
            hdr = p.headers or {}
            self.emit("pub", kind="reply", callback=("x-SendTaskSuccess" in hdr or "x-SendTaskFailure" in hdr), **base)
        else:
            self.emit("pub", kind="rpc", fn=key, body=_json_or_text(m["body"]), **base)

    # -- stores -----------------------------------------------------------------------------
    @staticmethod
    def _hist_key(e):
        try:
            return (e.get("id"), e.get("type"), str(e.get("timestamp")))
        except Exception:
            return repr(e)[:80]

    def sync_stores(self, transient=False):
        """Emit `rec` / `hist` events for every change of the execution records and histories
        since the last observation point (called before every broker operation is logged, so
        their order relative to publishes and acks is exact)."""
        if not self.enabled:
            return
        w = self.world
        for name, I in w.inst.items():
            if I is None:
                continue
            skey = I.store_key
            try:
                hist = I.engine.execution_history
                for arn in list(hist.keys()):
                    h = hist[arn]
                    n0 = self._hist_seen.get((skey, arn), 0)
                    n1 = len(h)
                    # the list may have been replaced and grown again between two observations: compare the last
                    # event seen with what now stands in its place
                    replaced = n0 > 0 and n1 >= n0 and self._hist_key(h[n0 - 1]) != self._hist_last.get((skey, arn))
                    if n1 < n0 or replaced:
                        self.emit("histcut", i=name, exec=arn, old=n0, new=n1)
                        n0 = 0
                    for j in range(n0, n1):
                        e = h[j]
                        self.emit("hist", i=name, exec=arn, pos=j + 1, event=dict(e))
                    self._hist_seen[(skey, arn)] = n1
                    if n1:
                        self._hist_last[(skey, arn)] = self._hist_key(h[n1 - 1])
                execs = I.engine.executions
                for arn in list(execs.keys()):
                    r = execs[arn]
                    snap = _snap_record(r)
                    if self._rec_seen.get((skey, arn)) != snap:
                        self._rec_seen[(skey, arn)] = snap
                        self.emit("rec", i=name, exec=arn, record=dict(r), transient=transient)
            except Exception as ex:     # a store in an unexpected shape is itself an observation
                self.emit("storeerr", i=name, err=type(ex).__name__ + ": " + str(ex)[:200])

    def forget_instance(self, skey):
        for d in (self._rec_seen, self._hist_seen):
            for k in [k for k in d if k[0] == skey]:
                del d[k]


def _json_or_text(b):
    try:
        return json.loads(b.decode("utf-8"))
    except Exception:
        return {"__raw__": repr(b)[:200]}


def _snap_record(r):
    try:
        return json.dumps(dict(r), sort_keys=True, default=repr)
    except Exception:
        return repr(r)


# ---------------------------------------------------------------------------------------
class Instance:
    def __init__(self, world, name, transport="asyncio"):
        self.world = world
        self.name = name
        self.transport = transport
        w = world
        qi = "AMQP-0.9.1-asyncio" if transport == "asyncio" else "AMQP-0.9.1"
        self.config = {
            "state_engine": {"store_url": w.store_url, "execution_ttl": w.execution_ttl},
            "event_queue": {"instance_id": name, "queue_implementation": qi,
                            "queue_type": w.queue_type,
                            "connection_url": "amqp://localhost:5672?connection_attempts=1&retry_delay=1&heartbeat=0",
                            "orphaned_response_retention_ms": w.retention_ms},
            "notifier": {"topic": '{"node": {"x-declare": {"exchange": "asl_workflow_engine", "exchange-type": "topic", "durable": true}}}',
                         "message_ttl": w.note_ttl},
            "rest_api": {"host": "0.0.0.0", "port": 4584, "region": "local", "validate_asl": w.validate_asl},
        }
        self.store_key = name if not w.store_url.startswith("redis://") else "redis"
        w.broker.conn_names.append(name)
        w.rec.begin_frame("setup", inst=name)
        try:
            self.engine = se_mod.StateEngine(self.config)
            self.ed = ed_mod.EventDispatcher(self.engine, self.config)
            self.td = self.engine.task_dispatcher
            if transport == "asyncio":
                self.task = w.loop.create_task(self.ed.start_asyncio())
                for _ in range(400):
                    w.loop.run_until_complete(asyncio.sleep(0))
                    if self.task.done() or getattr(self.td, "producer", None) is not None and len(
                            [1 for q, cs in w.broker.consumers.items() for c in cs
                             if c["channel"].connection.name == name]) >= 3:
                        break
                # let the remaining awaits (heartbeat set-up, on_close registration) run
                for _ in range(20):
                    w.loop.run_until_complete(asyncio.sleep(0))
                if self.task.done():
                    raise RuntimeError("engine start-up failed: %r" % (self.task.exception(),))
            else:
                self.task = None
                self.ed.start()
        finally:
            w.rec.end_frame()
        self.api_app = None
        self.api_client = None

    @property
    def conn(self):
        return self.world.broker.connections.get(self.name)

    def timers(self):
        b = self.world.broker
        return b._timers[self.name].t if self.name in b._timers else []

    def sizes(self):
        e, d, t = self.engine, self.ed, self.td
        bm = e.branch_metadata
        return {"unacked": len(d.unacknowledged_messages), "bm": len(bm), "pending": len(t.pending_requests),
                "cancellers": len(t.cancellers), "orphaned": len(t.orphaned_responses),
                "timers": sorted(h.kind for h in self.timers() if h.kind != "heartbeat"),
                "unackedids": sorted(str(k) for k in d.unacknowledged_messages),
                "bmexecs": sorted(bm.keys())}

    # -- REST -----------------------------------------------------------------------------
    def api(self, action, params, raw=None, front="asyncio"):
        w = self.world
        if front == "asyncio":
            if self.api_client is None:
                import asl_workflow_engine.rest_api_asyncio as ra
                patch_modules((ra,))
                self.api_app = ra.RestAPI(self.engine, self.ed, self.config).create_app()
                self.api_client = self.api_app.test_client()
            body = raw if raw is not None else json.dumps(params)
            coro = self.api_client.post("/", data=body, headers={
                "Content-Type": "application/x-amz-json-1.0", "x-amz-target": "AWSStepFunctions." + action})
            resp = w.loop.run_until_complete(coro)
            data = w.loop.run_until_complete(resp.get_data())
            status = resp.status_code
        else:
            if getattr(self, "api_client_b", None) is None:
                import asl_workflow_engine.rest_api as rb
                patch_modules((rb,))
                self.api_app_b = rb.RestAPI(self.engine, self.ed, self.config).create_app()
                self.api_client_b = self.api_app_b.test_client()
            body = raw if raw is not None else json.dumps(params)
            resp = self.api_client_b.post("/", data=body, headers={
                "Content-Type": "application/x-amz-json-1.0", "x-amz-target": "AWSStepFunctions." + action})
            data = resp.get_data()
            status = resp.status_code
        try:
            js = json.loads(data.decode("utf-8")) if data else ""
        except Exception:
            js = {"__text__": data.decode("utf-8", "replace")[:300]}
        return status, js


# ---------------------------------------------------------------------------------------
def default_oracle(fn, payload, n):
    return {"ok": {"fn": fn, "in": payload}}


class World:
    """One simulated deployment: a broker, 1..3 engine instances sharing a store, workers."""

    def __init__(self, n=1, store="file", tz="UTC", queue_type="classic", transport="asyncio",
                 execution_ttl=7200, retention_ms=4000, note_ttl=0, validate_asl=True,
                 oracle=None, tag="w", hist_quota=None):
        global IDS
        # hist_quota: the engine's history quota constant (25000) scaled down for this world, so that a run
        # reaching the quota stays small enough to be recorded and validated line by line
        self._hist_quota_saved = se_mod.MAX_EXECUTION_HISTORY_LENGTH
        if hist_quota is not None:
            se_mod.MAX_EXECUTION_HISTORY_LENGTH = hist_quota
        CLOCK.now = T0
        IDS.n = itertools.count(1)
        set_tz(tz)
        self.tag = tag
        self.queue_type = queue_type
        self.execution_ttl = execution_ttl
        self.retention_ms = retention_ms
        self.note_ttl = note_ttl
        self.validate_asl = validate_asl
        self.transport = transport
        sfx = "-qq" if queue_type == "quorum" else ""
        self.shared_queues = {"asl_workflow_events" + sfx}
        self.event_prefix = "asl_workflow_events" + sfx
        self.reply_prefix = "asl_workflow_reply_to" + sfx
        if store == "file":
            self.store_url = os.path.join(RUN, "ASL_store_%s_%d.json" % (tag, os.getpid()))
            if os.path.exists(self.store_url):
                os.remove(self.store_url)
        else:
            import vsim.fakeredis as fr
            fr.install()
            fr.reset_server()
            _quiet_store_finalisers()
            self.store_url = "redis://localhost:6379"
        self.store_kind = store
        self.loop = asyncio.new_event_loop()
        asyncio.set_event_loop(self.loop)
        self.rec = Recorder(self)
        self.inst = {}
        self.broker = Broker(CLOCK, self.rec, retention_ms)
        pika.BROKER = self.broker
        self.rec.emit("world", instances=n, store=store, tz=tz, qtype=queue_type, transport=transport,
                      ttl=execution_ttl, retention=retention_ms)
        self.oracle = oracle or default_oracle
        self.invocations = collections.Counter()
        self.workers = set()
        self.pending_replies = []     # [due, seq, key(reply queue), corr, body, fn]
        self.reply_seq = 0
        self.rpc_seen = []            # (t, fn, corr, payload, sn)
        self.api_log = []
        self.hb_calls = 0
        for i in range(n):
            name = "i%d" % i
            self.inst[name] = None
            self.inst[name] = Instance(self, name, transport)

    # -- naming -----------------------------------------------------------------------------
    def is_event_queue(self, q):
        return q.startswith(self.event_prefix)

    def is_reply_queue(self, q):
        return q.startswith(self.reply_prefix)

    def state_type(self, sm, name):
        """Type of state `name` of machine `sm` ("" = the start event), from the definitions added"""
        d = getattr(self, "_types", {}).get(sm)
        if d is None:
            return ""
        if name == "":
            return d.get(d.get("", ""), "")       # a start event is handled by the StartAt state
        return d.get(name, "")

    def i0(self):
        return self.inst["i0"]

    # -- set-up helpers ---------------------------------------------------------------------
    def add_worker(self, fn):
        """Declare the function's request queue (a worker process would do that)."""
        if fn in self.workers:
            return
        self.workers.add(fn)
        b = self.broker
        b.queues.setdefault(fn, collections.deque())
        b.qmeta.setdefault(fn, {"durable": False, "exclusive": False, "auto_delete": False, "arguments": {}, "owner": "worker"})
        self.rec.emit("qdeclare", conn="worker", ch=0, q=fn, durable=False, exclusive=False, autodelete=False, qtype="classic")

    def add_sm(self, name, asl, typ="STANDARD", logging=None):
        arn = sm_arn(name)
        recd = {"definition": asl, "name": name, "stateMachineArn": arn, "type": typ, "roleArn": ROLE,
                "creationDate": CLOCK.now, "updateDate": CLOCK.now, "status": "ACTIVE",
                "loggingConfiguration": logging or {"level": "OFF"}}
        done = set()
        for I in self.inst.values():
            if I is None or id(I.engine.asl_store) in done:
                continue
            I.engine.asl_store[arn] = recd
            done.add(id(I.engine.asl_store))
            if self.store_kind != "file":
                break
        if self.store_kind == "file":
            # every instance has its own JSONStore object over the same file: write to each
            for I in self.inst.values():
                if I is not None:
                    I.engine.asl_store.store[arn] = json.loads(json.dumps(recd))
        self.rec.emit("sm", arn=arn, smtype=typ, mc=_map_concurrency(asl), succ=_successors(asl))
        if not hasattr(self, "_types"):
            self._types = {}
        self._types[arn] = _state_types(asl)
        return arn

    def start_raw(self, arn, data, name=None, via_inst="i0", with_name=True):
        """A start event published straight onto the shared queue (the low-level start path)."""
        ctx = {"StateMachine": {"Id": arn}}
        if with_name and name is not None:
            ctx["Execution"] = {"Name": name}
        I = self.inst[via_inst]
        self.rec.begin_frame("api", inst=via_inst, action="raw-start")
        try:
            I.ed.publish({"data": data, "context": ctx}, use_shared_queue=True)
        finally:
            self.rec.end_frame()

    def api(self, action, params, inst="i0", raw=None, front="asyncio"):
        self.rec.begin_frame("api", inst=inst, action=action)
        try:
            status, body = self.inst[inst].api(action, params, raw=raw, front=front)
        finally:
            self.rec.emit("api", action=action, params=params if raw is None else {"__raw__": raw},
                          status=locals().get("status", 0), body=locals().get("body", ""), front=front, i=inst)
            self.rec.end_frame()
        self.api_log.append((action, params, status, body))
        return status, body

    # -- scheduler --------------------------------------------------------------------------
    def _timer_list(self, hb=False):
        out = []
        for name, I in self.inst.items():
            if I is None:
                continue
            for h in I.timers():
                if (h.kind == "heartbeat") == hb:
                    out.append((name, h))
        return out

    def enabled(self, far=3600.0):
        """Steps enabled *now* (no clock advance), in a canonical order.  A step is a tuple:
        ("dlv", queue, consumer index) | ("timer", inst, seq) | ("wtake", fn) | ("wreply", seq)."""
        b = self.broker
        now = CLOCK.now
        steps = []
        for q in list(b.queues):
            if q in self.workers:
                continue
            b_ok = b.queues[q] and b.eligible_consumers(q)
            if b_ok:
                for ci in b.eligible_consumers(q):
                    steps.append(("dlv", q, ci))
        for name, h in sorted(self._timer_list(), key=lambda x: (x[1].due, x[1].seq)):
            if h.due <= now + 1e-9:
                steps.append(("timer", name, h.seq))
        for i, r in enumerate(b.returns):
            steps.append(("ret", r["sn"]))
        for fn in sorted(self.workers):
            if b.queues.get(fn):
                steps.append(("wtake", fn))
        for r in sorted(self.pending_replies):
            if r[0] <= now + 1e-9:
                steps.append(("wreply", r[1]))
        return steps

    def next_time(self):
        """The next instant at which something (not a heartbeat) becomes enabled, or None."""
        ts = [h.due for _, h in self._timer_list()] + [r[0] for r in self.pending_replies]
        ts = [t for t in ts if t > CLOCK.now + 1e-9]
        return min(ts) if ts else None

    def advance(self, t):
        """Move the clock to t, running the periodic heartbeats that fall in between.  Only the
        beats whose count is a multiple of 60 do anything in the engine; the others are
        fast-forwarded by bumping the dispatcher's counter."""
        for name, I in self.inst.items():
            if I is None:
                continue
            while True:
                hbs = [h for h in I.timers() if h.kind == "heartbeat"]
                if not hbs:
                    break
                h = min(hbs, key=lambda x: x.due)
                if h.due > t + 1e-9:
                    break
                cnt = getattr(I.ed, "heartbeat_count", None)
                if isinstance(cnt, int):
                    silent = 59 - (cnt % 60)
                    k = min(silent, int(t - h.due + 1e-9) + 1)
                    if k >= 1:
                        I.ed.heartbeat_count = cnt + k
                        h.due += k * 1.0
                        continue
                I.timers().remove(h)
                CLOCK.now = max(CLOCK.now, h.due)
                self.hb_calls += 1
                self.rec.begin_frame("timer", inst=name, timer=h.seq, kind="heartbeat", trig=[])
                try:
                    h.cb()
                finally:
                    self.rec.end_frame()
        CLOCK.now = max(CLOCK.now, t)

    def do(self, step):
        """Perform one environment step on the real code, recording its frame."""
        b = self.broker
        k = step[0]
        if k == "dlv":
            _, q, ci = step
            b.drop_expired_head(q)
            if not b.queues.get(q):
                return
            c = b.consumers[q][ci]
            iname = c["channel"].connection.name

            def pre(m, ch, tag):
                p = m["props"]
                mid = p.message_id or ""
                corr = p.correlation_id or ""
                if self.is_reply_queue(q):
                    trig = [_strip_corr(corr)]
                    cause = "reply"
                else:
                    trig = [mid]
                    cause = "deliver"
                self.rec.begin_frame(cause, inst=iname, q=q, ch=ch.gid, tag=tag, sn=m["sn"], mid=mid,
                                     corr=corr, red=bool(m["redelivered"]), trig=trig)
            try:
                b.deliver(q, ci, pre)
            finally:
                if self.rec.in_frame:
                    self.rec.end_frame()
        elif k == "timer":
            _, iname, seq = step
            I = self.inst[iname]
            h = next((x for x in I.timers() if x.seq == seq), None)
            if h is None:
                return
            I.timers().remove(h)
            if h.due > CLOCK.now:
                self.advance(h.due)
            self.rec.begin_frame("timer", inst=iname, timer=h.seq, kind=h.kind, trig=list(h.trig),
                                 due=self.rec.ms(h.due))
            try:
                h.cb()
            finally:
                self.rec.end_frame()
        elif k == "wtake":
            fn = step[1]
            b.drop_expired_head(fn)
            if not b.queues.get(fn):
                return
            m = b.queues[fn].popleft()
            p = m["props"]
            payload = _json_or_text(m["body"])
            self.invocations[fn] += 1
            n = self.invocations[fn]
            self.rpc_seen.append((CLOCK.now, fn, p.correlation_id, payload, m["sn"]))
            out = self.oracle(fn, payload, n)
            self.rec.begin_frame("wtake", fn=fn, sn=m["sn"], corr=p.correlation_id or "", n=n,
                                 trig=[_strip_corr(p.correlation_id or "")])
            self.rec.emit("wtake", fn=fn, sn=m["sn"], corr=p.correlation_id or "", n=n, payload=payload,
                          outcome=_outcome_kind(out))
            self.rec.end_frame()
            if out is None or out.get("silent"):
                return
            if "raw" in out:
                body = out["raw"] if isinstance(out["raw"], bytes) else str(out["raw"]).encode()
            elif "error" in out:
                body = json.dumps({"errorType": out["error"], "errorMessage": out.get("cause", "")}).encode()
            else:
                body = json.dumps(out.get("ok")).encode()
            self.reply_seq += 1
            self.pending_replies.append([CLOCK.now + out.get("delay", 0) / 1000.0, self.reply_seq,
                                         p.reply_to, p.correlation_id, body, fn])
        elif k == "wreply":
            r = next((x for x in self.pending_replies if x[1] == step[1]), None)
            if r is None:
                return
            self.pending_replies.remove(r)
            if r[0] > CLOCK.now:
                self.advance(r[0])
            self.rec.begin_frame("wreply", fn=r[5], corr=r[3] or "", trig=[_strip_corr(r[3] or "")])
            try:
                self.worker_publish(r[2], r[3], r[4])
            finally:
                self.rec.end_frame()
        elif k == "ret":
            idx = next((i for i, r in enumerate(b.returns) if r["sn"] == step[1]), None)
            if idx is None:
                return
            r = b.returns[idx]
            corr = r["props"].correlation_id or ""
            self.rec.begin_frame("return", inst=r["ch"].connection.name, sn=r["sn"], corr=corr, trig=[_strip_corr(corr)])
            try:
                b.deliver_return(idx)
            finally:
                self.rec.end_frame()
        elif k == "crash":
            self.crash(step[1])
        elif k == "restart":
            self.restart(step[1])
        else:
            raise ValueError(step)

    def worker_publish(self, reply_to, corr, body, headers=None):
        """A worker answering on the broker (its own connection)."""
        b = self.broker
        if "worker" not in b.connections:
            b.conn_names.insert(0, "worker")
            from pika.adapters.asyncio_connection import AsyncioConnection
            self._wconn = AsyncioConnection()
            self._wch = self._wconn.channel()
        self._wch.basic_publish("", reply_to, body, pika.BasicProperties(correlation_id=corr, headers=headers))

    # -- crash / restart --------------------------------------------------------------------
    def crash(self, iname):
        I = self.inst[iname]
        self.rec.begin_frame("crash", inst=iname)
        try:
            if I.task is not None:
                I.task.cancel()
                try:
                    self.loop.run_until_complete(asyncio.sleep(0))
                except BaseException:
                    pass
            self.broker.connection_lost(iname)
            self.rec.forget_instance(I.store_key) if self.store_kind == "file" else None
            self.inst[iname] = None
        finally:
            self.rec.in_frame = False
            self.rec.emit("end", sizes=[])
        self._dead = getattr(self, "_dead", set()) | {iname}

    def restart(self, iname):
        self._dead.discard(iname)
        td_mod_time = CLOCK.now
        self.inst[iname] = Instance(self, iname, self.transport)
        return self.inst[iname]

    def crash_inside(self, iname, step, nops):
        """Run `step`, killing the instance right after broker operation number nops (0-based) of the frame
        (publish/ack); nops = -1: right before its first broker operation."""
        b = self.broker
        b.fail_after, b.fail_conn = nops, iname
        crashed = False
        try:
            self.do(step)
        except SimCrash:
            crashed = True
        finally:
            b.fail_after = None
        if self.rec.in_frame:
            self.rec.end_frame()
        if crashed:
            self.crash(iname)
        return crashed

    # -- run policies -----------------------------------------------------------------------
    def run(self, chooser=None, max_steps=5000, until=None):
        """Run to D0: nothing enabled now and no near timer or reply left.  `chooser(steps)`
        picks the step (default: first = canonical FIFO order)."""
        n = 0
        while n < max_steps:
            if until is not None and until(self):
                break
            st = self.enabled()
            if not st:
                t = self.next_time()
                if t is None or self._only_far(t):
                    break
                self.advance(t)
                continue
            s = chooser(st) if chooser else st[0]
            self.do(s)
            n += 1
        return n

    def _only_far(self, t):
        """True if everything still armed is retention / leaked / far-away timers (the D0 horizon)."""
        return t - CLOCK.now > self.d0_horizon()

    def d0_horizon(self):
        return 3600.0 * 24 * 400 if getattr(self, "follow_all_timers", False) else 300.0

    def quiesce(self, level="D0"):
        self.rec.sync_stores()
        recs = {}
        for name, I in self.inst.items():
            if I is None:
                continue
            recs[name] = {arn: dict(r) for arn, r in I.engine.executions.items()}
        self.rec.emit("quiesce", level=level,
                      broker_unacked=[[gid, tag, q, m["sn"]] for gid, p in self.broker.unacked.items() for tag, (q, m) in p.items()],
                      queued=[[q, len(d)] for q, d in self.broker.queues.items() if d],
                      sizes=[dict(I.sizes(), i=n) for n, I in self.inst.items() if I is not None])

    def run_to_d1(self, chooser=None, max_steps=5000):
        """After D0: advance virtual time past every pending finite timer (heartbeats included,
        up to the execution TTL horizon), handling whatever that enables."""
        n = 0
        horizon = CLOCK.now + self.execution_ttl + 3700
        while n < max_steps:
            st = self.enabled()
            if st:
                self.do(chooser(st) if chooser else st[0])
                n += 1
                continue
            t = self.next_time()
            if t is None:
                # let the heartbeat back-stop run up to the horizon once
                if CLOCK.now < horizon and any(I is not None and I.engine.branch_metadata for I in self.inst.values()):
                    self.advance(horizon)
                    continue
                break
            if t > horizon:
                # far (leaked) timers: fire them in due order without the heartbeats in between
                CLOCK.now = t
                continue
            self.advance(t)
        return n

    def close(self):
        for I in self.inst.values():
            if I is not None and I.task is not None:
                I.task.cancel()
        try:
            self.loop.run_until_complete(asyncio.sleep(0))
        except BaseException:
            pass
        self.loop.close()
        se_mod.MAX_EXECUTION_HISTORY_LENGTH = self._hist_quota_saved
        if self.store_kind == "file" and os.path.exists(self.store_url):
            os.remove(self.store_url)

    # -- results ----------------------------------------------------------------------------
    def notes(self):
        return [(e["exec"], e["status"]) for e in self.rec.events if e["k"] == "note"]

    def outcome(self, arn, inst="i0"):
        I = self.inst[inst]
        r = I.engine.executions.get(arn)
        return dict(r) if r else None


def _successors(asl):
    """[[state name, [names of the states an event may be published for while an event of `state` is being handled]]]:
    the state itself (retry, re-entry), its Next / Choices / Default / Catch targets, the start states of its branches
    or item processor; for a state inside a fan-out F also F and F's Catch targets (an error climbs) and, if the state
    ends its branch, F's Next -- and so on outwards.  "" stands for the start event."""
    own, parent, terminal, catch, nxt = {}, {}, {}, {}, {}
    if not (isinstance(asl, dict) and isinstance(asl.get("States"), dict)):
        return []

    def walk(states, par):
        for n, st in states.items():
            if not isinstance(st, dict):
                continue
            o = {n}
            for k in ("Next", "Default"):
                if isinstance(st.get(k), str):
                    o.add(st[k])
            for c in st.get("Choices", []) if isinstance(st.get("Choices"), list) else []:
                def nexts(rule):
                    if isinstance(rule, dict):
                        if isinstance(rule.get("Next"), str):
                            o.add(rule["Next"])
                nexts(c)
            cat = {c["Next"] for c in (st.get("Catch") or []) if isinstance(c, dict) and isinstance(c.get("Next"), str)} if isinstance(st.get("Catch"), list) else set()
            o |= cat
            subs = [b for b in (st.get("Branches") or []) if isinstance(b, dict)] if isinstance(st.get("Branches"), list) else []
            for key in ("Iterator", "ItemProcessor"):
                if isinstance(st.get(key), dict):
                    subs.append(st[key])
            for b in subs:
                if isinstance(b.get("StartAt"), str):
                    o.add(b["StartAt"])
                if isinstance(b.get("States"), dict):
                    walk(b["States"], n)
            own[n], parent[n], catch[n] = o, par, cat
            terminal[n] = bool(st.get("End")) or st.get("Type") in ("Succeed", "Fail")
            nxt[n] = st.get("Next") if isinstance(st.get("Next"), str) else None
    walk(asl["States"], None)

    def err_up(n):
        f = parent.get(n)
        return set() if f is None else {f} | catch.get(f, set()) | err_up(f)

    def end_up(n):
        f = parent.get(n)
        if f is None or not terminal.get(n):
            return set()
        return {f} | ({nxt[f]} if nxt.get(f) else set()) | end_up(f)
    out = []
    for n in own:
        out.append([n, sorted(own[n] | err_up(n) | end_up(n))])
    sa = asl.get("StartAt") if isinstance(asl.get("StartAt"), str) else ""
    out.append(["", sorted({sa} | own.get(sa, set()))])
    return out


def _quiet_store_finalisers():
    """A RedisStore dropped without stop() (a crashed instance) complains from __del__ when it is collected
    ("Exception ignored in ..."): noise on stderr, not an observation."""
    if getattr(sys, "_vsim_quiet", False):
        return
    prev = sys.unraisablehook

    def hook(u):
        if "RedisStore.__del__" in repr(getattr(u, "object", None)):
            return
        prev(u)
    sys.unraisablehook = hook
    sys._vsim_quiet = True


def _map_concurrency(asl):
    """[(Map state name, MaxConcurrency)] for the Map states that bound their concurrency."""
    out = []

    def walk(states):
        for n, st in states.items():
            if not isinstance(st, dict):
                continue
            if st.get("Type") == "Map" and isinstance(st.get("MaxConcurrency"), int) and st["MaxConcurrency"] > 0:
                out.append((n, st["MaxConcurrency"]))
            for b in st.get("Branches", []) or []:
                if isinstance(b, dict) and isinstance(b.get("States"), dict):
                    walk(b["States"])
            for key in ("Iterator", "ItemProcessor"):
                if isinstance(st.get(key), dict) and isinstance(st[key].get("States"), dict):
                    walk(st[key]["States"])
    if isinstance(asl, dict) and isinstance(asl.get("States"), dict):
        walk(asl["States"])
    return out


def _state_types(asl):
    out = {}

    def walk(states):
        for n, st in states.items():
            if not isinstance(st, dict):
                continue
            out[n] = st.get("Type", "")
            if isinstance(st.get("Resource"), str):
                out["#resource:" + n] = st["Resource"]
            for b in st.get("Branches", []) or []:
                if isinstance(b, dict) and isinstance(b.get("States"), dict):
                    walk(b["States"])
            for key in ("Iterator", "ItemProcessor"):
                if isinstance(st.get(key), dict) and isinstance(st[key].get("States"), dict):
                    walk(st[key]["States"])
    if isinstance(asl, dict) and isinstance(asl.get("States"), dict):
        walk(asl["States"])
        out[""] = asl.get("StartAt", "") if isinstance(asl.get("StartAt", ""), str) else ""
    return out


def _strip_corr(c):
    for s in (".waitForTaskToken", ".invoke"):
        if c.endswith(s):
            return c[:-len(s)]
    return c


def _outcome_kind(out):
    if out is None or out.get("silent"):
        return "silent"
    if "error" in out:
        return "error:" + str(out["error"])
    if "raw" in out:
        return "raw"
    return "ok"
