"""Executing scenarios on the real code under chosen schedules.

A *schedule* is the list of choice indices taken at each decision point (a point where more
than one environment step is enabled); it is positional, so it stays meaningful when message
ids differ, and together with the scenario it is the replay file of a run."""
import json
import os
import random
import traceback

from vsim import world as W
from vsim.world import World, exec_arn, sm_arn, SimCrash
from vsim.scenarios import make_oracle


class RunResult:
    def __init__(self):
        self.events = []
        self.schedule = []
        self.branching = []      # number of alternatives at each decision point
        self.error = None        # harness-level exception text (an engine exception escaping a frame)
        self.steps = 0
        self.outcomes = {}       # exec arn -> record dict (or None)
        self.notes = []
        self.rpcs = []
        self.crash = None


def setup_world(scn, **over):
    wargs = dict(scn.get("world", {}))
    wargs.update(over)
    w = World(n=wargs.pop("instances", 1), oracle=make_oracle(scn.get("oracle", {})), **wargs)
    for fn in scn.get("workers", []):
        w.add_worker(fn)
    for m in scn["machines"]:
        w.add_sm(m["name"], m["asl"], m.get("type", "STANDARD"))
    return w


def do_starts(w, scn):
    for s in scn["starts"]:
        arn = sm_arn(s["machine"])
        via = s.get("via", "raw")
        if via == "raw":
            w.start_raw(arn, s["input"], name=s.get("name"))
        elif via == "api":
            w.api("StartExecution", {"stateMachineArn": arn, "name": s["name"], "input": json.dumps(s["input"])})
        else:
            raise ValueError(via)


def run_once(scn, schedule=(), policy="first", rng=None, crash=None, d1=True, max_steps=3000, finale=None, **over):
    """Run the scenario once.
    schedule: choice indices to follow at the decision points (then `policy`: first|last|random).
    crash: None | {"frame": k} (kill instance i0 after k engine frames, restart at once)
                | {"frame": k, "op": j} (kill it after the j-th broker operation inside frame k+1)
                | plus "restart_after": number of further environment steps before the restart (default 0)
    Returns RunResult."""
    res = RunResult()
    w = setup_world(scn, **over)
    try:
        do_starts(w, scn)
        sched = list(schedule)
        pos = 0
        nframes = 0
        crashed = False
        nquiet = 0
        down_for = None
        n = 0
        phase_d1 = False
        while n < max_steps:
            if down_for is not None:
                if down_for <= 0:
                    w.restart("i0")
                    down_for = None
                    continue
            st = w.enabled()
            if not st:
                if down_for is not None:
                    w.restart("i0")
                    down_for = None
                    continue
                t = w.next_time()
                # crash in a quiet period: while the engine only waits for a timer or a reply (the k-th time the clock
                # would move), it dies part of the way there and comes back a little later
                if crash and not crashed and "quiet" in crash and t is not None and not phase_d1 and not w._only_far(t):
                    if nquiet == crash["quiet"]:
                        span = t - W.CLOCK.now
                        w.advance(W.CLOCK.now + span * crash.get("frac", 0.5))
                        w.crash("i0")
                        crashed = True
                        res.crash = dict(crash)
                        W.CLOCK.now += span * crash.get("down", 0.2)
                        w.restart("i0")
                        continue
                    nquiet += 1
                if not phase_d1:
                    if t is None or w._only_far(t):
                        w.quiesce("D0")
                        if not d1:
                            break
                        phase_d1 = True
                        horizon = W.CLOCK.now + w.execution_ttl + 3700
                        continue
                    w.advance(t)
                    continue
                else:
                    if t is None:
                        if W.CLOCK.now < horizon and any(I is not None and I.engine.branch_metadata for I in w.inst.values()):
                            w.advance(horizon)
                            continue
                        break
                    if t > horizon:
                        W.CLOCK.now = t
                        continue
                    w.advance(t)
                    continue
            # crash at a frame boundary?
            if crash and not crashed and "op" not in crash and "quiet" not in crash and nframes >= crash["frame"]:
                w.crash("i0")
                crashed = True
                down_for = crash.get("restart_after", 0)
                res.crash = dict(crash)
                continue
            if len(st) > 1:
                if pos < len(sched):
                    c = sched[pos]
                    if c >= len(st):
                        c = 0
                elif policy == "first":
                    c = 0
                elif policy == "last":
                    c = len(st) - 1
                elif policy == "replyfirst":
                    # replies overtake the engine's own events: the workers answer at once (their steps come first), then
                    # the first enabled delivery from a reply queue, else the first step
                    c = next((i for i, x in enumerate(st) if x[0] in ("wtake", "wreply")),
                             next((i for i, x in enumerate(st) if x[0] == "dlv" and w.is_reply_queue(x[1])), 0))
                else:
                    c = rng.randrange(len(st))
                res.schedule.append(c)
                res.branching.append(len(st))
                pos += 1
                step = st[c]
            else:
                step = st[0]
            is_engine_frame = step[0] in ("dlv", "timer", "ret")
            if crash and not crashed and "op" in crash and "quiet" not in crash and is_engine_frame and nframes == crash["frame"]:
                did = w.crash_inside("i0", step, crash["op"])
                crashed = True
                res.crash = dict(crash, hit=did)
                if did:
                    down_for = crash.get("restart_after", 0)
                nframes += 1
                n += 1
                continue
            w.do(step)
            if is_engine_frame:
                nframes += 1
            if down_for is not None:
                down_for -= 1
            n += 1
        if phase_d1 or not d1:
            if d1:
                w.quiesce("D1")
        res.steps = n
        res.nframes = nframes
        if finale is not None:
            finale(w)
    except SimCrash:
        res.error = "SimCrash escaped"
    except BaseException as ex:       # an exception escaping a frame is an observation, not a harness failure
        if isinstance(ex, KeyboardInterrupt):
            raise
        res.error = "%s: %s\n%s" % (type(ex).__name__, ex, traceback.format_exc()[-1500:])
        if w.rec.in_frame:
            w.rec.end_frame()
        w.rec.emit("escaped", err=res.error[:300])
        # the run stops here (in production the exception reached the I/O loop): what is left is judged as it stands
        try:
            w.quiesce("D1")
        except BaseException:
            pass
    finally:
        res.events = w.rec.events
        for s in scn["starts"]:
            arn = exec_arn(s["machine"], s["name"])
            got = None
            for I in w.inst.values():
                if I is not None:
                    r = I.engine.executions.get(arn)
                    if r:
                        got = dict(r)
                        break
            res.outcomes[arn] = got
        res.notes = w.notes()
        res.rpcs = [(round(t - W.T0, 6), fn, corr) for (t, fn, corr, p, sn) in w.rpc_seen]
        res.world = None
        w.close()
    return res


def explore_dfs(scn, budget=2000, d1=True, on_run=None, **over):
    """All interleavings by stateless depth-first re-execution (bounded by `budget` runs).
    Returns (runs, complete)."""
    stack = [[]]
    runs = 0
    while stack and runs < budget:
        prefix = stack.pop()
        r = run_once(scn, schedule=prefix, policy="first", d1=d1, **over)
        runs += 1
        for i in range(len(prefix), len(r.schedule)):
            for alt in range(r.branching[i] - 1, 0, -1):
                stack.append(r.schedule[:i] + [alt])
        if on_run:
            on_run(r)
    return runs, not stack


def explore_random(scn, n, seed, d1=True, on_run=None, **over):
    rng = random.Random(seed)
    for _ in range(n):
        r = run_once(scn, policy="random", rng=random.Random(rng.random()), d1=d1, **over)
        if on_run:
            on_run(r)
    return n
