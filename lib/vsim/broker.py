"""In-process AMQP 0-9-1 broker for the simulated world (the executable twin of spec/Broker.tla).

Per-queue FIFO; consumers with exclusivity, priority and prefetch; deliveries identified by
(channel id, delivery tag); unacknowledged deliveries are requeued at the head, flagged
redelivered, when their connection is lost; mandatory publishes that cannot be routed are
returned; per-message TTL drops expired messages at the head of a queue.  Nothing happens by
itself: `deliver`, timers and connection loss are steps chosen by the scheduler.  Every
operation is reported to the recorder in program order.
"""
import collections
import re

from pika import spec


class SimCrash(BaseException):
    """Raised from the n-th broker operation of a frame to model a crash inside a handler.
    A BaseException: it passes through the engine's `except Exception` handlers."""


class Timer:
    __slots__ = ("due", "seq", "cb", "trig", "kind", "conn", "delay", "armed_t")

    def __init__(self, due, seq, cb, trig, kind, conn, delay, armed_t):
        self.due, self.seq, self.cb, self.trig, self.kind = due, seq, cb, trig, kind
        self.conn, self.delay, self.armed_t = conn, delay, armed_t

    def __repr__(self):
        return "Timer(%s#%d due=%.3f)" % (self.kind, self.seq, self.due)


def timer_kind(cb, delay_s, retention_ms):
    """A label for the trace; informational except for `heartbeat` and `retention`."""
    qn = getattr(cb, "__qualname__", "") or ""
    name = getattr(cb, "__name__", "") or ""
    if name == "heartbeat":
        return "heartbeat"
    if "log_and_acknowledge_orphaned" in qn or (
            retention_ms is not None and abs(delay_s * 1000 - retention_ms) < 1e-6 and "orphan" in qn):
        return "retention"
    if "handle_orphaned_responses" in qn:
        return "orphanscan"
    if name.endswith("_delegate"):
        return "delegate"
    if "asl_state_Wait" in qn:
        return "wait"
    if "asl_service_rpcmessage" in qn:
        return "tasktimeout"
    if "asl_service_states_startExecution" in qn:
        return "sfntimeout"
    if "aws_api_StartSyncExecution" in qn:
        return "apitimeout"
    if retention_ms is not None and abs(delay_s * 1000 - retention_ms) < 1e-6:
        return "retention"
    return "other"


class Timers:
    def __init__(self, broker, conn_name):
        self.broker = broker
        self.conn = conn_name
        self.t = []

    def set(self, cb, delay_s):
        b = self.broker
        b.timer_seq += 1
        delay_s = max(delay_s, 0)
        kind = timer_kind(cb, delay_s, b.retention_ms)
        h = Timer(b.clock.now + delay_s, b.timer_seq, cb, b.rec.current_trigger(), kind,
                  self.conn, delay_s, b.clock.now)
        self.t.append(h)
        b.rec.op("tset", conn=self.conn, timer=h.seq, kind=kind, due=b.rec.ms(h.due),
                 delay=int(round(delay_s * 1000)))
        return h

    def clear(self, h):
        if h in self.t:
            self.t.remove(h)
            self.broker.rec.op("tclr", conn=self.conn, timer=h.seq, kind=h.kind)
        else:
            self.broker.rec.op("tclr", conn=self.conn, timer=getattr(h, "seq", 0), kind="gone")


def topic_match(pattern, key):
    """AMQP topic matching: words separated by '.', '*' one word, '#' zero or more words."""
    if pattern == key or pattern == "#":
        return True
    pw, kw = pattern.split("."), key.split(".")

    def m(i, j):
        if i == len(pw):
            return j == len(kw)
        if pw[i] == "#":
            return any(m(i + 1, k) for k in range(j, len(kw) + 1))
        if j == len(kw):
            return False
        if pw[i] == "*" or pw[i] == kw[j]:
            return m(i + 1, j + 1)
        return False
    return m(0, 0)


class Broker:
    def __init__(self, clock, rec, retention_ms=None):
        self.clock = clock
        self.rec = rec
        self.retention_ms = retention_ms
        self.exchanges = {"": {"type": "direct", "durable": True},
                          "amq.direct": {"type": "direct", "durable": True},
                          "amq.topic": {"type": "topic", "durable": True},
                          "amq.fanout": {"type": "fanout", "durable": True},
                          "amq.match": {"type": "headers", "durable": True}}
        self.queues = {}          # name -> deque of message dicts
        self.qmeta = {}           # name -> declaration
        self.bindings = []        # (exchange, key, queue)
        self.consumers = {}       # queue -> [consumer dict]
        self.channels = {}        # gid -> channel
        self.unacked = {}         # gid -> {tag: (queue, msg)}
        self.next_tag = {}        # gid -> int
        self.connections = {}
        self._timers = {}
        self.timer_seq = 0
        self.sn = 0
        self.chan_seq = 0
        self.conn_seq = 0
        self.anon = 0
        self.conn_names = []      # names queued by the harness for the next connections
        self.topic_log = []       # (exchange, key, body, props) of every non-default publish
        self.returns = []         # unroutable mandatory publishes on their way back to the publisher
        self.fail_after = None    # crash injection: ops left before SimCrash
        self.fail_conn = None

    # ---- connections / channels ---------------------------------------------------------
    def next_connection_name(self):
        if self.conn_names:
            return self.conn_names.pop(0)
        self.conn_seq += 1
        return "c%d" % self.conn_seq

    def timers_for(self, name):
        if name not in self._timers:
            self._timers[name] = Timers(self, name)
        return self._timers[name]

    def open_connection(self, conn):
        self.connections[conn.name] = conn
        self.rec.op("connopen", conn=conn.name, transport=conn.transport)

    def open_channel(self, ch):
        self.chan_seq += 1
        ch.gid = self.chan_seq
        self.channels[ch.gid] = ch
        self.unacked[ch.gid] = collections.OrderedDict()
        self.next_tag[ch.gid] = 0
        self.rec.op("chopen", conn=ch.connection.name, ch=ch.gid)

    def channel_closed(self, ch):
        """Channel closed (by client or broker): its unacked deliveries are requeued,
        its consumers cancelled."""
        self._requeue_channel(ch.gid)
        self._drop_consumers(lambda c: c["channel"] is ch)
        self.rec.op("chclose", conn=ch.connection.name, ch=ch.gid)

    def connection_closed(self, conn):
        self.connection_lost(conn.name, clean=True)

    def connection_lost(self, name, clean=False):
        """The broker's side of a dead client: requeue unacked at the head (redelivered),
        cancel consumers, delete the connection's exclusive queues, drop its timers."""
        conn = self.connections.get(name)
        if conn is None:
            return
        for ch in list(conn.channels):
            ch.is_open = False
            ch.is_closed = True
            self._requeue_channel(ch.gid)
        self._drop_consumers(lambda c: c["channel"].connection is conn)
        for q, meta in list(self.qmeta.items()):
            if meta.get("exclusive") and meta.get("owner") == name:
                self._delete_queue(q)
        conn.is_open = False
        conn.is_closed = True
        self.returns = [r for r in self.returns if r["ch"].connection is not conn]
        self._timers.pop(name, None)
        del self.connections[name]
        self.rec.op("connlost", conn=name, clean=clean)

    def _requeue_channel(self, gid):
        pend = self.unacked.get(gid)
        if not pend:
            return
        # requeue so that the original order is kept at the head of each queue
        for tag in reversed(list(pend)):
            q, m = pend[tag]
            m["redelivered"] = True
            if q in self.queues:
                self.queues[q].appendleft(m)
                self.rec.op("requeue", q=q, sn=m["sn"], ch=gid, tag=tag)
        pend.clear()

    def _drop_consumers(self, pred):
        for q in list(self.consumers):
            left = [c for c in self.consumers[q] if not pred(c)]
            if len(left) != len(self.consumers[q]):
                self.consumers[q] = left
                if not left:
                    del self.consumers[q]
                    if self.qmeta.get(q, {}).get("auto_delete"):
                        self._delete_queue(q)

    def _delete_queue(self, q):
        self.queues.pop(q, None)
        self.qmeta.pop(q, None)
        self.consumers.pop(q, None)
        self.bindings = [b for b in self.bindings if b[2] != q]
        self.rec.op("qdelete", q=q)

    def threadsafe_call(self, conn, cb):
        cb()

    # ---- crash injection ------------------------------------------------------------------
    def _pre_op(self, ch):
        """fail_after = -1: the process dies before its first broker operation of the frame"""
        if self.fail_after is not None and self.fail_after < 0 and ch.connection.name == self.fail_conn:
            self.fail_after = None
            raise SimCrash()

    def _count_op(self, ch):
        if self.fail_after is not None and ch.connection.name == self.fail_conn:
            if self.fail_after <= 0:
                self.fail_after = None
                raise SimCrash()
            self.fail_after -= 1

    # ---- declarations ---------------------------------------------------------------------
    def qos(self, ch, n):
        self.rec.op("qos", conn=ch.connection.name, ch=ch.gid, prefetch=n)

    def exchange_declare(self, ch, exchange, xtype, passive, durable, auto_delete, internal, arguments):
        if passive:
            if exchange in self.exchanges:
                return True, 0, ""
            return False, 404, "NOT_FOUND - no exchange '%s' in vhost '/'" % exchange
        cur = self.exchanges.get(exchange)
        if cur is not None and cur.get("type") != xtype:
            return False, 406, "PRECONDITION_FAILED - inequivalent arg 'type' for exchange '%s'" % exchange
        self.exchanges[exchange] = {"type": xtype, "durable": bool(durable), "auto_delete": bool(auto_delete),
                                    "internal": bool(internal), "arguments": arguments}
        self.rec.op("xdeclare", conn=ch.connection.name, ch=ch.gid, x=exchange, xtype=xtype,
                    durable=bool(durable), autodelete=bool(auto_delete))
        return True, 0, ""

    def queue_declare(self, ch, queue, passive, durable, exclusive, auto_delete, arguments):
        if passive:
            if queue in self.queues:
                return True, queue, ""
            return False, 404, "NOT_FOUND - no queue '%s' in vhost '/'" % queue
        if queue == "":
            self.anon += 1
            queue = "amq.gen-%d" % self.anon
        meta = {"durable": bool(durable), "exclusive": bool(exclusive), "auto_delete": bool(auto_delete),
                "arguments": dict(arguments) if arguments else {}, "owner": ch.connection.name}
        cur = self.qmeta.get(queue)
        if cur is not None:
            if cur.get("exclusive") and cur.get("owner") != ch.connection.name:
                return False, 405, "RESOURCE_LOCKED - cannot obtain exclusive access to locked queue '%s'" % queue
            for k in ("durable", "exclusive", "auto_delete", "arguments"):
                if cur[k] != meta[k]:
                    return False, 406, "PRECONDITION_FAILED - inequivalent arg '%s' for queue '%s'" % (k, queue)
        else:
            self.queues[queue] = collections.deque()
            self.qmeta[queue] = meta
        ch.last_declared = queue       # AMQP: an empty queue name later means "the last queue declared on this channel"
        qtype = (meta["arguments"] or {}).get("x-queue-type", "classic")
        self.rec.op("qdeclare", conn=ch.connection.name, ch=ch.gid, q=queue, durable=meta["durable"],
                    exclusive=meta["exclusive"], autodelete=meta["auto_delete"], qtype=qtype)
        return True, queue, ""

    def queue_bind(self, ch, queue, exchange, key, arguments):
        if queue == "" and getattr(ch, "last_declared", ""):
            queue = ch.last_declared
        if queue not in self.queues:
            return False, 404, "NOT_FOUND - no queue '%s' in vhost '/'" % queue
        if exchange not in self.exchanges:
            return False, 404, "NOT_FOUND - no exchange '%s' in vhost '/'" % exchange
        b = (exchange, key or "", queue)
        if b not in self.bindings:
            self.bindings.append(b)
        self.rec.op("bind", conn=ch.connection.name, ch=ch.gid, q=queue, x=exchange, key=key or "")
        return True, 0, ""

    def basic_consume(self, ch, queue, cb, auto_ack, exclusive, ctag, arguments):
        if queue not in self.queues:
            return False, 404, "NOT_FOUND - no queue '%s' in vhost '/'" % queue
        cur = self.consumers.get(queue, [])
        if any(c["exclusive"] for c in cur) or (exclusive and cur):
            return False, 403, "ACCESS_REFUSED - queue '%s' in vhost '/' in exclusive use" % queue
        prio = 0
        if arguments and isinstance(arguments.get("x-priority"), (int, float)):
            prio = int(arguments["x-priority"])
        ctag = ctag or "ctag%d.%d" % (ch.gid, len(cur) + 1)
        self.consumers.setdefault(queue, []).append(
            {"channel": ch, "cb": cb, "exclusive": bool(exclusive), "prio": prio, "ctag": ctag,
             "auto_ack": bool(auto_ack)})
        self.rec.op("consume", conn=ch.connection.name, ch=ch.gid, q=queue, exclusive=bool(exclusive), prio=prio)
        return True, ctag, ""

    # ---- publish / deliver / ack -----------------------------------------------------------
    def _route(self, exchange, key):
        if exchange == "":
            return [key] if key in self.queues else []
        x = self.exchanges.get(exchange)
        if x is None:
            return None
        out = []
        for (bx, bk, bq) in self.bindings:
            if bx != exchange or bq in out:
                continue
            if x["type"] == "fanout" or (x["type"] == "direct" and bk == key) or \
               (x["type"] == "topic" and topic_match(bk, key)):
                out.append(bq)
        return out

    def basic_publish(self, ch, exchange, key, body, props, mandatory):
        self._pre_op(ch)
        if isinstance(body, str):
            body = body.encode("utf-8")
        self.sn += 1
        sn = self.sn
        dest = self._route(exchange, key)
        m = {"sn": sn, "body": body, "props": props, "redelivered": False, "exchange": exchange,
             "key": key, "t": self.clock.now, "mandatory": bool(mandatory)}
        routed = list(dest or [])
        self.rec.publish(ch, m, routed)
        if dest is None:
            ch._close_by_broker(404, "NOT_FOUND - no exchange '%s' in vhost '/'" % exchange)
            return
        if exchange != "":
            self.topic_log.append((exchange, key, body, props))
        for q in dest:
            self.queues[q].append(dict(m))
        if not dest and mandatory:
            # basic.return travels back asynchronously: the client sees it in a later
            # iteration of its I/O loop, never inside basic_publish -- a scheduler step
            self.returns.append({"ch": ch, "sn": sn, "exchange": exchange, "key": key, "props": props, "body": body})
        self._count_op(ch)

    def deliver_return(self, k=0):
        r = self.returns.pop(k)
        ch = r["ch"]
        self.rec.op("ret", conn=ch.connection.name, ch=ch.gid, sn=r["sn"], key=r["key"],
                    corr=r["props"].correlation_id or "")
        if ch.is_open:
            for cb in list(ch.return_cbs):
                cb(ch, spec.Basic.Return(312, "NO_ROUTE", r["exchange"], r["key"]), r["props"], r["body"])

    def expired(self, m):
        exp = m["props"].expiration
        if exp is None:
            return False
        try:
            ttl = int(exp)
        except (TypeError, ValueError):
            return False
        return (self.clock.now - m["t"]) * 1000 > ttl or (ttl == 0 and self.clock.now > m["t"])

    def eligible_consumers(self, q):
        cs = self.consumers.get(q, [])
        ok = []
        for i, c in enumerate(cs):
            ch = c["channel"]
            if not ch.is_open:
                continue
            if ch.prefetch and len(self.unacked[ch.gid]) >= ch.prefetch:
                continue
            ok.append((i, c))
        if not ok:
            return []
        top = max(c["prio"] for _, c in ok)
        return [i for i, c in ok if c["prio"] == top]

    def deliverable(self):
        out = []
        for q, d in self.queues.items():
            if d:
                for i in self.eligible_consumers(q):
                    out.append((q, i))
        return out

    def drop_expired_head(self, q):
        d = self.queues.get(q)
        n = 0
        while d and self.expired(d[0]):
            m = d.popleft()
            self.rec.op("expire", q=q, sn=m["sn"])
            n += 1
        return n

    def deliver(self, q, ci=0, pre=None):
        """Deliver the head of q to consumer ci.  `pre(msg, ch, tag)` lets the scheduler open the
        frame record before the consumer callback runs."""
        self.drop_expired_head(q)
        d = self.queues.get(q)
        if not d:
            return False
        c = self.consumers[q][ci]
        ch = c["channel"]
        m = d.popleft()
        self.next_tag[ch.gid] += 1
        tag = self.next_tag[ch.gid]
        if not c["auto_ack"]:
            self.unacked[ch.gid][tag] = (q, m)
        if pre:
            pre(m, ch, tag)
        c["cb"](ch, spec.Basic.Deliver(c["ctag"], tag, m["redelivered"], m["exchange"], m["key"]),
                m["props"], m["body"])
        return True

    def basic_ack(self, ch, tag, multiple):
        self._pre_op(ch)
        pend = self.unacked[ch.gid]
        if multiple:
            tags = [t for t in pend if tag == 0 or t <= tag]
            known = bool(tags) or tag == 0
        else:
            tags = [tag] if tag in pend else []
            known = bool(tags)
        self.rec.op("ack", conn=ch.connection.name, ch=ch.gid, tag=tag, multiple=bool(multiple), known=known)
        for t in tags:
            pend.pop(t, None)
        # (RabbitMQ would close the channel with 406 PRECONDITION_FAILED on an unknown tag; the
        # simulated broker only records `known=False` -- AckOnce turns it into a violation --
        # and keeps the channel open so that the rest of the run can still be observed.)
        self._count_op(ch)

    def basic_nack(self, ch, tag, multiple, requeue):
        pend = self.unacked[ch.gid]
        tags = [t for t in pend if (multiple and (tag == 0 or t <= tag)) or t == tag]
        self.rec.op("nack", conn=ch.connection.name, ch=ch.gid, tag=tag, multiple=bool(multiple), requeue=bool(requeue))
        for t in reversed(tags):
            q, m = pend.pop(t)
            if requeue and q in self.queues:
                m["redelivered"] = True
                self.queues[q].appendleft(m)

    def basic_recover(self, ch, requeue):
        self.rec.op("recover", conn=ch.connection.name, ch=ch.gid, requeue=bool(requeue))
        if requeue:
            self._requeue_channel(ch.gid)

    # ---- harness helpers --------------------------------------------------------------------
    def total_unacked(self):
        return sum(len(v) for v in self.unacked.values())
