#!/usr/bin/env python3
"""Regenerates the generated tables of DESIGN.md (between the BEGIN/END markers) from
known_findings.json, known_findings.d/*.json and seeded/*/meta.json."""
import glob
import json
import os
import re

ROOT = os.path.dirname(os.path.dirname(os.path.abspath(__file__)))


def short(t, n):
    t = re.sub(r"^fixed: property=\S+ \S+ ", "", t)
    t = t.replace("|", "/").replace("\n", " ")
    return t if len(t) <= n else t[:n - 1] + "…"


def findings():
    rows = []
    files = [os.path.join(ROOT, "known_findings.json")] + sorted(glob.glob(os.path.join(ROOT, "known_findings.d", "*.json")))
    for f in files:
        for x in json.load(open(f))["findings"]:
            rows.append((x["id"], ",".join(x.get("properties", [])) or os.path.basename(f)[:-5], x["status"] + (" " + x["commit"] if x.get("commit") else ""),
                         short(x["text"], 260)))

    def key(r):
        m = re.match(r"([A-Z]+)(\d+)(?:-(\d+))?(\w*)", r[0])
        return (m.group(1), int(m.group(2)), int(m.group(3) or 0), m.group(4))
    rows.sort(key=key)
    out = ["| id | properties | disposition | what |", "|---|---|---|---|"]
    for r in rows:
        out.append("| %s | %s | %s | %s |" % r)
    nfix = sum(1 for r in rows if r[2].startswith("fixed"))
    out.append("")
    out.append("%d genuine defects found so far: %d repaired by `fix:` commits in /repo, %d recorded as known findings." % (len(rows), nfix, len(rows) - nfix))
    return "\n".join(out)


def seeded():
    out = ["| seeded change | property | needs, to manifest | checks that report it (first violation) |", "|---|---|---|---|"]
    for d in sorted(glob.glob(os.path.join(ROOT, "seeded", "*", "meta.json"))):
        m = json.load(open(d))
        res = []
        for k, c in sorted(m.get("checks", {}).items()):
            if c.get("exit") == 1:
                first = re.sub(r"^VIOLATION property=\S+ replay=\S+\s+# ", "", c.get("first", ""))
                res.append("**%s** caught: %s" % (k, short(first, 110)))
            else:
                res.append("%s missed (exit %s)" % (k, c.get("exit")))
        out.append("| %s | %s | %s | %s |" % (m["name"], m["property"], short(m.get("needs_to_manifest", ""), 200), "; ".join(res) or "not run"))
    return "\n".join(out)


def props():
    m = json.load(open(os.path.join(ROOT, "MANIFEST.json")))
    out = ["| property | level | deciding method | what the last quick run covered |", "|---|---|---|---|"]
    for c in m["checks"]:
        pid = c["property_id"]
        cov = ""
        ef = os.path.join(ROOT, "evidence", pid + ".json")
        if os.path.exists(ef):
            e = json.load(open(ef))
            cv = e.get("coverage", {})
            bits = []
            for k, lab in (("evaluations", "evaluations on the real code"), ("traces_validated_against_impl", "traces/observations validated by TLC"),
                           ("states", "TLC states"), ("distinct_nontrivial", "distinct non-trivial")):
                if k in cv:
                    bits.append("%s %s" % (cv[k], lab))
            mdl = cv.get("model") or cv.get("crash_model")
            if isinstance(mdl, dict) and mdl.get("paths_replayed_into_real_engine") is not None:
                bits.append("model paths replayed into the real engine: %s (drift %s)" % (mdl.get("paths_replayed_into_real_engine"), mdl.get("paths_with_drift")))
            cov = "; ".join(bits) + " (%s tier, %.0f s)" % (e.get("tier"), e.get("wall_s", 0))
        out.append("| %s | %s | %s | %s |" % (pid, c.get("level_claimed", {}).get("category", ""), short(c.get("technique", ""), 240), cov))
    return "\n".join(out)


def main():
    p = os.path.join(ROOT, "DESIGN.md")
    s = open(p).read()
    for name, fn in (("FINDINGS", findings), ("SEEDED", seeded), ("PROPS", props)):
        b, e = "<!-- %s-BEGIN -->" % name, "<!-- %s-END -->" % name
        if b in s and e in s:
            s = s[:s.index(b) + len(b)] + "\n" + fn() + "\n" + s[s.index(e):]
    open(p, "w").write(s)


if __name__ == "__main__":
    main()
