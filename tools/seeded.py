"""Seeded changes: import one from a scratch worktree (verifying it), and run checks against it.

  tools/seeded.py import <ID-name> <worktree> <property> "<what it needs to manifest>"
  tools/seeded.py run <ID-name> <check> [<check> ...] [--tier quick|thorough]

`run` applies the patch to a scratch COPY of /repo (outside /repo and /verif), points the checks
at it with LSF_REPO, and removes the copy afterwards; /repo itself is never touched."""
import json
import os
import shutil
import subprocess
import sys
import time

VERIF = os.path.dirname(os.path.dirname(os.path.abspath(__file__)))
SEEDED = os.path.join(VERIF, "seeded")
TEST = ["/venv/bin/python", "-m", "pytest", "-q", "-p", "no:cacheprovider", "--timeout=900", "--continue-on-collection-errors"]


def sh(cmd, cwd=None, env=None, timeout=3600):
    p = subprocess.run(cmd, cwd=cwd, env=env, stdout=subprocess.PIPE, stderr=subprocess.STDOUT, text=True, timeout=timeout)
    return p.returncode, p.stdout


def do_import(name, wt, prop, needs):
    d = os.path.join(SEEDED, name)
    os.makedirs(d, exist_ok=True)
    rc, diff = sh(["git", "diff", "--", "asl-workflow-engine"], cwd=wt)
    assert diff.strip(), "no change in worktree"
    open(os.path.join(d, "patch.diff"), "w").write(diff)
    demos = [f for f in os.listdir(wt) if f.startswith("demo_") and f.endswith(".py")]
    assert demos, "no demo"
    demo = demos[0]
    shutil.copy(os.path.join(wt, demo), os.path.join(d, demo))
    py = os.path.join(wt, "asl-workflow-engine", "py")
    env = dict(os.environ, LOG_LEVEL="CRITICAL")
    rc_changed, out_changed = sh(["/venv/bin/python", os.path.join(wt, demo)], cwd=py, env=env)
    rc_t, out_t = sh(TEST, cwd=wt)
    tests_line = out_t.strip().splitlines()[-1]
    sh(["git", "stash"], cwd=wt)
    try:
        rc_orig, out_orig = sh(["/venv/bin/python", os.path.join(wt, demo)], cwd=py, env=env)
    finally:
        sh(["git", "stash", "pop"], cwd=wt)
    ok = rc_changed != 0 and rc_orig == 0 and "66 passed" in tests_line
    meta = {"name": name, "property": prop, "needs_to_manifest": needs, "demo": demo,
            "demo_on_original": {"exit": rc_orig, "tail": out_orig.strip().splitlines()[-1:]},
            "demo_on_changed": {"exit": rc_changed, "tail": out_changed.strip().splitlines()[-3:]},
            "baseline_tests_with_change": tests_line, "confirmed": ok,
            "confirmed_how": "demo run in the scratch worktree with the change (exit != 0) and with the change stashed (exit 0); repository test suite run with the change",
            "checks": {}}
    json.dump(meta, open(os.path.join(d, "meta.json"), "w"), indent=1)
    print(json.dumps(meta, indent=1))
    return ok


def do_run(name, checks, tier="quick"):
    d = os.path.join(SEEDED, name)
    meta = json.load(open(os.path.join(d, "meta.json")))
    scratch = "/tmp/seeded-%s-%d" % (name, os.getpid())
    shutil.copytree("/repo", scratch, ignore=shutil.ignore_patterns(".git", "__pycache__"))
    try:
        rc, out = sh(["git", "apply", "--unsafe-paths", "--directory=" + scratch, os.path.join(d, "patch.diff")], cwd="/")
        if rc != 0:
            rc, out = sh(["patch", "-p1", "-i", os.path.join(d, "patch.diff")], cwd=scratch)
        assert rc == 0, out
        # (a private run/evidence directory: a run against a changed copy must not overwrite the evidence of /repo itself)
        rundir = os.path.join(scratch, "verif-run")
        os.makedirs(rundir, exist_ok=True)
        env = dict(os.environ, LSF_REPO=scratch, VERIF_RUN_DIR=rundir)
        for c in checks:
            t0 = time.time()
            rc, out = sh([os.path.join(VERIF, "check"), c, "--tier", tier], cwd=VERIF, env=env)
            viol = [l for l in out.splitlines() if l.startswith("VIOLATION")]
            res = {"tier": tier, "exit": rc, "violations": len(viol), "first": viol[0][:400] if viol else "", "wall_s": round(time.time() - t0, 1)}
            meta["checks"][c + ":" + tier] = res
            print(name, c, tier, "->", "CAUGHT" if rc == 1 else ("MISSED" if rc == 0 else "MACHINERY(%d)" % rc), res["first"][:200])
            if rc == 2:
                print(out[-1500:])
    finally:
        shutil.rmtree(scratch, ignore_errors=True)
    json.dump(meta, open(os.path.join(d, "meta.json"), "w"), indent=1)


if __name__ == "__main__":
    if sys.argv[1] == "import":
        sys.exit(0 if do_import(*sys.argv[2:6]) else 1)
    tier = "quick"
    args = sys.argv[3:]
    if "--tier" in args:
        i = args.index("--tier")
        tier = args[i + 1]
        args = args[:i] + args[i + 2:]
    do_run(sys.argv[2], args, tier)
