"""Smoke test of the simulated world and of the trace binding (setup_cmd); with --binding it
also shows that corrupted traces are rejected."""
import json
import os
import sys

HERE = os.path.dirname(os.path.abspath(__file__))
VERIF = os.path.dirname(HERE)
sys.path.insert(0, os.path.join(VERIF, "lib"))
from vsim import tlc, scenarios as S                      # noqa: E402
from vsim.explore import run_once                          # noqa: E402
from vsim.tracefile import BatchWriter, encode             # noqa: E402
from vsim import tagged                                    # noqa: E402


def smoke():
    s = S.protocol_scenarios()[11]      # Parallel of two Tasks
    r = run_once(s)
    assert [n[1] for n in r.notes] == ["RUNNING", "SUCCEEDED"], r.notes
    p = os.path.join(VERIF, "run", "selftest.ndjson")
    b = BatchWriter(p)
    b.add_run(r.events, s["id"])
    b.close()
    fails, st = tlc.check_traces([p])
    assert not fails, fails
    assert st["states"] > 50
    for v in (None, True, 0, -3, 1.5, "a", "", [1, [2]], {"a": {"b": None}}, {"k": []}):
        assert tagged.dec(tagged.enc(v)) == v, v
    return r


def binding():
    """Corrupt single fields of a recorded trace: every corruption must be rejected."""
    r = smoke()
    base = [encode(e, 1, i + 1) for i, e in enumerate(r.events)]
    muts = []
    # 1. an acknowledgement moved before the publishes of its frame
    m = [dict(e) for e in base]
    for i, e in enumerate(m):
        if e["k"] == "ack" and m[i - 1]["k"] == "pub":
            m[i - 1], m[i] = m[i], m[i - 1]
            break
    muts.append(("ack-before-pub", m, {"TriggerAckLast:pub", "TriggerAckLast:terminal-note", "TriggerAckLast:terminal-record"}))
    # 2. a dropped terminal notification
    m = [dict(e) for e in base if not (e["k"] == "note" and e["status"] == "SUCCEEDED")]
    muts.append(("dropped-note", m, {"NotifiedOncePerChange", "EventuallyTerminal"}))
    # 3. a repeated acknowledgement
    m = [dict(e) for e in base]
    i = max(i for i, e in enumerate(m) if e["k"] == "ack")
    m.insert(i + 1, dict(m[i]))
    muts.append(("double-ack", m, {"AckOnce:unknown-or-repeated-delivery-tag", "AckKnownAgrees"}))
    # 4. a delivery that is not the head of its queue
    m = [dict(e) for e in base]
    for e in m:
        if e["k"] == "frame" and e["cause"] == "deliver" and e["sn"] > 1:
            e["sn"] += 1
            break
    muts.append(("not-head", m, {"CanDeliver"}))
    # 5. a history event out of sequence
    m = [dict(e) for e in base]
    for e in m:
        if e["k"] == "hist" and e["pos"] == 3:
            e["ev"] = dict(e["ev"], id=7)
            break
    muts.append(("hist-gap", m, {"HistoryWellFormed"}))
    ok = True
    for name, lines, expect in muts:
        p = os.path.join(VERIF, "run", "selftest-%s.ndjson" % name)
        with open(p, "w") as f:
            for i, e in enumerate(lines):
                e["n"] = i + 1
                f.write(json.dumps(e) + "\n")
        fails, _ = tlc.check_traces([p])
        got = {f["clause"] for f in fails}
        hit = bool(got & expect)
        print("binding %-16s %s  (%s)" % (name, "rejected" if hit else "ACCEPTED", sorted(got)[:4]))
        ok = ok and hit
        os.remove(p)
    return ok


if __name__ == "__main__":
    if "--binding" in sys.argv:
        sys.exit(0 if binding() else 1)
    smoke()
    print("simulated world + trace validation: ok")
