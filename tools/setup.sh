#!/bin/sh
# Offline set-up: nothing to build; parse every TLA+ module with SANY and smoke-test the simulated world.
cd "$(dirname "$0")/.." || exit 2
mkdir -p run evidence
fail=0
for m in spec/*.tla; do
  out=$(cd spec && java -cp /opt/veriftools/tla/tla2tools.jar:/opt/veriftools/tla/CommunityModules-deps.jar tla2sany.SANY "$(basename "$m")" 2>&1)
  if echo "$out" | grep -q -E "Semantic errors|Fatal errors|\*\*\* Errors|Could not find module"; then
    echo "SANY FAILED for $m"; echo "$out" | tail -20; fail=1
  fi
done
PYTHONHASHSEED=0 LOG_LEVEL=CRITICAL /venv/bin/python tools/selftest.py --smoke || fail=1
[ $fail = 0 ] && echo "setup ok"
exit $fail
